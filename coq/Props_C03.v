(* Props_C03.v — property theorems of C03 (tags: listing and paging are exact).
   Only statements closed by [exact]; proofs live in TagProofs.v / IndexProofs.v. *)
From Olareg Require Import Base Index Reg IndexProofs TagProofs IndexInv RegInv.
From Coq Require Import Sorted.
Local Open Scope list_scope.

(* The listing after [last] is exactly the set of tags held by top-level entries
   (the resolvable tags, get_desc looks a tag up in the same list), greater than
   [last] in byte order, strictly sorted hence each once. *)
Theorem C03_list_exact : forall i last,
  TagsUnique i ->
  StronglySorted slt (tag_all i last) /\
  (forall t, In t (tag_all i last) <-> In t (tags_of i) /\ slt last t).
Proof. exact tag_list_exact. Qed.
Print Assumptions C03_list_exact.

(* For every positive page size, following the Link chain from the start terminates
   (within |tags|+1 requests), the concatenation of the pages is the full listing -
   every tag exactly once, in order - and no page exceeds the size. *)
Theorem C03_paging : forall i k,
  TagsUnique i -> (0 < k)%Z ->
  exists pages, walk i k (S (List.length (tag_all i ""))) "" = Some pages
                /\ List.concat pages = tag_all i ""
                /\ Forall (fun p => (Z.of_nat (List.length p) <= k)%Z) pages.
Proof. exact tag_paging_exact. Qed.
Print Assumptions C03_paging.

(* n = 0, negative or unparsable: a valid listing without Link, never an error. *)
Theorem C03_n_total : forall i k lastq,
  (match k with Some z => (z <= 0)%Z | None => True end) ->
  tag_page_n i k lastq = (if match k with Some 0%Z => negb (Nat.eqb (List.length (tag_all i lastq)) 0) | _ => false end
                          then [] else tag_all i lastq, None).
Proof. exact tag_page_nonpositive. Qed.
Print Assumptions C03_n_total.

(* a tag is looked up among the same top-level entries the listing reads *)
Theorem C03_untag_keeps_digest : forall d i i',
  rm_tag_of d <> "" -> d_dig d <> "" ->
  rm_desc d i = Ok i' ->
  Exists (fun e => d_dig e = d_dig d) (top i) -> Exists (fun e => d_dig e = d_dig d) (top i').
Proof. exact rm_desc_untag_keeps. Qed.
Print Assumptions C03_untag_keeps_digest.

Theorem C03_delete_digest_total : forall d i i',
  rm_tag_of d = "" -> d_dig d <> "" ->
  rm_desc d i = Ok i' ->
  Forall (fun e => d_dig e <> d_dig d) (top i') /\ Forall (fun e => d_dig e <> d_dig d) (child i').
Proof. exact rm_desc_digest_total. Qed.
Print Assumptions C03_delete_digest_total.

(* the hypotheses are satisfiable by a non-trivial index *)
Example C03_nonvacuous :
  let i := mkI [mkD "m" "sha256:a" 1 (Some [(RefName, "t2")]) "";
                mkD "m" "sha256:b" 1 (Some [(RefName, "t1")]) "";
                mkD "m" "sha256:c" 1 None ""] [] in
  TagsUnique i /\ tag_all i "" = ["t1"; "t2"] /\ walk i 1 3 "" = Some [["t1"]; ["t2"]].
Proof.
  unfold TagsUnique. split; [|split; reflexivity].
  vm_compute. repeat constructor; simpl; intuition congruence.
Qed.

(* The hypothesis of the listing theorems is an invariant: in every state reachable by any history of client requests
   every repository's index holds each tag on at most one entry ... *)
Theorem C03_tags_unique_reachable : forall cfg E h r,
  TagsUnique (r_index (get_repo cfg r (fst (run_hist cfg E init_state h)))).
Proof. exact tags_unique_reachable. Qed.
Print Assumptions C03_tags_unique_reachable.

(* ... so listing and paging are exact in every reachable state, unconditionally *)
Theorem C03_list_exact_reachable : forall cfg E h r last,
  let i := r_index (get_repo cfg r (fst (run_hist cfg E init_state h))) in
  StronglySorted slt (tag_all i last) /\ (forall t, In t (tag_all i last) <-> In t (tags_of i) /\ slt last t).
Proof. intros cfg E h r last. exact (tag_list_exact _ last (tags_unique_reachable cfg E h r)). Qed.

Theorem C03_paging_reachable : forall cfg E h r k, (0 < k)%Z ->
  let i := r_index (get_repo cfg r (fst (run_hist cfg E init_state h))) in
  exists pages, walk i k (S (List.length (tag_all i ""))) "" = Some pages
                /\ List.concat pages = tag_all i ""
                /\ Forall (fun p => (Z.of_nat (List.length p) <= k)%Z) pages.
Proof. intros cfg E h r k Hk. exact (tag_paging_exact _ k (tags_unique_reachable cfg E h r) Hk). Qed.
Print Assumptions C03_paging_reachable.

(* last writer wins: after an insertion under tag t some entry holds t and has the pushed digest (and, tags being
   unique, it is the only one); entries holding other tags are untouched *)
Theorem C03_pushed_tag_resolves : forall d cs i i',
  ann_get RefName d <> "" -> add_desc d cs i = Ok i' ->
  exists e, In e (top i') /\ holds (ann_get RefName d) e = true /\ d_dig e = d_dig d.
Proof. exact add_desc_places. Qed.
Theorem C03_other_tags_kept : forall d cs i i' x t',
  add_desc d cs i = Ok i' ->
  In x (top i) -> holds t' x = true -> t' <> "" -> t' <> ann_get RefName d -> ann_get RefSubject x = "" ->
  In x (top i').
Proof. exact add_desc_keeps_other_tags. Qed.
Print Assumptions C03_other_tags_kept.
