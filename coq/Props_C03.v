(* Props_C03.v — property theorems of C03 (tags: listing and paging are exact).
   Only statements closed by [exact]; proofs live in TagProofs.v / IndexProofs.v. *)
From Olareg Require Import Base Index Reg IndexProofs TagProofs.
From Coq Require Import Sorted.
Local Open Scope list_scope.

(* The listing after [last] is exactly the set of tags held by top-level entries
   (the resolvable tags, get_desc looks a tag up in the same list), greater than
   [last] in byte order, strictly sorted hence each once. *)
Theorem C03_list_exact : forall i last,
  TagsUnique i ->
  StronglySorted slt (tag_all i last) /\
  (forall t, In t (tag_all i last) <-> In t (tags_of i) /\ slt last t).
Proof. exact tag_list_exact. Qed.
Print Assumptions C03_list_exact.

(* For every positive page size, following the Link chain from the start terminates
   (within |tags|+1 requests), the concatenation of the pages is the full listing -
   every tag exactly once, in order - and no page exceeds the size. *)
Theorem C03_paging : forall i k,
  TagsUnique i -> (0 < k)%Z ->
  exists pages, walk i k (S (List.length (tag_all i ""))) "" = Some pages
                /\ List.concat pages = tag_all i ""
                /\ Forall (fun p => (Z.of_nat (List.length p) <= k)%Z) pages.
Proof. exact tag_paging_exact. Qed.
Print Assumptions C03_paging.

(* n = 0, negative or unparsable: a valid listing without Link, never an error. *)
Theorem C03_n_total : forall i k lastq,
  (match k with Some z => (z <= 0)%Z | None => True end) ->
  tag_page_n i k lastq = (if match k with Some 0%Z => negb (Nat.eqb (List.length (tag_all i lastq)) 0) | _ => false end
                          then [] else tag_all i lastq, None).
Proof. exact tag_page_nonpositive. Qed.
Print Assumptions C03_n_total.

(* a tag is looked up among the same top-level entries the listing reads *)
Theorem C03_untag_keeps_digest : forall d i i',
  rm_tag_of d <> "" -> d_dig d <> "" ->
  rm_desc d i = Ok i' ->
  Exists (fun e => d_dig e = d_dig d) (top i) -> Exists (fun e => d_dig e = d_dig d) (top i').
Proof. exact rm_desc_untag_keeps. Qed.
Print Assumptions C03_untag_keeps_digest.

Theorem C03_delete_digest_total : forall d i i',
  rm_tag_of d = "" -> d_dig d <> "" ->
  rm_desc d i = Ok i' ->
  Forall (fun e => d_dig e <> d_dig d) (top i') /\ Forall (fun e => d_dig e <> d_dig d) (child i').
Proof. exact rm_desc_digest_total. Qed.
Print Assumptions C03_delete_digest_total.

(* the hypotheses are satisfiable by a non-trivial index *)
Example C03_nonvacuous :
  let i := mkI [mkD "m" "sha256:a" 1 (Some [(RefName, "t2")]) "";
                mkD "m" "sha256:b" 1 (Some [(RefName, "t1")]) "";
                mkD "m" "sha256:c" 1 None ""] [] in
  TagsUnique i /\ tag_all i "" = ["t1"; "t2"] /\ walk i 1 3 "" = Some [["t1"]; ["t2"]].
Proof.
  unfold TagsUnique. split; [|split; reflexivity].
  vm_compute. repeat constructor; simpl; intuition congruence.
Qed.
