(* Props_C05.v — garbage collection never removes retained or recent content (model: GC.v, a mirror of
   repoGarbageCollect).  Statements only; proofs in GCProofs.v. *)
From Olareg Require Import Base Index Reg RegProofs GC GCProofs GCTerm.
Local Open Scope list_scope.

(* Under every policy: the blob of a top-level entry that is tagged, or untagged while untagged collection
   is off, or younger than the grace period - and that is not a referrers response - is not deleted. *)
Theorem C05_root_kept : forall E pol now blobs i ri deleted e,
  repo_gc E pol now blobs i = Some (ri, deleted) ->
  In e (top i) -> ann_get RefSubject e = "" -> has_blob blobs (d_dig e) = true ->
  (nonempty (ann_get RefName e) = true \/ gp_untagged pol = false \/ young pol now blobs (d_dig e) = true) ->
  ~ In (d_dig e) deleted.
Proof. exact gc_keeps_root. Qed.
Print Assumptions C05_root_kept.

(* whatever the mark phase reaches is never swept *)
Theorem C05_marked_kept : forall pol now blobs seen inidx l ri d,
  In d seen -> ~ In d (snd (fold_left (sweep_blob pol now blobs seen inidx) l (ri, []))).
Proof. exact sweep_keeps_seen. Qed.
Print Assumptions C05_marked_kept.

(* every descriptor that enters the work list (roots, children of a parsed index, the referrers response of a
   walked subject) and whose blob exists is marked *)
Theorem C05_worklist_marked : forall E blobs fuel work subjects seen walked inidx seen' inidx',
  (forall x, In x walked -> In x seen) ->
  mark E blobs fuel work subjects seen walked inidx = Some (seen', inidx') ->
  forall d, In d work -> has_blob blobs (d_dig d) = true -> In (d_dig d) seen'.
Proof. exact mark_marks_work. Qed.
Print Assumptions C05_worklist_marked.

(* a blob younger than the grace period that is not an index entry (the layers uploaded before the
   manifest of an image) is never swept *)
Theorem C05_recent_kept : forall pol now blobs seen inidx l ri d,
  young pol now blobs d = true -> ~ In d inidx ->
  ~ In d (snd (fold_left (sweep_blob pol now blobs seen inidx) l (ri, []))).
Proof. exact sweep_keeps_young. Qed.
Print Assumptions C05_recent_kept.

(* a collection only removes blobs: whatever stays is unchanged, so content integrity (C01) is preserved
   across collections, restarts and ageing *)
Theorem C05_only_removes : forall E pol now rp d be,
  assoc d (r_blobs (gc_repo E pol now rp)) = Some be -> assoc d (r_blobs rp) = Some be.
Proof. exact gc_repo_blobs_sub. Qed.
Theorem C05_integrity_preserved : forall cfg pol E s g, BlobsOK E s -> BlobsOK E (fst (gstep cfg pol E s g)).
Proof. exact gstep_blobs_ok. Qed.
Print Assumptions C05_integrity_preserved.

(* every collection completes (the mark loop terminates on every index, also a hand-written or damaged one), and the blob of a
   root entry - tagged, untagged with untagged collection off, or younger than the grace period - is not among what it deletes *)
Theorem C05_roots_kept_every_collection : forall E pol now blobs i e,
  In e (top i) -> ann_get RefSubject e = "" -> has_blob blobs (d_dig e) = true ->
  (nonempty (ann_get RefName e) = true \/ gp_untagged pol = false \/ young pol now blobs (d_dig e) = true) ->
  exists ri deleted, repo_gc E pol now blobs i = Some (ri, deleted) /\ ~ In (d_dig e) deleted.
Proof. exact gc_keeps_root_total. Qed.
Print Assumptions C05_roots_kept_every_collection.
