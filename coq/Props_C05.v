From Olareg Require Import Base Index Reg GC.
