(* IndexInv.v — tags are held by at most one top-level entry: an invariant of AddDesc / RmDesc (Index.v), for every
   sequence of operations.  Also: what an insertion does to the other tags, and that the pushed tag resolves. *)
From Olareg Require Import Base Index IndexProofs.
From Coq Require Import Permutation.
Local Open Scope list_scope.

Definition tag_of (e : desc) : string := ann_get RefName e.
Definition holds (t : string) (e : desc) : bool := String.eqb (tag_of e) t.
Definition count (t : string) (l : list desc) : nat := List.length (filter (holds t) l).
Definition unique (l : list desc) : Prop := forall t, t <> "" -> (count t l <= 1)%nat.

(* ---- counting -------------------------------------------------------------------------------------------- *)
Lemma count_app t a b : count t (a ++ b) = (count t a + count t b)%nat.
Proof. unfold count. rewrite filter_app, app_length. reflexivity. Qed.

Lemma count_cons t x l : count t (x :: l) = ((if holds t x then 1 else 0) + count t l)%nat.
Proof. unfold count. simpl. destruct (holds t x); reflexivity. Qed.

Lemma count_perm t a b : Permutation a b -> count t a = count t b.
Proof.
  induction 1; auto.
  - rewrite !count_cons. lia.
  - rewrite !count_cons. lia.
  - congruence.
Qed.

Lemma count_zero_iff t l : count t l = 0%nat <-> forall e, In e l -> holds t e = false.
Proof.
  induction l as [|x r IH].
  - split; auto. intros _ e [].
  - rewrite count_cons. split.
    + intros H e [<-|He].
      * destruct (holds t x); [discriminate|reflexivity].
      * apply IH; auto. destruct (holds t x); [discriminate|exact H].
    + intros H. rewrite (H x (or_introl eq_refl)). simpl. apply IH. intros e He. apply H. right. exact He.
Qed.

Lemma count_two t a b l : In a l -> In b l -> a <> b -> holds t a = true -> holds t b = true -> (2 <= count t l)%nat.
Proof.
  induction l as [|x r IH]; intros Ha Hb Hn Pa Pb; [destruct Ha|].
  rewrite count_cons. destruct Ha as [->|Ha], Hb as [->|Hb].
  - contradiction.
  - rewrite Pa. assert (1 <= count t r)%nat.
    { destruct (count t r) eqn:E; [|lia]. apply count_zero_iff with (e:=b) in E; auto. congruence. }
    lia.
  - rewrite Pb. assert (1 <= count t r)%nat.
    { destruct (count t r) eqn:E; [|lia]. apply count_zero_iff with (e:=a) in E; auto. congruence. }
    lia.
  - specialize (IH Ha Hb Hn Pa Pb). destruct (holds t x); lia.
Qed.

(* annotation helpers *)
Lemma aget_adel k m : aget k (adel k m) = "".
Proof. induction m as [|[a b] r IH]; simpl; auto. destruct (String.eqb_spec k a); simpl; auto. destruct (String.eqb_spec k a); congruence. Qed.

Lemma tag_of_stripped e : tag_of (with_ann e (option_map (adel RefName) (d_ann e))) = "".
Proof. unfold tag_of, ann_get, with_ann. simpl. destruct (d_ann e); simpl; auto. apply aget_adel. Qed.

Lemma holds_nonempty_ann t e : t <> "" -> holds t e = true -> ann_nil e = false.
Proof.
  unfold holds, tag_of, ann_get, ann_nil. intros Ht H. destruct (d_ann e); auto.
  apply String.eqb_eq in H. congruence.
Qed.

(* ---- slice primitives --------------------------------------------------------------------------------------- *)
Lemma swap_remove_count t : forall m l, (count t (swap_remove m l) <= count t l)%nat.
Proof.
  intros m l. destruct (Nat.lt_ge_cases m (List.length l)) as [Hlt|Hge].
  - destruct (nth_error l m) as [e|] eqn:En; [|apply nth_error_None in En; lia].
    apply List.nth_error_split in En. destruct En as [pre [vis [-> Hl]]]. subst m.
    destruct (swap_remove_split pre e vis) as [vis' [H1 H2]]. rewrite H1.
    rewrite !count_app, count_cons, (count_perm t _ _ H2). lia.
  - assert (H : swap_remove m l = l).
    { revert m Hge. induction l as [|x r IH]; intros [|m] Hge; simpl in *; auto; try lia. f_equal. apply IH. lia. }
    rewrite H. lia.
Qed.

Lemma swap_remove_in {A} : forall m (l : list A) x, In x (swap_remove m l) -> In x l.
Proof.
  intros m l x. destruct (Nat.lt_ge_cases m (List.length l)) as [Hlt|Hge].
  - destruct (nth_error l m) as [e|] eqn:En; [|apply nth_error_None in En; lia].
    apply List.nth_error_split in En. destruct En as [pre [vis [-> Hl]]]. subst m.
    destruct (swap_remove_split pre e vis) as [vis' [H1 H2]]. rewrite H1.
    rewrite !in_app_iff. intros [H|H]; [left; auto|right; right; eapply Permutation_in; eauto].
  - assert (H : swap_remove m l = l).
    { revert m Hge. induction l as [|y r IH]; intros [|m] Hge; simpl in *; auto; try lia. f_equal. apply IH. lia. }
    rewrite H. auto.
Qed.

(* ---- RmDesc -------------------------------------------------------------------------------------------------- *)
(* one visit of the top-level loop keeps the entry, strips its tag, or drops it *)
Lemma rm_top_step_cases dig tag ref found e s1 r :
  rm_top_step dig tag ref found e = (s1, r) ->
  r = None \/ r = Some e \/ (r = Some (with_ann e (option_map (adel RefName) (d_ann e))) /\ tag_of e = tag /\ nonempty tag = true).
Proof.
  unfold rm_top_step.
  destruct (nonempty dig && String.eqb (d_dig e) dig).
  - destruct (nonempty tag) eqn:Et.
    + destruct (found && ((ann_len e =? 0)%nat || String.eqb (ann_get RefName e) tag)); [intros H; inversion H; auto|].
      destruct (negb (ann_nil e) && String.eqb (ann_get RefName e) tag) eqn:E2; intros H; inversion H; subst; auto.
      right. right. apply andb_true_iff in E2. destruct E2 as [_ E2]. apply String.eqb_eq in E2. auto.
    + intros H; inversion H; auto.
  - destruct (String.eqb dig "" && negb (ann_nil e) && _); intros H; inversion H; auto.
Qed.

Section RmTop.
  Variables (dig tag ref : string) (l0 : list desc).

  (* counts never grow, and what still holds a tag is one of the original entries *)
  Lemma rm_top_count t found l' s' :
    t <> "" -> bloop (rm_top_step dig tag ref) (List.length l0) found l0 = Ok (s', l') ->
    (count t l' <= count t l0)%nat /\ (forall e, In e l' -> holds t e = true -> In e l0).
  Proof.
    intros Ht Hb.
    pose (Inv := fun (_ : bool) (pre vis : list desc) =>
                   (count t (pre ++ vis) <= count t l0)%nat
                   /\ (forall e, In e (pre ++ vis) -> holds t e = true -> In e l0)).
    destruct (bloop_inv (rm_top_step dig tag ref) Inv) with (s:=found) (l:=l0) as [s2 [l2 [H1 [H2 H3]]]].
    - intros s0 pre v v' Hp [Ha Hb']. split.
      + rewrite count_app in *. rewrite <- (count_perm t _ _ Hp). exact Ha.
      + intros e He. apply Hb'. apply in_app_or in He. apply in_or_app. destruct He as [He|He]; auto.
        right. eapply Permutation_in; [apply Permutation_sym; exact Hp|exact He].
    - intros s0 pre e vis [Ha Hb']. destruct (rm_top_step dig tag ref s0 e) as [s1 r] eqn:Es.
      rewrite <- app_assoc in Ha, Hb'. simpl in Ha, Hb'. rewrite count_app, count_cons in Ha.
      destruct (rm_top_step_cases _ _ _ _ _ _ _ Es) as [->|[->|[-> [Hte Hne]]]].
      + split.
        * rewrite count_app. lia.
        * intros x Hx. apply Hb'. apply in_app_or in Hx. apply in_or_app. destruct Hx; auto. right. right. auto.
      + split.
        * rewrite count_app, count_cons. lia.
        * intros x Hx. apply Hb'. exact Hx.
      + split.
        * rewrite count_app, count_cons. unfold holds at 1. rewrite tag_of_stripped.
          destruct (String.eqb_spec "" t); [congruence|]. lia.
        * intros x Hx Hh. apply in_app_or in Hx. destruct Hx as [Hx|[<-|Hx]].
          -- apply Hb'; auto. apply in_or_app. auto.
          -- unfold holds in Hh. rewrite tag_of_stripped in Hh. apply String.eqb_eq in Hh. congruence.
          -- apply Hb'; auto. apply in_or_app. right. right. auto.
    - split; [rewrite app_nil_r; lia|]. intros e He _. rewrite app_nil_r in He. exact He.
    - rewrite Hb in H1. inversion H1; subst. simpl in H2, H3. auto.
  Qed.

  (* with a tag and a digest given: afterwards no entry with that digest holds the tag *)
  Lemma rm_top_untags found l' s' :
    nonempty dig = true -> nonempty tag = true ->
    bloop (rm_top_step dig tag ref) (List.length l0) found l0 = Ok (s', l') ->
    Forall (fun e => ~ (d_dig e = dig /\ holds tag e = true)) l'.
  Proof.
    intros Hd Ht Hb. eapply bloop_forall; [|exact Hb].
    intros s e s1 e'. unfold rm_top_step. rewrite Hd, Ht. cbn [andb].
    destruct (String.eqb (d_dig e) dig) eqn:E.
    - destruct (s && ((ann_len e =? 0)%nat || String.eqb (ann_get RefName e) tag)); [intros H; inversion H|].
      destruct (negb (ann_nil e) && String.eqb (ann_get RefName e) tag) eqn:E2; intros H; inversion H; subst; clear H.
      + intros [_ Hh]. unfold holds in Hh. rewrite tag_of_stripped in Hh. apply String.eqb_eq in Hh.
        unfold nonempty, sneq in Ht. subst tag. simpl in Ht. discriminate.
      + intros [_ Hh]. unfold holds, tag_of in Hh. rewrite Hh in E2. rewrite andb_true_r in E2.
        apply negb_false_iff in E2. unfold ann_nil in E2. unfold ann_get in Hh. destruct (d_ann e'); [discriminate|].
        apply String.eqb_eq in Hh. unfold nonempty, sneq in Ht. subst tag. simpl in Ht. discriminate.
    - assert (Hf : String.eqb dig "" = false) by (unfold nonempty, sneq in Hd; destruct (String.eqb dig ""); auto; discriminate).
      rewrite Hf. cbn [andb]. intros H; inversion H; subst. intros [Hg _]. apply eqb_false_neq in E. contradiction.
  Qed.

  (* entries with another digest are not touched when a digest is given *)
  Lemma rm_top_keeps_other found l' s' e :
    nonempty dig = true -> In e l0 -> d_dig e <> dig ->
    bloop (rm_top_step dig tag ref) (List.length l0) found l0 = Ok (s', l') -> In e l'.
  Proof.
    intros Hd Hin Hne Hb.
    pose (Inv := fun (_ : bool) (pre vis : list desc) => In e (pre ++ vis)).
    destruct (bloop_inv (rm_top_step dig tag ref) Inv) with (s:=found) (l:=l0) as [s2 [l2 [H1 H2]]].
    - intros s0 pre v v' Hp H. unfold Inv in *. apply in_app_or in H. apply in_or_app. destruct H; auto.
      right. eapply Permutation_in; eauto.
    - intros s0 pre x vis H. unfold Inv in *. rewrite <- app_assoc in H. simpl in H.
      destruct (rm_top_step dig tag ref s0 x) as [s1 r] eqn:Es.
      assert (Hx : x = e -> r = Some x).
      { intros ->. unfold rm_top_step in Es. rewrite Hd in Es. cbn [andb] in Es.
        destruct (String.eqb_spec (d_dig e) dig); [contradiction|].
        assert (Hf : String.eqb dig "" = false) by (unfold nonempty, sneq in Hd; destruct (String.eqb dig ""); auto; discriminate).
        rewrite Hf in Es. cbn [andb] in Es. inversion Es. reflexivity. }
      apply in_app_or in H. destruct H as [H|[H|H]].
      + destruct r; apply in_or_app; auto.
      + specialize (Hx H). subst r. apply in_or_app. right. left. exact H.
      + destruct r; apply in_or_app; right; [right|]; auto.
    - unfold Inv. rewrite app_nil_r. exact Hin.
    - rewrite Hb in H1. inversion H1; subst. exact H2.
  Qed.
End RmTop.

Lemma rm_desc_top d i i' :
  rm_desc d i = Ok i' ->
  exists s', bloop (rm_top_step (d_dig d) (rm_tag_of d) (rm_ref_of d)) (List.length (top i)) false (top i) = Ok (s', top i').
Proof.
  unfold rm_desc. intros H.
  destruct (if String.eqb (rm_tag_of d) "" && nonempty (d_dig d) then _ else _) as [ch| |]; simpl in H; try discriminate.
  destruct (bloop (rm_top_step (d_dig d) (rm_tag_of d) (rm_ref_of d)) (List.length (top i)) false (top i)) as [[s' l']| |]; simpl in H; try discriminate.
  inversion H; subst. simpl. eauto.
Qed.

Lemma rm_desc_count d i i' t : t <> "" -> rm_desc d i = Ok i' -> (count t (top i') <= count t (top i))%nat.
Proof. intros Ht H. destruct (rm_desc_top d i i' H) as [s' Hb]. eapply rm_top_count; eauto. Qed.

Lemma rm_desc_holders d i i' t e : t <> "" -> rm_desc d i = Ok i' -> In e (top i') -> holds t e = true -> In e (top i).
Proof. intros Ht H. destruct (rm_desc_top d i i' H) as [s' Hb]. eapply rm_top_count; eauto. Qed.

Theorem rm_desc_unique d i i' : unique (top i) -> rm_desc d i = Ok i' -> unique (top i').
Proof. intros Hu H t Ht. pose proof (rm_desc_count d i i' t Ht H). specialize (Hu t Ht). lia. Qed.

(* with no digest given every annotated entry holding the tag is dropped *)
Lemma rm_top_untags_nodig tag ref l0 found l' s' :
  nonempty tag = true ->
  bloop (rm_top_step "" tag ref) (List.length l0) found l0 = Ok (s', l') ->
  Forall (fun e => holds tag e = false) l'.
Proof.
  intros Ht Hb. eapply bloop_forall; [|exact Hb].
  intros s e s1 e'. unfold rm_top_step. cbn [nonempty sneq String.eqb negb andb]. rewrite Ht. cbn [andb orb].
  destruct (negb (ann_nil e)) eqn:En; cbn [andb].
  - destruct (String.eqb (ann_get RefName e) tag) eqn:E; cbn [orb]; [intros H; inversion H|].
    destruct (nonempty ref && String.eqb (ann_get RefSubject e) ref); intros H; inversion H; subst. exact E.
  - intros H; inversion H; subst. unfold holds, tag_of, ann_get. apply negb_false_iff in En. unfold ann_nil in En.
    destruct (d_ann e'); [discriminate|]. unfold nonempty, sneq in Ht. destruct (String.eqb_spec "" tag); auto. subst. discriminate.
Qed.

(* an entry holding another tag survives the removal of a tag *)
Lemma rm_top_keeps_othertag dig tag ref l0 found l' s' x t' :
  nonempty tag = true -> t' <> "" -> t' <> tag -> In x l0 -> holds t' x = true ->
  bloop (rm_top_step dig tag ref) (List.length l0) found l0 = Ok (s', l') ->
  ann_get RefSubject x = "" -> In x l'.
Proof.
  intros Ht Hne1 Hne2 Hin Hh Hb Hsub.
  pose (Inv := fun (_ : bool) (pre vis : list desc) => In x (pre ++ vis)).
  destruct (bloop_inv (rm_top_step dig tag ref) Inv) with (s:=found) (l:=l0) as [s2 [l2 [H1 H2]]].
  - intros s0 pre v v' Hp H. unfold Inv in *. apply in_app_or in H. apply in_or_app. destruct H; auto.
    right. eapply Permutation_in; eauto.
  - intros s0 pre y vis H. unfold Inv in *. rewrite <- app_assoc in H. simpl in H.
    destruct (rm_top_step dig tag ref s0 y) as [s1 r] eqn:Es.
    assert (Hy : y = x -> r = Some y).
    { intros ->. unfold rm_top_step in Es. rewrite Ht in Es.
      assert (Hrt : String.eqb (ann_get RefName x) tag = false).
      { unfold holds, tag_of in Hh. apply String.eqb_eq in Hh. rewrite Hh. destruct (String.eqb_spec t' tag); congruence. }
      assert (Hal : (ann_len x =? 0)%nat = false).
      { unfold ann_len. pose proof (holds_nonempty_ann t' x Hne1 Hh) as Hn. unfold ann_nil in Hn.
        destruct (d_ann x) as [a|] eqn:Ea; [|discriminate]. destruct a; [|reflexivity].
        unfold holds, tag_of, ann_get in Hh. rewrite Ea in Hh. simpl in Hh. destruct t'; [congruence|discriminate]. }
      rewrite Hrt, Hal in Es. rewrite Hsub in Es. cbn [orb andb] in Es.
      rewrite ?andb_false_r in Es.
      destruct (nonempty dig && String.eqb (d_dig x) dig); [inversion Es; reflexivity|].
      destruct ref; cbn in Es; rewrite ?andb_false_r in Es; inversion Es; reflexivity. }
    apply in_app_or in H. destruct H as [H|[H|H]].
    + destruct r; apply in_or_app; auto.
    + specialize (Hy H). subst r. apply in_or_app. right. left. exact H.
    + destruct r; apply in_or_app; right; [right|]; auto.
  - unfold Inv. rewrite app_nil_r. exact Hin.
  - rewrite Hb in H1. inversion H1; subst. exact H2.
Qed.

(* ---- positions under swap-removal ----------------------------------------------------------------------------- *)
Lemma last_default {A} (l : list A) d1 d2 : l <> [] -> last l d1 = last l d2.
Proof.
  induction l as [|y r IH]; intros H; [contradiction|]. destruct r as [|z r']; [reflexivity|].
  change (last (z :: r') d1 = last (z :: r') d2). apply IH. discriminate.
Qed.

Lemma nth_error_last {A} (x0 : A) suf : nth_error (x0 :: suf) (List.length suf) = Some (last suf x0).
Proof.
  revert x0. induction suf as [|y r IH]; intros x0; [reflexivity|].
  change (nth_error (y :: r) (List.length r) = Some (last (y :: r) x0)). rewrite (IH y).
  destruct r as [|z r']; [reflexivity|]. f_equal.
  change (last (z :: r') y = last (z :: r') x0). apply last_default. discriminate.
Qed.

Lemma nth_error_removelast {A} (l : list A) j x : nth_error (removelast l) j = Some x -> nth_error l j = Some x.
Proof.
  revert j. induction l as [|y r IH]; intros j H.
  - destruct j; discriminate.
  - destruct r as [|z r'].
    + destruct j; discriminate.
    + change (removelast (y :: z :: r')) with (y :: removelast (z :: r')) in H.
      destruct j as [|j]; [exact H|]. simpl in H. simpl. apply (IH j). exact H.
Qed.

(* whatever sits at or after the removed position afterwards sat strictly after it before *)
Lemma swap_remove_after {A} : forall m (l : list A) j x,
  (m <= j)%nat -> nth_error (swap_remove m l) j = Some x -> exists j', (m < j')%nat /\ nth_error l j' = Some x.
Proof.
  induction m as [|m IH]; intros l j x Hj H.
  - destruct l as [|x0 suf]; [destruct j; discriminate|].
    destruct suf as [|y r]; [destruct j; discriminate|].
    change (swap_remove 0 (x0 :: y :: r)) with (last (y :: r) x0 :: removelast (y :: r)) in H.
    destruct j as [|j].
    + cbn [nth_error] in H. injection H as H. subst x. exists (List.length (y :: r)). split; [simpl; lia|]. exact (nth_error_last x0 (y :: r)).
    + cbn [nth_error] in H. apply nth_error_removelast in H. exists (S j). split; [lia|exact H].
  - destruct l as [|x0 r]; [destruct j; discriminate|].
    change (swap_remove (S m) (x0 :: r)) with (x0 :: swap_remove m r) in H.
    destruct j as [|j]; [lia|]. cbn [nth_error] in H.
    destruct (IH r j x (le_S_n _ _ Hj) H) as [j' [H1 H2]]. exists (S j'). split; [lia|exact H2].
Qed.

Lemma swap_remove_keeps {A} : forall m (l : list A) x e,
  In x l -> nth_error l m = Some e -> x <> e -> In x (swap_remove m l).
Proof.
  intros m l x e Hin Hn Hne. apply List.nth_error_split in Hn. destruct Hn as [pre [vis [-> Hl]]]. subst m.
  destruct (swap_remove_split pre e vis) as [vis' [H1 H2]]. rewrite H1.
  apply in_app_or in Hin. apply in_or_app. destruct Hin as [H|[H|H]]; auto; [congruence|].
  right. eapply Permutation_in; [apply Permutation_sym; exact H2|exact H].
Qed.

(* ---- AddDesc, first loop ----------------------------------------------------------------------------------------- *)
Lemma rm_tag_of_mk mt dg sz tag : rm_tag_of (mkD mt dg sz (Some [(RefName, tag)]) "") = tag.
Proof. unfold rm_tag_of, ann_get. simpl. reflexivity. Qed.

(* counts never grow; what holds a tag afterwards is an original entry *)
Lemma add_loop1_mono t dig tag ref : t <> "" -> forall fuel mi i i1,
  add_loop1 fuel mi dig tag ref i = Ok i1 ->
  (count t (top i1) <= count t (top i))%nat /\ (forall e, In e (top i1) -> holds t e = true -> In e (top i)).
Proof.
  intros Ht. induction fuel as [|fuel IH]; intros mi i i1 H; simpl in H; [discriminate|].
  destruct (nth_error (top i) mi) as [e|]; [|discriminate].
  match type of H with context [rbind ?st _] => destruct st as [[i' mi']| |] eqn:Est end; simpl in H; try discriminate.
  assert (Hstep : (count t (top i') <= count t (top i))%nat /\ (forall x, In x (top i') -> holds t x = true -> In x (top i))).
  { destruct (sneq (d_dig e) dig && negb (ann_nil e)); [|inversion Est; subst; auto].
    destruct (nonempty tag && String.eqb (ann_get RefName e) tag).
    - destruct (rm_desc _ i) as [i2| |] eqn:Er; simpl in Est; try discriminate. inversion Est; subst.
      split; [eapply rm_desc_count; eauto|intros x; eapply rm_desc_holders; eauto].
    - destruct (nonempty ref && String.eqb (ann_get RefSubject e) ref); inversion Est; subst; auto.
      simpl. split; [apply swap_remove_count|intros x Hx _; eapply swap_remove_in; eauto]. }
  destruct Hstep as [Hc Hh]. destruct mi' as [|p].
  - inversion H; subst. auto.
  - destruct (IH p i' i1 H) as [Hc2 Hh2]. split; [lia|]. intros x Hx Hhx. apply Hh; auto.
Qed.

(* the main fact about the first loop: started at the last index of an index in which the tag is held at most once,
   it leaves the tag on an entry of the pushed digest only *)
Lemma add_loop1_post dig tag ref : tag <> "" -> forall fuel mi i i1,
  (count tag (top i) <= 1)%nat ->
  add_loop1 fuel mi dig tag ref i = Ok i1 ->
  (forall j e, (mi < j)%nat -> nth_error (top i) j = Some e -> holds tag e = true -> d_dig e = dig) ->
  forall e, In e (top i1) -> holds tag e = true -> d_dig e = dig.
Proof.
  intros Ht. assert (Hnt : nonempty tag = true) by (unfold nonempty, sneq; destruct (String.eqb_spec tag ""); auto).
  induction fuel as [|fuel IH]; intros mi i i1 Hu H Habove; simpl in H; [discriminate|].
  destruct (nth_error (top i) mi) as [e|] eqn:En; [|discriminate].
  match type of H with context [rbind ?st _] => destruct st as [[i' mi']| |] eqn:Est end; simpl in H; try discriminate.
  destruct (sneq (d_dig e) dig && negb (ann_nil e)) eqn:C1.
  - rewrite Hnt in Est. cbn [andb] in Est.
    destruct (String.eqb (ann_get RefName e) tag) eqn:C2.
    + (* the entry holds the tag under another digest: it is untagged, and it was the only holder *)
      destruct (rm_desc _ i) as [i2| |] eqn:Er; simpl in Est; try discriminate. inversion Est; subst i' mi'. clear Est.
      assert (Hnone : forall x, In x (top i2) -> holds tag x = false).
      { intros x Hx. destruct (holds tag x) eqn:Hh; auto. exfalso.
        pose proof (rm_desc_holders _ _ _ tag x Ht Er Hx Hh) as Hxi.
        assert (He : In e (top i)) by (eapply nth_error_In; eauto).
        assert (Hhe : holds tag e = true) by exact C2.
        destruct (rm_desc_top _ _ _ Er) as [s' Hb]. cbn [d_dig] in Hb. rewrite rm_tag_of_mk in Hb.
        assert (Hxe : x <> e).
        { intros ->. destruct (nonempty (d_dig e)) eqn:Hde.
          - pose proof (rm_top_untags _ _ _ _ _ _ _ Hde Hnt Hb) as Hf. rewrite Forall_forall in Hf. apply (Hf e Hx). auto.
          - unfold nonempty, sneq in Hde. destruct (String.eqb_spec (d_dig e) ""); [|discriminate].
            rewrite e0 in Hb. pose proof (rm_top_untags_nodig _ _ _ _ _ _ Hnt Hb) as Hf. rewrite Forall_forall in Hf.
            specialize (Hf e Hx). congruence. }
        pose proof (count_two tag x e (top i) Hxi He Hxe Hh Hhe). lia. }
      assert (Hnone1 : forall x, In x (top i1) -> holds tag x = false).
      { destruct (if (List.length (top i2) <? mi)%nat then List.length (top i2) else mi) as [|p] eqn:Em.
        - inversion H; subst. exact Hnone.
        - intros x Hx. destruct (holds tag x) eqn:Hh; auto.
          destruct (add_loop1_mono tag dig tag ref Ht _ _ _ _ H) as [_ Hsub]. rewrite (Hnone x (Hsub x Hx Hh)) in Hh. discriminate. }
      intros x Hx Hh. rewrite (Hnone1 x Hx) in Hh. discriminate.
    + (* not a holder *)
      assert (Hne : holds tag e = false) by exact C2.
      destruct (nonempty ref && String.eqb (ann_get RefSubject e) ref) eqn:C3; inversion Est; subst i' mi'; clear Est.
      * (* previous response of the same subject: removed in place *)
        assert (Hu' : (count tag (swap_remove mi (top i)) <= 1)%nat) by (pose proof (swap_remove_count tag mi (top i)); lia).
        destruct mi as [|p].
        -- inversion H; subst. simpl. intros x Hx Hh.
           destruct (In_nth_error _ _ Hx) as [j Hj].
           destruct (swap_remove_after 0 (top i) j x (Nat.le_0_l j) Hj) as [j' [H1 H2]]. apply (Habove j' x); auto.
        -- apply (IH p (mkI (swap_remove (S p) (top i)) (child i)) i1 Hu' H). intros j x Hj Hnx Hh. simpl in Hnx.
           destruct (Nat.eq_dec j (S p)) as [->|Hneq].
           ++ destruct (swap_remove_after (S p) (top i) (S p) x (le_n _) Hnx) as [j' [H1 H2]]. apply (Habove j' x); auto.
           ++ assert (Hle : (S p <= j)%nat) by lia. destruct (swap_remove_after (S p) (top i) j x Hle Hnx) as [j' [H1 H2]]. apply (Habove j' x); auto.
      * destruct mi as [|p].
        -- inversion H; subst. intros x Hx Hh. destruct (In_nth_error _ _ Hx) as [j Hj].
           destruct j as [|j]; [rewrite En in Hj; inversion Hj; subst; congruence|]. apply (Habove (S j) x); [lia|exact Hj|exact Hh].
        -- apply (IH p i i1 Hu H). intros j x Hj Hnx Hh.
           destruct (Nat.eq_dec j (S p)) as [->|Hneq]; [rewrite En in Hnx; inversion Hnx; subst; congruence|].
           apply (Habove j x); [lia|exact Hnx|exact Hh].
  - (* same digest, or no annotations: if it holds the tag it is an entry of the pushed digest *)
    inversion Est; subst i' mi'; clear Est.
    assert (Hgood : holds tag e = true -> d_dig e = dig).
    { intros Hh. apply andb_false_iff in C1. destruct C1 as [C1|C1].
      - unfold sneq in C1. apply negb_false_iff in C1. apply String.eqb_eq in C1. exact C1.
      - apply negb_false_iff in C1. rewrite (holds_nonempty_ann tag e Ht Hh) in C1. discriminate. }
    destruct mi as [|p].
    + inversion H; subst. intros x Hx Hh. destruct (In_nth_error _ _ Hx) as [j Hj].
      destruct j as [|j]; [rewrite En in Hj; inversion Hj; subst; auto|]. apply (Habove (S j) x); [lia|exact Hj|exact Hh].
    + apply (IH p i i1 Hu H). intros j x Hj Hnx Hh.
      destruct (Nat.eq_dec j (S p)) as [->|Hneq]; [rewrite En in Hnx; inversion Hnx; subst; auto|].
      apply (Habove j x); [lia|exact Hnx|exact Hh].
Qed.

(* ---- AddDesc, the final placement --------------------------------------------------------------------------------- *)
Definition b2n (b : bool) : nat := if b then 1 else 0.

Lemma count_set_nth t : forall k l md d, nth_error l k = Some md ->
  (count t (set_nth k d l) + b2n (holds t md) = count t l + b2n (holds t d))%nat.
Proof.
  induction k as [|k IH]; intros l md d H; destruct l as [|x r]; try discriminate; simpl in H.
  - inversion H; subst. simpl. rewrite !count_cons. unfold b2n. destruct (holds t md), (holds t d); lia.
  - simpl. rewrite !count_cons. specialize (IH r md d H). lia.
Qed.

Lemma set_nth_oob {A} : forall k (l : list A) d, nth_error l k = None -> set_nth k d l = l.
Proof.
  induction k as [|k IH]; intros l d H; destruct l as [|x r]; try discriminate; auto.
  simpl. f_equal. apply IH. exact H.
Qed.

Definition no_exact (d : desc) (tag ref : string) (l : list desc) : Prop :=
  Forall (fun md => d_dig md = d_dig d -> add_exact tag ref md = false) l.

Lemma add_scan_spec d tag ref : forall l mi0 compat,
  match add_scan d tag ref mi0 compat l with
  | SKeep => True
  | SReplace k => ((mi0 <= k)%nat /\ exists md, nth_error l (k - mi0) = Some md /\ add_exact tag ref md = true /\ d_dig md = d_dig d)
                  \/ no_exact d tag ref l
  | SAppend => no_exact d tag ref l
  end.
Proof.
  induction l as [|md r IH]; intros mi0 compat; simpl.
  - destruct compat; [right|]; constructor.
  - destruct (String.eqb_spec (d_dig md) (d_dig d)) as [Heq|Hneq].
    + destruct (String.eqb tag "" && String.eqb ref ""); [exact I|].
      destruct (add_exact tag ref md) eqn:Ex.
      * left. split; [lia|]. exists md. rewrite Nat.sub_diag. auto.
      * match goal with |- context [add_scan d tag ref (S mi0) ?c r] => specialize (IH (S mi0) c); destruct (add_scan d tag ref (S mi0) c r) as [|k|] end; auto.
        -- destruct IH as [[Hle [x [H1 H2]]]|H].
           ++ left. split; [lia|]. exists x. replace (k - mi0)%nat with (S (k - S mi0)) by lia. simpl. auto.
           ++ right. constructor; auto.
        -- constructor; auto.
    + specialize (IH (S mi0) compat). destruct (add_scan d tag ref (S mi0) compat r) as [|k|]; auto.
      * destruct IH as [[Hle [x [H1 H2]]]|H].
        -- left. split; [lia|]. exists x. replace (k - mi0)%nat with (S (k - S mi0)) by lia. simpl. auto.
        -- right. constructor; auto. intros Hd. contradiction.
      * constructor; auto. intros Hd. contradiction.
Qed.

(* a holder of a non-empty tag among the entries of the pushed digest is an exact match *)
Lemma holder_is_exact tag ref md : tag <> "" -> holds tag md = true -> add_exact tag ref md = true.
Proof.
  intros Ht Hh. unfold add_exact. rewrite (holds_nonempty_ann tag md Ht Hh). cbn [negb andb].
  unfold holds, tag_of in Hh. rewrite Hh. unfold nonempty, sneq. destruct (String.eqb_spec tag ""); [contradiction|]. reflexivity.
Qed.

Lemma exact_is_holder tag ref md : tag <> "" -> add_exact tag ref md = true -> holds tag md = true.
Proof.
  intros Ht H. unfold add_exact in H. apply andb_true_iff in H. destruct H as [_ H]. apply orb_true_iff in H.
  destruct H as [H|H].
  - apply andb_true_iff in H. destruct H as [_ H]. exact H.
  - apply andb_true_iff in H. destruct H as [H _]. apply andb_true_iff in H. destruct H as [H _].
    apply String.eqb_eq in H. contradiction.
Qed.

(* d carries the tag it is pushed under and nothing else matters here *)
Lemma add_final_unique d tag ref l :
  tag = tag_of d ->
  (tag <> "" -> forall e, In e l -> holds tag e = true -> d_dig e = d_dig d) ->
  unique l -> unique (add_final d tag ref l).
Proof.
  intros Htag Hp Hu t Ht. unfold add_final. pose proof (add_scan_spec d tag ref l 0 None) as Hs.
  assert (Hd : holds t d = true -> t = tag).
  { unfold holds. rewrite <- Htag. intros H. apply String.eqb_eq in H. auto. }
  destruct (add_scan d tag ref 0 None l) as [|k|].
  - apply Hu; auto.
  - destruct (nth_error l k) as [md|] eqn:En; [|rewrite set_nth_oob by exact En; apply Hu; auto].
    pose proof (count_set_nth t k l md d En) as Hc.
    destruct (holds t d) eqn:Hhd; [|unfold b2n in Hc at 2; specialize (Hu t Ht); unfold b2n in Hc; destruct (holds t md); lia].
    specialize (Hd eq_refl). subst t.
    destruct Hs as [[_ [x [H1 [H2 H3]]]]|Hne].
    + rewrite Nat.sub_0_r in H1. rewrite En in H1. inversion H1; subst x.
      rewrite (exact_is_holder tag ref md Ht H2) in Hc. unfold b2n in Hc. specialize (Hu tag Ht). lia.
    + (* no exact entry: nothing held the tag *)
      assert (Hz : count tag l = 0%nat).
      { apply count_zero_iff. intros e He. destruct (holds tag e) eqn:Hh; auto. exfalso.
        unfold no_exact in Hne. rewrite Forall_forall in Hne.
        pose proof (Hne e He (Hp Ht e He Hh)) as Hx. rewrite (holder_is_exact tag ref e Ht Hh) in Hx. discriminate. }
      unfold b2n in Hc. destruct (holds tag md); lia.
  - rewrite count_app. simpl. unfold count at 2. simpl.
    destruct (holds t d) eqn:Hhd; simpl; [|specialize (Hu t Ht); lia].
    specialize (Hd eq_refl). subst t.
    assert (Hz : count tag l = 0%nat).
    { apply count_zero_iff. intros e He. destruct (holds tag e) eqn:Hh; auto. exfalso.
      unfold no_exact in Hs. rewrite Forall_forall in Hs.
      pose proof (Hs e He (Hp Ht e He Hh)) as Hx. rewrite (holder_is_exact tag ref e Ht Hh) in Hx. discriminate. }
    lia.
Qed.

(* ---- AddDesc as a whole -------------------------------------------------------------------------------------------- *)
Lemma move_children_top t : forall cs i,
  (count t (top (add_move_children cs i)) <= count t (top i))%nat
  /\ (forall e, In e (top (add_move_children cs i)) -> In e (top i)).
Proof.
  induction cs as [|cd r IH]; intros i; simpl; [split; auto|].
  match goal with |- context [add_move_children r ?i'] => destruct (IH i') as [H1 H2]; set (i2 := i') in * end.
  assert (Hs : (count t (top i2) <= count t (top i))%nat /\ (forall e, In e (top i2) -> In e (top i))).
  { unfold i2. destruct (negb (manifest_mt (d_mt cd))); [split; auto|].
    destruct (find_index _ (top i)) as [mi|]; simpl.
    - split; [apply swap_remove_count|intros e; apply swap_remove_in].
    - destruct (existsb _ (top i) || existsb _ (child i)); simpl; auto. }
  destruct Hs as [H3 H4]. split; [lia|auto].
Qed.

Theorem add_desc_unique d cs i i' : unique (top i) -> add_desc d cs i = Ok i' -> unique (top i').
Proof.
  intros Hu H. unfold add_desc in H.
  set (tag := ann_get RefName d) in *. set (ref := ann_get RefSubject d) in *.
  match type of H with context [rbind ?x _] => destruct x as [i1| |] eqn:E1 end; simpl in H; try discriminate.
  inversion H; subst i'; clear H. cbn [top].
  (* after the first loop: still unique, and the pushed tag sits on the pushed digest only *)
  assert (H1 : unique (top i1) /\ (tag <> "" -> forall e, In e (top i1) -> holds tag e = true -> d_dig e = d_dig d)).
  { destruct (nonempty tag || nonempty ref) eqn:Ec.
    - destruct (List.length (top i)) as [|p] eqn:El.
      + inversion E1; subst. split; auto. intros _ e He. destruct (top i1); [destruct He|discriminate].
      + split.
        * intros t Ht. destruct (add_loop1_mono t (d_dig d) tag ref Ht _ _ _ _ E1) as [Hc _]. specialize (Hu t Ht). lia.
        * intros Ht. apply (add_loop1_post (d_dig d) tag ref Ht _ _ _ _ (Hu tag Ht) E1).
          intros j e Hj Hn. assert (nth_error (top i) j = None) by (apply nth_error_None; lia). congruence.
    - inversion E1; subst. split; auto. intros Ht. apply orb_false_iff in Ec. destruct Ec as [Ec _].
      unfold nonempty, sneq in Ec. destruct (String.eqb_spec tag ""); [contradiction|discriminate]. }
  destruct H1 as [Hu1 Hp1].
  match goal with |- unique (add_final d tag ref (top (add_move_children cs ?i2))) => set (i3 := add_move_children cs i2) in *; pose proof (fun t => move_children_top t cs i2) as Hm end.
  apply add_final_unique.
  - reflexivity.
  - intros Ht e He. destruct (Hm tag) as [_ Hsub]. apply Hp1; auto.
  - intros t Ht. destruct (Hm t) as [Hc _]. cbn [top] in Hc. specialize (Hu1 t Ht). unfold i3. lia.
Qed.

(* every sequence of index operations from the empty index keeps tags unique *)
Theorem apply_op_unique o i i' : unique (top i) -> apply_op o i = Ok i' -> unique (top i').
Proof.
  destruct o as [d cs|d|cs]; simpl; intros Hu H.
  - eapply add_desc_unique; eauto.
  - eapply rm_desc_unique; eauto.
  - inversion H; subst. exact Hu.
Qed.

Theorem apply_ops_unique : forall l i i', unique (top i) -> apply_ops l i = Ok i' -> unique (top i').
Proof.
  induction l as [|o r IH]; intros i i' Hu H; simpl in H; [inversion H; subst; auto|].
  destruct (apply_op o i) as [i1| |] eqn:E; simpl in H; try discriminate.
  eapply IH; [eapply apply_op_unique; eauto|exact H].
Qed.

Lemma unique_empty : unique (top empty_index).
Proof. intros t _. simpl. unfold count. simpl. lia. Qed.

(* ---- the list form used by the listing theorems: the non-empty tags of the top-level entries have no duplicate ------ *)
Lemma in_tags_holder t l : In t (filter nonempty (map tag_of l)) -> exists e, In e l /\ holds t e = true /\ t <> "".
Proof.
  intros H. apply filter_In in H. destruct H as [H1 H2]. apply in_map_iff in H1. destruct H1 as [e [He Hin]].
  exists e. split; auto. split; [unfold holds; rewrite He; apply String.eqb_refl|].
  intros ->. unfold nonempty, sneq in H2. simpl in H2. discriminate.
Qed.

Theorem unique_nodup l : unique l -> NoDup (filter nonempty (map tag_of l)).
Proof.
  induction l as [|x r IH]; intros Hu; simpl; [constructor|].
  assert (Hur : unique r).
  { intros t Ht. specialize (Hu t Ht). rewrite count_cons in Hu. lia. }
  destruct (nonempty (tag_of x)) eqn:En; [|apply IH; exact Hur].
  constructor; [|apply IH; exact Hur].
  intros Hin. destruct (in_tags_holder _ _ Hin) as [e [He [Hh Hne]]].
  specialize (Hu (tag_of x) Hne). rewrite count_cons in Hu.
  assert (holds (tag_of x) x = true) by (unfold holds; apply String.eqb_refl). rewrite H in Hu.
  assert (count (tag_of x) r = 0%nat) by lia.
  rewrite count_zero_iff in H0. rewrite (H0 e He) in Hh. discriminate.
Qed.

(* ---- the pushed tag resolves to the pushed descriptor ------------------------------------------------------------ *)
Lemma add_scan_not_keep d tag ref : tag <> "" -> forall l n c, add_scan d tag ref n c l <> SKeep.
Proof.
  intros Ht. assert (Hf : String.eqb tag "" = false) by (destruct (String.eqb_spec tag ""); congruence).
  induction l as [|md r IH]; intros n c; simpl.
  - destruct c; discriminate.
  - destruct (String.eqb (d_dig md) (d_dig d)); [|apply IH].
    rewrite Hf. cbn [andb]. destruct (add_exact tag ref md); [discriminate|apply IH].
Qed.

Lemma add_scan_range d tag ref : forall (l : list desc) (n : nat) c k,
  add_scan d tag ref n c l = SReplace k -> (c = Some k) \/ (n <= k < n + List.length l)%nat.
Proof.
  induction l as [|md r IH]; intros n c k; simpl.
  - destruct c; intros H; inversion H; auto.
  - destruct (String.eqb (d_dig md) (d_dig d)).
    + destruct (String.eqb tag "" && String.eqb ref ""); [discriminate|].
      destruct (add_exact tag ref md); [intros H; inversion H; right; lia|].
      intros H. apply IH in H. destruct H as [H|H]; [|right; lia].
      destruct c; [left; exact H|]. destruct (add_compat tag ref md); [inversion H; right; lia|discriminate].
    + intros H. apply IH in H. destruct H as [H|H]; [left; exact H|right; lia].
Qed.

Lemma set_nth_in {A} : forall k (l : list A) d, (k < List.length l)%nat -> In d (set_nth k d l).
Proof.
  induction k as [|k IH]; intros l d H; destruct l as [|x r]; simpl in *; try lia; auto.
  right. apply IH. lia.
Qed.

Lemma add_final_places d tag ref l :
  tag = tag_of d -> tag <> "" -> exists e, In e (add_final d tag ref l) /\ holds tag e = true /\ d_dig e = d_dig d.
Proof.
  intros Htag Ht. unfold add_final.
  assert (Hd : holds tag d = true) by (unfold holds; rewrite <- Htag; apply String.eqb_refl).
  destruct (add_scan d tag ref 0 None l) as [|k|] eqn:Es.
  - exfalso. exact (add_scan_not_keep d tag ref Ht l 0%nat None Es).
  - exists d. split; [|auto]. apply set_nth_in. apply add_scan_range in Es. destruct Es as [Es|Es]; [discriminate|lia].
  - exists d. split; [apply in_or_app; right; left; reflexivity|auto].
Qed.

Theorem add_desc_places d cs i i' :
  ann_get RefName d <> "" -> add_desc d cs i = Ok i' ->
  exists e, In e (top i') /\ holds (ann_get RefName d) e = true /\ d_dig e = d_dig d.
Proof.
  intros Ht H. unfold add_desc in H.
  match type of H with context [rbind ?x _] => destruct x as [i1| |] end; simpl in H; try discriminate.
  inversion H; subst. cbn [top]. apply add_final_places; auto.
Qed.

(* ---- an insertion keeps every other tag --------------------------------------------------------------------------- *)
Lemma holds_ann_len t x : t <> "" -> holds t x = true -> (ann_len x =? 0)%nat = false.
Proof.
  intros Ht Hh. unfold ann_len. pose proof (holds_nonempty_ann t x Ht Hh) as Hn. unfold ann_nil in Hn.
  destruct (d_ann x) as [a|] eqn:Ea; [|discriminate]. destruct a; [|reflexivity].
  unfold holds, tag_of, ann_get in Hh. rewrite Ea in Hh. simpl in Hh. destruct t; [congruence|discriminate].
Qed.

Lemma add_loop1_keeps dig tag ref x t' :
  t' <> "" -> t' <> tag -> holds t' x = true -> ann_get RefSubject x = "" ->
  forall fuel mi i i1, add_loop1 fuel mi dig tag ref i = Ok i1 -> In x (top i) -> In x (top i1).
Proof.
  intros Ht1 Ht2 Hh Hsub. induction fuel as [|fuel IH]; intros mi i i1 H Hin; simpl in H; [discriminate|].
  destruct (nth_error (top i) mi) as [e|] eqn:En; [|discriminate].
  match type of H with context [rbind ?st _] => destruct st as [[i' mi']| |] eqn:Est end; simpl in H; try discriminate.
  assert (Hin' : In x (top i')).
  { destruct (sneq (d_dig e) dig && negb (ann_nil e)); [|inversion Est; subst; auto].
    destruct (nonempty tag && String.eqb (ann_get RefName e) tag) eqn:C2.
    - destruct (rm_desc _ i) as [i2| |] eqn:Er; simpl in Est; try discriminate. inversion Est; subst.
      destruct (rm_desc_top _ _ _ Er) as [s' Hb]. rewrite rm_tag_of_mk in Hb.
      apply andb_true_iff in C2. destruct C2 as [C2 _].
      eapply rm_top_keeps_othertag; eauto.
    - destruct (nonempty ref && String.eqb (ann_get RefSubject e) ref) eqn:C3; inversion Est; subst; auto.
      simpl. apply (swap_remove_keeps _ _ x e Hin En). intros ->.
      apply andb_true_iff in C3. destruct C3 as [C3a C3b]. rewrite Hsub in C3b. apply String.eqb_eq in C3b.
      subst ref. unfold nonempty, sneq in C3a. simpl in C3a. discriminate. }
  destruct mi' as [|p]; [inversion H; subst; auto|]. eapply IH; eauto.
Qed.

Lemma find_index_some {A} (p : A -> bool) : forall l k, find_index p l = Some k -> exists y, nth_error l k = Some y /\ p y = true.
Proof.
  induction l as [|x r IH]; intros k H; simpl in H; [discriminate|].
  destruct (p x) eqn:E.
  - inversion H; subst. exists x. auto.
  - destruct (find_index p r) as [k'|] eqn:Ef; simpl in H; [|discriminate]. inversion H; subst.
    destruct (IH k' eq_refl) as [y [H1 H2]]. exists y. auto.
Qed.

Lemma move_children_keeps x : (ann_len x =? 0)%nat = false -> forall cs i, In x (top i) -> In x (top (add_move_children cs i)).
Proof.
  intros Hx. induction cs as [|cd r IH]; intros i Hin; simpl; auto. apply IH.
  destruct (negb (manifest_mt (d_mt cd))); [exact Hin|].
  destruct (find_index _ (top i)) as [mi|] eqn:Ef; simpl.
  - destruct (find_index_some _ _ _ Ef) as [y [H1 H2]]. apply (swap_remove_keeps _ _ x y Hin H1).
    intros ->. apply andb_true_iff in H2. destruct H2 as [_ H2]. congruence.
  - destruct (existsb _ (top i) || existsb _ (child i)); simpl; auto.
Qed.

Lemma add_scan_replaced d tag ref : forall l n c k,
  add_scan d tag ref n c l = SReplace k ->
  c = Some k \/ ((n <= k)%nat /\ exists md, nth_error l (k - n) = Some md /\ (add_exact tag ref md = true \/ add_compat tag ref md = true)).
Proof.
  induction l as [|md r IH]; intros n c k; simpl.
  - destruct c; intros H; inversion H; auto.
  - destruct (String.eqb (d_dig md) (d_dig d)).
    + destruct (String.eqb tag "" && String.eqb ref ""); [discriminate|].
      destruct (add_exact tag ref md) eqn:Ex.
      * intros H; inversion H; subst. right. split; [lia|]. exists md. rewrite Nat.sub_diag. auto.
      * intros H. apply IH in H. destruct H as [H|[Hle [y [H1 H2]]]].
        -- destruct c as [c0|]; [left; exact H|]. destruct (add_compat tag ref md) eqn:Ec; [|discriminate].
           inversion H; subst. right. split; [lia|]. exists md. rewrite Nat.sub_diag. auto.
        -- right. split; [lia|]. exists y. replace (k - n)%nat with (S (k - S n)) by lia. auto.
    + intros H. apply IH in H. destruct H as [H|[Hle [y [H1 H2]]]]; [left; exact H|].
      right. split; [lia|]. exists y. replace (k - n)%nat with (S (k - S n)) by lia. auto.
Qed.

Lemma set_nth_keeps {A} : forall k (l : list A) x md d, In x l -> nth_error l k = Some md -> x <> md -> In x (set_nth k d l).
Proof.
  induction k as [|k IH]; intros l x md d Hin Hn Hne; destruct l as [|y r]; simpl in *; try discriminate.
  - inversion Hn; subst. destruct Hin as [H|H]; [congruence|right; exact H].
  - destruct Hin as [H|H]; [left; exact H|right; eapply IH; eauto].
Qed.

Theorem add_desc_keeps_other_tags d cs i i' x t' :
  add_desc d cs i = Ok i' ->
  In x (top i) -> holds t' x = true -> t' <> "" -> t' <> ann_get RefName d -> ann_get RefSubject x = "" ->
  In x (top i').
Proof.
  intros H Hin Hh Ht1 Ht2 Hsub. unfold add_desc in H.
  set (tag := ann_get RefName d) in *. set (ref := ann_get RefSubject d) in *.
  match type of H with context [rbind ?x _] => destruct x as [i1| |] eqn:E1 end; simpl in H; try discriminate.
  inversion H; subst i'; clear H. cbn [top].
  assert (H1 : In x (top i1)).
  { destruct (nonempty tag || nonempty ref); [|inversion E1; subst; auto].
    destruct (List.length (top i)); [inversion E1; subst; auto|].
    eapply add_loop1_keeps; eauto. }
  pose proof (holds_ann_len t' x Ht1 Hh) as Hal.
  match goal with |- In x (add_final d tag ref (top (add_move_children cs ?i2))) =>
    pose proof (move_children_keeps x Hal cs i2 H1) as H3; set (l3 := top (add_move_children cs i2)) in * end.
  unfold add_final. destruct (add_scan d tag ref 0 None l3) as [|k|] eqn:Es; auto.
  - destruct (add_scan_replaced d tag ref l3 0 None k Es) as [Hc|[_ [md [Hn Hm]]]]; [discriminate|].
    rewrite Nat.sub_0_r in Hn. apply (set_nth_keeps k l3 x md d H3 Hn). intros ->.
    destruct Hm as [Hm|Hm].
    + (* exact: holds the pushed tag, or is the response of the pushed subject *)
      unfold add_exact in Hm. apply andb_true_iff in Hm. destruct Hm as [_ Hm]. apply orb_true_iff in Hm.
      destruct Hm as [Hm|Hm]; apply andb_true_iff in Hm.
      * destruct Hm as [_ Hm]. unfold holds, tag_of in Hh. apply String.eqb_eq in Hm, Hh. congruence.
      * destruct Hm as [Hm1 Hm2]. apply andb_true_iff in Hm1. destruct Hm1 as [_ Hm1]. rewrite Hsub in Hm2.
        apply String.eqb_eq in Hm2. subst ref. unfold nonempty, sneq in Hm1. rewrite <- Hm2 in Hm1. simpl in Hm1. discriminate.
    + (* compatible: no annotations, or no other tag *)
      unfold add_compat in Hm. apply orb_true_iff in Hm. destruct Hm as [Hm|Hm].
      * rewrite (holds_nonempty_ann t' md Ht1 Hh) in Hm. discriminate.
      * apply andb_true_iff in Hm. destruct Hm as [Hm _]. unfold holds, tag_of in Hh. apply String.eqb_eq in Hh.
        apply orb_true_iff in Hm. destruct Hm as [Hm|Hm]; apply String.eqb_eq in Hm; congruence.
  - apply in_or_app. left. exact H3.
Qed.

(* the pushed descriptor itself is in the index afterwards *)
Lemma add_final_in d tag ref l : tag = tag_of d -> tag <> "" -> In d (add_final d tag ref l).
Proof.
  intros Htag Ht. unfold add_final. destruct (add_scan d tag ref 0 None l) as [|k|] eqn:Es.
  - exfalso. exact (add_scan_not_keep d tag ref Ht l 0%nat None Es).
  - apply set_nth_in. apply add_scan_range in Es. destruct Es as [Es|Es]; [discriminate|lia].
  - apply in_or_app. right. left. reflexivity.
Qed.

Theorem add_desc_in d cs i i' : ann_get RefName d <> "" -> add_desc d cs i = Ok i' -> In d (top i').
Proof.
  intros Ht H. unfold add_desc in H.
  match type of H with context [rbind ?x _] => destruct x as [i1| |] end; simpl in H; try discriminate.
  inversion H; subst. cbn [top]. apply add_final_in; auto.
Qed.
