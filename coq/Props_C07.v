(* Props_C07.v — referrers responses: pagination (Referrer.v) and isolation of the maintenance (Reg.v). *)
From Olareg Require Import Base Index Reg RegProofs Referrer RespInv.
Local Open Scope list_scope.

(* for every size limit and every list of descriptors (with any JSON lengths): every page is non-empty and
   its encoding is within the limit *)
Theorem C07_split_within_limit : forall (A : Type) (len : A -> Z) (base limit : Z) (ds : list A),
  Forall (fun p => p <> [] /\ (enc_len len base p <= limit)%Z) (fst (split len base limit ds)).
Proof. intros A. exact (@split_pages_within_limit A). Qed.
Print Assumptions C07_split_within_limit.

(* the pages, read in order, together with the dropped descriptors are exactly the input: nothing lost,
   nothing duplicated, order preserved *)
Theorem C07_split_partition : forall (A : Type) (len : A -> Z) (base limit : Z) (ds : list A),
  merge (List.concat (fst (split len base limit ds))) (snd (split len base limit ds)) ds.
Proof. intros A. exact (@split_partition A). Qed.
Print Assumptions C07_split_partition.

(* only descriptors that cannot fit a page on their own are dropped *)
Theorem C07_split_dropped : forall (A : Type) (len : A -> Z) (base limit : Z) (ds : list A),
  Forall (fun d => (enc_len len base [d] > limit)%Z) (snd (split len base limit ds)).
Proof. intros A. exact (@split_dropped_too_big A). Qed.
Print Assumptions C07_split_dropped.

(* following Link from page 0 visits pages 0 .. n-1 once each and stops *)
Theorem C07_chain : forall n k fuel, (k < n)%nat -> (n - k <= fuel)%nat -> chain n k fuel = seq k (n - k).
Proof. exact chain_seq. Qed.
Print Assumptions C07_chain.

(* the maintenance of a subject's response (read-modify-write through AddDesc / RmDesc) touches only the
   repository of the push or delete *)
Theorem C07_repo_local : forall cfg E s q r',
  match q with QRestart => False | _ => True end ->
  req_repo q <> r' -> get_repo cfg r' (fst (step cfg E s q)) = get_repo cfg r' s.
Proof. exact request_frame. Qed.

Example C07_split_example :
  split (fun i : nat => nth i [30; 30; 30; 200; 30]%Z 0%Z) 10 100 [0; 1; 2; 3; 4]%nat = ([[0; 1]; [2]; [4]]%nat, [3%nat]).
Proof. vm_compute. reflexivity. Qed.

(* "each once": the response of a subject is maintained with AddDesc / RmDesc on the descriptors of the stored response
   (Reg.referrer_add / referrer_delete).  For an artifact whose own annotations do not use the two reserved keys (the open
   finding F10 is about those that do): adding it keeps the digests of the list distinct, keeps every entry, and lists it;
   deleting it by digest removes every entry with its digest, keeps every other entry and keeps the digests distinct *)
Theorem C07_response_add_once : forall d old i',
  ann_get RefName d = "" -> ann_get RefSubject d = "" ->
  NoDup (digs old) -> add_desc d [] (resp_index old) = Ok i' ->
  NoDup (digs (top i')) /\ In (d_dig d) (digs (top i')) /\ (forall x, In x old -> In x (top i'))
  /\ (forall x, In x (top i') -> In x old \/ x = d).
Proof. exact resp_add_once. Qed.
Theorem C07_response_delete_once : forall d l i',
  ann_get RefName d = "" -> ann_get RefSubject d = "" -> nonempty (d_dig d) = true ->
  rm_desc d (resp_index l) = Ok i' ->
  (forall x, In x (top i') <-> (In x l /\ d_dig x <> d_dig d))
  /\ (NoDup (digs l) -> NoDup (digs (top i'))).
Proof. exact resp_rm_once. Qed.
Print Assumptions C07_response_add_once.
Print Assumptions C07_response_delete_once.
