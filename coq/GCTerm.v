(* GCTerm.v — the mark phase of a collection terminates: the fuel the model gives it always suffices, so a collection of the
   model never ends "out of fuel" and the theorems about gc_repo are unconditional.
   The measure: work list length + entries left in the subjects map + the not yet walked blobs, each weighted with the
   number of descriptors it lists plus one.  Every iteration pops one descriptor; it pushes the children of a manifest only
   when that manifest is walked for the first time (its weight leaves the measure), and the referrers response of a subject
   only together with the removal of that subject's entry from the map.
   Without that removal (olareg before the repair of finding C06-F54) the measure does not decrease for descriptors whose
   media type is not a manifest type, and indeed two such entries naming each other as subject made the loop run forever. *)
From Olareg Require Import Base Index IndexProofs Reg RegProofs GC GCProofs.
Local Open Scope list_scope.

Section Term.
  Variables (E : env) (blobs : list (string * bentry)).

  Definition bweight (b : string * bentry) : nat := List.length (j_manifests (blob_view E (b_data (snd b)))) + 1.

  Fixpoint unwalked (walked : list string) (bl : list (string * bentry)) : nat :=
    match bl with
    | [] => 0
    | b :: r => (if mem_str (fst b) walked then 0 else bweight b) + unwalked walked r
    end.

  Definition pot (work : list desc) (subjects : list (string * desc)) (walked : list string) : nat :=
    List.length work + List.length subjects + unwalked walked blobs.

  Lemma assoc_del_len {A} k : forall (l : list (string * A)), (List.length (assoc_del k l) <= List.length l)%nat.
  Proof. induction l as [|[k' v] r IH]; simpl; auto. destruct (String.eqb k k'); simpl; lia. Qed.

  Lemma assoc_del_len_some {A} k : forall (l : list (string * A)) v,
    assoc k l = Some v -> (List.length (assoc_del k l) < List.length l)%nat.
  Proof.
    induction l as [|[k' v'] r IH]; intros v H; simpl in *; [discriminate|].
    destruct (String.eqb k k').
    - pose proof (assoc_del_len k r). lia.
    - simpl. specialize (IH v H). lia.
  Qed.

  Lemma mem_str_cons x y l : mem_str x (y :: l) = String.eqb x y || mem_str x l.
  Proof. reflexivity. Qed.

  Lemma unwalked_mono x w : forall bl, (unwalked (x :: w) bl <= unwalked w bl)%nat.
  Proof.
    induction bl as [|b r IH]; cbn [unwalked]; auto. rewrite mem_str_cons.
    destruct (String.eqb (fst b) x); cbn [orb]; [lia|]. destruct (mem_str (fst b) w); lia.
  Qed.

  Lemma unwalked_walk k w : forall bl b,
    assoc k bl = Some b -> mem_str k w = false ->
    (unwalked (k :: w) bl + (List.length (j_manifests (blob_view E (b_data b))) + 1) <= unwalked w bl)%nat.
  Proof.
    induction bl as [|[k' v] r IH]; intros b H Hm; simpl in H; [discriminate|].
    cbn [unwalked fst]. rewrite mem_str_cons. destruct (String.eqb k k') eqn:Ek.
    - apply String.eqb_eq in Ek. subst k'. inversion H; subst. rewrite String.eqb_refl. cbn [orb]. rewrite Hm.
      unfold bweight. cbn [snd]. pose proof (unwalked_mono k w r). lia.
    - specialize (IH b H Hm). destruct (String.eqb k' k); cbn [orb]; [lia|]. destruct (mem_str k' w); lia.
  Qed.

  Lemma requeue_len (subjects : list (string * desc)) k (w : list desc) :
    (List.length (match assoc k subjects with Some r => w ++ [r] | None => w end) + List.length (assoc_del k subjects)
     <= List.length w + List.length subjects)%nat.
  Proof.
    destruct (assoc k subjects) as [r|] eqn:Ea.
    - rewrite app_length. simpl. pose proof (assoc_del_len_some k subjects r Ea). lia.
    - pose proof (assoc_del_len k subjects). lia.
  Qed.

  (* enough fuel: more than the measure *)
  Lemma mark_enough : forall fuel work subjects seen walked inidx,
    (pot work subjects walked < fuel)%nat -> mark E blobs fuel work subjects seen walked inidx <> None.
  Proof.
    induction fuel as [|f IH]; intros work subjects seen walked inidx Hp; [lia|].
    simpl. destruct (rev work) as [|d0 rest] eqn:Er; [discriminate|].
    assert (Hwork : work = rev rest ++ [d0]).
    { apply (f_equal (@rev _)) in Er. rewrite rev_involutive in Er. simpl in Er. exact Er. }
    assert (Hlen : List.length work = S (List.length (rev rest))) by (rewrite Hwork, app_length; simpl; lia).
    unfold pot in Hp. rewrite Hlen in Hp.
    destruct (mem_str (d_dig d0) walked) eqn:Ewk.
    { apply IH. unfold pot. lia. }
    destruct (negb (has_blob blobs (d_dig d0))) eqn:Ehb.
    { apply IH. unfold pot. lia. }
    apply negb_false_iff in Ehb. unfold has_blob in Ehb. apply andb_true_iff in Ehb. destruct Ehb as [_ Ehb].
    destruct (assoc (d_dig d0) blobs) as [b0|] eqn:Eb; [|discriminate].
    pose proof (unwalked_walk (d_dig d0) walked blobs b0 Eb Ewk) as Hwalk.
    pose proof (unwalked_mono (d_dig d0) walked blobs) as Hmono.
    destruct (mt_index (d_mt d0) || mt_image (d_mt d0)) eqn:Ei; cbn [orb andb negb].
    - destruct (negb (j_ok_i (blob_view E (b_data b0))) && negb (j_ok_m (blob_view E (b_data b0)))).
      + apply IH. unfold pot. lia.
      + apply IH. unfold pot.
        pose proof (requeue_len subjects (d_dig d0)
                      (rev rest ++ (if j_ok_i (blob_view E (b_data b0)) then j_manifests (blob_view E (b_data b0)) else []))) as Hr.
        rewrite app_length in Hr.
        assert (Hk : (List.length (if j_ok_i (blob_view E (b_data b0)) then j_manifests (blob_view E (b_data b0)) else [])
                      <= List.length (j_manifests (blob_view E (b_data b0))))%nat)
          by (destruct (j_ok_i (blob_view E (b_data b0))); simpl; lia).
        lia.
    - apply IH. unfold pot. pose proof (requeue_len subjects (d_dig d0) (rev rest)) as Hr. lia.
  Qed.

  (* ---- the fuel of a collection ------------------------------------------------------------------------------------ *)
  Lemma unwalked_nil_bound : forall bl,
    (unwalked [] bl <= fold_right (fun b n => List.length (j_manifests (blob_view E (b_data (snd b)))) + 2 + n) 0 bl)%nat.
  Proof. induction bl as [|b r IH]; simpl; auto. unfold bweight. lia. Qed.
End Term.

Section Phase1Len.
  Variables (pol : gcpol) (now : Z) (blobs : list (string * bentry)).

  Lemma assoc_set_len {A} k (v : A) l : (List.length (assoc_set k v l) <= S (List.length l))%nat.
  Proof. unfold assoc_set. simpl. pose proof (assoc_del_len k l). lia. Qed.

  Lemma phase1_entry_len st d :
    (List.length (fst (fst (phase1_entry pol now blobs st d))) + List.length (snd (fst (phase1_entry pol now blobs st d)))
     <= S (List.length (fst (fst st)) + List.length (snd (fst st))))%nat.
  Proof.
    destruct st as [[kept subjects] inidx]. unfold phase1_entry. simpl.
    repeat match goal with |- context [if ?b then _ else _] => destruct b end; simpl;
      rewrite ?app_length; simpl;
      try (match goal with |- context [assoc_del ?k ?l] => pose proof (assoc_del_len k l) end); lia.
  Qed.

  Lemma phase1_fold_len : forall l st,
    (List.length (fst (fst (fold_left (phase1_entry pol now blobs) l st))) + List.length (snd (fst (fold_left (phase1_entry pol now blobs) l st)))
     <= List.length l + (List.length (fst (fst st)) + List.length (snd (fst st))))%nat.
  Proof.
    induction l as [|d r IH]; intros st; simpl; [lia|].
    specialize (IH (phase1_entry pol now blobs st d)). pose proof (phase1_entry_len st d). lia.
  Qed.
End Phase1Len.

(* the mark phase of a collection never runs out of fuel *)
Theorem mark_terminates E pol now blobs i :
  mark E blobs (mark_fuel E blobs i) (fst (fst (phase1 pol now blobs i))) (snd (fst (phase1 pol now blobs i))) [] []
       (snd (phase1 pol now blobs i)) <> None.
Proof.
  apply mark_enough. unfold pot, mark_fuel, phase1.
  pose proof (phase1_fold_len pol now blobs (top i) ([], [], [])) as H1. simpl in H1.
  pose proof (unwalked_nil_bound E blobs) as H2. lia.
Qed.

(* hence every collection of the model completes *)
Theorem gc_total E pol now blobs i : repo_gc E pol now blobs i <> None.
Proof.
  unfold repo_gc. pose proof (mark_terminates E pol now blobs i) as H.
  destruct (phase1 pol now blobs i) as [[kept subjects] inidx0]. simpl in H.
  destruct (mark E blobs (mark_fuel E blobs i) kept subjects [] [] inidx0) as [[seen inidx]|]; [|contradiction].
  destruct (fold_left (sweep_blob pol now blobs seen inidx) blobs (Ok i, [])). discriminate.
Qed.

(* C05 end to end, unconditionally: every collection completes, and the blob of a root entry is not among what it deletes *)
Theorem gc_keeps_root_total E pol now blobs i e :
  In e (top i) -> ann_get RefSubject e = "" -> has_blob blobs (d_dig e) = true ->
  (nonempty (ann_get RefName e) = true \/ gp_untagged pol = false \/ young pol now blobs (d_dig e) = true) ->
  exists ri deleted, repo_gc E pol now blobs i = Some (ri, deleted) /\ ~ In (d_dig e) deleted.
Proof.
  intros Hin Hs Hb Hroot. destruct (repo_gc E pol now blobs i) as [[ri deleted]|] eqn:Eg.
  - exists ri, deleted. split; [reflexivity|]. eapply gc_keeps_root; eauto.
  - exfalso. exact (gc_total E pol now blobs i Eg).
Qed.
