(* Props_C04.v — only complete, well-formed manifests are accepted; refusals change nothing. *)
From Olareg Require Import Base Index Reg RegProofs RegProofs2.
Local Open Scope list_scope.

(* A push is acknowledged only when every gate was passed: reference is a tag or a digest, the
   declared digest is the digest of the body, the media type is supported and of the body's kind,
   the body parses for that type, is within the limit, and every referenced config / layer / child
   is present in the same repository (missing_in counts those that are not). *)
Theorem C04_accept_sound : forall cfg E r arg ctype clen dq body s s' o,
  run cfg E (h_manifest_put cfg E r arg ctype clen dq body) s = (s', o) ->
  rs_status o = 201%Z -> mp_accept_cond cfg E r arg ctype clen dq body s.
Proof. exact manifest_put_accept_sound. Qed.
Print Assumptions C04_accept_sound.

(* Every other answer except a storage failure (500) leaves the whole state - all repositories,
   tags, manifests, referrers, blobs, sessions - syntactically unchanged. *)
Theorem C04_refuse_noop : forall cfg E r arg ctype clen dq body s s' o,
  run cfg E (h_manifest_put cfg E r arg ctype clen dq body) s = (s', o) ->
  rs_status o <> 201%Z -> rs_status o <> 500%Z -> s' = s.
Proof. exact manifest_put_refused_noop. Qed.
Print Assumptions C04_refuse_noop.

(* presence in another repository does not count: the check reads repository r only *)
Theorem C04_other_repo : forall cfg E r ds m k s,
  run cfg E (check_blobs r ds m k) s = run cfg E (k (m + missing_in cfg r s ds)%nat) s.
Proof. exact check_blobs_count. Qed.
Print Assumptions C04_other_repo.
