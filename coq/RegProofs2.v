(* RegProofs2.v — handler-level theorems over Reg.v:
   manifests are served under their digest (C01), refused manifest pushes change
   nothing (C04), upload sessions are sequential (C08), stored blobs persist (C02). *)
From Olareg Require Import Base Index Reg RegProofs.
Local Open Scope list_scope.

(* symbolic execution of [run] on a hypothesis H : run ... = (s', o) *)
Ltac symex H :=
  repeat (simpl in H;
          match type of H with
          | context [if ?b then _ else _] => destruct b eqn:?
          | context [match ?x with _ => _ end] => destruct x eqn:?
          end);
  simpl in H; inversion H; subst; clear H;
  repeat match goal with
         | Hx : (if ?c then _ else _) = (_, _) |- _ => destruct c eqn:?; inversion Hx; subst; clear Hx
         | Hx : (match ?y with _ => _ end) = (_, _) |- _ => destruct y eqn:?; inversion Hx; subst; clear Hx
         end.

(* ---- all results of a program ----------------------------------------------------------- *)
Inductive all_ret (P : resp -> Prop) : prog -> Prop :=
| AR_ret o : P o -> all_ret P (Ret o)
| AR_do a k : (forall x, all_ret P (k x)) -> all_ret P (Do a k).

Lemma all_ret_run cfg E P p : all_ret P p -> forall s, P (snd (run cfg E p s)).
Proof.
  induction 1 as [o Ho|a k Hk IH]; intros s; simpl; auto.
  destruct (exec_act cfg E a s) as [s1 x]. apply IH.
Qed.

Ltac ar_step :=
  match goal with
  | |- all_ret _ (Ret _) => apply AR_ret; simpl; auto
  | |- all_ret _ (Do _ _) => apply AR_do; intros ?
  | |- all_ret _ (if ?b then _ else _) => destruct b
  | |- all_ret _ (match ?x with _ => _ end) => destruct x
  | |- all_ret _ (let (_, _) := ?x in _) => destruct x
  end.
Ltac ar := repeat ar_step.

(* ---- reads inside programs ------------------------------------------------------------------ *)
Lemma run_read cfg E a k s : is_read a = true ->
  run cfg E (Do a k) s = run cfg E (k (snd (exec_act cfg E a s))) s.
Proof.
  intros H. simpl. pose proof (read_same cfg E a s H) as Hs.
  destruct (exec_act cfg E a s) as [s1 x]. simpl in *. subst. reflexivity.
Qed.

Lemma check_blobs_run cfg E r ds : forall m k s, exists m', run cfg E (check_blobs r ds m k) s = run cfg E (k m') s.
Proof.
  induction ds as [|d rest IH]; intros m k s; simpl check_blobs.
  - exists m. reflexivity.
  - rewrite run_read by reflexivity. destruct (snd (exec_act cfg E (ABlobGet r d) s)); apply IH.
Qed.

(* ---- C01: manifests are served under the digest of the stored bytes ---------------------------- *)
Theorem manifest_get_served cfg E r arg acc rng s s' o :
  BlobsOK E s ->
  run cfg E (h_manifest_get E r arg acc rng) s = (s', o) ->
  s' = s /\ forall b g, rs_body o = BoBlob b g -> blob_ok E (rs_digest o) b.
Proof.
  intros Hok H. unfold h_manifest_get, with_repo in H.
  symex H; (split; [reflexivity|]); intros bx gx Hb; simpl in Hb; try discriminate.
  all: inversion Hb; subst.
  all: match goal with Ha : assoc ?d (r_blobs (get_repo ?c ?rr ?s0)) = Some ?be, Hk : BlobsOK ?e ?s0 |- _ =>
         exact (get_repo_ok c e rr s0 Hk d be Ha) end.
Qed.

(* ---- C04: a refused manifest push changes nothing ------------------------------------------------ *)
Lemma mp_commit_statuses E r tag mt d alg body children subj :
  all_ret (fun o => (rs_status o = 201 \/ rs_status o = 500)%Z) (mp_commit E r tag mt d alg body children subj).
Proof.
  unfold mp_commit, referrer_add, referrer_store. ar.
Qed.

Theorem manifest_put_refused_noop cfg E r arg ctype clen dq body s s' o :
  run cfg E (h_manifest_put cfg E r arg ctype clen dq body) s = (s', o) ->
  rs_status o <> 201%Z -> rs_status o <> 500%Z -> s' = s.
Proof.
  unfold h_manifest_put, with_repo. intros H H1 H2.
  destruct (c_readonly cfg); [simpl in H; inversion H; auto|].
  rewrite run_read in H by reflexivity.
  destruct (snd (exec_act cfg E (ARepoGet r) s)) as [| [] | | |]; try (simpl in H; inversion H; auto; fail).
  all: repeat match type of H with
              | run _ _ (if ?b then _ else _) _ = _ => destruct b eqn:?; [simpl in H; inversion H; auto; fail|]
              | run _ _ (if ?b then _ else _) _ = _ => destruct b eqn:?; [|simpl in H; inversion H; auto; fail]
              end.
  all: try (simpl in H; inversion H; auto; fail).
  all: match type of H with
       | run _ _ (check_blobs ?rr ?ds ?m ?k) _ = _ =>
           destruct (check_blobs_run cfg E rr ds m k s) as [m' Hm]; rewrite Hm in H; clear Hm
       end.
  all: cbv beta in H; destruct (negb (m' =? 0)%nat); [simpl in H; inversion H; auto|].
  all: match type of H with
       | run _ _ (mp_commit ?e ?a1 ?a2 ?a3 ?a4 ?a5 ?a6 ?a7 ?a8) _ = _ =>
           pose proof (all_ret_run cfg E _ _ (mp_commit_statuses e a1 a2 a3 a4 a5 a6 a7 a8) s) as Hst;
           rewrite H in Hst; simpl in Hst; destruct Hst; congruence
       end.
Qed.

(* the references a manifest push checks, and which of them the repository holds *)
Definition blob_present cfg (r : string) (s : state) (d : string) : bool :=
  dvalid' d && match assoc d (r_blobs (get_repo cfg r s)) with Some _ => true | None => false end.

Definition missing_in cfg r s (ds : list string) : nat :=
  List.length (filter (fun d => negb (blob_present cfg r s d)) ds).

Lemma check_blobs_count cfg E r ds : forall m k s,
  run cfg E (check_blobs r ds m k) s = run cfg E (k (m + missing_in cfg r s ds)%nat) s.
Proof.
  induction ds as [|d rest IH]; intros m k s; simpl check_blobs.
  - unfold missing_in. simpl. rewrite Nat.add_0_r. reflexivity.
  - rewrite run_read by reflexivity. unfold missing_in. simpl filter. unfold blob_present at 1. simpl exec_act.
    destruct (dvalid' d); simpl.
    + destruct (assoc d (r_blobs (get_repo cfg r s))); simpl; rewrite IH; unfold missing_in; f_equal; f_equal; lia.
    + rewrite IH. unfold missing_in. f_equal. f_equal. lia.
Qed.

(* acceptance is sound: a 201 means every gate of manifestPut was passed: the reference is a tag or
   a digest, the declared digest (path or ?digest=) is the digest of the body, the media type is
   supported and of the body's kind, the body parses for that type, it is within the size limit,
   and every referenced config / layer / child manifest is present in this very repository *)
Definition mp_refs (E : env) (mt body : string) : list string :=
  let v := e_view E body in
  if mt_image mt
  then (match j_config v with Some c => d_dig c | None => "" end) :: map d_dig (j_layers v)
  else map d_dig (j_manifests v).

Definition mp_accept_cond (cfg : config) (E : env) (r arg ctype : string) (clen : Z) (dq body : string) (s : state) : Prop :=
  let v := e_view E body in
  let mt := if nonempty ctype then ctype else mt_detect v in
  let dexp := if is_tag arg then dq else arg in
  let alg := if nonempty dexp then dig_alg dexp else "sha256" in
  nonempty ctype && negb (supported_mt ctype) = false
  /\ (clen >? c_mlimit cfg)%Z = false
  /\ nonempty dq && negb (dvalid dq) = false
  /\ negb (is_tag arg) && negb (dvalid arg) = false
  /\ (e_len E body >? c_mlimit cfg)%Z = false
  /\ nonempty dexp && negb (String.eqb (e_hash E alg body) dexp) = false
  /\ nonempty ctype && nonempty (mt_detect v) && negb (mt_kind_eq (mt_detect v) mt) = false
  /\ negb (supported_mt mt) = false
  /\ negb (if mt_image mt then j_ok_m v else j_ok_i v) = false
  /\ missing_in cfg r s (mp_refs E mt body) = 0%nat.

Theorem manifest_put_accept_sound cfg E r arg ctype clen dq body s s' o :
  run cfg E (h_manifest_put cfg E r arg ctype clen dq body) s = (s', o) ->
  rs_status o = 201%Z -> mp_accept_cond cfg E r arg ctype clen dq body s.
Proof.
  unfold h_manifest_put, with_repo, mp_accept_cond, mp_refs. intros H H1.
  destruct (c_readonly cfg); [simpl in H; inversion H; subst; simpl in *; discriminate|].
  rewrite run_read in H by reflexivity.
  destruct (snd (exec_act cfg E (ARepoGet r) s)) as [| [] | | |]; try (simpl in H; inversion H; subst; simpl in *; discriminate).
  all: repeat match type of H with
              | run _ _ (if ?b then _ else _) _ = _ => destruct b eqn:?; [simpl in H; inversion H; subst; simpl in *; discriminate|]
              end.
  all: rewrite check_blobs_count in H; cbv beta in H; simpl plus in H.
  all: match type of H with run _ _ (if negb (?m =? 0)%nat then _ else _) _ = _ => destruct m eqn:Em end;
       [|simpl in H; inversion H; subst; simpl in *; discriminate].
  all: repeat split; auto.
Qed.

(* ---- C08: upload sessions are sequential ------------------------------------------------------------ *)
Lemma find_put_sess x rp sid :
  find_sess sid (put_sess x rp) = if String.eqb (s_id x) sid then Some x else find_sess sid rp.
Proof.
  unfold find_sess, put_sess. simpl. destruct (String.eqb (s_id x) sid) eqn:E; auto.
  induction (r_uploads rp) as [|y l IH]; simpl; auto.
  destruct (String.eqb (s_id y) (s_id x)) eqn:E2; simpl.
  - apply String.eqb_eq in E2. rewrite E2, E. auto.
  - destruct (String.eqb (s_id y) sid); auto.
Qed.

Lemma find_sess_id sid rp x : find_sess sid rp = Some x -> s_id x = sid.
Proof. unfold find_sess. intros H. apply find_some in H. destruct H as [_ H]. apply String.eqb_eq in H. auto. Qed.

(* observable content of a repository's sessions and blobs *)
Definition same_content cfg (s s' : state) : Prop :=
  forall r, r_blobs (get_repo cfg r s') = r_blobs (get_repo cfg r s)
            /\ r_index (get_repo cfg r s') = r_index (get_repo cfg r s)
            /\ forall sid, find_sess sid (get_repo cfg r s') = find_sess sid (get_repo cfg r s).

Lemma same_content_refl cfg s : same_content cfg s s.
Proof. intros r. auto. Qed.

Lemma sess_get_same cfg E r sid s : same_content cfg s (fst (exec_act cfg E (ASessGet r sid) s)).
Proof.
  simpl. destruct (find_sess sid (get_repo cfg r s)) as [x|] eqn:Ef; simpl; [|apply same_content_refl].
  intros r'. destruct (string_dec r r') as [<-|Hn].
  - rewrite get_repo_set_same. simpl. repeat split; auto. intros sid'.
    rewrite find_put_sess. destruct (String.eqb (s_id x) sid') eqn:E2; auto.
    apply String.eqb_eq in E2. subst sid'. rewrite (find_sess_id _ _ _ Ef) in *. auto.
  - rewrite get_repo_set_other by auto. auto.
Qed.

(* a chunk whose Content-Range start or state offset differs from the bytes received (or whose
   state cannot be decoded) is refused with 416/400 and alters neither sessions nor blobs *)
Theorem patch_refused_unchanged cfg E r sid cr st body s s' o x :
  find_sess sid (get_repo cfg r s) = Some x ->
  repo_allowed cfg r = true ->
  (valid_range cr (e_len E (s_data x)) = false \/ st <> Some (e_len E (s_data x))) ->
  run cfg E (upload_patch E r sid cr st body) s = (s', o) ->
  (rs_status o = 416 \/ rs_status o = 400)%Z /\ same_content cfg s s'.
Proof.
  intros Hf Ha Hbad H. unfold upload_patch, sess_prog, with_repo in H.
  rewrite run_read in H by reflexivity. simpl exec_act in H. rewrite Ha in H. simpl snd in H. cbv iota in H.
  pose proof (sess_get_same cfg E r sid s) as Hsame.
  simpl run in H. simpl in Hsame. rewrite Hf in *. simpl in *.
  destruct (valid_range cr (e_len E (s_data x))) eqn:Ev.
  - simpl in H. destruct st as [off|].
    + destruct (Z.eqb off (e_len E (s_data x))) eqn:Eo.
      * apply Z.eqb_eq in Eo. subst. destruct Hbad; [discriminate|congruence].
      * simpl in H. inversion H; subst. split; auto.
    + inversion H; subst. split; auto.
  - simpl in H. inversion H; subst. split; auto.
Qed.

(* an in-order chunk is appended: the session afterwards holds exactly the old bytes followed by the body *)
Theorem patch_accepted_appends cfg E r sid cr st body s s' o :
  run cfg E (upload_patch E r sid cr st body) s = (s', o) ->
  rs_status o = 202%Z ->
  exists x, find_sess sid (get_repo cfg r s) = Some x
            /\ valid_range cr (e_len E (s_data x)) = true /\ st = Some (e_len E (s_data x))
            /\ exists x', find_sess sid (get_repo cfg r s') = Some x'
                          /\ s_data x' = (s_data x ++ body)%string
                          /\ rs_range o = range_hdr E x'.
Proof.
  intros H Hs. unfold upload_patch, sess_prog, with_repo in H.
  simpl in H. destruct (repo_allowed cfg r); [|simpl in H; inversion H; subst; simpl in *; discriminate].
  simpl in H.
  destruct (find_sess sid (get_repo cfg r s)) as [x|] eqn:Ef; [|simpl in H; inversion H; subst; simpl in *; discriminate].
  simpl in H. exists x. split; auto.
  destruct (valid_range cr (e_len E (s_data x))) eqn:Ev; [|simpl in H; inversion H; subst; simpl in *; discriminate].
  simpl in H. destruct st as [off|]; [|inversion H; subst; simpl in *; discriminate].
  destruct (Z.eqb off (e_len E (s_data x))) eqn:Eo; [|simpl in H; inversion H; subst; simpl in *; discriminate].
  apply Z.eqb_eq in Eo. subst off. simpl in H. split; auto. split; auto.
  rewrite get_repo_set_same in H. rewrite find_put_sess in H.
  pose proof (find_sess_id _ _ _ Ef) as Hid. rewrite Hid, String.eqb_refl in H.
  destruct (s_broken x); [simpl in H; inversion H; subst; simpl in *; discriminate|].
  simpl in H. inversion H; subst. eexists. rewrite get_repo_set_same, find_put_sess. simpl.
  rewrite String.eqb_refl. split; [reflexivity|]. split; reflexivity.
Qed.

(* the status query reports exactly the bytes received *)
Theorem upload_get_exact cfg E r sid s s' o :
  run cfg E (h_upload_get E r sid) s = (s', o) ->
  rs_status o = 204%Z ->
  exists x, find_sess sid (get_repo cfg r s) = Some x /\ rs_range o = range_hdr E x /\ same_content cfg s s'.
Proof.
  intros H Hs. unfold h_upload_get, sess_prog, with_repo in H.
  simpl in H. destruct (repo_allowed cfg r); [|simpl in H; inversion H; subst; simpl in *; discriminate].
  pose proof (sess_get_same cfg E r sid s) as Hsame.
  simpl in H. simpl in Hsame.
  destruct (find_sess sid (get_repo cfg r s)) as [x|] eqn:Ef; [|simpl in H; inversion H; subst; simpl in *; discriminate].
  simpl in *. inversion H; subst. exists x. split; [reflexivity|]. split; [reflexivity|exact Hsame].
Qed.

(* a session id is only found in the repository that created it: sessions of other repositories
   are never consulted (frame), and an unknown id is refused before anything is touched *)
Theorem session_unknown_refused cfg E r sid cr st body s :
  find_sess sid (get_repo cfg r s) = None ->
  let res := run cfg E (upload_patch E r sid cr st body) s in
  fst res = s /\ (400 <= rs_status (snd res) <= 500)%Z /\ rs_status (snd res) <> 202%Z.
Proof.
  intros Hf. unfold upload_patch, sess_prog, with_repo. simpl.
  destruct (repo_allowed cfg r); simpl; rewrite ?Hf; simpl; repeat split; auto; lia.
Qed.

(* ---- C02: stored content persists ---------------------------------------------------------------------- *)
Definition hash_inj (E : env) : Prop :=
  forall a a' c c', e_hash E a c = e_hash E a' c' -> c = c'.

Definition stored cfg (s : state) (r d c : string) : Prop :=
  exists t, assoc d (r_blobs (get_repo cfg r s)) = Some (mkB (BRaw c) t).

Definition raw_not_resp (d : string) : Prop := forall l, d <> resp_digest l.

Lemma stored_set_repo cfg r rp s d c :
  (exists t, assoc d (r_blobs rp) = Some (mkB (BRaw c) t)) -> stored cfg (set_repo r rp s) r d c.
Proof. intros [t H]. exists t. rewrite get_repo_set_same. exact H. Qed.

Lemma exec_act_keeps_stored cfg E a s r d c :
  hash_inj E -> BlobsOK E s -> raw_not_resp d ->
  stored cfg s r d c ->
  a <> ABlobDelete r d ->
  stored cfg (fst (exec_act cfg E a s)) r d c.
Proof.
  intros Hinj Hok Hnr [t Hst] Hna.
  destruct (string_dec (act_repo a) r) as [Hr|Hr].
  2:{ exists t. rewrite exec_act_frame; auto. }
  destruct a; simpl in Hr; subst; simpl;
    repeat match goal with
           | |- context [if ?b then _ else _] => destruct b eqn:?
           | |- context [match ?x with _ => _ end] => destruct x eqn:?
           end; simpl; try (exists t; exact Hst);
    try (apply stored_set_repo; simpl; exists t; exact Hst).
  all: try (unfold stored, get_repo; simpl; rewrite String.eqb_refl; simpl; exists t; exact Hst).
  all: apply stored_set_repo; unfold del_blob, del_sess, put_blob; cbn [r_blobs].
  all: match goal with
       | Hb : assoc ?e (r_blobs (get_repo ?cc ?rr ?ss)) = Some ?be |- exists _, assoc ?dd (assoc_set ?e (mkB (b_data ?be) _) _) = _ =>
           (* BlobCreate of content that is there: the same content under a new time *)
           destruct (string_dec e dd) as [Hd|Hd];
           [ subst; rewrite assoc_set_same; rewrite Hst in Hb; inversion Hb; subst; simpl; eexists; reflexivity
           | rewrite assoc_set_other by auto; exists t; exact Hst ]
       | |- exists _, assoc ?dd (assoc_del ?k _) = _ =>
           destruct (string_dec k dd) as [->|Hd]; [congruence|rewrite assoc_del_other by auto; exists t; exact Hst]
       | |- exists _, assoc ?dd (assoc_set (resp_digest ?l) _ _) = _ =>
           destruct (string_dec (resp_digest l) dd) as [Hd|Hd]; [exfalso; apply (Hnr l); auto|];
           rewrite assoc_set_other by auto; exists t; exact Hst
       | |- exists _, assoc ?dd (assoc_set (sess_digest ?ee ?x) _ _) = _ =>
           destruct (string_dec (sess_digest ee x) dd) as [Hd|Hd];
           [ subst dd; rewrite assoc_set_same;
             pose proof (get_repo_ok cfg E r s Hok _ _ Hst) as Hb; simpl in Hb; destruct Hb as [a0 Ha0];
             unfold sess_digest in Ha0; apply Hinj in Ha0; subst c; eexists; reflexivity
           | rewrite assoc_set_other by auto; exists t; exact Hst ]
       end.
Qed.

(* programs that never issue a given action *)
Inductive avoids (bad : act) : prog -> Prop :=
| AV_ret o : avoids bad (Ret o)
| AV_do a k : a <> bad -> (forall x, avoids bad (k x)) -> avoids bad (Do a k).

Lemma avoids_keeps cfg E r d c p :
  hash_inj E -> raw_not_resp d -> avoids (ABlobDelete r d) p ->
  forall s, BlobsOK E s -> stored cfg s r d c -> stored cfg (fst (run cfg E p s)) r d c.
Proof.
  intros Hinj Hnr. induction 1 as [o|a k Ha Hk IH]; intros s Hok Hst; simpl; auto.
  pose proof (exec_act_keeps_stored cfg E a s r d c Hinj Hok Hnr Hst Ha) as H1.
  pose proof (exec_act_blobs_ok cfg E a s Hok) as H2.
  destruct (exec_act cfg E a s) as [s1 x]. simpl in *. apply IH; auto.
Qed.

Ltac av_step :=
  match goal with
  | |- avoids _ (Ret _) => apply AV_ret
  | |- avoids _ (Do _ _) => apply AV_do; [discriminate | intros ?]
  | |- avoids _ (if ?b then _ else _) => destruct b
  | |- avoids _ (match ?x with _ => _ end) => destruct x
  | |- avoids _ (let (_, _) := ?x in _) => destruct x
  end.
Ltac av := repeat av_step.

Lemma check_blobs_av bad r ds : (forall r' d', bad <> ABlobGet r' d') ->
  forall m k, (forall n, avoids bad (k n)) -> avoids bad (check_blobs r ds m k).
Proof.
  intros Hb. induction ds as [|d rest IH]; intros m k Hk; simpl; auto.
  apply AV_do; [intro E; symmetry in E; exact (Hb _ _ E)|]. intros x. destruct x; apply IH; auto.
Qed.

Lemma referrer_store_av r0 d0 r subj ri k1 k2 :
  avoids (ABlobDelete r0 d0) k1 -> avoids (ABlobDelete r0 d0) k2 -> avoids (ABlobDelete r0 d0) (referrer_store r subj ri k1 k2).
Proof. intros. unfold referrer_store. av; auto. Qed.
Lemma referrer_add_av r0 d0 E r subj d k1 k2 :
  avoids (ABlobDelete r0 d0) k1 -> avoids (ABlobDelete r0 d0) k2 -> avoids (ABlobDelete r0 d0) (referrer_add E r subj d k1 k2).
Proof. intros. unfold referrer_add. av; auto; apply referrer_store_av; auto. Qed.
Lemma referrer_delete_av r0 d0 E r subj d k :
  avoids (ABlobDelete r0 d0) k -> avoids (ABlobDelete r0 d0) (referrer_delete E r subj d k).
Proof. intros. unfold referrer_delete. av; auto; apply referrer_store_av; auto. Qed.
Lemma mp_commit_av r0 d0 E r tag mt d alg body children subj :
  avoids (ABlobDelete r0 d0) (mp_commit E r tag mt d alg body children subj).
Proof. unfold mp_commit. av; try apply referrer_add_av; av. Qed.

Lemma handler_avoids cfg E q r d : q <> QBlobDelete r d -> avoids (ABlobDelete r d) (handler cfg E q).
Proof.
  intros Hq. destruct q; simpl.
  - unfold h_blob_get, with_repo. av.
  - unfold h_blob_delete, with_repo.
    repeat match goal with
           | |- avoids _ (Ret _) => apply AV_ret
           | |- avoids _ (if ?b then _ else _) => destruct b
           | |- avoids _ (match ?x with _ => _ end) => destruct x
           | |- avoids _ (Do (ARepoGet _) _) => apply AV_do; [discriminate | intros ?]
           | |- avoids _ (Do (ABlobDelete _ _) _) => apply AV_do; [intro E0; inversion E0; subst; congruence | intros ?]
           end.
  - unfold upload_post, upload_mount, with_repo. av.
  - unfold upload_patch, sess_prog, with_repo. av.
  - unfold upload_put, sess_prog, with_repo. av.
  - unfold h_upload_get, sess_prog, with_repo. av.
  - unfold h_upload_delete, sess_prog, with_repo. av.
  - unfold h_manifest_get, with_repo. av.
  - unfold h_manifest_put, with_repo. av.
    all: try (apply check_blobs_av; [intros; discriminate|]; intros n; av; apply mp_commit_av).
  - unfold h_manifest_delete, with_repo. av; try apply referrer_delete_av; av.
  - unfold h_tag_list, with_repo. av.
  - unfold h_referrers. av.
  - av.
  - av.
  - av.
  - av.
Qed.

(* once stored, a blob stays readable with the same bytes through every client request except a
   delete of that very digest in that repository *)
Theorem stored_persists cfg E s q r d c :
  hash_inj E -> BlobsOK E s -> raw_not_resp d ->
  stored cfg s r d c ->
  client_req q = true -> q <> QBlobDelete r d ->
  stored cfg (fst (step cfg E s q)) r d c.
Proof.
  intros Hinj Hok Hnr Hst Hc Hq.
  destruct q; try discriminate; unfold step; apply avoids_keeps; auto; apply handler_avoids; auto.
Qed.

(* and reading it back gives exactly those bytes under that digest *)
Theorem stored_read_back cfg E s r d c rng :
  stored cfg s r d c -> dvalid d = true -> repo_allowed cfg r = true ->
  let res := run cfg E (h_blob_get E r d rng) s in
  fst res = s /\ rs_status (snd res) = (match rng with Some _ => 206 | None => 200 end)%Z
  /\ rs_digest (snd res) = d /\ rs_body (snd res) = BoBlob (BRaw c) rng.
Proof.
  intros [t Hst] Hv Ha. unfold h_blob_get, with_repo. rewrite Hv. simpl.
  rewrite Ha. simpl. unfold dvalid'. rewrite Hv. simpl. rewrite Hst. simpl. auto.
Qed.
