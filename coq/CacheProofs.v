(* CacheProofs.v — invariants and laws of the bounded cache model (Cache.v). *)
From Olareg Require Import Base Cache.
From Coq Require Import Sorting.Sorted Sorting.Permutation.
Local Open Scope list_scope.
Local Open Scope Z_scope.

(* ---- vocabulary -------------------------------------------------------------------------------------- *)
(* the Entry object e (identified by c_eid) is no longer in the cache *)
Definition gone (e : centry) (l : list centry) : Prop := forall e', In e' l -> c_eid e' <> c_eid e.
Definition present (e : centry) (l : list centry) : Prop := exists e', In e' l /\ c_eid e' = c_eid e /\ c_key e' = c_key e /\ c_val e' = c_val e.

(* the key an event stores a new value under (a Set replaces whatever the key held) *)
Definition ev_sets (ev : cev) : option string :=
  match ev with
  | CSet k _ _ | CDeleteSetBetween k _ _ _ | CSetP k _ _ _ _ | CDeleteSetBetweenP k _ _ _ _ _ => Some k
  | _ => None
  end.

Definition failing (fails : list string) (e : centry) : bool := existsb (String.eqb (c_key e)) fails.

Lemma present_gone e l : present e l -> gone e l -> False.
Proof. intros [e' [Hin [He _]]] Hg. exact (Hg e' Hin He). Qed.

Lemma in_present e l : In e l -> present e l.
Proof. intros H. exists e. auto. Qed.

(* ---- cfind / cdel ------------------------------------------------------------------------------------ *)
Lemma cfind_some k l e : cfind k l = Some e -> In e l /\ c_key e = k.
Proof.
  unfold cfind. intros H. apply find_some in H. destruct H as [Hin Hk]. apply String.eqb_eq in Hk. auto.
Qed.

Lemma cfind_none k l e : cfind k l = None -> In e l -> c_key e <> k.
Proof.
  unfold cfind. intros H Hin Hk. pose proof (find_none _ _ H e Hin) as Hf. simpl in Hf.
  rewrite Hk, String.eqb_refl in Hf. discriminate.
Qed.

Lemma in_cdel k l e : In e (cdel k l) <-> In e l /\ c_key e <> k.
Proof.
  unfold cdel. rewrite filter_In. split; intros [H1 H2]; split; auto.
  - intros Hk. rewrite Hk, String.eqb_refl in H2. discriminate.
  - destruct (String.eqb_spec (c_key e) k); [contradiction|reflexivity].
Qed.

Lemma keys_cdel k l : ~ In k (map c_key (cdel k l)).
Proof. rewrite in_map_iff. intros [e [Hk Hin]]. apply in_cdel in Hin. destruct Hin as [_ Hne]. contradiction. Qed.

Lemma NoDup_map_filter {A B} (f : A -> B) (p : A -> bool) l : NoDup (map f l) -> NoDup (map f (filter p l)).
Proof.
  induction l as [|x r IH]; simpl; intros H; [constructor|]. inversion H as [|? ? Hn Hr]; subst.
  destruct (p x); simpl; auto. constructor; auto.
  rewrite in_map_iff in *. intros [y [Hy Hin]]. apply Hn. exists y. apply filter_In in Hin. tauto.
Qed.

Lemma cfind_unique k l e e0 : NoDup (map c_key l) -> cfind k l = Some e0 -> In e l -> c_key e = k -> e = e0.
Proof.
  unfold cfind. induction l as [|x r IH]; simpl; intros Hn Hf Hin Hk; [contradiction|].
  inversion Hn as [|? ? Hx Hr]; subst.
  destruct (String.eqb_spec (c_key x) (c_key e)) as [Heq|Hne].
  - inversion Hf; subst. destruct Hin as [->|Hin]; [reflexivity|].
    exfalso. apply Hx. rewrite Heq. apply in_map. exact Hin.
  - destruct Hin as [->|Hin]; [contradiction|]. apply IH; auto.
Qed.

(* ---- the invariant ----------------------------------------------------------------------------------- *)
Definition tinv (c : cache) : Prop := c_timer c = (0 <? c_minage c) && negb (is_nil (c_entries c)).

Record cinv (c : cache) : Prop := mkInv {
  inv_keys : NoDup (c_keys c);
  inv_eids : Forall (fun e => (c_eid e < c_next c)%nat) (c_entries c);
  inv_timer : tinv c
}.

Lemma new_cache_inv age count hasfn : cinv (new_cache age count hasfn).
Proof.
  constructor; simpl; try constructor. unfold tinv. simpl. rewrite andb_false_r. reflexivity.
Qed.

(* configuration is immutable *)
Definition same_params (c c' : cache) : Prop :=
  c_minage c' = c_minage c /\ c_mincount c' = c_mincount c /\ c_maxcount c' = c_maxcount c /\ c_hasfn c' = c_hasfn c.

Lemma same_params_refl c : same_params c c. Proof. repeat split. Qed.
Lemma same_params_trans a b c : same_params a b -> same_params b c -> same_params a c.
Proof. unfold same_params. intros [? [? [? ?]]] [? [? [? ?]]]. repeat split; congruence. Qed.

(* ---- Set --------------------------------------------------------------------------------------------- *)
Lemma set_keeps c k v t e : In e (c_entries c) -> c_key e <> k -> In e (c_entries (c_set c k v t)).
Proof. intros Hin Hk. simpl. apply in_or_app. left. apply in_cdel. auto. Qed.

Lemma set_has c k v t : In (mkCE k t v (c_next c)) (c_entries (c_set c k v t)).
Proof. simpl. apply in_or_app. right. left. reflexivity. Qed.

Lemma nonempty_app {A} (l : list A) x : is_nil (l ++ [x]) = false.
Proof. destruct l; reflexivity. Qed.

Lemma NoDup_snoc {A} (l : list A) x : NoDup l -> ~ In x l -> NoDup (l ++ [x]).
Proof.
  induction l as [|y r IH]; simpl; intros Hn Hx; [constructor; auto; constructor|].
  inversion Hn as [|? ? Hy Hr]; subst. constructor.
  - rewrite in_app_iff. simpl. intros [H|[H|[]]]; [contradiction|]. subst. apply Hx. left. reflexivity.
  - apply IH; auto.
Qed.

Lemma set_inv c k v t : cinv c -> cinv (c_set c k v t).
Proof.
  intros [Hk He Ht]. constructor.
  - unfold c_keys. simpl. rewrite map_app. simpl. apply NoDup_snoc; [|apply keys_cdel].
    unfold cdel. apply NoDup_map_filter. exact Hk.
  - simpl. apply Forall_app. split.
    + rewrite Forall_forall in *. intros e Hin. apply in_cdel in Hin. destruct Hin as [Hin _]. specialize (He e Hin). lia.
    + constructor; [simpl; lia|constructor].
  - unfold tinv in *. simpl. rewrite nonempty_app. simpl. rewrite andb_true_r. rewrite Ht.
    destruct (0 <? c_minage c); destruct (is_nil (c_entries c)); reflexivity.
Qed.

Lemma set_params c k v t : same_params c (c_set c k v t).
Proof. repeat split. Qed.

(* ---- Get --------------------------------------------------------------------------------------------- *)
Definition touch (k : string) (t : Z) (x : centry) : centry :=
  if String.eqb (c_key x) k then mkCE k t (c_val x) (c_eid x) else x.

Lemma touch_key k t x : c_key (touch k t x) = c_key x.
Proof. unfold touch. destruct (String.eqb_spec (c_key x) k); simpl; auto. Qed.
Lemma touch_eid k t x : c_eid (touch k t x) = c_eid x.
Proof. unfold touch. destruct (String.eqb (c_key x) k); reflexivity. Qed.
Lemma touch_val k t x : c_val (touch k t x) = c_val x.
Proof. unfold touch. destruct (String.eqb (c_key x) k); reflexivity. Qed.

Lemma get_entries c k t : c_entries (fst (c_get c k t)) = map (touch k t) (c_entries c) \/ fst (c_get c k t) = c.
Proof. unfold c_get. destruct (cfind k (c_entries c)); simpl; auto. Qed.

Lemma get_present c k t e : In e (c_entries c) -> present e (c_entries (fst (c_get c k t))).
Proof.
  intros Hin. destruct (get_entries c k t) as [H|H]; rewrite H; [|apply in_present; auto].
  exists (touch k t e). split; [apply in_map; auto|]. rewrite touch_eid, touch_key, touch_val. auto.
Qed.

Lemma map_is_nil {A B} (f : A -> B) l : is_nil (map f l) = is_nil l.
Proof. destruct l; reflexivity. Qed.

Lemma get_inv c k t : cinv c -> cinv (fst (c_get c k t)).
Proof.
  intros Hc. unfold c_get. destruct (cfind k (c_entries c)); simpl; [|exact Hc].
  destruct Hc as [Hk He Ht]. constructor.
  - unfold c_keys. simpl. rewrite map_map.
    replace (map (fun x => c_key (if String.eqb (c_key x) k then mkCE k t (c_val x) (c_eid x) else x)) (c_entries c))
      with (map c_key (c_entries c)); [exact Hk|].
    apply map_ext. intros x. exact (eq_sym (touch_key k t x)).
  - simpl. rewrite Forall_forall in *. intros e Hin. apply in_map_iff in Hin. destruct Hin as [x [Hx Hin]]. subst e.
    specialize (He x Hin). change (c_eid (touch k t x) < c_next c)%nat. rewrite touch_eid. exact He.
  - unfold tinv in *. simpl. rewrite map_is_nil. exact Ht.
Qed.

Lemma get_params c k t : same_params c (fst (c_get c k t)).
Proof. unfold c_get. destruct (cfind k (c_entries c)); repeat split. Qed.

(* a Get answers with the stored value *)
Lemma get_value c k t e : NoDup (c_keys c) -> In e (c_entries c) -> c_key e = k -> snd (c_get c k t) = Some (c_val e).
Proof.
  intros Hn Hin Hk. unfold c_get. destruct (cfind k (c_entries c)) as [e0|] eqn:Ef.
  - simpl. rewrite (cfind_unique k _ e e0 Hn Ef Hin Hk). reflexivity.
  - exfalso. exact (cfind_none _ _ _ Ef Hin Hk).
Qed.

(* ---- stop_if_empty / with_entries -------------------------------------------------------------------- *)
Lemma stop_entries c : c_entries (stop_if_empty c) = c_entries c.
Proof. unfold stop_if_empty. destruct (is_nil (c_entries c)); reflexivity. Qed.
Lemma stop_next c : c_next (stop_if_empty c) = c_next c.
Proof. unfold stop_if_empty. destruct (is_nil (c_entries c)); reflexivity. Qed.
Lemma stop_params c : same_params c (stop_if_empty c).
Proof. unfold stop_if_empty. destruct (is_nil (c_entries c)); repeat split. Qed.

(* shrinking the entries to a sub-collection and stopping the timer when empty keeps the invariant *)
Lemma shrink_inv c l :
  cinv c -> NoDup (map c_key l) -> Forall (fun e => (c_eid e < c_next c)%nat) l ->
  (is_nil (c_entries c) = true -> is_nil l = true) ->
  cinv (stop_if_empty (with_entries c l)).
Proof.
  intros [Hk He Ht] Hn Hf Hnil. constructor.
  - unfold c_keys. rewrite stop_entries. exact Hn.
  - rewrite stop_entries, stop_next. exact Hf.
  - unfold tinv in *. unfold stop_if_empty. simpl. destruct (is_nil l) eqn:El; simpl.
    + rewrite El. rewrite andb_false_r. reflexivity.
    + rewrite El. rewrite Ht. destruct (is_nil (c_entries c)) eqn:E0; [specialize (Hnil eq_refl); discriminate|reflexivity].
Qed.

Lemma cdel_inv c k : cinv c -> cinv (stop_if_empty (with_entries c (cdel k (c_entries c)))).
Proof.
  intros Hc. apply shrink_inv; auto.
  - unfold cdel. apply NoDup_map_filter. exact (inv_keys _ Hc).
  - pose proof (inv_eids _ Hc) as He. rewrite Forall_forall in *. intros e Hin. apply in_cdel in Hin. apply He. tauto.
  - destruct (c_entries c); [reflexivity|discriminate].
Qed.

(* ---- Delete ------------------------------------------------------------------------------------------ *)
Lemma delete_end_inv c k st ok : cinv c -> cinv (fst (c_delete_end c k st ok)).
Proof.
  intros Hc. unfold c_delete_end. destruct st as [e0|].
  - destruct ok; cbn [negb fst]; [|exact Hc]. destruct (cfind k (c_entries c)) as [e|]; [|exact Hc].
    destruct (Nat.eqb (c_eid e) (c_eid e0)); cbn [fst]; [apply cdel_inv; exact Hc|exact Hc].
  - cbn [fst]. apply cdel_inv. exact Hc.
Qed.

Lemma delete_end_params c k st ok : same_params c (fst (c_delete_end c k st ok)).
Proof.
  unfold c_delete_end. destruct st as [e0|].
  - destruct ok; cbn [negb fst]; [|apply same_params_refl]. destruct (cfind k (c_entries c)) as [e|]; [|apply same_params_refl].
    destruct (Nat.eqb (c_eid e) (c_eid e0)); cbn [fst]; [|apply same_params_refl].
    eapply same_params_trans; [|apply stop_params]. repeat split.
  - cbn [fst]. eapply same_params_trans; [|apply stop_params]. repeat split.
Qed.

(* entries of other keys are never touched by Delete's second half *)
Lemma delete_end_other c k st ok e : In e (c_entries c) -> c_key e <> k -> In e (c_entries (fst (c_delete_end c k st ok))).
Proof.
  intros Hin Hk. unfold c_delete_end. destruct st as [e0|].
  - destruct ok; cbn [negb fst]; auto. destruct (cfind k (c_entries c)) as [e1|]; auto.
    destruct (Nat.eqb (c_eid e1) (c_eid e0)); cbn [fst]; auto. rewrite stop_entries. cbn [with_entries c_entries]. apply in_cdel. auto.
  - cbn [fst]. rewrite stop_entries. cbn [with_entries c_entries]. apply in_cdel. auto.
Qed.

(* ---- DeleteAll --------------------------------------------------------------------------------------- *)
Lemma delete_all_entries c fails :
  c_entries (fst (fst (c_delete_all c fails))) = if c_hasfn c then filter (failing fails) (c_entries c) else [].
Proof. unfold c_delete_all. destruct (c_hasfn c); cbn [fst]; rewrite stop_entries; reflexivity. Qed.

Lemma delete_all_inv c fails : cinv c -> cinv (fst (fst (c_delete_all c fails))).
Proof.
  intros Hc. unfold c_delete_all. destruct (c_hasfn c); cbn [fst].
  - apply shrink_inv; auto.
    + apply NoDup_map_filter. exact (inv_keys _ Hc).
    + pose proof (inv_eids _ Hc) as He. rewrite Forall_forall in *. intros e Hin. apply filter_In in Hin. apply He. tauto.
    + destruct (c_entries c); [reflexivity|discriminate].
  - apply shrink_inv; auto. constructor.
Qed.

Lemma delete_all_params c fails : same_params c (fst (fst (c_delete_all c fails))).
Proof.
  unfold c_delete_all. destruct (c_hasfn c); cbn [fst]; (eapply same_params_trans; [|apply stop_params]); repeat split.
Qed.

(* ---- pruneAge ---------------------------------------------------------------------------------------- *)
Definition refresh (t : Z) (e : centry) : centry := mkCE (c_key e) t (c_val e) (c_eid e).

(* closed form of the fold: per entry, keep / refresh / drop *)
Definition age_keep (c : cache) (t : Z) (fails : list string) (e : centry) : option centry :=
  if c_used e <? t - c_minage c then
    if c_hasfn c && failing fails e then Some (refresh t e) else None
  else Some e.

Definition age_call (c : cache) (t : Z) (fails : list string) (e : centry) : option cbcall :=
  if (c_used e <? t - c_minage c) && c_hasfn c then Some (c_key e, c_val e, negb (failing fails e)) else None.

Fixpoint filter_map {A B} (f : A -> option B) (l : list A) : list B :=
  match l with [] => [] | x :: r => match f x with Some y => y :: filter_map f r | None => filter_map f r end end.

Lemma in_filter_map {A B} (f : A -> option B) l y : In y (filter_map f l) <-> exists x, In x l /\ f x = Some y.
Proof.
  induction l as [|x r IH]; simpl; [split; [tauto|intros [? [[] _]]]|].
  destruct (f x) eqn:E; simpl; rewrite ?IH; split.
  - intros [->|[x0 [H1 H2]]]; [exists x; auto|exists x0; auto].
  - intros [x0 [[->|H1] H2]]; [left; congruence|right; exists x0; auto].
  - intros [x0 [H1 H2]]. exists x0; auto.
  - intros [x0 [[->|H1] H2]]; [congruence|exists x0; auto].
Qed.

Lemma prune_age_fold c t fails l : forall kept calls,
  fold_left (prune_age_entry c t fails) l (kept, calls) =
  (kept ++ filter_map (age_keep c t fails) l, calls ++ filter_map (age_call c t fails) l).
Proof.
  induction l as [|e r IH]; intros kept calls; simpl; [rewrite !app_nil_r; reflexivity|].
  unfold age_keep at 1, age_call at 1. unfold failing.
  destruct (c_used e <? t - c_minage c); simpl.
  - destruct (c_hasfn c); simpl.
    + destruct (existsb (String.eqb (c_key e)) fails); simpl; rewrite IH, <- ?app_assoc; reflexivity.
    + rewrite IH. reflexivity.
  - rewrite IH, <- app_assoc. reflexivity.
Qed.

Lemma prune_age_spec c t fails :
  c_prune_age c t fails =
  if c_minage c <=? 0 then (c, [])
  else (timer_after_age (with_entries c (filter_map (age_keep c t fails) (c_entries c))),
        filter_map (age_call c t fails) (c_entries c)).
Proof.
  unfold c_prune_age. destruct (c_minage c <=? 0); [reflexivity|]. rewrite prune_age_fold. reflexivity.
Qed.

Lemma age_keep_key c t fails e e' : age_keep c t fails e = Some e' -> c_key e' = c_key e /\ c_eid e' = c_eid e /\ c_val e' = c_val e.
Proof.
  unfold age_keep. destruct (c_used e <? t - c_minage c).
  - destruct (c_hasfn c && failing fails e); [|discriminate]. intros H; inversion H; subst. auto.
  - intros H; inversion H; subst. auto.
Qed.

Lemma NoDup_keys_filter_map (f : centry -> option centry) l :
  (forall e e', f e = Some e' -> c_key e' = c_key e) -> NoDup (map c_key l) -> NoDup (map c_key (filter_map f l)).
Proof.
  intros Hf. induction l as [|x r IH]; simpl; intros Hn; [constructor|]. inversion Hn as [|? ? Hx Hr]; subst.
  destruct (f x) as [y|] eqn:E; simpl; auto. constructor; auto.
  rewrite (Hf _ _ E). rewrite in_map_iff in *. intros [z [Hz Hin]]. apply in_filter_map in Hin.
  destruct Hin as [w [Hw Hfw]]. apply Hx. exists w. split; auto. rewrite <- (Hf _ _ Hfw). exact Hz.
Qed.

Lemma prune_age_inv c t fails : cinv c -> cinv (fst (c_prune_age c t fails)).
Proof.
  intros Hc. rewrite prune_age_spec. destruct (c_minage c <=? 0) eqn:Em; simpl; [exact Hc|].
  destruct Hc as [Hk He Ht]. constructor.
  - unfold c_keys. simpl. apply NoDup_keys_filter_map; auto. intros e e' H. apply age_keep_key in H. tauto.
  - simpl. rewrite Forall_forall in *. intros e' Hin. apply in_filter_map in Hin. destruct Hin as [e [Hin Hf]].
    apply age_keep_key in Hf. destruct Hf as [_ [Hid _]]. rewrite Hid. apply He. exact Hin.
  - unfold tinv. simpl. apply Z.leb_gt in Em. destruct (Z.ltb_spec 0 (c_minage c)); [reflexivity|lia].
Qed.

Lemma prune_age_params c t fails : same_params c (fst (c_prune_age c t fails)).
Proof. rewrite prune_age_spec. destruct (c_minage c <=? 0); repeat split. Qed.

(* ---- pruneCount: sorting ----------------------------------------------------------------------------- *)
Definition le_used (a b : centry) : Prop := c_used a <= c_used b.

Lemma insert_perm e l : Permutation (insert_used e l) (e :: l).
Proof.
  induction l as [|x r IH]; simpl; [constructor; constructor|].
  destruct (c_used e <=? c_used x); [apply Permutation_refl|].
  eapply perm_trans; [apply perm_skip; exact IH|apply perm_swap].
Qed.

Lemma sort_perm l : Permutation (sort_used l) l.
Proof.
  induction l as [|x r IH]; simpl; [constructor|].
  eapply perm_trans; [apply insert_perm|apply perm_skip; exact IH].
Qed.

Lemma insert_sorted e l : StronglySorted le_used l -> StronglySorted le_used (insert_used e l).
Proof.
  induction 1 as [|x r Hr IH Hx]; simpl; [repeat constructor|].
  destruct (Z.leb_spec (c_used e) (c_used x)) as [Hle|Hgt].
  - constructor; [constructor; auto|]. constructor; [exact Hle|].
    rewrite Forall_forall in *. intros y Hy. specialize (Hx y Hy). unfold le_used in *. lia.
  - constructor; [exact IH|]. rewrite Forall_forall in *. intros y Hy.
    apply (Permutation_in _ (insert_perm e r)) in Hy. destruct Hy as [<-|Hy]; [unfold le_used; lia|auto].
Qed.

Lemma sort_sorted l : StronglySorted le_used (sort_used l).
Proof. induction l as [|x r IH]; simpl; [constructor|apply insert_sorted; exact IH]. Qed.

(* ---- pruneCount: the loop ---------------------------------------------------------------------------- *)
Section Loop.
  Variable hasfn : bool.
  Variable t : Z.
  Variable fails : list string.

  Notation loop := (prune_count_loop hasfn t fails).
  Definition lfail (e : centry) : bool := hasfn && failing fails e.

  (* every entry the loop saw is still there (possibly refreshed) or was cleaned up successfully *)
  Lemma loop_cases todo l e :
    hasfn = true -> In e l -> present e (fst (loop todo l)) \/ In (c_key e, c_val e, true) (snd (loop todo l)).
  Proof.
    intros Hfn. revert todo. induction l as [|x r IH]; intros todo Hin; [contradiction|].
    destruct todo as [|n]; [left; apply in_present; exact Hin|].
    simpl. destruct (hasfn && existsb (String.eqb (c_key x)) fails) eqn:Ef.
    - destruct (loop (S n) r) as [kept calls] eqn:El. simpl. destruct Hin as [->|Hin].
      + left. exists (mkCE (c_key e) t (c_val e) (c_eid e)). simpl. auto.
      + specialize (IH (S n) Hin). rewrite El in IH. simpl in IH. destruct IH as [[e' [H1 H2]]|H]; [left; exists e'; simpl; auto|right; right; exact H].
    - destruct (loop n r) as [kept calls] eqn:El. simpl. rewrite Hfn. destruct Hin as [->|Hin]; [right; left; reflexivity|].
      specialize (IH n Hin). rewrite El in IH. simpl in IH. destruct IH as [H|H]; [left; exact H|right; right; exact H].
  Qed.

  (* a reported failure keeps the entry *)
  Lemma loop_fail_kept todo l k v :
    In (k, v, false) (snd (loop todo l)) -> exists e', In e' (fst (loop todo l)) /\ c_key e' = k /\ c_val e' = v.
  Proof.
    revert todo. induction l as [|x r IH]; intros todo; [destruct todo; simpl; tauto|].
    destruct todo as [|n]; [simpl; tauto|]. simpl.
    destruct (hasfn && existsb (String.eqb (c_key x)) fails).
    - destruct (loop (S n) r) as [kept calls] eqn:El. simpl. intros [H|H].
      + inversion H; subst. eexists. split; [left; reflexivity|]. simpl. auto.
      + specialize (IH (S n)). rewrite El in IH. destruct (IH H) as [e' [H1 H2]]. exists e'. simpl. auto.
    - destruct (loop n r) as [kept calls] eqn:El. simpl. intros H.
      assert (H' : In (k, v, false) calls) by (destruct hasfn; [destruct H as [H|H]; [discriminate|exact H]|exact H]).
      specialize (IH n). rewrite El in IH. exact (IH H').
  Qed.

  (* calls are about entries of the list *)
  Lemma loop_calls_sound todo l k v ok :
    In (k, v, ok) (snd (loop todo l)) -> hasfn = true /\ exists e, In e l /\ c_key e = k /\ c_val e = v /\ ok = negb (failing fails e).
  Proof.
    revert todo. induction l as [|x r IH]; intros todo; [destruct todo; simpl; tauto|].
    destruct todo as [|n]; [simpl; tauto|]. simpl. unfold failing.
    destruct (hasfn && existsb (String.eqb (c_key x)) fails) eqn:Ef.
    - apply andb_true_iff in Ef. destruct Ef as [Hfn Ef].
      destruct (loop (S n) r) as [kept calls] eqn:El. simpl. intros [H|H].
      + inversion H; subst. split; auto. exists x. rewrite Ef. auto.
      + specialize (IH (S n)). rewrite El in IH. destruct (IH H) as [_ [e [H1 H2]]]. split; auto. exists e. simpl. tauto.
    - destruct (loop n r) as [kept calls] eqn:El. simpl. specialize (IH n). rewrite El in IH. simpl in IH.
      destruct (bool_dec hasfn true) as [Hfn|Hfn].
      + rewrite Hfn in *. simpl in Ef. intros [H|H].
        * inversion H; subst. split; auto. exists x. rewrite Ef. auto.
        * destruct (IH H) as [_ [e [H1 H2]]]. split; auto. exists e. simpl. tauto.
      + apply not_true_is_false in Hfn. rewrite Hfn. intros H. destruct (IH H) as [Hx _]. congruence.
  Qed.

  (* what is kept is an original entry or a refreshed failing one *)
  Lemma loop_kept_origin todo l y :
    In y (fst (loop todo l)) -> In y l \/ (exists e, In e l /\ lfail e = true /\ y = refresh t e).
  Proof.
    revert todo. induction l as [|x r IH]; intros todo; [destruct todo; simpl; tauto|].
    destruct todo as [|n]; [simpl; tauto|]. simpl. unfold lfail, failing.
    destruct (hasfn && existsb (String.eqb (c_key x)) fails) eqn:Ef.
    - destruct (loop (S n) r) as [kept calls] eqn:El. simpl. intros [H|H].
      + right. exists x. split; [left; reflexivity|]. split; [exact Ef|]. symmetry. exact H.
      + specialize (IH (S n)). rewrite El in IH. destruct (IH H) as [H1|[e [H1 H2]]]; [left; right; exact H1|right; exists e; simpl; tauto].
    - destruct (loop n r) as [kept calls] eqn:El. simpl. intros H.
      specialize (IH n). rewrite El in IH. destruct (IH H) as [H1|[e [H1 H2]]]; [left; right; exact H1|right; exists e; simpl; tauto].
  Qed.

  (* least recently used first: on a list sorted by last use, every entry that went is at most as
     recently used as every entry that stayed without failing *)
  Lemma loop_lru todo l x y :
    StronglySorted le_used l -> In x l -> gone x (fst (loop todo l)) ->
    In y (fst (loop todo l)) -> lfail y = false -> c_used x <= c_used y.
  Proof.
    intros Hs. revert todo. induction Hs as [|z r Hr IH Hz]; intros todo Hx Hg Hy Hf; [contradiction|].
    destruct todo as [|n].
    - exfalso. simpl in Hg. exact (Hg x Hx eq_refl).
    - simpl in Hg, Hy. fold (failing fails z) in Hg, Hy. fold (lfail z) in Hg, Hy.
      destruct (lfail z) eqn:Ez.
      + destruct (loop (S n) r) as [kept calls] eqn:El. simpl in Hg, Hy.
        destruct Hx as [->|Hx]; [exfalso; apply (Hg (mkCE (c_key x) t (c_val x) (c_eid x))); [left; reflexivity|reflexivity]|].
        destruct Hy as [Hy|Hy].
        * exfalso. subst y. unfold lfail, failing in Hf, Ez. simpl in Hf. rewrite Ez in Hf. discriminate.
        * apply (IH (S n)); rewrite ?El; simpl; auto. intros e' He'. apply Hg. right. exact He'.
      + destruct (loop n r) as [kept calls] eqn:El. simpl in Hg, Hy.
        assert (Hy0 : In y r).
        { pose proof (loop_kept_origin n r y) as Ho. rewrite El in Ho. destruct (Ho Hy) as [H|[e [H1 [H2 H3]]]]; [exact H|].
          exfalso. subst y. unfold lfail, failing in Hf, H2. simpl in Hf. rewrite H2 in Hf. discriminate. }
        destruct Hx as [->|Hx].
        * rewrite Forall_forall in Hz. exact (Hz y Hy0).
        * apply (IH n); rewrite ?El; simpl; auto.
  Qed.

  (* size: failures aside, exactly [todo] entries go *)
  Lemma loop_length_ge todo l : (List.length l <= List.length (fst (loop todo l)) + todo)%nat.
  Proof.
    revert todo. induction l as [|x r IH]; intros todo; [destruct todo; simpl; lia|].
    destruct todo as [|n]; [simpl; lia|]. simpl.
    destruct (hasfn && existsb (String.eqb (c_key x)) fails).
    - specialize (IH (S n)). destruct (loop (S n) r); simpl in *. lia.
    - specialize (IH n). destruct (loop n r); simpl in *. lia.
  Qed.

  Lemma loop_length_exact todo l :
    (forall e, In e l -> lfail e = false) -> List.length (fst (loop todo l)) = (List.length l - todo)%nat.
  Proof.
    revert todo. induction l as [|x r IH]; intros todo Hnf; [destruct todo; reflexivity|].
    destruct todo as [|n]; [simpl; lia|]. simpl.
    pose proof (Hnf x (or_introl eq_refl)) as Hx. unfold lfail, failing in Hx. rewrite Hx.
    specialize (IH n (fun e He => Hnf e (or_intror He))). destruct (loop n r); simpl in *. exact IH.
  Qed.

  Lemma loop_keys todo l :
    NoDup (map c_key l) -> NoDup (map c_key (fst (loop todo l))) /\ incl (map c_key (fst (loop todo l))) (map c_key l).
  Proof.
    revert todo. induction l as [|x r IH]; intros todo Hn; [destruct todo; simpl; split; auto; apply incl_refl|].
    destruct todo as [|n]; [simpl; split; auto; apply incl_refl|]. simpl.
    inversion Hn as [|? ? Hx Hr]; subst.
    destruct (hasfn && existsb (String.eqb (c_key x)) fails).
    - destruct (IH (S n) Hr) as [H1 H2]. destruct (loop (S n) r) as [kept calls]; simpl in *. split.
      + constructor; auto.
      + intros k [Hk|Hk]; [left; exact Hk|right; apply H2; exact Hk].
    - destruct (IH n Hr) as [H1 H2]. destruct (loop n r) as [kept calls]; simpl in *. split; auto.
      intros k Hk. right. apply H2. exact Hk.
  Qed.

  Lemma loop_eids todo l (P : nat -> Prop) :
    Forall (fun e => P (c_eid e)) l -> Forall (fun e => P (c_eid e)) (fst (loop todo l)).
  Proof.
    revert todo. induction l as [|x r IH]; intros todo Hf; [destruct todo; simpl; constructor|].
    destruct todo as [|n]; [simpl; exact Hf|]. simpl. inversion Hf as [|? ? Hx Hr]; subst.
    destruct (hasfn && existsb (String.eqb (c_key x)) fails).
    - specialize (IH (S n) Hr). destruct (loop (S n) r); simpl in *. constructor; auto.
    - specialize (IH n Hr). destruct (loop n r); simpl in *. exact IH.
  Qed.
End Loop.

(* ---- pruneCount as a whole --------------------------------------------------------------------------- *)
Definition count_runs (c : cache) : bool :=
  negb ((c_mincount c <=? 0) || (Z.of_nat (List.length (c_entries c)) <=? c_mincount c)).

Lemma prune_count_spec c t fails :
  c_prune_count c t fails =
  if count_runs c then
    let r := prune_count_loop (c_hasfn c) t fails (Z.to_nat (Z.of_nat (List.length (c_entries c)) - c_mincount c)) (sort_used (c_entries c)) in
    (with_entries c (fst r), snd r)
  else (c, []).
Proof.
  unfold c_prune_count, count_runs.
  destruct ((c_mincount c <=? 0) || (Z.of_nat (List.length (c_entries c)) <=? c_mincount c)); simpl; [reflexivity|].
  destruct (prune_count_loop _ _ _ _ _); reflexivity.
Qed.

Lemma prune_count_params c t fails : same_params c (fst (c_prune_count c t fails)).
Proof. rewrite prune_count_spec. destruct (count_runs c); repeat split. Qed.

Lemma prune_count_inv c t fails : cinv c -> cinv (fst (c_prune_count c t fails)).
Proof.
  intros Hc. rewrite prune_count_spec. destruct (count_runs c) eqn:Er; [|exact Hc]. simpl.
  destruct Hc as [Hk He Ht]. unfold count_runs in Er. apply negb_true_iff, orb_false_iff in Er. destruct Er as [E1 E2].
  apply Z.leb_gt in E1, E2.
  set (todo := Z.to_nat (Z.of_nat (List.length (c_entries c)) - c_mincount c)).
  assert (Hp : Permutation (sort_used (c_entries c)) (c_entries c)) by apply sort_perm.
  constructor.
  - unfold c_keys. simpl. apply loop_keys. apply (Permutation_NoDup (Permutation_sym (Permutation_map c_key Hp))). exact Hk.
  - simpl. apply (loop_eids _ _ _ todo _ (fun n => (n < c_next c)%nat)).
    rewrite Forall_forall in *. intros e Hin. apply He. apply (Permutation_in _ Hp). exact Hin.
  - unfold tinv in *. simpl. rewrite Ht.
    pose proof (loop_length_ge (c_hasfn c) t fails todo (sort_used (c_entries c))) as Hl.
    rewrite (Permutation_length Hp) in Hl.
    destruct (c_entries c) as [|a l] eqn:Ec; [simpl in E2; lia|].
    destruct (fst (prune_count_loop (c_hasfn c) t fails todo (sort_used (a :: l)))) eqn:Ek; [|reflexivity].
    exfalso. simpl in Hl. subst todo. simpl List.length in *. lia.
Qed.

(* every entry is still there after the count prune, or its cleanup was run successfully *)
Lemma prune_count_kept_or_called c t fails e :
  c_hasfn c = true -> In e (c_entries c) ->
  present e (c_entries (fst (c_prune_count c t fails))) \/ In (c_key e, c_val e, true) (snd (c_prune_count c t fails)).
Proof.
  intros Hfn Hin. rewrite prune_count_spec. destruct (count_runs c); simpl; [|left; apply in_present; exact Hin].
  rewrite Hfn. apply loop_cases; auto. apply (Permutation_in _ (Permutation_sym (sort_perm _))). exact Hin.
Qed.

Lemma prune_count_fail_kept c t fails k v :
  In (k, v, false) (snd (c_prune_count c t fails)) ->
  exists e', In e' (c_entries (fst (c_prune_count c t fails))) /\ c_key e' = k /\ c_val e' = v.
Proof.
  rewrite prune_count_spec. destruct (count_runs c); simpl; [|tauto]. apply loop_fail_kept.
Qed.

(* least recently used first *)
Lemma prune_count_lru c t fails x y :
  In x (c_entries c) -> gone x (c_entries (fst (c_prune_count c t fails))) ->
  In y (c_entries (fst (c_prune_count c t fails))) -> lfail (c_hasfn c) fails y = false ->
  c_used x <= c_used y.
Proof.
  rewrite prune_count_spec. destruct (count_runs c); simpl.
  - intros Hx Hg Hy Hf.
    apply (loop_lru (c_hasfn c) t fails (Z.to_nat (Z.of_nat (List.length (c_entries c)) - c_mincount c)) (sort_used (c_entries c)) x y); auto.
    + apply sort_sorted.
    + apply (Permutation_in _ (Permutation_sym (sort_perm _))). exact Hx.
  - intros Hx Hg _ _. exfalso. exact (Hg x Hx eq_refl).
Qed.

(* the bound: when no cleanup fails, the prune leaves exactly minCount entries (if there were more) *)
Lemma prune_count_bound c t fails :
  (forall e, In e (c_entries c) -> lfail (c_hasfn c) fails e = false) -> 0 < c_mincount c ->
  Z.of_nat (List.length (c_entries (fst (c_prune_count c t fails)))) = Z.min (Z.of_nat (List.length (c_entries c))) (c_mincount c).
Proof.
  intros Hnf Hmc. rewrite prune_count_spec. unfold count_runs.
  destruct (Z.leb_spec (c_mincount c) 0) as [H0|H0]; [lia|]. simpl.
  destruct (Z.leb_spec (Z.of_nat (List.length (c_entries c))) (c_mincount c)) as [H1|H1]; simpl; [lia|].
  rewrite loop_length_exact.
  - rewrite (Permutation_length (sort_perm _)). lia.
  - intros e He. apply Hnf. apply (Permutation_in _ (sort_perm _)). exact He.
Qed.

(* ---- one event --------------------------------------------------------------------------------------- *)
Lemma delete_plain_inv c k ok : cinv c -> cinv (fst (c_delete_plain c k ok)).
Proof.
  intros Hc. unfold c_delete_plain. pose proof (delete_end_inv c k (c_delete_begin c k) ok Hc) as H.
  destruct (c_delete_end c k (c_delete_begin c k) ok). exact H.
Qed.

Lemma delete_set_inv c k v t ok : cinv c -> cinv (fst (c_delete_set c k v t ok)).
Proof.
  intros Hc. unfold c_delete_set. destruct (c_delete_begin c k) as [e|].
  - pose proof (delete_end_inv (c_set c k v t) k (Some e) ok (set_inv c k v t Hc)) as H.
    destruct (c_delete_end (c_set c k v t) k (Some e) ok). exact H.
  - pose proof (delete_end_inv c k None ok Hc) as H.
    destruct (c_delete_end c k None ok) as [c1 err]. simpl in *. apply set_inv. exact H.
Qed.

Lemma auto_inv r now fails : cinv (fst r) -> cinv (fst (c_auto r now fails)).
Proof.
  destruct r as [c1 o]. simpl. intros Hc. destruct (over_limit c1); [|exact Hc].
  pose proof (prune_count_inv c1 now fails Hc) as H. destruct (c_prune_count c1 now fails). exact H.
Qed.

Theorem step_inv c ev : cinv c -> cinv (fst (c_step c ev)).
Proof.
  intros Hc. destruct ev as [k v t|k t|k ok|k v t ok|fails|t fails|t fails|k v t now fails|k v t ok now fails]; cbn [c_step].
  - apply set_inv; auto.
  - pose proof (get_inv c k t Hc) as H. destruct (c_get c k t). exact H.
  - apply delete_plain_inv; auto.
  - apply delete_set_inv; auto.
  - pose proof (delete_all_inv c fails Hc) as H. destruct (c_delete_all c fails) as [[c' calls] err]. exact H.
  - pose proof (prune_age_inv c t fails Hc) as H. destruct (c_prune_age c t fails). exact H.
  - pose proof (prune_count_inv c t fails Hc) as H. destruct (c_prune_count c t fails). exact H.
  - apply auto_inv. simpl. apply set_inv; auto.
  - apply auto_inv. apply delete_set_inv; auto.
Qed.

Theorem run_inv evs : forall c, cinv c -> cinv (c_run c evs).
Proof.
  unfold c_run. induction evs as [|ev r IH]; intros c Hc; simpl; [exact Hc|]. apply IH. apply step_inv. exact Hc.
Qed.

Lemma delete_plain_params c k ok : same_params c (fst (c_delete_plain c k ok)).
Proof.
  unfold c_delete_plain. pose proof (delete_end_params c k (c_delete_begin c k) ok) as H.
  destruct (c_delete_end c k (c_delete_begin c k) ok). exact H.
Qed.

Lemma delete_set_params c k v t ok : same_params c (fst (c_delete_set c k v t ok)).
Proof.
  unfold c_delete_set. destruct (c_delete_begin c k) as [e|].
  - pose proof (delete_end_params (c_set c k v t) k (Some e) ok) as H.
    destruct (c_delete_end (c_set c k v t) k (Some e) ok). simpl in *.
    eapply same_params_trans; [apply set_params|exact H].
  - pose proof (delete_end_params c k None ok) as H.
    destruct (c_delete_end c k None ok) as [c1 err]. simpl in *. eapply same_params_trans; [exact H|apply set_params].
Qed.

Lemma auto_params r now fails : same_params (fst r) (fst (c_auto r now fails)).
Proof.
  destruct r as [c1 o]. simpl. destruct (over_limit c1); [|apply same_params_refl].
  pose proof (prune_count_params c1 now fails) as H. destruct (c_prune_count c1 now fails). exact H.
Qed.

Theorem step_params c ev : same_params c (fst (c_step c ev)).
Proof.
  destruct ev as [k v t|k t|k ok|k v t ok|fails|t fails|t fails|k v t now fails|k v t ok now fails]; cbn [c_step].
  - apply set_params.
  - pose proof (get_params c k t) as H. destruct (c_get c k t). exact H.
  - apply delete_plain_params.
  - apply delete_set_params.
  - pose proof (delete_all_params c fails) as H. destruct (c_delete_all c fails) as [[c' calls] err]. exact H.
  - pose proof (prune_age_params c t fails) as H. destruct (c_prune_age c t fails). exact H.
  - pose proof (prune_count_params c t fails) as H. destruct (c_prune_count c t fails). exact H.
  - eapply same_params_trans; [|apply auto_params]. apply set_params.
  - eapply same_params_trans; [|apply auto_params]. apply delete_set_params.
Qed.

Theorem run_params evs : forall c, same_params c (c_run c evs).
Proof.
  unfold c_run. induction evs as [|ev r IH]; intros c; simpl; [apply same_params_refl|].
  eapply same_params_trans; [apply step_params|apply IH].
Qed.

(* ======================================================================================================= *)
(* The laws of C20                                                                                         *)
(* ======================================================================================================= *)
Definition same_obj (e e' : centry) : Prop := c_eid e' = c_eid e /\ c_key e' = c_key e /\ c_val e' = c_val e.

Lemma present_same e e' l : same_obj e e' -> present e' l -> present e l.
Proof. intros [H1 [H2 H3]] [x [Hin [Hx1 [Hx2 Hx3]]]]. exists x. repeat split; auto; congruence. Qed.

(* ---- 1. no entry goes without a successful cleanup of its value ------------------------------------------ *)
Lemma delete_plain_kept_or_called c k ok e :
  cinv c -> c_hasfn c = true -> In e (c_entries c) ->
  present e (c_entries (fst (c_delete_plain c k ok))) \/ In (c_key e, c_val e, true) (co_calls (snd (c_delete_plain c k ok))).
Proof.
  intros Hc Hfn Hin. unfold c_delete_plain.
  destruct (String.eqb_spec (c_key e) k) as [Hk|Hk].
  - unfold c_delete_begin. rewrite Hfn. destruct (cfind k (c_entries c)) as [e0|] eqn:Ef.
    + pose proof (cfind_unique k _ e e0 (inv_keys _ Hc) Ef Hin Hk) as <-.
      destruct ok.
      * right. destruct (c_delete_end c k (Some e) true). simpl. left. subst k. reflexivity.
      * left. unfold c_delete_end. simpl. apply in_present. exact Hin.
    + exfalso. exact (cfind_none _ _ _ Ef Hin Hk).
  - left. pose proof (delete_end_other c k (c_delete_begin c k) ok e Hin Hk) as H.
    destruct (c_delete_end c k (c_delete_begin c k) ok). simpl in *. apply in_present. exact H.
Qed.

Lemma delete_set_keeps_other c k v t ok e :
  In e (c_entries c) -> c_key e <> k -> In e (c_entries (fst (c_delete_set c k v t ok))).
Proof.
  intros Hin Hk. unfold c_delete_set. destruct (c_delete_begin c k) as [e0|].
  - pose proof (delete_end_other (c_set c k v t) k (Some e0) ok e (set_keeps c k v t e Hin Hk) Hk) as H.
    destruct (c_delete_end (c_set c k v t) k (Some e0) ok). exact H.
  - pose proof (delete_end_other c k None ok e Hin Hk) as H.
    destruct (c_delete_end c k None ok) as [c1 err]. simpl in *. apply set_keeps; auto.
Qed.

Lemma delete_all_kept_or_called c fails e :
  c_hasfn c = true -> In e (c_entries c) ->
  present e (c_entries (fst (fst (c_delete_all c fails)))) \/ In (c_key e, c_val e, true) (snd (fst (c_delete_all c fails))).
Proof.
  intros Hfn Hin. rewrite delete_all_entries. unfold c_delete_all. rewrite Hfn. cbn [fst snd].
  destruct (failing fails e) eqn:Ef.
  - left. apply in_present. apply filter_In. auto.
  - right. apply in_map_iff. exists e. unfold failing in Ef. rewrite Ef. auto.
Qed.

Lemma prune_age_kept_or_called c t fails e :
  c_hasfn c = true -> In e (c_entries c) ->
  present e (c_entries (fst (c_prune_age c t fails))) \/ In (c_key e, c_val e, true) (snd (c_prune_age c t fails)).
Proof.
  intros Hfn Hin. rewrite prune_age_spec. destruct (c_minage c <=? 0); cbn [fst snd]; [left; apply in_present; exact Hin|].
  cbn [timer_after_age with_entries c_entries].
  destruct (age_keep c t fails e) as [e'|] eqn:Ek.
  - left. pose proof (age_keep_key _ _ _ _ _ Ek) as [H1 [H2 H3]]. exists e'. split; auto.
    apply in_filter_map. exists e. auto.
  - right. apply in_filter_map. exists e. split; auto. unfold age_keep in Ek. unfold age_call.
    destruct (c_used e <? t - c_minage c); [|discriminate]. rewrite Hfn in *. simpl in *.
    destruct (failing fails e); [discriminate|reflexivity].
Qed.

Lemma auto_kept_or_called r now fails e :
  c_hasfn (fst r) = true ->
  (present e (c_entries (fst r)) \/ In (c_key e, c_val e, true) (co_calls (snd r))) ->
  present e (c_entries (fst (c_auto r now fails))) \/ In (c_key e, c_val e, true) (co_calls (snd (c_auto r now fails))).
Proof.
  destruct r as [c1 o]. cbn [fst snd]. intros Hfn H. unfold c_auto. destruct (over_limit c1); [|exact H].
  destruct H as [[e' [Hin Hs]]|H].
  - pose proof (prune_count_kept_or_called c1 now fails e' Hfn Hin) as Hp.
    destruct (c_prune_count c1 now fails) as [c2 calls]. cbn [fst snd co_calls] in *.
    destruct Hs as [H1 [H2 H3]]. destruct Hp as [Hp|Hp].
    + left. apply (present_same e e'); [repeat split; auto|exact Hp].
    + right. apply in_or_app. right. rewrite <- H2, <- H3. exact Hp.
  - destruct (c_prune_count c1 now fails) as [c2 calls]. cbn [fst snd co_calls]. right. apply in_or_app. left. exact H.
Qed.

Theorem step_kept_or_called c ev e :
  cinv c -> c_hasfn c = true -> In e (c_entries c) -> ev_sets ev <> Some (c_key e) ->
  present e (c_entries (fst (c_step c ev))) \/ In (c_key e, c_val e, true) (co_calls (snd (c_step c ev))).
Proof.
  intros Hc Hfn Hin Hs.
  destruct ev as [k v t|k t|k ok|k v t ok|fails|t fails|t fails|k v t now fails|k v t ok now fails]; cbn [c_step ev_sets] in *.
  - left. apply in_present. apply set_keeps; auto. congruence.
  - left. pose proof (get_present c k t e Hin) as H. destruct (c_get c k t). exact H.
  - apply delete_plain_kept_or_called; auto.
  - left. apply in_present. apply delete_set_keeps_other; auto. congruence.
  - pose proof (delete_all_kept_or_called c fails e Hfn Hin) as H. destruct (c_delete_all c fails) as [[c' calls] err]. exact H.
  - pose proof (prune_age_kept_or_called c t fails e Hfn Hin) as H. destruct (c_prune_age c t fails). exact H.
  - pose proof (prune_count_kept_or_called c t fails e Hfn Hin) as H. destruct (c_prune_count c t fails). exact H.
  - apply auto_kept_or_called; [exact Hfn|]. left. apply in_present. apply set_keeps; auto. congruence.
  - apply auto_kept_or_called.
    + destruct (delete_set_params c k v t ok) as [_ [_ [_ H]]]. rewrite H. exact Hfn.
    + left. apply in_present. apply delete_set_keeps_other; auto. congruence.
Qed.

(* the statement of the property: an Entry object that is gone after an event (and was not replaced by a
   Set of its key) had its cleanup callback run on its value, successfully, during that event *)
Theorem cleanup_before_removal c ev e :
  cinv c -> c_hasfn c = true -> In e (c_entries c) -> ev_sets ev <> Some (c_key e) ->
  gone e (c_entries (fst (c_step c ev))) ->
  In (c_key e, c_val e, true) (co_calls (snd (c_step c ev))).
Proof.
  intros Hc Hfn Hin Hs Hg. destruct (step_kept_or_called c ev e Hc Hfn Hin Hs) as [Hp|H]; [|exact H].
  exfalso. exact (present_gone _ _ Hp Hg).
Qed.

(* ---- 2. a cleanup that reports an error keeps the entry -------------------------------------------------- *)
Definition holds (l : list centry) (k : string) (v : Z) : Prop := exists e', In e' l /\ c_key e' = k /\ c_val e' = v.

Lemma auto_calls r now fails k v ok :
  In (k, v, ok) (co_calls (snd (c_auto r now fails))) ->
  In (k, v, ok) (co_calls (snd r)) \/ (over_limit (fst r) = true /\ In (k, v, ok) (snd (c_prune_count (fst r) now fails))).
Proof.
  destruct r as [c1 o]. unfold c_auto. cbn [fst snd]. destruct (over_limit c1); [|auto].
  destruct (c_prune_count c1 now fails) as [c2 calls]. cbn [fst snd co_calls]. rewrite in_app_iff. tauto.
Qed.

Lemma auto_entries r now fails :
  c_entries (fst (c_auto r now fails)) =
  if over_limit (fst r) then c_entries (fst (c_prune_count (fst r) now fails)) else c_entries (fst r).
Proof.
  destruct r as [c1 o]. unfold c_auto. cbn [fst snd]. destruct (over_limit c1); [|reflexivity].
  destruct (c_prune_count c1 now fails); reflexivity.
Qed.

Lemma delete_plain_calls c k ok k' v' ok' :
  In (k', v', ok') (co_calls (snd (c_delete_plain c k ok))) ->
  k' = k /\ ok' = ok /\ exists e0, cfind k (c_entries c) = Some e0 /\ v' = c_val e0 /\ c_hasfn c = true.
Proof.
  unfold c_delete_plain, c_delete_begin. destruct (c_hasfn c); [|destruct (c_delete_end c k None ok); simpl; tauto].
  destruct (cfind k (c_entries c)) as [e0|]; destruct (c_delete_end c k _ ok); simpl; [|tauto].
  intros [H|[]]. inversion H; subst. repeat split; auto. exists e0. auto.
Qed.

Lemma delete_set_calls c k v t ok k' v' ok' :
  In (k', v', ok') (co_calls (snd (c_delete_set c k v t ok))) -> k' = k.
Proof.
  unfold c_delete_set. destruct (c_delete_begin c k) as [e0|].
  - destruct (c_delete_end (c_set c k v t) k (Some e0) ok). simpl. intros [H|[]]. inversion H; auto.
  - destruct (c_delete_end c k None ok). simpl. tauto.
Qed.

Theorem failed_cleanup_keeps c ev k v :
  In (k, v, false) (co_calls (snd (c_step c ev))) ->
  ev_sets ev = Some k \/ holds (c_entries (fst (c_step c ev))) k v.
Proof.
  destruct ev as [k0 v0 t|k0 t|k0 ok|k0 v0 t ok|fails|t fails|t fails|k0 v0 t now fails|k0 v0 t ok now fails]; cbn [c_step ev_sets].
  - simpl. tauto.
  - destruct (c_get c k0 t). simpl. tauto.
  - intros H. right. destruct (delete_plain_calls _ _ _ _ _ _ H) as [-> [<- [e0 [Ef [-> Hfn]]]]].
    unfold c_delete_plain, c_delete_begin. rewrite Hfn, Ef. unfold c_delete_end. cbn [negb fst].
    apply cfind_some in Ef. exists e0. tauto.
  - intros H. left. f_equal. symmetry. exact (delete_set_calls _ _ _ _ _ _ _ _ H).
  - intros H. right. pose proof (delete_all_entries c fails) as He. unfold c_delete_all in *.
    destruct (c_hasfn c); cbn [fst snd co_calls] in *; [|contradiction].
    apply in_map_iff in H. destruct H as [e [Heq Hin]]. inversion Heq; subst.
    exists e. split; auto. rewrite He. apply filter_In. split; auto. unfold failing.
    destruct (existsb (String.eqb (c_key e)) fails); [reflexivity|discriminate].
  - intros H. right. rewrite prune_age_spec in *. destruct (c_minage c <=? 0); cbn [fst snd co_calls] in *; [contradiction|].
    apply in_filter_map in H. destruct H as [e [Hin Hcall]]. unfold age_call in Hcall.
    destruct (c_used e <? t - c_minage c) eqn:Eu; [|discriminate]. destruct (c_hasfn c) eqn:Hfn; [|discriminate].
    simpl in Hcall. inversion Hcall; subst. exists (refresh t e). simpl. split; auto.
    apply in_filter_map. exists e. split; auto. unfold age_keep. rewrite Eu, Hfn.
    destruct (failing fails e); [reflexivity|discriminate].
  - intros H. right. pose proof (prune_count_fail_kept c t fails k v) as Hp.
    destruct (c_prune_count c t fails). cbn [fst snd co_calls] in *. exact (Hp H).
  - intros H. apply auto_calls in H. cbn [fst snd co_calls] in H. destruct H as [[]|[Ho H]].
    right. rewrite auto_entries. cbn [fst]. rewrite Ho. exact (prune_count_fail_kept _ _ _ _ _ H).
  - intros H. apply auto_calls in H. destruct H as [H|[Ho H]].
    + left. f_equal. symmetry. exact (delete_set_calls _ _ _ _ _ _ _ _ H).
    + right. rewrite auto_entries. rewrite Ho. exact (prune_count_fail_kept _ _ _ _ _ H).
Qed.

(* ---- 3. age: nothing used within the configured age expires; what is older does ------------------------- *)
Theorem no_early_expiry c t fails e :
  In e (c_entries c) -> t - c_minage c <= c_used e -> In e (c_entries (fst (c_prune_age c t fails))).
Proof.
  intros Hin Hu. rewrite prune_age_spec. destruct (c_minage c <=? 0); cbn [fst]; [exact Hin|].
  cbn [timer_after_age with_entries c_entries]. apply in_filter_map. exists e. split; auto.
  unfold age_keep. destruct (Z.ltb_spec (c_used e) (t - c_minage c)); [lia|reflexivity].
Qed.

(* only the age prune expires: every other event removes entries only as stated by its own clause;
   and the age prune does remove what is older, unless its cleanup fails *)
Theorem old_entries_expire c t fails e :
  cinv c -> 0 < c_minage c -> In e (c_entries c) -> c_used e < t - c_minage c -> lfail (c_hasfn c) fails e = false ->
  ~ In (c_key e) (c_keys (fst (c_prune_age c t fails))).
Proof.
  intros Hc Hm Hin Hu Hf. rewrite prune_age_spec. destruct (Z.leb_spec (c_minage c) 0); [lia|]. cbn [fst].
  unfold c_keys. cbn [timer_after_age with_entries c_entries]. rewrite in_map_iff. intros [e' [Hk Hin']].
  apply in_filter_map in Hin'. destruct Hin' as [e0 [Hin0 Hk0]].
  pose proof (age_keep_key _ _ _ _ _ Hk0) as [Hkey _].
  assert (e0 = e).
  { pose proof (inv_keys _ Hc) as Hn. unfold c_keys in Hn. clear - Hn Hin Hin0 Hkey Hk.
    assert (Hkk : c_key e0 = c_key e) by congruence. clear Hkey Hk.
    induction (c_entries c) as [|x r IH]; [contradiction|]. simpl in Hn. inversion Hn as [|? ? Hx Hr]; subst.
    destruct Hin as [->|Hin], Hin0 as [->|Hin0]; auto.
    - exfalso. apply Hx. rewrite <- Hkk. apply in_map. exact Hin0.
    - exfalso. apply Hx. rewrite Hkk. apply in_map. exact Hin. }
  subst e0. unfold age_keep in Hk0. destruct (Z.ltb_spec (c_used e) (t - c_minage c)); [|lia].
  unfold lfail in Hf. rewrite Hf in Hk0. discriminate.
Qed.

(* ---- 4. least recently used first ------------------------------------------------------------------------ *)
Theorem lru_first c t fails x y :
  In x (c_entries c) -> gone x (c_entries (fst (c_prune_count c t fails))) ->
  In y (c_entries (fst (c_prune_count c t fails))) -> lfail (c_hasfn c) fails y = false ->
  c_used x <= c_used y.
Proof. exact (prune_count_lru c t fails x y). Qed.

(* the same for the prune an insertion starts: relative to the state right after the insertion *)
Theorem lru_first_on_insert c k v t now fails x y :
  let c1 := c_set c k v t in
  let c' := fst (c_step c (CSetP k v t now fails)) in
  In x (c_entries c1) -> gone x (c_entries c') -> In y (c_entries c') -> lfail (c_hasfn c) fails y = false ->
  c_used x <= c_used y.
Proof.
  cbn zeta. cbn [c_step]. rewrite auto_entries. cbn [fst]. destruct (over_limit (c_set c k v t)).
  - apply (prune_count_lru (c_set c k v t) now fails x y).
  - intros Hx Hg _ _. exfalso. exact (Hg x Hx eq_refl).
Qed.

(* ---- 5. the bound ---------------------------------------------------------------------------------------- *)
Definition params_ok (c : cache) : Prop := 0 < c_maxcount c -> 0 < c_mincount c <= c_maxcount c.

Lemma new_cache_params_ok age count hasfn : params_ok (new_cache age count hasfn).
Proof.
  unfold params_ok, new_cache. cbn [c_maxcount c_mincount]. intros H. destruct (Z.ltb_spec 0 count); [|lia].
  assert (9 * count / 10 <= count) by (apply Z.div_le_upper_bound; lia). lia.
Qed.

Lemma params_ok_same c c' : same_params c c' -> params_ok c -> params_ok c'.
Proof. unfold params_ok. intros [_ [H1 [H2 _]]] H. rewrite H1, H2. exact H. Qed.

Lemma auto_bound r now fails :
  params_ok (fst r) ->
  (forall e, In e (c_entries (fst r)) -> lfail (c_hasfn (fst r)) fails e = false) ->
  0 < c_maxcount (fst r) ->
  Z.of_nat (List.length (c_entries (fst (c_auto r now fails)))) <= c_maxcount (fst r).
Proof.
  intros Hp Hnf Hmax. rewrite auto_entries. unfold over_limit. destruct (Hp Hmax) as [H1 H2].
  destruct (Z.ltb_spec 0 (c_maxcount (fst r))); [|lia]. simpl.
  destruct (Z.ltb_spec (c_maxcount (fst r)) (Z.of_nat (List.length (c_entries (fst r))))); [|lia].
  rewrite prune_count_bound; auto. lia.
Qed.

(* as long as cleanups succeed, an insertion beyond the limit is followed by pruning back to at most the limit *)
Theorem insertion_bounded c k v t now fails :
  params_ok c -> 0 < c_maxcount c ->
  (forall e, In e (c_entries (c_set c k v t)) -> lfail (c_hasfn c) fails e = false) ->
  Z.of_nat (List.length (c_entries (fst (c_step c (CSetP k v t now fails))))) <= c_maxcount c.
Proof.
  intros Hp Hmax Hnf. cbn [c_step].
  apply (auto_bound (c_set c k v t, mkCO [] None false) now fails); auto.
Qed.

(* ... in every reachable state of a cache created with a count limit *)
Theorem insertion_bounded_reachable age count hasfn evs k v t now fails :
  0 < count ->
  let c := c_run (new_cache age count hasfn) evs in
  (forall e, In e (c_entries (c_set c k v t)) -> lfail hasfn fails e = false) ->
  Z.of_nat (List.length (c_entries (fst (c_step c (CSetP k v t now fails))))) <= count.
Proof.
  intros Hc c Hnf. pose proof (run_params evs (new_cache age count hasfn)) as Hs. fold c in Hs.
  pose proof (params_ok_same _ _ Hs (new_cache_params_ok age count hasfn)) as Hp.
  destruct Hs as [_ [_ [Hmax Hfn]]]. simpl in Hmax, Hfn.
  rewrite <- Hmax. apply insertion_bounded; auto; [lia|]. rewrite Hfn. exact Hnf.
Qed.

(* ---- 6. a value stored while Delete's cleanup ran stays --------------------------------------------------- *)
Theorem replaced_entry_kept c k v t ok :
  cinv c -> exists e', In e' (c_entries (fst (c_delete_set c k v t ok))) /\ c_key e' = k /\ c_val e' = v /\ c_used e' = t.
Proof.
  intros Hc. unfold c_delete_set. destruct (c_delete_begin c k) as [e0|] eqn:Eb.
  - assert (He0 : (c_eid e0 < c_next c)%nat).
    { unfold c_delete_begin in Eb. destruct (c_hasfn c); [|discriminate]. apply cfind_some in Eb.
      pose proof (inv_eids _ Hc) as He. rewrite Forall_forall in He. apply He. tauto. }
    pose proof (set_has c k v t) as Hnew. pose proof (set_inv c k v t Hc) as Hc1.
    exists (mkCE k t v (c_next c)). cbn [c_key c_val c_used]. split; [|auto].
    unfold c_delete_end. destruct ok; cbn [negb fst]; [|exact Hnew].
    destruct (cfind k (c_entries (c_set c k v t))) as [e1|] eqn:Ef; [|exact Hnew].
    pose proof (cfind_unique k _ _ e1 (inv_keys _ Hc1) Ef Hnew eq_refl) as <-. cbn [c_eid].
    destruct (Nat.eqb_spec (c_next c) (c_eid e0)); [lia|exact Hnew].
  - destruct (c_delete_end c k None ok) as [c1 err]. cbn [fst]. exists (mkCE k t v (c_next c1)). cbn [c_key c_val c_used].
    split; [apply set_has|auto].
Qed.

(* ---- 7. the timer is armed exactly while entries can expire ----------------------------------------------- *)
Theorem timer_armed_reachable age count hasfn evs :
  let c := c_run (new_cache age count hasfn) evs in
  c_timer c = (0 <? age) && negb (is_nil (c_entries c)).
Proof.
  intros c. pose proof (run_inv evs _ (new_cache_inv age count hasfn)) as Hc. fold c in Hc.
  pose proof (run_params evs (new_cache age count hasfn)) as [Hm _]. fold c in Hm. simpl in Hm.
  rewrite <- Hm. exact (inv_timer _ Hc).
Qed.

Theorem reachable_inv age count hasfn evs : cinv (c_run (new_cache age count hasfn) evs).
Proof. apply run_inv. apply new_cache_inv. Qed.

(* non-vacuity: a concrete reachable state where entries are removed, kept on failure, and replaced *)
Example c20_nonvacuous :
  let c := c_run (new_cache 3600 2 true) [CSetP "a" 1 0 0 []; CSetP "b" 2 1 1 []; CGet "a" 2] in
  let r := c_step c (CSetP "c" 3 3 3 ["b"]) in
  c_keys c = ["a"; "b"] /\ c_keys (fst r) = ["b"] /\ co_calls (snd r) = [("b", 2, false); ("a", 1, true); ("c", 3, true)].
Proof. vm_compute. repeat split. Qed.
