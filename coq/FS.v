(* FS.v — the write protocols of the directory store (internal/store/dir.go) at the level of filesystem calls, and what a
   process crash between (or inside) any two of them leaves behind.
   A directory = its files by path.  Calls: create an empty file, append bytes to a file, rename (atomic replace),
   remove, overwrite a file in place (os.WriteFile: truncate, then write).  A crash executes a prefix of the calls; the
   call it interrupts has written a prefix of its bytes (process-crash model: what was written stays written). *)
From Olareg Require Import Base.
Local Open Scope list_scope.

Definition fsys := list (string * string).       (* path -> content *)

Fixpoint fget (p : string) (f : fsys) : option string :=
  match f with [] => None | (q, c) :: r => if String.eqb p q then Some c else fget p r end.
Fixpoint fdel (p : string) (f : fsys) : fsys :=
  match f with [] => [] | (q, c) :: r => if String.eqb p q then fdel p r else (q, c) :: fdel p r end.
Definition fset (p c : string) (f : fsys) : fsys := (p, c) :: fdel p f.

Inductive fsop :=
| FCreate (p : string)                 (* os.CreateTemp: a new empty file *)
| FAppend (p data : string)            (* a write on the open handle *)
| FRename (src dst : string)           (* os.Rename: dst is replaced atomically *)
| FRemove (p : string)
| FOverwrite (p data : string)         (* os.WriteFile *)
| FMkdir (p : string).                 (* directories carry no content *)

Definition fapply (o : fsop) (f : fsys) : fsys :=
  match o with
  | FCreate p => fset p "" f
  | FAppend p d => match fget p f with Some c => fset p (c ++ d)%string f | None => f end
  | FRename s d => match fget s f with Some c => fset d c (fdel s f) | None => f end
  | FRemove p => fdel p f
  | FOverwrite p d => fset p d f
  | FMkdir _ => f
  end.

Definition frun (ops : list fsop) (f : fsys) : fsys := fold_left (fun f o => fapply o f) ops f.

(* what the interrupted call leaves: nothing, or a prefix of its bytes *)
Inductive torn : fsop -> fsop -> Prop :=
| T_append p d d1 d2 : d = (d1 ++ d2)%string -> torn (FAppend p d) (FAppend p d1)
| T_overwrite p d d1 d2 : d = (d1 ++ d2)%string -> torn (FOverwrite p d) (FOverwrite p d1).

(* the calls executed when the process dies somewhere in [ops] *)
Inductive crashed : list fsop -> list fsop -> Prop :=
| C_prefix ops done rest : ops = done ++ rest -> crashed ops done
| C_torn ops done o o' rest : ops = done ++ o :: rest -> torn o o' -> crashed ops (done ++ [o']).

(* ---- basic facts ----------------------------------------------------------------------------------------- *)
Lemma fget_fdel_same p f : fget p (fdel p f) = None.
Proof. induction f as [|[q c] r IH]; simpl; auto. destruct (String.eqb_spec p q); simpl; auto. destruct (String.eqb_spec p q); congruence. Qed.

Lemma fget_fdel_other p q f : p <> q -> fget q (fdel p f) = fget q f.
Proof.
  intros H. induction f as [|[x c] r IH]; simpl; auto.
  destruct (String.eqb_spec p x).
  - subst x. destruct (String.eqb_spec q p); [congruence|]. exact IH.
  - simpl. destruct (String.eqb q x); auto.
Qed.

Lemma fget_fset_same p c f : fget p (fset p c f) = Some c.
Proof. unfold fset. simpl. rewrite String.eqb_refl. reflexivity. Qed.

Lemma fget_fset_other p q c f : p <> q -> fget q (fset p c f) = fget q f.
Proof.
  intros H. unfold fset. simpl. destruct (String.eqb_spec q p); [congruence|]. apply fget_fdel_other. exact H.
Qed.

(* a call touches only the paths it names *)
Definition touches (o : fsop) (q : string) : Prop :=
  match o with
  | FCreate p | FAppend p _ | FRemove p | FOverwrite p _ => q = p
  | FRename s d => q = s \/ q = d
  | FMkdir _ => False
  end.

Lemma fapply_frame o q f : ~ touches o q -> fget q (fapply o f) = fget q f.
Proof.
  destruct o as [p|p d|s d|p|p d|p]; simpl; intros H.
  - apply fget_fset_other. congruence.
  - destruct (fget p f); auto. apply fget_fset_other. congruence.
  - destruct (fget s f); auto. rewrite fget_fset_other by (intros E; apply H; right; congruence).
    apply fget_fdel_other. intros E; apply H; left; congruence.
  - apply fget_fdel_other. congruence.
  - apply fget_fset_other. congruence.
  - reflexivity.
Qed.

Lemma frun_frame ops q : forall f, (forall o, In o ops -> ~ touches o q) -> fget q (frun ops f) = fget q f.
Proof.
  induction ops as [|o r IH]; intros f H; simpl; auto. unfold frun in *. simpl.
  rewrite IH by (intros o' Ho; apply H; right; exact Ho). apply fapply_frame. apply H. left. reflexivity.
Qed.

Lemma frun_app a b f : frun (a ++ b) f = frun b (frun a f).
Proof. unfold frun. apply fold_left_app. Qed.

(* ---- protocol 1: a blob is written to a temporary file and renamed into place ------------------------------ *)
(* dirRepo.blobCreate / dirRepoUpload.Write / Close: CreateTemp in _uploads, one write per chunk, MkdirAll of the
   algorithm directory, Rename to blobs/<alg>/<hex>.  indexSave is the same shape with index.json as destination. *)
Definition commit_file (tmp : string) (chunks : list string) (dirs : list string) (dst : string) : list fsop :=
  [FCreate tmp] ++ map (FAppend tmp) chunks ++ map FMkdir dirs ++ [FRename tmp dst].

Fixpoint concat_str (l : list string) : string :=
  match l with [] => "" | x :: r => (x ++ concat_str r)%string end.

Lemma append_assoc (a b c : string) : ((a ++ b) ++ c)%string = (a ++ (b ++ c))%string.
Proof. induction a as [|x a IH]; simpl; auto. rewrite IH. reflexivity. Qed.

Lemma append_nil_r (a : string) : (a ++ "")%string = a.
Proof. induction a as [|x a IH]; simpl; auto. rewrite IH. reflexivity. Qed.

Lemma run_appends tmp chunks : forall f c,
  fget tmp f = Some c ->
  fget tmp (frun (map (FAppend tmp) chunks) f) = Some (c ++ concat_str chunks)%string.
Proof.
  induction chunks as [|x r IH]; intros f c H; simpl.
  - rewrite append_nil_r. exact H.
  - unfold frun in *. simpl. rewrite H. rewrite (IH _ (c ++ x)%string) by apply fget_fset_same.
    rewrite append_assoc. reflexivity.
Qed.

Lemma run_mkdirs dirs f : frun (map FMkdir dirs) f = f.
Proof. induction dirs as [|d r IH]; simpl; auto. Qed.

(* the complete protocol: the destination holds exactly the bytes written, every other path but the temporary is as before *)
Theorem commit_file_complete tmp chunks dirs dst f :
  tmp <> dst ->
  let f' := frun (commit_file tmp chunks dirs dst) f in
  fget dst f' = Some (concat_str chunks)
  /\ fget tmp f' = None
  /\ forall q, q <> tmp -> q <> dst -> fget q f' = fget q f.
Proof.
  intros Hne f'. unfold f', commit_file. rewrite !frun_app. rewrite run_mkdirs.
  set (f1 := frun [FCreate tmp] f).
  assert (H1 : fget tmp f1 = Some "") by (unfold f1, frun; simpl; apply fget_fset_same).
  pose proof (run_appends tmp chunks f1 "" H1) as H2. simpl in H2.
  set (f2 := frun (map (FAppend tmp) chunks) f1) in *.
  unfold frun at 1 2 3. simpl. rewrite H2.
  split; [apply fget_fset_same|]. split.
  - rewrite fget_fset_other by congruence. apply fget_fdel_same.
  - intros q Hq1 Hq2. rewrite fget_fset_other by congruence. rewrite fget_fdel_other by congruence.
    unfold f2. rewrite frun_frame.
    + unfold f1, frun. simpl. apply fget_fset_other. congruence.
    + intros o Ho. apply in_map_iff in Ho. destruct Ho as [x [<- _]]. simpl. congruence.
Qed.

(* every call of the protocol except the final rename touches the temporary file only *)
Lemma commit_file_prefix_frame tmp chunks dirs dst done rest q :
  commit_file tmp chunks dirs dst = done ++ rest -> rest <> [] -> q <> tmp ->
  forall o, In o done -> ~ touches o q.
Proof.
  intros Heq Hrest Hq o Ho.
  assert (Hin : In o ([FCreate tmp] ++ map (FAppend tmp) chunks ++ map FMkdir dirs)).
  { unfold commit_file in Heq. rewrite !app_assoc in Heq.
    destruct (exists_last Hrest) as [r0 [ol Hr]]. subst rest. rewrite app_assoc in Heq.
    apply app_inj_tail in Heq. destruct Heq as [Heq _]. rewrite <- app_assoc in Heq. rewrite Heq.
    apply in_or_app. left. exact Ho. }
  simpl in Hin. destruct Hin as [<-|Hin]; [simpl; congruence|].
  apply in_app_or in Hin. destruct Hin as [Hin|Hin]; apply in_map_iff in Hin; destruct Hin as [x [<- _]]; simpl; auto.
Qed.

(* crash atomicity: whatever prefix of the protocol was executed, and however much of the interrupted write reached the
   file, every path other than the temporary file holds what it held before -- or, for the destination, all the bytes *)
Theorem commit_file_crash_atomic tmp chunks dirs dst f done :
  tmp <> dst -> crashed (commit_file tmp chunks dirs dst) done ->
  forall q, q <> tmp ->
    fget q (frun done f) = fget q f
    \/ (q = dst /\ fget q (frun done f) = Some (concat_str chunks)).
Proof.
  intros Hne Hc q Hq. inversion Hc as [ops d rest Heq | ops d o o' rest Heq Ht]; subst.
  - destruct rest as [|r0 rest'].
    + rewrite List.app_nil_r in Heq. subst done.
      destruct (commit_file_complete tmp chunks dirs dst f Hne) as [Hd [_ Ho]].
      destruct (String.eqb_spec q dst) as [->|Hqd]; [right; auto|left; apply Ho; auto].
    + left. apply frun_frame. eapply commit_file_prefix_frame; eauto. discriminate.
  - left. rewrite frun_app. unfold frun at 1. simpl.
    assert (Ho' : ~ touches o' q).
    { assert (Hin : forall x, In x (d ++ [o]) -> ~ touches x q).
      { apply (commit_file_prefix_frame tmp chunks dirs dst (d ++ [o]) rest q).
        - rewrite <- app_assoc. exact Heq.
        - (* the interrupted call is a write, never the final rename *)
          intros ->. unfold commit_file in Heq. rewrite !app_assoc in Heq.
          apply app_inj_tail in Heq. destruct Heq as [_ Heq]. subst o. inversion Ht.
        - exact Hq. }
      assert (Hio : In o (d ++ [o])) by (apply in_or_app; right; left; reflexivity).
      specialize (Hin o Hio).
      inversion Ht; subst; simpl in *; exact Hin. }
    rewrite fapply_frame by exact Ho'. apply frun_frame.
    intros x Hx. apply (commit_file_prefix_frame tmp chunks dirs dst (d ++ [o]) rest q); auto.
    + rewrite <- app_assoc. exact Heq.
    + intros ->. unfold commit_file in Heq. rewrite !app_assoc in Heq.
      apply app_inj_tail in Heq. destruct Heq as [_ Heq]. subst o. inversion Ht.
    + apply in_or_app. left. exact Hx.
Qed.

(* ---- protocol 2: removal (blob delete, collection, session cleanup) is a single call ------------------------- *)
Theorem remove_crash_atomic p f done :
  crashed [FRemove p] done -> forall q, fget q (frun done f) = fget q f \/ (q = p /\ fget q (frun done f) = None).
Proof.
  intros Hc q. inversion Hc as [ops d rest Heq | ops d o o' rest Heq Ht]; subst.
  - destruct done as [|x d'].
    + left. reflexivity.
    + destruct d'; [|destruct d'; discriminate]. simpl in Heq. inversion Heq; subst.
      unfold frun. simpl. destruct (String.eqb_spec q p) as [->|Hn]; [right; split; auto; apply fget_fdel_same|left; apply fget_fdel_other; congruence].
  - destruct d; simpl in Heq; inversion Heq; subst; [inversion Ht|destruct d; discriminate].
Qed.

(* ---- the repository seen through its files ------------------------------------------------------------------- *)
(* a request of the directory store is a sequence of protocol steps; each step publishes one path (a blob or index.json)
   or removes one.  A crash anywhere leaves every published path either untouched or completely written: *)
Inductive pstep :=
| PCommit (tmp : string) (chunks : list string) (dirs : list string) (dst : string)
| PRemove (p : string).

Definition pstep_ops (s : pstep) : list fsop :=
  match s with
  | PCommit tmp chunks dirs dst => commit_file tmp chunks dirs dst
  | PRemove p => [FRemove p]
  end.

(* the state after complete steps, as far as the published paths go *)
Definition pstep_done (s : pstep) (f : fsys) : fsys := frun (pstep_ops s) f.

Definition temp_of (s : pstep) : option string := match s with PCommit tmp _ _ _ => Some tmp | PRemove _ => None end.
Definition wf_step (s : pstep) : Prop := match s with PCommit tmp _ _ dst => tmp <> dst | PRemove _ => True end.

Theorem step_crash_atomic s f done :
  wf_step s -> crashed (pstep_ops s) done ->
  forall q, temp_of s <> Some q ->
    fget q (frun done f) = fget q f \/ fget q (frun done f) = fget q (pstep_done s f).
Proof.
  intros Hwf Hc q Hq. destruct s as [tmp chunks dirs dst|p]; simpl in *.
  - assert (Hqt : q <> tmp) by congruence.
    destruct (commit_file_crash_atomic tmp chunks dirs dst f done Hwf Hc q Hqt) as [H|[-> H]]; [left; exact H|].
    right. rewrite H. unfold pstep_done. simpl.
    destruct (commit_file_complete tmp chunks dirs dst f Hwf) as [Hd _]. symmetry. exact Hd.
  - destruct (remove_crash_atomic p f done Hc q) as [H|[-> H]]; [left; exact H|].
    right. rewrite H. unfold pstep_done, frun. simpl. symmetry. apply fget_fdel_same.
Qed.

(* ---- a whole request: a sequence of protocol steps ------------------------------------------------------------ *)
Definition req_ops (ss : list pstep) : list fsop := List.concat (map pstep_ops ss).

Lemma app_split {A} (a b d r : list A) :
  a ++ b = d ++ r -> (exists m, a = d ++ m /\ r = m ++ b) \/ (exists m, d = a ++ m /\ b = m ++ r).
Proof.
  revert d. induction a as [|x a IH]; intros d H; simpl in *.
  - right. exists d. auto.
  - destruct d as [|y d]; simpl in *.
    + left. exists (x :: a). subst r. auto.
    + inversion H; subst. destruct (IH d H2) as [[m [H3 H4]]|[m [H3 H4]]].
      * left. exists m. subst. auto.
      * right. exists m. subst. auto.
Qed.

(* a crash in a ++ b is a crash in a, or all of a followed by a crash in b *)
Lemma crashed_app a b done :
  crashed (a ++ b) done -> crashed a done \/ exists done', done = a ++ done' /\ crashed b done'.
Proof.
  intros H. inversion H as [ops d rest Heq | ops d o o' rest Heq Ht]; subst.
  - destruct (app_split a b done rest Heq) as [[m [H1 H2]]|[m [H1 H2]]].
    + left. apply (C_prefix a done m). exact H1.
    + right. exists m. split; auto. apply (C_prefix b m rest). exact H2.
  - destruct (app_split a b d (o :: rest) Heq) as [[m [H1 H2]]|[m [H1 H2]]].
    + destruct m as [|x m].
      * right. exists [o']. rewrite List.app_nil_r in H1. subst d. split; auto.
        simpl in H2. apply (C_torn b [] o o' rest); auto.
      * left. simpl in H2. inversion H2; subst. apply (C_torn (d ++ x :: m) d x o' m); auto.
    + right. exists (m ++ [o']). subst d. rewrite <- app_assoc. split; auto.
      apply (C_torn b m o o' rest); auto.
Qed.

Lemma req_ops_cons s ss : req_ops (s :: ss) = pstep_ops s ++ req_ops ss.
Proof. reflexivity. Qed.

(* Crash atomicity of a request: the directory a crash leaves is, on every path that is not the temporary file of the
   interrupted step, the directory after some number of complete steps, or that directory with the interrupted step's
   published path already (completely) in place. *)
Theorem request_crash_atomic : forall ss f done,
  Forall wf_step ss -> crashed (req_ops ss) done ->
  exists pre s post,
    (ss = pre ++ s :: post \/ (ss = pre /\ post = [] /\ s = PRemove ""))
    /\ forall q, temp_of s <> Some q ->
         fget q (frun done f) = fget q (frun (req_ops pre) f)
         \/ fget q (frun done f) = fget q (pstep_done s (frun (req_ops pre) f)).
Proof.
  induction ss as [|s ss IH]; intros f done Hwf Hc.
  - exists [], (PRemove ""), []. split; [right; auto|]. intros q _. left.
    inversion Hc as [ops d rest Heq | ops d o o' rest Heq Ht]; subst.
    + symmetry in Heq. apply app_eq_nil in Heq. destruct Heq as [-> _]. reflexivity.
    + destruct d; discriminate.
  - rewrite req_ops_cons in Hc. inversion Hwf as [|? ? Hs Hss]; subst.
    destruct (crashed_app _ _ _ Hc) as [H1|[done' [-> H2]]].
    + exists [], s, ss. split; [left; reflexivity|]. intros q Hq. simpl.
      exact (step_crash_atomic s f done Hs H1 q Hq).
    + destruct (IH (frun (pstep_ops s) f) done' Hss H2) as [pre [s' [post [Hsplit Hq]]]].
      exists (s :: pre), s', post. split.
      * destruct Hsplit as [->|[-> [-> ->]]]; [left; reflexivity|right; auto].
      * intros q Hqt. rewrite frun_app. rewrite req_ops_cons, frun_app. exact (Hq q Hqt).
Qed.

(* ---- uniform version: the directory after a crash IS a boundary directory (temporary files aside) ---------------- *)
Definition same_published (tmp : option string) (f g : fsys) : Prop :=
  forall q, tmp <> Some q -> fget q f = fget q g.

Lemma commit_file_crash_uniform tmp chunks dirs dst f done :
  tmp <> dst -> crashed (commit_file tmp chunks dirs dst) done ->
  same_published (Some tmp) (frun done f) f \/ done = commit_file tmp chunks dirs dst.
Proof.
  intros Hne Hc. inversion Hc as [ops d rest Heq | ops d o o' rest Heq Ht]; subst.
  - destruct rest as [|r0 rest'].
    + right. rewrite List.app_nil_r in Heq. auto.
    + left. intros q Hq. apply frun_frame. eapply commit_file_prefix_frame; eauto; [discriminate|congruence].
  - left. intros q Hq. assert (Hqt : q <> tmp) by congruence.
    assert (Hfr : forall x, In x (d ++ [o]) -> ~ touches x q).
    { apply (commit_file_prefix_frame tmp chunks dirs dst (d ++ [o]) rest q); auto.
      - rewrite <- app_assoc. exact Heq.
      - intros ->. unfold commit_file in Heq. rewrite !app_assoc in Heq.
        apply app_inj_tail in Heq. destruct Heq as [_ Heq]. subst o. inversion Ht. }
    rewrite frun_app. unfold frun at 1. simpl.
    assert (Ho' : ~ touches o' q).
    { assert (Hio : In o (d ++ [o])) by (apply in_or_app; right; left; reflexivity).
      specialize (Hfr o Hio). inversion Ht; subst; simpl in *; exact Hfr. }
    rewrite fapply_frame by exact Ho'. apply frun_frame.
    intros x Hx. apply Hfr. apply in_or_app. left. exact Hx.
Qed.

Lemma step_crash_uniform s f done :
  wf_step s -> crashed (pstep_ops s) done ->
  same_published (temp_of s) (frun done f) f \/ same_published (temp_of s) (frun done f) (pstep_done s f).
Proof.
  intros Hwf Hc. destruct s as [tmp chunks dirs dst|p]; simpl in *.
  - destruct (commit_file_crash_uniform tmp chunks dirs dst f done Hwf Hc) as [H|H]; [left; exact H|].
    subst done. right. intros q _. reflexivity.
  - inversion Hc as [ops d rest Heq | ops d o o' rest Heq Ht]; subst.
    + destruct done as [|x d'].
      * left. intros q _. reflexivity.
      * destruct d'; [|destruct d'; discriminate]. simpl in Heq. inversion Heq; subst. right. intros q _. reflexivity.
    + destruct d; simpl in Heq; inversion Heq; subst; [inversion Ht|destruct d; discriminate].
Qed.

(* THE crash theorem of the directory store's write protocols: whatever call the process dies in, and however much of
   an interrupted write reached the disk, the directory - temporary files aside - is exactly the directory after some
   number of complete protocol steps of the request: nothing published is ever half written, and since a request commits
   blobs before the index.json that names them, the steps completed form a prefix of the request. *)
Theorem request_crash_is_boundary : forall ss f done,
  Forall wf_step ss -> crashed (req_ops ss) done ->
  exists pre post tmp, ss = pre ++ post /\ same_published tmp (frun done f) (frun (req_ops pre) f).
Proof.
  induction ss as [|s ss IH]; intros f done Hwf Hc.
  - exists [], [], None. split; auto. intros q _.
    inversion Hc as [ops d rest Heq | ops d o o' rest Heq Ht]; subst.
    + symmetry in Heq. apply app_eq_nil in Heq. destruct Heq as [-> _]. reflexivity.
    + destruct d; discriminate.
  - rewrite req_ops_cons in Hc. inversion Hwf as [|? ? Hs Hss]; subst.
    destruct (crashed_app _ _ _ Hc) as [H1|[done' [-> H2]]].
    + destruct (step_crash_uniform s f done Hs H1) as [H|H].
      * exists [], (s :: ss), (temp_of s). split; auto.
      * exists [s], ss, (temp_of s). split; auto. intros q Hq. rewrite (H q Hq).
        unfold pstep_done, req_ops. simpl. rewrite List.app_nil_r. reflexivity.
    + destruct (IH (frun (pstep_ops s) f) done' Hss H2) as [pre [post [tmp [Hsplit Hq]]]].
      exists (s :: pre), post, tmp. split; [subst ss; reflexivity|].
      intros q Hqt. rewrite frun_app. rewrite req_ops_cons, frun_app. exact (Hq q Hqt).
Qed.
