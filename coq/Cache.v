(* Cache.v — the bounded cache of internal/cache/cache.go at the granularity of its own critical
   sections.  Entries carry a last-use time and the identity of the Entry object ([c_eid], fresh at every
   Set), which Delete uses to notice a replacement made while its cleanup ran unlocked.
   Cleanup outcomes are inputs: [fails] lists the keys whose callback reports an error during the event. *)
From Olareg Require Import Base.
Local Open Scope list_scope.
Local Open Scope Z_scope.

Record centry := mkCE { c_key : string; c_used : Z; c_val : Z; c_eid : nat }.

Record cache := mkC {
  c_entries : list centry;
  c_next : nat;                 (* next entry identity *)
  c_minage : Z; c_mincount : Z; c_maxcount : Z;
  c_hasfn : bool;               (* a cleanup callback (PruneFn) is configured *)
  c_timer : bool                (* the age timer is armed *)
}.

Definition cfind (k : string) (l : list centry) : option centry :=
  find (fun e => String.eqb (c_key e) k) l.
Definition cdel (k : string) (l : list centry) : list centry :=
  filter (fun e => negb (String.eqb (c_key e) k)) l.
Definition with_entries (c : cache) (l : list centry) : cache :=
  mkC l (c_next c) (c_minage c) (c_mincount c) (c_maxcount c) (c_hasfn c) (c_timer c).
Definition is_nil {A} (l : list A) : bool := match l with [] => true | _ => false end.
(* Delete, DeleteAll and pruneAge stop the timer when the cache became empty; pruneAge re-arms it otherwise *)
Definition stop_if_empty (c : cache) : cache :=
  if is_nil (c_entries c) then mkC (c_entries c) (c_next c) (c_minage c) (c_mincount c) (c_maxcount c) (c_hasfn c) false else c.
Definition timer_after_age (c : cache) : cache :=
  mkC (c_entries c) (c_next c) (c_minage c) (c_mincount c) (c_maxcount c) (c_hasfn c) (negb (is_nil (c_entries c))).

(* New: minCount = int(0.9 * Count), at least 1 when a count is configured *)
Definition new_cache (age count : Z) (hasfn : bool) : cache :=
  mkC [] 0 age (if 0 <? count then Z.max 1 (9 * count / 10) else 0) count hasfn false.

(* ---- events ----------------------------------------------------------------------------------------- *)
(* a cleanup call: key, value it was called on, whether it succeeded *)
Definition cbcall := (string * Z * bool)%type.

Definition c_set (c : cache) (k : string) (v t : Z) : cache :=
  mkC (cdel k (c_entries c) ++ [mkCE k t v (c_next c)]) (S (c_next c))
      (c_minage c) (c_mincount c) (c_maxcount c) (c_hasfn c) (c_timer c || (0 <? c_minage c)).

Definition c_get (c : cache) (k : string) (t : Z) : cache * option Z :=
  match cfind k (c_entries c) with
  | Some e => (with_entries c (map (fun x => if String.eqb (c_key x) k then mkCE k t (c_val x) (c_eid x) else x) (c_entries c)),
               Some (c_val e))
  | None => (c, None)
  end.

(* Delete: with a callback the mutex is released while it runs: [c_delete_begin] returns the entry the
   callback is invoked on; [c_delete_end] re-takes the mutex with the callback's verdict *)
Definition c_delete_begin (c : cache) (k : string) : option centry :=
  if c_hasfn c then cfind k (c_entries c) else None.

Definition c_delete_end (c : cache) (k : string) (started : option centry) (ok : bool) : cache * bool (* error *) :=
  match started with
  | Some e0 =>
      if negb ok then (c, true)
      else match cfind k (c_entries c) with
           | Some e => if Nat.eqb (c_eid e) (c_eid e0) then (stop_if_empty (with_entries c (cdel k (c_entries c))), false)
                       else (c, false)        (* replaced meanwhile: the new value has not been cleaned up *)
           | None => (c, false)
           end
  | None => (stop_if_empty (with_entries c (cdel k (c_entries c))), false)
  end.

(* DeleteAll: every entry is cleaned up and removed; entries whose cleanup fails stay (not refreshed) *)
Definition c_delete_all (c : cache) (fails : list string) : cache * list cbcall * bool :=
  if c_hasfn c then
    let failing e := existsb (String.eqb (c_key e)) fails in
    let kept := filter failing (c_entries c) in
    (stop_if_empty (with_entries c kept),
     map (fun e => (c_key e, c_val e, negb (failing e))) (c_entries c),
     negb (is_nil kept))
  else (stop_if_empty (with_entries c []), [], false).

(* pruneAge at time t: entries last used before t - minAge are cleaned up and removed; a failing cleanup
   keeps the entry and refreshes it *)
Definition prune_age_entry (c : cache) (t : Z) (fails : list string) (st : list centry * list cbcall) (e : centry)
  : list centry * list cbcall :=
  let '(kept, calls) := st in
  if c_used e <? t - c_minage c then
    if c_hasfn c then
      if existsb (String.eqb (c_key e)) fails
      then (kept ++ [mkCE (c_key e) t (c_val e) (c_eid e)], calls ++ [(c_key e, c_val e, false)])
      else (kept, calls ++ [(c_key e, c_val e, true)])
    else (kept, calls)
  else (kept ++ [e], calls).

Definition c_prune_age (c : cache) (t : Z) (fails : list string) : cache * list cbcall :=
  if c_minage c <=? 0 then (c, []) else
  let '(kept, calls) := fold_left (prune_age_entry c t fails) (c_entries c) ([], []) in
  (timer_after_age (with_entries c kept), calls).

(* pruneCount at time t: when more than minCount entries exist, the least recently used are cleaned up and
   removed until (len - minCount) were removed; failures are skipped (entry refreshed) *)
Fixpoint insert_used (e : centry) (l : list centry) : list centry :=
  match l with
  | [] => [e]
  | x :: r => if c_used e <=? c_used x then e :: l else x :: insert_used e r
  end.
Definition sort_used (l : list centry) : list centry := fold_right insert_used [] l.

Fixpoint prune_count_loop (hasfn : bool) (t : Z) (fails : list string) (todo : nat) (sorted : list centry)
  : list centry * list cbcall :=
  match todo, sorted with
  | O, _ => (sorted, [])
  | _, [] => ([], [])
  | S n, e :: r =>
      if hasfn && existsb (String.eqb (c_key e)) fails then
        let '(kept, calls) := prune_count_loop hasfn t fails todo r in
        (mkCE (c_key e) t (c_val e) (c_eid e) :: kept, (c_key e, c_val e, false) :: calls)
      else
        let '(kept, calls) := prune_count_loop hasfn t fails n r in
        (kept, if hasfn then (c_key e, c_val e, true) :: calls else calls)
  end.

Definition c_prune_count (c : cache) (t : Z) (fails : list string) : cache * list cbcall :=
  let n := Z.of_nat (List.length (c_entries c)) in
  if (c_mincount c <=? 0) || (n <=? c_mincount c) then (c, []) else
  let '(kept, calls) := prune_count_loop (c_hasfn c) t fails (Z.to_nat (n - c_mincount c)) (sort_used (c_entries c)) in
  (with_entries c kept, calls).

(* ---- one event, with what it reports --------------------------------------------------------------------- *)
Inductive cev :=
| CSet (k : string) (v t : Z)
| CGet (k : string) (t : Z)
| CDelete (k : string) (ok : bool)                        (* Delete with nothing happening in between *)
| CDeleteSetBetween (k : string) (v t : Z) (ok : bool)    (* Delete whose cleanup window sees a Set of the same key *)
| CDeleteAll (fails : list string)
| CPruneAge (t : Z) (fails : list string)
| CPruneCount (t : Z) (fails : list string)
(* Set as the callers see it: beyond the count limit it starts the count prune (which runs at [now]) *)
| CSetP (k : string) (v t : Z) (now : Z) (fails : list string)
| CDeleteSetBetweenP (k : string) (v t : Z) (ok : bool) (now : Z) (fails : list string).

Record cout := mkCO { co_calls : list cbcall; co_val : option Z; co_err : bool }.

Definition over_limit (c : cache) : bool :=
  (0 <? c_maxcount c) && (c_maxcount c <? Z.of_nat (List.length (c_entries c))).

Definition c_auto (r : cache * cout) (now : Z) (fails : list string) : cache * cout :=
  let '(c1, o) := r in
  if over_limit c1 then
    let '(c2, calls) := c_prune_count c1 now fails in (c2, mkCO (co_calls o ++ calls) (co_val o) (co_err o))
  else (c1, o).

Definition c_delete_plain (c : cache) (k : string) (ok : bool) : cache * cout :=
  let st := c_delete_begin c k in
  let '(c', err) := c_delete_end c k st ok in
  (c', mkCO (match st with Some e => [(k, c_val e, ok)] | None => [] end) None err).

Definition c_delete_set (c : cache) (k : string) (v t : Z) (ok : bool) : cache * cout :=
  match c_delete_begin c k with
  | Some e =>
      let c1 := c_set c k v t in
      let '(c', err) := c_delete_end c1 k (Some e) ok in
      (c', mkCO [(k, c_val e, ok)] None err)
  | None =>
      (* no cleanup runs (no callback configured, or no entry): there is no window, the Set comes after *)
      let '(c1, err) := c_delete_end c k None ok in
      (c_set c1 k v t, mkCO [] None err)
  end.

Definition c_step (c : cache) (ev : cev) : cache * cout :=
  match ev with
  | CSet k v t => (c_set c k v t, mkCO [] None false)
  | CGet k t => let '(c', v) := c_get c k t in (c', mkCO [] v (match v with Some _ => false | None => true end))
  | CDelete k ok => c_delete_plain c k ok
  | CDeleteSetBetween k v t ok => c_delete_set c k v t ok
  | CDeleteAll fails => let '(c', calls, err) := c_delete_all c fails in (c', mkCO calls None err)
  | CPruneAge t fails => let '(c', calls) := c_prune_age c t fails in (c', mkCO calls None false)
  | CPruneCount t fails => let '(c', calls) := c_prune_count c t fails in (c', mkCO calls None false)
  | CSetP k v t now fails => c_auto (c_set c k v t, mkCO [] None false) now fails
  | CDeleteSetBetweenP k v t ok now fails => c_auto (c_delete_set c k v t ok) now fails
  end.

Definition c_run (c : cache) (evs : list cev) : cache := fold_left (fun c ev => fst (c_step c ev)) evs c.

Definition c_keys (c : cache) : list string := map c_key (c_entries c).
