(* Props_C20.v — the bounded cache (internal/cache/cache.go) never drops an entry without its cleanup.
   Model: Cache.v (events at the granularity of the cache's critical sections; cleanup verdicts are inputs).
   Every statement below is for every cache state satisfying the invariant [cinv], which holds in every state
   reachable from New by any event sequence (C20_reachable). *)
From Olareg Require Import Base Cache CacheProofs.
Local Open Scope list_scope.
Local Open Scope Z_scope.

Theorem C20_reachable : forall age count hasfn evs, cinv (c_run (new_cache age count hasfn) evs).
Proof. exact reachable_inv. Qed.
Print Assumptions C20_reachable.

(* an Entry object that is gone after an event -- any of Set, Get, Delete, Delete with a Set landing in its
   cleanup window, DeleteAll, the age prune, the count prune, a Set that starts the count prune -- had its
   cleanup run successfully on its value during that event, unless the event is a Set of its own key
   (which replaces the value by design) *)
Theorem C20_cleanup_before_removal : forall c ev e,
  cinv c -> c_hasfn c = true -> In e (c_entries c) -> ev_sets ev <> Some (c_key e) ->
  gone e (c_entries (fst (c_step c ev))) ->
  In (c_key e, c_val e, true) (co_calls (snd (c_step c ev))).
Proof. exact cleanup_before_removal. Qed.
Print Assumptions C20_cleanup_before_removal.

(* a cleanup that reported an error leaves the entry (key and value) in the cache *)
Theorem C20_failed_cleanup_keeps : forall c ev k v,
  In (k, v, false) (co_calls (snd (c_step c ev))) ->
  ev_sets ev = Some k \/ exists e', In e' (c_entries (fst (c_step c ev))) /\ c_key e' = k /\ c_val e' = v.
Proof. exact failed_cleanup_keeps. Qed.
Print Assumptions C20_failed_cleanup_keeps.

(* the age prune at time t never removes an entry last used at or after t - age ... *)
Theorem C20_no_early_expiry : forall c t fails e,
  In e (c_entries c) -> t - c_minage c <= c_used e -> In e (c_entries (fst (c_prune_age c t fails))).
Proof. exact no_early_expiry. Qed.
Print Assumptions C20_no_early_expiry.

(* ... and removes every older one whose cleanup does not fail *)
Theorem C20_old_entries_expire : forall c t fails e,
  cinv c -> 0 < c_minage c -> In e (c_entries c) -> c_used e < t - c_minage c -> lfail (c_hasfn c) fails e = false ->
  ~ In (c_key e) (c_keys (fst (c_prune_age c t fails))).
Proof. exact old_entries_expire. Qed.
Print Assumptions C20_old_entries_expire.

(* count prune: whatever went was used no more recently than whatever stayed (entries whose cleanup failed aside) *)
Theorem C20_lru_first : forall c t fails x y,
  In x (c_entries c) -> gone x (c_entries (fst (c_prune_count c t fails))) ->
  In y (c_entries (fst (c_prune_count c t fails))) -> lfail (c_hasfn c) fails y = false ->
  c_used x <= c_used y.
Proof. exact lru_first. Qed.
Print Assumptions C20_lru_first.

Theorem C20_lru_first_on_insert : forall c k v t now fails x y,
  In x (c_entries (c_set c k v t)) -> gone x (c_entries (fst (c_step c (CSetP k v t now fails)))) ->
  In y (c_entries (fst (c_step c (CSetP k v t now fails)))) -> lfail (c_hasfn c) fails y = false ->
  c_used x <= c_used y.
Proof. exact lru_first_on_insert. Qed.
Print Assumptions C20_lru_first_on_insert.

(* as long as cleanups succeed, an insertion is followed by pruning back to at most the limit, in every reachable state *)
Theorem C20_insertion_bounded : forall age count hasfn evs k v t now fails,
  0 < count ->
  (forall e, In e (c_entries (c_set (c_run (new_cache age count hasfn) evs) k v t)) -> lfail hasfn fails e = false) ->
  Z.of_nat (List.length (c_entries (fst (c_step (c_run (new_cache age count hasfn) evs) (CSetP k v t now fails))))) <= count.
Proof. exact insertion_bounded_reachable. Qed.
Print Assumptions C20_insertion_bounded.

(* a value stored by a Set that lands while Delete's cleanup of the previous value runs is still there afterwards *)
Theorem C20_replaced_entry_kept : forall c k v t ok,
  cinv c -> exists e', In e' (c_entries (fst (c_delete_set c k v t ok))) /\ c_key e' = k /\ c_val e' = v /\ c_used e' = t.
Proof. exact replaced_entry_kept. Qed.
Print Assumptions C20_replaced_entry_kept.

(* the expiry timer is armed exactly while an age is configured and the cache is not empty *)
Theorem C20_timer_armed : forall age count hasfn evs,
  c_timer (c_run (new_cache age count hasfn) evs) = (0 <? age) && negb (is_nil (c_entries (c_run (new_cache age count hasfn) evs))).
Proof. exact timer_armed_reachable. Qed.
Print Assumptions C20_timer_armed.
