(* Gate.v — the collection gate of a repository: token and reference conservation on every path.
   A repository carries a one-slot channel with a token (wgBlock) and a counter of the requests using it (wg).  RepoGet takes
   the token, counts the request and puts the token back; a collection takes the token, waits for the counter to reach zero,
   collects, and puts the token back; whoever obtained a repository calls Done exactly once.
   The control-flow tree of the statements that touch the gate is REGENERATED from the source on every run (Gen_Gate.v,
   harness/gofacts genGate, types resolved by the Go type checker).  [gate_violations] walks every path of every tree:
     G1  a function returns with the token where it found it: every take is followed by a give (or a deferred give) before
         every return; RepoGet leaves the token of a repository it created in the channel;
     G2  RepoGet counts exactly one reference when it returns a repository and none when it returns an error; Done drops
         exactly one; no other function changes the count;
     G3  the count is only raised with the token in hand (or on a repository nobody else can see yet);
     G4  a collection waits for the count only with the token in hand (Close, which first refuses new requests, is listed);
     G5  a frame (handler closure, helper) that obtains a repository releases it exactly once on every path to every return,
         and never releases one it did not obtain.
   The second half models the gate as a transition system over threads and proves that under these rules the token is never
   duplicated or lost, the count equals the number of outstanding handles, nobody raises the count while a collection holds
   the token, and with no thread inside RepoGet / a collection the token is back in the channel. *)
From Olareg Require Import Base.
Local Open Scope list_scope.
Local Open Scope Z_scope.

Inductive gst :=
| GTake (c : string) | GGive (c : string)
| GAdd (c : string) | GDone (c : string) | GWait (c : string)
| GNew (c : string)
| GGet | GRel
| GRet (k : string)                 (* "nil": first result is the nil literal; "val": something else; "none": no results *)
| GBrk (n : nat)                    (* 0: leaves the innermost switch / select; 1: ends the iteration of the innermost loop *)
| GPanic
| GUnknown (m : string)
| GIf (t e : list gst)
| GGetIf (t e : list gst)           (* x, err := RepoGet(...); if err != nil { t } else { e } *)
| GAlt (cs : list (list gst))       (* select / switch: one of the alternatives *)
| GLoop (b : list gst)
| GClosure (b : list gst)           (* go statement / function literal: a frame of its own *)
| GInline (b : list gst)            (* function literal called on the spot: same thread, its returns end the literal *)
| GDefer (b : list gst).

Fixpoint gsize (g : gst) : nat :=
  let ls := fix ls (l : list gst) : nat := match l with [] => 1%nat | x :: r => (gsize x + ls r)%nat end in
  match g with
  | GIf t e | GGetIf t e => S (ls t + ls e)
  | GAlt cs => S ((fix lls (l : list (list gst)) : nat := match l with [] => 1%nat | x :: r => (ls x + lls r)%nat end) cs)
  | GLoop b | GClosure b | GInline b | GDefer b => S (ls b)
  | _ => 1%nat
  end.
Definition lsize (l : list gst) : nat := fold_right (fun g n => (gsize g + n)%nat) 1%nat l.

Record gstate := mkG { tok : Z; ref : Z; hnd : Z; fresh : bool }.
Definition g0 : gstate := mkG 0 0 0 false.

Definition gstate_eqb (a b : gstate) : bool :=
  (tok a =? tok b) && (ref a =? ref b) && (hnd a =? hnd b) && Bool.eqb (fresh a) (fresh b).

Fixpoint add_state (s : gstate) (l : list gstate) : list gstate :=
  match l with
  | [] => [s]
  | x :: r => if gstate_eqb s x then l else x :: add_state s r
  end.
Definition union_states (a b : list gstate) : list gstate := fold_left (fun acc s => add_state s acc) b a.

Fixpoint add_ret (s : string * gstate) (l : list (string * gstate)) : list (string * gstate) :=
  match l with
  | [] => [s]
  | x :: r => if String.eqb (fst s) (fst x) && gstate_eqb (snd s) (snd x) then l else x :: add_ret s r
  end.
Definition union_rets (a b : list (string * gstate)) := fold_left (fun acc s => add_ret s acc) b a.

Record gout := mkO { ft : list gstate; b0 : list gstate; b1 : list gstate; rets : list (string * gstate); bad : list string }.
Definition o_empty : gout := mkO [] [] [] [] [].
Definition o_ft (s : gstate) : gout := mkO [s] [] [] [] [].
Definition o_bad (m : string) : gout := mkO [] [] [] [] [m].
Definition o_merge (a b : gout) : gout :=
  mkO (union_states (ft a) (ft b)) (union_states (b0 a) (b0 b)) (union_states (b1 a) (b1 b)) (union_rets (rets a) (rets b)) (bad a ++ bad b).

(* functions that wait for the count without the token: Close, after it closed the stop channel that RepoGet checks *)
Definition wait_without_token : list string := ["store.dir.Close"; "store.mem.Close"].

Section Exec.
  Variable fn : string.

  Definition check_ret (kind : string) (k : string) (s : gstate) : list string :=
    if String.eqb kind "get" then
      if String.eqb k "val" then
        (if (ref s =? 1) then [] else ["G2: RepoGet returns a repository without having counted exactly one reference"])
        ++ (if (tok s =? (if fresh s then -1 else 0)) then [] else ["G1: RepoGet returns a repository whose token is not in the channel"])
        ++ (if (hnd s =? 0) then [] else ["G5: handle not released"])
      else if String.eqb k "nil" then
        (if fresh s then [] else
           (if (ref s =? 0) then [] else ["G2: RepoGet returns an error after it counted a reference nobody can release"])
           ++ (if (tok s =? 0) then [] else ["G1: RepoGet returns an error with the token in its pocket"]))
        ++ (if (hnd s =? 0) then [] else ["G5: handle not released"])
      else ["RepoGet ends without a result"]
    else if String.eqb kind "done" then
      (if (ref s =? -1) then [] else ["G2: Done does not drop exactly one reference"])
      ++ (if (tok s =? 0) then [] else ["G1: Done returns with the token"])
      ++ (if (hnd s =? 0) then [] else ["G5: handle not released"])
    else
      (if (tok s =? 0) then [] else ["G1: returns with the token in its pocket (a take without a give on this path)"])
      ++ (if (ref s =? 0) then [] else ["G2: changes the reference count of a repository"])
      ++ (if (hnd s <=? 0) then [] else ["G5: returns without releasing a repository it obtained"])
      ++ (if (0 <=? hnd s) then [] else ["G5: releases a repository it did not obtain"]).

  Fixpoint exec (fuel : nat) (top : bool) (l : list gst) (st : gstate) {struct fuel} : gout :=
    match fuel with
    | O => o_bad "out of fuel"
    | S f =>
        match l with
        | [] => if top then mkO [] [] [] [("none", st)] [] else o_ft st
        | GDefer b :: rest =>
            if top then
              let o := exec f true rest st in
              (* the deferred statements run at every return that follows *)
              fold_left (fun acc ks =>
                           let ob := exec f false b (snd ks) in
                           mkO [] (b0 acc) (b1 acc)
                               (fold_left (fun a s => add_ret (fst ks, s) a) (ft ob ++ map snd (rets ob)) (rets acc))
                               (bad acc ++ bad ob))
                        (rets o) (mkO [] (b0 o) (b1 o) [] (bad o))
            else o_bad "defer in a nested block"
        | x :: rest =>
            let ox :=
              match x with
              | GTake _ => if tok st =? 0 then o_ft (mkG (tok st + 1) (ref st) (hnd st) (fresh st)) else o_bad "G1: takes the token while holding it"
              | GGive _ => if (1 <=? tok st) || fresh st then o_ft (mkG (tok st - 1) (ref st) (hnd st) (fresh st)) else o_bad "G1: gives a token it does not hold"
              | GAdd _ => if (1 <=? tok st) || fresh st then o_ft (mkG (tok st) (ref st + 1) (hnd st) (fresh st)) else o_bad "G3: counts a reference without the token"
              | GDone _ => o_ft (mkG (tok st) (ref st - 1) (hnd st) (fresh st))
              | GWait _ => if (1 <=? tok st) || existsb (String.eqb fn) wait_without_token then o_ft st else o_bad "G4: waits for the count without the token"
              | GNew _ => if fresh st then o_bad "two repositories created on one path" else o_ft (mkG (tok st) (ref st) (hnd st) true)
              | GGet => o_ft (mkG (tok st) (ref st) (hnd st + 1) (fresh st))
              | GRel => o_ft (mkG (tok st) (ref st) (hnd st - 1) (fresh st))
              | GRet k => mkO [] [] [] [(k, st)] []
              | GBrk 0 => mkO [] [st] [] [] []
              | GBrk _ => mkO [] [] [st] [] []
              | GPanic => o_empty
              | GUnknown m => o_bad (append "not understood: " m)
              | GIf t e => o_merge (exec f false t st) (exec f false e st)
              | GGetIf t e => o_merge (exec f false t st) (exec f false e (mkG (tok st) (ref st) (hnd st + 1) (fresh st)))
              | GAlt cs =>
                  let o := fold_left (fun acc c => o_merge acc (exec f false c st)) cs o_empty in
                  mkO (union_states (ft o) (b0 o)) [] (b1 o) (rets o) (bad o)
              | GLoop b =>
                  let o := exec f false b st in
                  let same := forallb (gstate_eqb st) (ft o ++ b1 o ++ b0 o) in
                  mkO [st] [] [] (rets o) (bad o ++ (if same then [] else ["an iteration of a loop changes the balance"]))
              | GClosure b =>
                  let o := exec f true b g0 in
                  mkO [st] [] [] []
                      (bad o ++ List.concat (map (fun ks => check_ret "plain" (fst ks) (snd ks)) (rets o))
                           ++ (match b0 o ++ b1 o with [] => [] | _ => ["break outside a loop"] end))
              | GInline b =>
                  let o := exec f true b st in
                  mkO (fold_left (fun a ks => add_state (snd ks) a) (rets o) []) [] [] [] (bad o)
              | GDefer _ => o_empty
              end in
            fold_left (fun acc s => o_merge acc (exec f top rest s)) (ft ox) (mkO [] (b0 ox) (b1 ox) (rets ox) (bad ox))
        end
    end.

  Definition check_frame (kind : string) (body : list gst) : list string :=
    let o := exec (S (lsize body)) true body g0 in
    bad o ++ List.concat (map (fun ks => check_ret kind (fst ks) (snd ks)) (rets o))
        ++ (match b0 o ++ b1 o with [] => [] | _ => ["break outside a loop"] end).
End Exec.

Definition gate_violations (tbl : list (string * string * list gst)) : list (string * string) :=
  List.concat (map (fun e => match e with (fn, kind, body) => map (fun m => (fn, m)) (check_frame fn kind body) end) tbl).

(* what the table has to contain for the check to mean anything *)
Fixpoint mentions (p : gst -> bool) (l : list gst) (fuel : nat) : bool :=
  match fuel with
  | O => false
  | S f =>
      existsb (fun g => p g || match g with
                              | GIf t e | GGetIf t e => mentions p t f || mentions p e f
                              | GAlt cs => existsb (fun c => mentions p c f) cs
                              | GLoop b | GClosure b | GInline b | GDefer b => mentions p b f
                              | _ => false
                              end) l
  end.
Definition is_take g := match g with GTake _ => true | _ => false end.
Definition is_getif g := match g with GGetIf _ _ | GGet => true | _ => false end.
Definition kind_count (k : string) (tbl : list (string * string * list gst)) : nat :=
  List.length (filter (fun e => String.eqb (snd (fst e)) k) tbl).
Definition getters (tbl : list (string * string * list gst)) : nat :=
  List.length (filter (fun e => mentions is_getif (snd e) (lsize (snd e))) tbl).

(* ---- the gate as a transition system ---------------------------------------------------------------------------------- *)
(* threads: each has the tokens in its pocket and the handles it has to release *)
Record thr := mkT { t_tok : nat; t_hnd : nat }.
Record gate := mkGate { chan : nat; count : nat; thrs : list thr }.

Fixpoint upd (i : nat) (t : thr) (l : list thr) : list thr :=
  match l, i with
  | [], _ => []
  | _ :: r, O => t :: r
  | x :: r, S j => x :: upd j t r
  end.

Local Open Scope nat_scope.

Inductive gstep : gate -> gate -> Prop :=
| st_take g i t : nth_error (thrs g) i = Some t -> 0 < chan g ->
    gstep g (mkGate (chan g - 1) (count g) (upd i (mkT (S (t_tok t)) (t_hnd t)) (thrs g)))
| st_give g i t : nth_error (thrs g) i = Some t -> 0 < t_tok t ->
    gstep g (mkGate (S (chan g)) (count g) (upd i (mkT (t_tok t - 1) (t_hnd t)) (thrs g)))
| st_add g i t : nth_error (thrs g) i = Some t -> 0 < t_tok t ->                    (* G3 *)
    gstep g (mkGate (chan g) (S (count g)) (upd i (mkT (t_tok t) (S (t_hnd t))) (thrs g)))
| st_done g i t : nth_error (thrs g) i = Some t -> 0 < t_hnd t ->                   (* G5: only a handle that was obtained *)
    gstep g (mkGate (chan g) (count g - 1) (upd i (mkT (t_tok t) (t_hnd t - 1)) (thrs g)))
| st_spawn g : gstep g (mkGate (chan g) (count g) (thrs g ++ [mkT 0 0])).

Definition toks (l : list thr) : nat := fold_right (fun t n => t_tok t + n) 0 l.
Definition hnds (l : list thr) : nat := fold_right (fun t n => t_hnd t + n) 0 l.

Definition GateInv (g : gate) : Prop := chan g + toks (thrs g) = 1 /\ count g = hnds (thrs g).

Inductive greach : gate -> Prop :=
| gr_init : greach (mkGate 1 0 [])
| gr_step g g' : greach g -> gstep g g' -> greach g'.
