(* Gate.v — the collection gate of a repository: token and reference conservation on every path.
   A repository carries a one-slot channel with a token (wgBlock) and a counter of the requests using it (wg).  RepoGet takes
   the token, counts the request and puts the token back; a collection takes the token, waits for the counter to reach zero,
   collects, and puts the token back; whoever obtained a repository calls Done exactly once.
   The control-flow tree of the statements that touch the gate is REGENERATED from the source on every run (Gen_Gate.v,
   harness/gofacts genGate, types resolved by the Go type checker).  [gate_violations] walks every path of every tree:
     G1  a function returns with the token where it found it: every take is followed by a give (or a deferred give) before
         every return; RepoGet leaves the token of a repository it created in the channel;
     G2  RepoGet counts exactly one reference when it returns a repository and none when it returns an error; Done drops
         exactly one; no other function changes the count;
     G3  the count is only raised with the token in hand (or on a repository nobody else can see yet);
     G4  a collection waits for the count only with the token in hand (Close, which first refuses new requests, is listed);
     G5  a frame (handler closure, helper) that obtains a repository releases it exactly once on every path to every return,
         and never releases one it did not obtain;
     L1  a frame returns, on every path, without any mutex it locked itself (deferred unlocks run at the return; the `locked`
         flags of the code - parameters and locals of that name, compared and assigned literally - are followed, so that
         `if !locked { Lock; defer Unlock }` and `locked = false` after an early Unlock are understood);
     L2  it never unlocks a mutex it does not hold at that point, L3 never locks one it already holds;
         the PrunePreFn / PruneFn / PrunePostFn callbacks of a cache are one frame, run in that order by the cache.
   The second half models the gate as a transition system over threads and proves that under these rules the token is never
   duplicated or lost, the count equals the number of outstanding handles, nobody raises the count while a collection holds
   the token, and with no thread inside RepoGet / a collection the token is back in the channel. *)
From Olareg Require Import Base.
Local Open Scope list_scope.
Local Open Scope Z_scope.

Inductive gst :=
| GTake (c : string) | GGive (c : string)
| GAdd (c : string) | GDone (c : string) | GWait (c : string)
| GNew (c : string)
| GGet | GRel
| GLock (c : string) | GUnlock (c : string)
| GSetVar (v : string) (b : bool)   (* locked = true / false *)
| GRet (k : string)                 (* "nil": first result is the nil literal; "val": something else; "none": no results *)
| GBrk (n : nat)                    (* 0: leaves the innermost switch / select; 1: ends the iteration of the innermost loop *)
| GPanic
| GUnknown (m : string)
| GIf (t e : list gst)
| GGetIf (t e : list gst)           (* x, err := RepoGet(...); if err != nil { t } else { e } *)
| GAlt (cs : list (list gst))       (* select / switch: one of the alternatives *)
| GLoop (b : list gst)
| GClosure (b : list gst)           (* go statement / function literal: a frame of its own *)
| GInline (b : list gst)            (* function literal called on the spot: same thread, its returns end the literal *)
| GIfVar (v : string) (neg : bool) (t e : list gst)   (* if v { t } else { e }   /   if !v { t } else { e } *)
| GDefer (n : nat) (b : list gst).  (* n: number of the defer statement within the function *)

Fixpoint gsize (g : gst) : nat :=
  let ls := fix ls (l : list gst) : nat := match l with [] => 1%nat | x :: r => (gsize x + ls r)%nat end in
  match g with
  | GIf t e | GGetIf t e | GIfVar _ _ t e => S (ls t + ls e)
  | GAlt cs => S ((fix lls (l : list (list gst)) : nat := match l with [] => 1%nat | x :: r => (ls x + lls r)%nat end) cs)
  | GLoop b | GClosure b | GInline b | GDefer _ b => S (ls b)
  | _ => 1%nat
  end.
Definition lsize (l : list gst) : nat := fold_right (fun g n => (gsize g + n)%nat) 1%nat l.

Record gstate := mkG { tok : Z; ref : Z; hnd : Z; fresh : bool;
                       held : list string;              (* mutex classes locked by this frame *)
                       vars : list (string * bool);     (* what is known of the `locked` flags *)
                       dfr : list nat }.                (* pending defer statements, last first *)
Definition g0 : gstate := mkG 0 0 0 false [] [] [].

Fixpoint list_eqb {A} (eq : A -> A -> bool) (a b : list A) : bool :=
  match a, b with
  | [], [] => true
  | x :: r, y :: q => eq x y && list_eqb eq r q
  | _, _ => false
  end.

Definition gstate_eqb (a b : gstate) : bool :=
  (tok a =? tok b) && (ref a =? ref b) && (hnd a =? hnd b) && Bool.eqb (fresh a) (fresh b)
  && list_eqb String.eqb (held a) (held b)
  && list_eqb (fun x y => String.eqb (fst x) (fst y) && Bool.eqb (snd x) (snd y)) (vars a) (vars b)
  && list_eqb Nat.eqb (dfr a) (dfr b).

Definition set_tok (s : gstate) (z : Z) := mkG z (ref s) (hnd s) (fresh s) (held s) (vars s) (dfr s).
Definition set_ref (s : gstate) (z : Z) := mkG (tok s) z (hnd s) (fresh s) (held s) (vars s) (dfr s).
Definition set_hnd (s : gstate) (z : Z) := mkG (tok s) (ref s) z (fresh s) (held s) (vars s) (dfr s).
Definition set_fresh (s : gstate) := mkG (tok s) (ref s) (hnd s) true (held s) (vars s) (dfr s).
Definition set_held (s : gstate) (h : list string) := mkG (tok s) (ref s) (hnd s) (fresh s) h (vars s) (dfr s).
Definition set_dfr (s : gstate) (d : list nat) := mkG (tok s) (ref s) (hnd s) (fresh s) (held s) (vars s) d.
Definition set_var (s : gstate) (v : string) (b : bool) :=
  mkG (tok s) (ref s) (hnd s) (fresh s) (held s) ((v, b) :: filter (fun x => negb (String.eqb (fst x) v)) (vars s)) (dfr s).
Fixpoint get_var (v : string) (l : list (string * bool)) : option bool :=
  match l with [] => None | (k, b) :: r => if String.eqb k v then Some b else get_var v r end.
Fixpoint remove_first_s (c : string) (l : list string) : list string :=
  match l with [] => [] | x :: r => if String.eqb x c then r else x :: remove_first_s c r end.

Fixpoint add_state (s : gstate) (l : list gstate) : list gstate :=
  match l with
  | [] => [s]
  | x :: r => if gstate_eqb s x then l else x :: add_state s r
  end.
Definition union_states (a b : list gstate) : list gstate := fold_left (fun acc s => add_state s acc) b a.

Fixpoint add_ret (s : string * gstate) (l : list (string * gstate)) : list (string * gstate) :=
  match l with
  | [] => [s]
  | x :: r => if String.eqb (fst s) (fst x) && gstate_eqb (snd s) (snd x) then l else x :: add_ret s r
  end.
Definition union_rets (a b : list (string * gstate)) := fold_left (fun acc s => add_ret s acc) b a.

Record gout := mkO { ft : list gstate; b0 : list gstate; b1 : list gstate; rets : list (string * gstate); bad : list string }.
Definition o_empty : gout := mkO [] [] [] [] [].
Definition o_ft (s : gstate) : gout := mkO [s] [] [] [] [].
Definition o_bad (m : string) : gout := mkO [] [] [] [] [m].
Definition o_merge (a b : gout) : gout :=
  mkO (union_states (ft a) (ft b)) (union_states (b0 a) (b0 b)) (union_states (b1 a) (b1 b)) (union_rets (rets a) (rets b)) (bad a ++ bad b).

(* functions that wait for the count without the token: Close, after it closed the stop channel that RepoGet checks *)
Definition wait_without_token : list string := ["store.dir.Close"; "store.mem.Close"].

(* a return with a mutex held on a path that cannot be taken: dir.Close returns early, with the store mutex, when listing the
   repository cache fails - Cache.List fails only for a nil cache, and the store's cache is created with the store *)
Definition locked_return_unreachable : list (string * string) := [("store.dir.Close", "dir.mu")].

Section Exec.
  Variable fn : string.
  Variable dtab : list (nat * list gst).      (* the defer statements of the function, by number *)

  Fixpoint dlookup (n : nat) (l : list (nat * list gst)) : option (list gst) :=
    match l with [] => None | (k, b) :: r => if Nat.eqb k n then Some b else dlookup n r end.

  Definition check_ret (kind : string) (k : string) (s : gstate) : list string :=
    (if String.eqb kind "get" then
      if String.eqb k "val" then
        (if (ref s =? 1) then [] else ["G2: RepoGet returns a repository without having counted exactly one reference"])
        ++ (if (tok s =? (if fresh s then -1 else 0)) then [] else ["G1: RepoGet returns a repository whose token is not in the channel"])
        ++ (if (hnd s =? 0) then [] else ["G5: handle not released"])
      else if String.eqb k "nil" then
        (if fresh s then [] else
           (if (ref s =? 0) then [] else ["G2: RepoGet returns an error after it counted a reference nobody can release"])
           ++ (if (tok s =? 0) then [] else ["G1: RepoGet returns an error with the token in its pocket"]))
        ++ (if (hnd s =? 0) then [] else ["G5: handle not released"])
      else ["RepoGet ends without a result"]
    else if String.eqb kind "done" then
      (if (ref s =? -1) then [] else ["G2: Done does not drop exactly one reference"])
      ++ (if (tok s =? 0) then [] else ["G1: Done returns with the token"])
      ++ (if (hnd s =? 0) then [] else ["G5: handle not released"])
    else
      (if (tok s =? 0) then [] else ["G1: returns with the token in its pocket (a take without a give on this path)"])
      ++ (if (ref s =? 0) then [] else ["G2: changes the reference count of a repository"])
      ++ (if (hnd s <=? 0) then [] else ["G5: returns without releasing a repository it obtained"])
      ++ (if (0 <=? hnd s) then [] else ["G5: releases a repository it did not obtain"]))
    ++ map (fun c => append "L1: returns with a mutex locked that it locked itself: " c)
           (filter (fun c => negb (existsb (fun a => String.eqb (fst a) fn && String.eqb (snd a) c) locked_return_unreachable)) (held s)).

  Fixpoint exec (fuel : nat) (top : bool) (l : list gst) (st : gstate) {struct fuel} : gout :=
    match fuel with
    | O => o_bad "out of fuel"
    | S f =>
        (* the deferred statements pending in [s], last first: the states after them *)
        let run_defers := fix rd (ds : list nat) (ss : list gstate) (bads : list string) : list gstate * list string :=
          match ds with
          | [] => (ss, bads)
          | n :: r =>
              match dlookup n dtab with
              | None => (ss, bads ++ ["unknown defer"])
              | Some b =>
                  let os := map (fun s => exec f false b s) ss in
                  rd r (fold_left (fun a o => union_states a (union_states (ft o) (map snd (rets o)))) os [])
                     (bads ++ List.concat (map bad os))
              end
          end in
        (* a frame: its returns run its defers *)
        let frame := fun (b : list gst) (s0 : gstate) =>
          let o := exec f true b s0 in
          fold_left (fun acc ks =>
                       let r := run_defers (dfr (snd ks)) [set_dfr (snd ks) []] [] in
                       (fold_left (fun a s => add_ret (fst ks, s) a) (fst r) (fst acc), snd acc ++ snd r))
                    (rets o) ([], bad o ++ (match b0 o ++ b1 o with [] => [] | _ => ["break outside a loop"] end)) in
        match l with
        | [] => if top then mkO [] [] [] [("none", st)] [] else o_ft st
        | x :: rest =>
            let ox :=
              match x with
              | GTake _ => if tok st =? 0 then o_ft (set_tok st (tok st + 1)) else o_bad "G1: takes the token while holding it"
              | GGive _ => if (1 <=? tok st) || fresh st then o_ft (set_tok st (tok st - 1)) else o_bad "G1: gives a token it does not hold"
              | GAdd _ => if (1 <=? tok st) || fresh st then o_ft (set_ref st (ref st + 1)) else o_bad "G3: counts a reference without the token"
              | GDone _ => o_ft (set_ref st (ref st - 1))
              | GWait _ => if (1 <=? tok st) || existsb (String.eqb fn) wait_without_token then o_ft st else o_bad "G4: waits for the count without the token"
              | GNew _ => if fresh st then o_bad "two repositories created on one path" else o_ft (set_fresh st)
              | GGet => o_ft (set_hnd st (hnd st + 1))
              | GRel => o_ft (set_hnd st (hnd st - 1))
              | GLock c => if existsb (String.eqb c) (held st) then o_bad (append "L3: locks a mutex it already holds: " c)
                           else o_ft (set_held st (c :: held st))
              | GUnlock c => if existsb (String.eqb c) (held st) then o_ft (set_held st (remove_first_s c (held st)))
                             else o_bad (append "L2: unlocks a mutex it does not hold: " c)
              | GSetVar v b => o_ft (set_var st v b)
              | GRet k => mkO [] [] [] [(k, st)] []
              | GBrk 0 => mkO [] [st] [] [] []
              | GBrk _ => mkO [] [] [st] [] []
              | GPanic => o_empty
              | GUnknown m => o_bad (append "not understood: " m)
              | GIf t e => o_merge (exec f false t st) (exec f false e st)
              | GIfVar v neg t e =>
                  match get_var v (vars st) with
                  | Some b => if xorb b neg then exec f false t st else exec f false e st
                  | None => o_merge (exec f false t (set_var st v (negb neg))) (exec f false e (set_var st v neg))
                  end
              | GGetIf t e => o_merge (exec f false t st) (exec f false e (set_hnd st (hnd st + 1)))
              | GAlt cs =>
                  let o := fold_left (fun acc c => o_merge acc (exec f false c st)) cs o_empty in
                  mkO (union_states (ft o) (b0 o)) [] (b1 o) (rets o) (bad o)
              | GLoop b =>
                  let o := exec f false b st in
                  let same := forallb (gstate_eqb st) (ft o ++ b1 o ++ b0 o) in
                  mkO [st] [] [] (rets o) (bad o ++ (if same then [] else ["an iteration of a loop changes the balance"]))
              | GClosure b =>
                  let r := frame b g0 in
                  mkO [st] [] [] [] (snd r ++ List.concat (map (fun ks => check_ret "plain" (fst ks) (snd ks)) (fst r)))
              | GInline b =>
                  (* same thread: the state carries over, the literal's own defers run at its returns *)
                  let r := frame b (set_dfr st []) in
                  mkO (fold_left (fun a ks => add_state (set_dfr (snd ks) (dfr st)) a) (fst r) []) [] [] [] (snd r)
              | GDefer n _ => o_ft (set_dfr st (n :: dfr st))
              end in
            fold_left (fun acc s => o_merge acc (exec f top rest s)) (ft ox) (mkO [] (b0 ox) (b1 ox) (rets ox) (bad ox))
        end
    end.

  (* the defers pending at a return of the function itself *)
  Fixpoint run_defers_top (fuel : nat) (ds : list nat) (ss : list gstate) (bads : list string) : list gstate * list string :=
    match ds with
    | [] => (ss, bads)
    | n :: r =>
        match dlookup n dtab with
        | None => (ss, bads ++ ["unknown defer"])
        | Some b =>
            let os := map (fun s => exec fuel false b s) ss in
            run_defers_top fuel r (fold_left (fun a o => union_states a (union_states (ft o) (map snd (rets o)))) os [])
                           (bads ++ List.concat (map bad os))
        end
    end.

  Definition check_frame (kind : string) (body : list gst) : list string :=
    let fuel := S (lsize body) in
    let ob := exec fuel true body g0 in
    let finals := fold_left (fun acc ks =>
                               let r := run_defers_top fuel (dfr (snd ks)) [set_dfr (snd ks) []] [] in
                               (fold_left (fun a s => add_ret (fst ks, s) a) (fst r) (fst acc), snd acc ++ snd r))
                            (rets ob) ([], []) in
    bad ob ++ snd finals ++ List.concat (map (fun ks => check_ret kind (fst ks) (snd ks)) (fst finals))
        ++ (match b0 ob ++ b1 ob with [] => [] | _ => ["break outside a loop"] end).
End Exec.

(* the defer statements of a function *)
Fixpoint defers_of (fuel : nat) (l : list gst) : list (nat * list gst) :=
  match fuel with
  | O => []
  | S f =>
      flat_map (fun g => match g with
                         | GDefer n b => (n, b) :: defers_of f b
                         | GIf t e | GGetIf t e | GIfVar _ _ t e => defers_of f t ++ defers_of f e
                         | GAlt cs => flat_map (defers_of f) cs
                         | GLoop b | GClosure b | GInline b => defers_of f b
                         | _ => []
                         end) l
  end.

Definition gate_violations (tbl : list (string * string * list gst)) : list (string * string) :=
  List.concat (map (fun e => match e with (fn, kind, body) =>
                                map (fun m => (fn, m)) (check_frame fn (defers_of (lsize body) body) kind body) end) tbl).

(* what the table has to contain for the check to mean anything *)
Fixpoint mentions (p : gst -> bool) (l : list gst) (fuel : nat) : bool :=
  match fuel with
  | O => false
  | S f =>
      existsb (fun g => p g || match g with
                              | GIf t e | GGetIf t e | GIfVar _ _ t e => mentions p t f || mentions p e f
                              | GAlt cs => existsb (fun c => mentions p c f) cs
                              | GLoop b | GClosure b | GInline b | GDefer _ b => mentions p b f
                              | _ => false
                              end) l
  end.
Definition is_take g := match g with GTake _ => true | _ => false end.
Definition is_getif g := match g with GGetIf _ _ | GGet => true | _ => false end.
Definition kind_count (k : string) (tbl : list (string * string * list gst)) : nat :=
  List.length (filter (fun e => String.eqb (snd (fst e)) k) tbl).
Definition getters (tbl : list (string * string * list gst)) : nat :=
  List.length (filter (fun e => mentions is_getif (snd e) (lsize (snd e))) tbl).

(* ---- the gate as a transition system ---------------------------------------------------------------------------------- *)
(* threads: each has the tokens in its pocket and the handles it has to release *)
Record thr := mkT { t_tok : nat; t_hnd : nat }.
Record gate := mkGate { chan : nat; count : nat; thrs : list thr }.

Fixpoint upd (i : nat) (t : thr) (l : list thr) : list thr :=
  match l, i with
  | [], _ => []
  | _ :: r, O => t :: r
  | x :: r, S j => x :: upd j t r
  end.

Local Open Scope nat_scope.

Inductive gstep : gate -> gate -> Prop :=
| st_take g i t : nth_error (thrs g) i = Some t -> 0 < chan g ->
    gstep g (mkGate (chan g - 1) (count g) (upd i (mkT (S (t_tok t)) (t_hnd t)) (thrs g)))
| st_give g i t : nth_error (thrs g) i = Some t -> 0 < t_tok t ->
    gstep g (mkGate (S (chan g)) (count g) (upd i (mkT (t_tok t - 1) (t_hnd t)) (thrs g)))
| st_add g i t : nth_error (thrs g) i = Some t -> 0 < t_tok t ->                    (* G3 *)
    gstep g (mkGate (chan g) (S (count g)) (upd i (mkT (t_tok t) (S (t_hnd t))) (thrs g)))
| st_done g i t : nth_error (thrs g) i = Some t -> 0 < t_hnd t ->                   (* G5: only a handle that was obtained *)
    gstep g (mkGate (chan g) (count g - 1) (upd i (mkT (t_tok t) (t_hnd t - 1)) (thrs g)))
| st_spawn g : gstep g (mkGate (chan g) (count g) (thrs g ++ [mkT 0 0])).

Definition toks (l : list thr) : nat := fold_right (fun t n => t_tok t + n) 0 l.
Definition hnds (l : list thr) : nat := fold_right (fun t n => t_hnd t + n) 0 l.

Definition GateInv (g : gate) : Prop := chan g + toks (thrs g) = 1 /\ count g = hnds (thrs g).

Inductive greach : gate -> Prop :=
| gr_init : greach (mkGate 1 0 [])
| gr_step g g' : greach g -> gstep g g' -> greach g'.
