(* Referrer.v — referrerSplit (referrer.go:214-268): cutting a referrers response into pages that
   respect the size limit.  JSON lengths are inputs: [base] is the length of the response with an empty
   manifest list, [len d] the length of descriptor d as encoding/json prints it; a response with n >= 1
   descriptors has length base + sum of the descriptor lengths + (n - 1) commas. *)
From Olareg Require Import Base.
Local Open Scope list_scope.
Local Open Scope Z_scope.

Section Split.
  Context {A : Type}.
  Variable len : A -> Z.
  Variable base : Z.
  Variable limit : Z.

  Fixpoint sum_len (l : list A) : Z :=
    match l with [] => 0 | d :: r => len d + sum_len r end.

  (* length of json.Marshal(cur) *)
  Definition enc_len (cur : list A) : Z :=
    match cur with
    | [] => base
    | _ => base + sum_len cur + (Z.of_nat (List.length cur) - 1)
    end.

  (* loop state: pages emitted so far (reversed), the descriptors of the page being filled, and whether
     `last` holds an encoding of it (len(last) > 0); `last` always encodes [cur] when set *)
  Record sstate := mkSS { ss_pages : list (list A); ss_cur : list A; ss_last : bool; ss_dropped : list A }.

  Definition emit (s : sstate) : list (list A) :=
    if ss_last s && (enc_len (ss_cur s) <=? limit) then ss_cur s :: ss_pages s else ss_pages s.

  Definition split_step (s : sstate) (d : A) : sstate :=
    let cur1 := ss_cur s ++ [d] in
    if enc_len cur1 >? limit then
      (* the page is full: emit what was encoded last, start a new page with d *)
      let pages := emit s in
      if enc_len [d] >? limit then mkSS pages [] false (d :: ss_dropped s)     (* a single descriptor beyond the limit is skipped *)
      else mkSS pages [d] true (ss_dropped s)
    else mkSS (ss_pages s) cur1 true (ss_dropped s).

  Definition split (ds : list A) : list (list A) * list A :=
    let s := fold_left split_step ds (mkSS [] [] false []) in
    (rev (emit s), rev (ss_dropped s)).

  (* ---- properties --------------------------------------------------------------------------------- *)
  (* invariant: every emitted page is non-empty and within the limit; the page being filled, when encoded,
     is non-empty and within the limit; pages ++ cur ++ dropped is a partition of the input read so far *)
  Definition pages_ok (ps : list (list A)) : Prop :=
    Forall (fun p => p <> [] /\ enc_len p <= limit) ps.

  Definition sinv (s : sstate) : Prop :=
    pages_ok (ss_pages s)
    /\ (ss_last s = true -> ss_cur s <> [] /\ enc_len (ss_cur s) <= limit)
    /\ (ss_last s = false -> ss_cur s = []).

  Lemma emit_ok s : sinv s -> pages_ok (emit s).
  Proof.
    intros [Hp [Hl _]]. unfold emit. destruct (ss_last s) eqn:El; simpl; [|exact Hp].
    destruct (Z.leb_spec (enc_len (ss_cur s)) limit) as [Hle|Hgt]; [|exact Hp].
    constructor; [|exact Hp]. destruct (Hl eq_refl) as [Hne _]. split; assumption.
  Qed.

  Lemma split_step_inv s d : sinv s -> sinv (split_step s d).
  Proof.
    intros Hs. pose proof (emit_ok s Hs) as He. destruct Hs as [Hp [Hl Hn]].
    unfold split_step. destruct (Z.gtb_spec (enc_len (ss_cur s ++ [d])) limit) as [Hbig|Hfit].
    - destruct (Z.gtb_spec (enc_len [d]) limit) as [Hd|Hd]; repeat split; simpl; auto; try discriminate; try lia.
    - repeat split; simpl; auto; try discriminate; try lia.
      destruct (ss_cur s); discriminate.
  Qed.

  Lemma fold_inv ds : forall s, sinv s -> sinv (fold_left split_step ds s).
  Proof. induction ds as [|d r IH]; intros s H; simpl; auto. apply IH. apply split_step_inv. auto. Qed.

  (* every page respects the limit and is non-empty *)
  Theorem split_pages_within_limit ds : pages_ok (fst (split ds)).
  Proof.
    unfold split. simpl. unfold pages_ok. apply Forall_rev.
    apply emit_ok. apply fold_inv. repeat split; simpl; auto; try discriminate. constructor.
  Qed.

  (* partition: the pages in order, then the page being filled, are the input read so far minus the dropped ones,
     in the original order.  Stated with the interleaving relation "merge". *)
  Inductive merge : list A -> list A -> list A -> Prop :=
  | M_nil : merge [] [] []
  | M_left x a b c : merge a b c -> merge (x :: a) b (x :: c)
  | M_right x a b c : merge a b c -> merge a (x :: b) (x :: c).

  Lemma merge_app_left a b c x : merge a b c -> merge (a ++ [x]) b (c ++ [x]).
  Proof. induction 1; simpl; try (constructor; auto). repeat constructor. Qed.
  Lemma merge_app_right a b c x : merge a b c -> merge a (b ++ [x]) (c ++ [x]).
  Proof. induction 1; simpl; try (constructor; auto). repeat constructor. Qed.

  (* all descriptors already placed: emitted pages (oldest first) followed by the current page *)
  Definition placed (s : sstate) : list A := List.concat (rev (ss_pages s)) ++ ss_cur s.
  (* when `last` is unset the current page is empty: nothing is pending outside [emit] *)
  Definition pinv (s : sstate) (seen : list A) : Prop :=
    merge (placed s) (rev (ss_dropped s)) seen /\ (ss_last s = false -> ss_cur s = []).

  Lemma concat_rev_cons (p : list A) ps : List.concat (rev (p :: ps)) = List.concat (rev ps) ++ p.
  Proof. simpl. rewrite concat_app. simpl. rewrite app_nil_r. reflexivity. Qed.

  Lemma placed_emit s : sinv s -> (ss_last s = false -> ss_cur s = []) ->
    List.concat (rev (emit s)) = placed s.
  Proof.
    intros [_ [Hl _]] Hn. unfold emit, placed. destruct (ss_last s) eqn:El; cbn [andb].
    - destruct (Hl eq_refl) as [_ Hle]. destruct (Z.leb_spec (enc_len (ss_cur s)) limit); [|lia].
      apply concat_rev_cons.
    - rewrite (Hn eq_refl). rewrite app_nil_r. reflexivity.
  Qed.

  Lemma split_step_pinv s d seen : sinv s -> pinv s seen -> pinv (split_step s d) (seen ++ [d]).
  Proof.
    intros Hs [Hm Hn]. pose proof (placed_emit s Hs Hn) as Hpe.
    unfold split_step. destruct (Z.gtb_spec (enc_len (ss_cur s ++ [d])) limit) as [Hbig|Hfit].
    - destruct (Z.gtb_spec (enc_len [d]) limit) as [Hd|Hd]; split; simpl; auto; try discriminate.
      + unfold placed. simpl. rewrite app_nil_r, Hpe. apply merge_app_right. exact Hm.
      + unfold placed. simpl. rewrite Hpe. apply merge_app_left. exact Hm.
    - split; simpl; try discriminate. unfold placed in *. simpl. rewrite app_assoc. apply merge_app_left. exact Hm.
  Qed.

  Lemma fold_pinv ds : forall s seen, sinv s -> pinv s seen -> pinv (fold_left split_step ds s) (seen ++ ds).
  Proof.
    induction ds as [|d r IH]; intros s seen Hs Hp; simpl; [rewrite app_nil_r; auto|].
    replace (seen ++ d :: r) with ((seen ++ [d]) ++ r) by (rewrite <- app_assoc; reflexivity).
    apply IH; [apply split_step_inv | apply split_step_pinv]; auto.
  Qed.

  (* the pages, concatenated in order, interleaved with the dropped descriptors give back the input:
     nothing is lost, nothing is duplicated, order is preserved *)
  Theorem split_partition ds :
    merge (List.concat (fst (split ds))) (snd (split ds)) ds.
  Proof.
    unfold split. simpl.
    set (s0 := mkSS [] [] false []).
    assert (H0 : sinv s0) by (repeat split; simpl; auto; try discriminate; constructor).
    assert (P0 : pinv s0 []) by (split; simpl; auto; constructor).
    pose proof (fold_inv ds s0 H0) as Hs. pose proof (fold_pinv ds s0 [] H0 P0) as [Hm Hn]. simpl in Hm.
    rewrite (placed_emit _ Hs Hn). exact Hm.
  Qed.

  (* only descriptors that cannot fit a page on their own are dropped *)
  Lemma dropped_big ds : forall s, Forall (fun d => enc_len [d] > limit) (ss_dropped s) ->
    Forall (fun d => enc_len [d] > limit) (ss_dropped (fold_left split_step ds s)).
  Proof.
    induction ds as [|d r IH]; intros s H; cbn [fold_left]; auto. apply IH. unfold split_step.
    destruct (enc_len (ss_cur s ++ [d]) >? limit) eqn:E1; [|exact H].
    destruct (enc_len [d] >? limit) eqn:E2; cbn [ss_dropped]; auto.
    constructor; auto. apply Z.gtb_lt in E2. lia.
  Qed.

  Theorem split_dropped_too_big ds : Forall (fun d => enc_len [d] > limit) (snd (split ds)).
  Proof. unfold split. simpl. apply Forall_rev. apply dropped_big. constructor. Qed.
End Split.

(* the Link chain: page k links to page k+1 exactly while k+1 < number of pages, so following it from
   page 0 visits pages 0..n-1 once each and stops *)
Fixpoint chain (n : nat) (k : nat) (fuel : nat) : list nat :=
  match fuel with
  | O => []
  | S f => k :: (if (S k <? n)%nat then chain n (S k) f else [])
  end.

Lemma chain_seq n : forall k fuel, (k < n)%nat -> (n - k <= fuel)%nat -> chain n k fuel = seq k (n - k).
Proof.
  intros k fuel. revert k. induction fuel as [|f IH]; intros k Hk Hf; [lia|].
  simpl. destruct (Nat.ltb_spec (S k) n).
  - rewrite IH by lia. replace (n - k)%nat with (S (n - S k)) by lia. reflexivity.
  - replace (n - k)%nat with 1%nat by lia. reflexivity.
Qed.
