(* Props_C09.v — a crash at any filesystem step tears nothing.  Model: FS.v (the directory store's write protocols as
   sequences of filesystem calls; a crash executes a prefix of them, the interrupted write leaves a prefix of its bytes). *)
From Olareg Require Import Base FS.
Local Open Scope list_scope.

(* a blob or index.json written through a temporary file and renamed into place: complete protocol *)
Theorem C09_commit_complete : forall tmp chunks dirs dst f,
  tmp <> dst ->
  fget dst (frun (commit_file tmp chunks dirs dst) f) = Some (concat_str chunks)
  /\ fget tmp (frun (commit_file tmp chunks dirs dst) f) = None
  /\ forall q, q <> tmp -> q <> dst -> fget q (frun (commit_file tmp chunks dirs dst) f) = fget q f.
Proof. exact commit_file_complete. Qed.
Print Assumptions C09_commit_complete.

(* ... interrupted anywhere (between two calls or inside a write): every path other than the temporary file holds what
   it held before, or - the destination - all the bytes.  Never a half-written blob or index. *)
Theorem C09_commit_crash_atomic : forall tmp chunks dirs dst f done,
  tmp <> dst -> crashed (commit_file tmp chunks dirs dst) done ->
  forall q, q <> tmp ->
    fget q (frun done f) = fget q f \/ (q = dst /\ fget q (frun done f) = Some (concat_str chunks)).
Proof. exact commit_file_crash_atomic. Qed.
Print Assumptions C09_commit_crash_atomic.

(* a whole request (any sequence of commits and removals): the directory a crash leaves is - temporary files aside -
   exactly the directory after a prefix of its complete protocol steps *)
Theorem C09_request_crash_is_boundary : forall ss f done,
  Forall wf_step ss -> crashed (req_ops ss) done ->
  exists pre post tmp, ss = pre ++ post /\ same_published tmp (frun done f) (frun (req_ops pre) f).
Proof. exact request_crash_is_boundary. Qed.
Print Assumptions C09_request_crash_is_boundary.

(* non-vacuity: a manifest push = commit of the manifest blob, then commit of index.json; killed inside the write of
   index.json's temporary file the directory still shows the old index and the complete new blob *)
Example C09_example :
  let ss := [PCommit "_uploads/u1" ["{man"; "ifest}"] ["blobs/sha256"] "blobs/sha256/abc";
             PCommit "index.json.1" ["{new index}"] [] "index.json"] in
  let f0 := [("index.json", "{old index}")] in
  let done := commit_file "_uploads/u1" ["{man"; "ifest}"] ["blobs/sha256"] "blobs/sha256/abc" ++ [FCreate "index.json.1"; FAppend "index.json.1" "{new i"] in
  crashed (req_ops ss) done
  /\ fget "index.json" (frun done f0) = Some "{old index}"
  /\ fget "blobs/sha256/abc" (frun done f0) = Some "{manifest}".
Proof.
  cbn zeta. split; [|split; reflexivity].
  apply (C_torn _ (commit_file "_uploads/u1" ["{man"; "ifest}"] ["blobs/sha256"] "blobs/sha256/abc" ++ [FCreate "index.json.1"])
                (FAppend "index.json.1" "{new index}") (FAppend "index.json.1" "{new i") [FRename "index.json.1" "index.json"]).
  - reflexivity.
  - apply (T_append _ _ "{new i" "ndex}"). reflexivity.
Qed.
