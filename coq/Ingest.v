(* Ingest.v — the referrers conversion of indexIngest (internal/store/store.go:155-281): a layout whose referrers
   were maintained under fallback tags (<alg>-<hex> pointing to an index of referrers) is converted to referrers
   responses when its index is first loaded with the API enabled.  Mirrors indexIngest / indexValidReferrer /
   referrerListDedup statement by statement over the index algebra of Index.v; the JSON of a regenerated response
   is the structured blob [BResp l] of Reg.v.  Go map iteration (addResp) is fixed to insertion order. *)
From Olareg Require Import Base Index Reg.
Local Open Scope list_scope.

(* referrerTagRe = ^(sha256|sha512)-([0-9a-f]{64})$ *)
Definition reftag (s : string) : bool :=
  (has_prefix "sha256-" s || has_prefix "sha512-" s)
  && (String.length (str_drop 7 s) =? 64)%nat && str_forall is_lhex (str_drop 7 s).

Definition blobs_t := list (string * bentry).

(* repoGetIndex: the blob parsed as an index (None: missing or not JSON of that shape) *)
Definition get_index (E : env) (blobs : blobs_t) (d : desc) : option (list desc) :=
  match assoc (d_dig d) blobs with
  | Some b => let v := blob_view E (b_data b) in if j_ok_i v then Some (j_manifests v) else None
  | None => None
  end.

(* insertion-ordered map subject -> descriptors *)
Fixpoint rappend (k : string) (vs : list desc) (m : list (string * list desc)) : list (string * list desc) :=
  match m with
  | [] => [(k, vs)]
  | (k', l) :: r => if String.eqb k k' then (k', l ++ vs) :: r else (k', l) :: rappend k vs r
  end.

(* types.ManifestReferrerDescriptor(raw, d): the descriptor starts as a copy of the listed one; media type, size,
   artifact type (the manifest's own, else its config's media type, else the listed one) and annotations are pulled up *)
Definition ref_desc (E : env) (raw : string) (d : desc) : option (string * desc) :=
  let v := e_view E raw in
  if negb (j_ok_r v) then None else
  match j_subject v with
  | None => None
  | Some sd =>
      if String.eqb (d_dig sd) "" then None else
      Some (d_dig sd,
            mkD (if nonempty (j_mt v) then j_mt v else d_mt d) (d_dig d) (e_len E raw) (j_ann v)
                (if nonempty (j_at v) then j_at v
                 else match j_config v with Some c => d_mt c | None => d_at d end))
  end.

(* ---- indexValidReferrer ------------------------------------------------------------------------------- *)
Record vstate := mkV { v_valid : bool; v_subject : string; v_resp : list (string * list desc); v_listed : list string }.

(* every annotation of the regenerated descriptor is on the listed descriptor with the same value *)
Definition ann_sub (rd d : desc) : bool :=
  match d_ann rd with
  | None => true
  | Some a => forallb (fun kv => String.eqb (ann_get (fst kv) d) (snd kv)) a
  end.

Definition desc_matches (d rd : desc) : bool :=
  String.eqb (d_mt d) (d_mt rd) && (d_size d =? d_size rd)%Z && String.eqb (d_at d) (d_at rd)
  && (ann_len d =? ann_len rd)%nat && ann_sub rd d.

Definition valid_step (E : env) (blobs : blobs_t) (st : vstate) (d : desc) : vstate :=
  (* a referrer listed twice: the index is regenerated into a response that lists it once *)
  let valid0 := v_valid st && negb (existsb (String.eqb (d_dig d)) (v_listed st)) in
  let listed := d_dig d :: v_listed st in
  match assoc (d_dig d) blobs with
  | None => mkV false (v_subject st) (v_resp st) listed
  | Some b =>
      match b_data b with
      | BResp _ => mkV false (v_subject st) (v_resp st) listed            (* a generated response names no subject *)
      | BRaw raw =>
          match ref_desc E raw d with
          | None => mkV false (v_subject st) (v_resp st) listed
          | Some (subj, rd) =>
              let subject := if String.eqb (v_subject st) "" then subj else v_subject st in
              let valid1 := valid0 && (String.eqb (v_subject st) "" || String.eqb (v_subject st) subj) in
              let valid2 := valid1 && desc_matches d rd in
              mkV valid2 subject (rappend subj [rd] (v_resp st)) listed
          end
      end
  end.

Definition valid_referrer (E : env) (blobs : blobs_t) (ms : list desc) : vstate :=
  let st := fold_left (valid_step E blobs) ms (mkV true "" [] []) in
  mkV (v_valid st) (if v_valid st then v_subject st else "") (v_resp st) (v_listed st).

(* ---- referrerListDedup: forward loop, a duplicate is overwritten by the last element ---------------------- *)
Fixpoint dedup_loop (fuel : nat) (i : nat) (seen : list string) (l : list desc) : list desc :=
  match fuel with
  | 0 => l
  | S f =>
      match nth_error l i with
      | None => l
      | Some x =>
          if existsb (String.eqb (d_dig x)) seen then dedup_loop f i seen (swap_remove i l)
          else dedup_loop f (S i) (d_dig x :: seen) l
      end
  end.
Definition dedup (l : list desc) : list desc := dedup_loop (2 * List.length l + 1) 0 [] l.

(* ---- the conversion ------------------------------------------------------------------------------------------ *)
Definition is_oci_index_ann (d : desc) : bool := String.eqb (d_mt d) MT_OCI_I && negb (ann_nil d).
Definition digest_tags (i : index) : list desc :=
  filter (fun d => is_oci_index_ann d && reftag (ann_get RefName d)) (top i).
(* referrerResponse[subject] = desc: the last entry wins; an adopted fallback index is recorded as well *)
Definition responses_of (i : index) : list (string * desc) :=
  fold_left (fun m d => if is_oci_index_ann d && nonempty (ann_get RefSubject d)
                        then assoc_set (ann_get RefSubject d) d m else m) (top i) [].

Record cstate := mkCS {
  cs_index : index;
  cs_resp : list (string * desc);            (* referrerResponse *)
  cs_add : list (string * list desc);        (* addResp *)
  cs_rm : list desc                          (* rmDesc *)
}.

Definition conv_tag_step (E : env) (blobs : blobs_t) (st : res cstate) (d : desc) : res cstate :=
  do cs <- st;
  match get_index E blobs d with
  | None => Ok cs
  | Some ms =>
      let v := valid_referrer E blobs ms in
      let valid := v_valid v
                   && match assoc (v_subject v) (cs_resp cs) with
                      | Some r => String.eqb (d_dig r) (d_dig d)
                      | None => true
                      end in
      if valid then
        let nd := mkD (d_mt d) (d_dig d) (d_size d) (Some [(RefSubject, v_subject v)]) (d_at d) in
        do i' <- add_desc nd [] (cs_index cs);
        Ok (mkCS i' (assoc_set (v_subject v) nd (cs_resp cs)) (cs_add cs) (cs_rm cs))
      else
        Ok (mkCS (cs_index cs) (cs_resp cs)
                 (fold_left (fun m kv => rappend (fst kv) (snd kv) m) (v_resp v) (cs_add cs))
                 (cs_rm cs ++ [d]))
  end.

(* generate a response per subject; returns the new blobs as well *)
Definition conv_gen_step (E : env) (blobs : blobs_t) (resp : list (string * desc)) (now : Z)
           (st : res (index * blobs_t)) (kv : string * list desc) : res (index * blobs_t) :=
  do s <- st;
  let '(i, bl) := s in
  let subj := fst kv in
  let merged := match assoc subj resp with
                | Some r => match get_index E blobs r with Some ms => snd kv ++ ms | None => snd kv end
                | None => snd kv
                end in
  let l := dedup merged in
  let dig := resp_digest l in
  do i' <- add_desc (mkD MT_OCI_I dig 0 (Some [(RefSubject, subj)]) "") [] i;
  Ok (i', match assoc dig bl with Some _ => bl | None => assoc_set dig (mkB (BResp l) now) bl end).

Definition conv_rm_step (st : res index) (d : desc) : res index :=
  do i <- st; rm_desc d i.

(* the whole conversion on a repository that was not converted yet *)
Definition convert (E : env) (now : Z) (blobs : blobs_t) (i : index) : res (index * blobs_t) :=
  do cs <- fold_left (conv_tag_step E blobs) (digest_tags i) (Ok (mkCS i (responses_of i) [] []));
  do ib <- fold_left (conv_gen_step E blobs (cs_resp cs) now) (cs_add cs) (Ok (cs_index cs, blobs));
  do i' <- fold_left conv_rm_step (cs_rm cs) (Ok (fst ib));
  Ok (i', snd ib).

(* indexIngest's conversion block as a step on the repository: runs once, marks the layout as converted *)
Definition ingest_repo (E : env) (now : Z) (rp : repo) : res repo :=
  if r_conv rp then Ok rp else
  do r <- convert E now (r_blobs rp) (r_index rp);
  Ok (mkR (snd r) (fst r) true (r_uploads rp)).

(* what the referrers API then answers for a subject: the descriptors of the response registered for it *)
Definition referrers_of (E : env) (rp : repo) (subj : string) : list desc :=
  match get_by_annotation RefSubject subj (r_index rp) with
  | Some d => match get_index E (r_blobs rp) d with Some l => l | None => [] end
  | None => []
  end.
