(* ChildInv.v — every entry of the in-memory child list of every repository is listed under a manifest media type
   (types.MediaTypeImage / MediaTypeIndex), in every state reachable by client requests, collections, ageing and restarts.
   This is the invariant behind the repair of finding C05-F50: a descriptor that an index lists under another media type
   references a plain blob; it never becomes the child entry of a digest, so it cannot shadow the entry of a manifest. *)
From Olareg Require Import Base Index IndexProofs IndexInv Reg TagProofs RegProofs RegInv GC GCProofs.
Local Open Scope list_scope.

Definition child_ok (l : list desc) : Prop := forall c, In c l -> manifest_mt (d_mt c) = true.
Definition repo_child_ok (rp : repo) : Prop := child_ok (child (r_index rp)).
Definition ChildOK (s : state) : Prop := forall r rp, assoc r (st_repos s) = Some rp -> repo_child_ok rp.

Lemma child_ok_sub a b : (forall c, In c b -> In c a) -> child_ok a -> child_ok b.
Proof. intros Hs Ha c Hc. apply Ha. apply Hs. exact Hc. Qed.

Lemma child_ok_nil : child_ok [].
Proof. intros c []. Qed.

Lemma child_ok_app a b : child_ok a -> child_ok b -> child_ok (a ++ b).
Proof. intros Ha Hb c Hc. apply in_app_or in Hc. destruct Hc; auto. Qed.

(* ---- list helpers ------------------------------------------------------------------------------------------------------ *)
Lemma set_nth_sub {A} : forall k (l : list A) d x, In x (set_nth k d l) -> x = d \/ In x l.
Proof.
  induction k as [|k IH]; intros l d x H; destruct l as [|y r]; simpl in H; auto.
  - destruct H as [H|H]; auto. right. right. exact H.
  - destruct H as [H|H]; [right; left; exact H|]. destruct (IH r d x H) as [H1|H1]; auto. right. right. exact H1.
Qed.

(* the backward loop of RmDesc over the child list only removes *)
Lemma bloop_child_sub dig : forall n l s' l',
  bloop (rm_child_step dig) n tt l = Ok (s', l') -> forall c, In c l' -> In c l.
Proof.
  induction n as [|m IH]; intros l s' l' H c Hc; simpl in H.
  - inversion H; subst. exact Hc.
  - destruct (nth_error l m) as [e|] eqn:En; [|discriminate].
    unfold rm_child_step in H. destruct (String.eqb (d_dig e) dig).
    + eapply swap_remove_in. eapply IH; eauto.
    + pose proof (IH _ _ _ H c Hc) as H1. apply set_nth_sub in H1. destruct H1 as [->|H1]; auto.
      eapply nth_error_In; eauto.
Qed.

Lemma rm_desc_child_sub d i i' : rm_desc d i = Ok i' -> forall c, In c (child i') -> In c (child i).
Proof.
  unfold rm_desc. intros H c Hc.
  destruct (String.eqb (rm_tag_of d) "" && nonempty (d_dig d)).
  - destruct (bloop (rm_child_step (d_dig d)) (List.length (child i)) tt (child i)) as [[s1 ch]| |] eqn:Eb; simpl in H; try discriminate.
    destruct (bloop (rm_top_step (d_dig d) (rm_tag_of d) (rm_ref_of d)) (List.length (top i)) false (top i)) as [[s2 l2]| |]; simpl in H; try discriminate.
    inversion H; subst. simpl in Hc. eapply bloop_child_sub; eauto.
  - simpl in H.
    destruct (bloop (rm_top_step (d_dig d) (rm_tag_of d) (rm_ref_of d)) (List.length (top i)) false (top i)) as [[s2 l2]| |]; simpl in H; try discriminate.
    inversion H; subst. exact Hc.
Qed.

Lemma rm_desc_child_ok d i i' : child_ok (child i) -> rm_desc d i = Ok i' -> child_ok (child i').
Proof. intros Hc H. eapply child_ok_sub; [eapply rm_desc_child_sub; eauto|exact Hc]. Qed.

Lemma add_loop1_child_sub dig tag ref : forall fuel mi i i1,
  add_loop1 fuel mi dig tag ref i = Ok i1 -> forall c, In c (child i1) -> In c (child i).
Proof.
  induction fuel as [|fuel IH]; intros mi i i1 H c Hc; simpl in H; [discriminate|].
  destruct (nth_error (top i) mi) as [e|]; [|discriminate].
  match type of H with context [rbind ?st _] => destruct st as [[i' mi']| |] eqn:Est end; simpl in H; try discriminate.
  assert (Hstep : forall x, In x (child i') -> In x (child i)).
  { destruct (sneq (d_dig e) dig && negb (ann_nil e)); [|inversion Est; subst; auto].
    destruct (nonempty tag && String.eqb (ann_get RefName e) tag).
    - destruct (rm_desc _ i) as [i2| |] eqn:Er; simpl in Est; try discriminate. inversion Est; subst.
      intros x. eapply rm_desc_child_sub; eauto.
    - destruct (nonempty ref && String.eqb (ann_get RefSubject e) ref); inversion Est; subst; auto. }
  destruct mi' as [|p].
  - inversion H; subst. auto.
  - apply Hstep. eapply IH; eauto.
Qed.

Lemma add_rm_child_sub dig ch : forall c, In c (add_rm_child dig ch) -> In c ch.
Proof.
  intros c. unfold add_rm_child. destruct (find_index _ ch) as [ci|]; auto. apply swap_remove_in.
Qed.

(* WithChildren only ever appends descriptors listed as manifests *)
Lemma move_children_child_ok : forall cs i, child_ok (child i) -> child_ok (child (add_move_children cs i)).
Proof.
  induction cs as [|cd r IH]; intros i H; simpl; auto. apply IH.
  destruct (manifest_mt (d_mt cd)) eqn:Em; simpl; [|exact H].
  assert (Hcd : child_ok [cd]) by (intros c [<-|[]]; exact Em).
  destruct (find_index _ (top i)) as [mi|]; simpl.
  - apply child_ok_app; auto.
  - destruct (existsb _ (top i) || existsb _ (child i)); simpl; auto. apply child_ok_app; auto.
Qed.

Theorem add_desc_child_ok d cs i i' : child_ok (child i) -> add_desc d cs i = Ok i' -> child_ok (child i').
Proof.
  intros Hc H. unfold add_desc in H.
  match type of H with context [rbind ?x _] => destruct x as [i1| |] eqn:E1 end; simpl in H; try discriminate.
  inversion H; subst i'; clear H. cbn [child].
  apply move_children_child_ok. cbn [child].
  assert (H1 : child_ok (child i1)).
  { destruct (nonempty (ann_get RefName d) || nonempty (ann_get RefSubject d)).
    - destruct (List.length (top i)) as [|p]; [inversion E1; subst; exact Hc|].
      eapply child_ok_sub; [eapply add_loop1_child_sub; eauto|exact Hc].
    - inversion E1; subst. exact Hc. }
  eapply child_ok_sub; [apply add_rm_child_sub|exact H1].
Qed.

(* the descriptor lists a digest under another media type: it is not made a child entry by AddDesc *)
Theorem add_desc_skips_blob_descriptors d cs i i' c :
  add_desc d cs i = Ok i' -> In c (child i') -> manifest_mt (d_mt c) = false -> In c (child i).
Proof.
  intros H Hin Hm. unfold add_desc in H.
  match type of H with context [rbind ?x _] => destruct x as [i1| |] eqn:E1 end; simpl in H; try discriminate.
  inversion H; subst i'; clear H. cbn [child] in Hin.
  assert (Hmv : forall cs0 i0, In c (child (add_move_children cs0 i0)) -> In c (child i0)).
  { induction cs0 as [|cd r IH]; intros i0 H0; simpl in H0; auto.
    apply IH in H0. destruct (manifest_mt (d_mt cd)) eqn:Em; simpl in H0; [|exact H0].
    assert (Hne : c <> cd) by (intros ->; congruence).
    destruct (find_index _ (top i0)) as [mi|]; simpl in H0.
    - apply in_app_or in H0. destruct H0 as [H0|[H0|[]]]; auto. congruence.
    - destruct (existsb _ (top i0) || existsb _ (child i0)); simpl in H0; auto.
      apply in_app_or in H0. destruct H0 as [H0|[H0|[]]]; auto. congruence. }
  apply Hmv in Hin. cbn [child] in Hin. apply add_rm_child_sub in Hin.
  destruct (nonempty (ann_get RefName d) || nonempty (ann_get RefSubject d)).
  - destruct (List.length (top i)) as [|p]; [inversion E1; subst; exact Hin|].
    eapply add_loop1_child_sub; eauto.
  - inversion E1; subst. exact Hin.
Qed.

(* ---- the registry state ---------------------------------------------------------------------------------------------------- *)
Lemma get_repo_child cfg r s : ChildOK s -> repo_child_ok (get_repo cfg r s).
Proof.
  intros H. unfold get_repo. destruct (assoc r (st_repos s)) eqn:Er; [eapply H; eauto|].
  unfold repo_child_ok. simpl. exact child_ok_nil.
Qed.

Lemma set_repo_child r rp s : ChildOK s -> repo_child_ok rp -> ChildOK (set_repo r rp s).
Proof.
  intros H Hr r' rp' Ha. unfold set_repo in Ha. simpl in Ha.
  apply assoc_set_cases in Ha. destruct Ha as [[-> ->]|[_ Ha]]; auto. eapply H; eauto.
Qed.

Lemma same_child_ok rp rp' : r_index rp' = r_index rp -> repo_child_ok rp -> repo_child_ok rp'.
Proof. unfold repo_child_ok. intros ->. auto. Qed.

Ltac same_child := eapply same_child_ok; [reflexivity|]; try assumption.

Lemma exec_act_child_ok cfg E a s : ChildOK s -> ChildOK (fst (exec_act cfg E a s)).
Proof.
  intros H. pose proof (fun r => get_repo_child cfg r s H) as Hg.
  destruct a; simpl;
    repeat match goal with
           | |- context [if ?b then _ else _] => destruct b eqn:?
           | |- context [match ?x with _ => _ end] => destruct x eqn:?
           end; simpl; auto;
    try (apply set_repo_child; auto;
         first [ same_child; apply Hg
               | unfold del_sess, put_blob, del_blob, put_sess; same_child; apply Hg
               | unfold set_index, repo_child_ok; simpl; eapply add_desc_child_ok; [apply Hg|eassumption]
               | unfold set_index, repo_child_ok; simpl; eapply rm_desc_child_ok; [apply Hg|eassumption] ]).
  all: try (intros r' rp' Ha; simpl in Ha; apply assoc_set_cases in Ha;
            destruct Ha as [[-> ->]|[_ Ha]]; [unfold put_sess; same_child; apply Hg | eapply H; eauto]).
Qed.

(* re-reading a directory: the child list is rebuilt from descriptors listed as manifests only *)
Lemma fresh_child_ok (l : list desc) : forall (st : list string * list desc),
  child_ok (snd st) -> (forall m, In m l -> manifest_mt (d_mt m) = true) ->
  child_ok (snd (fold_left (fun (st : list string * list desc) m =>
                              if existsb (String.eqb (d_dig m)) (fst st) then st
                              else (d_dig m :: fst st, snd st ++ [m])) l st)).
Proof.
  induction l as [|m r IH]; intros st Hs Hl; simpl; auto.
  apply IH; [|intros x Hx; apply Hl; right; exact Hx].
  destruct (existsb _ (fst st)); simpl; auto.
  apply child_ok_app; auto. intros c [<-|[]]. apply Hl. left. reflexivity.
Qed.

Lemma scan_children_child_ok E blobs : forall fuel queue seen acc,
  child_ok acc -> child_ok (scan_children E blobs fuel queue seen acc).
Proof.
  induction fuel as [|f IH]; intros queue seen acc Ha; simpl; auto.
  destruct queue as [|d q]; auto.
  destruct (assoc (d_dig d) blobs) as [b|]; auto.
  destruct (negb (j_ok_i (blob_view E (b_data b)))); auto.
  apply IH. apply child_ok_app; auto.
  apply (fresh_child_ok _ (seen, [])); [exact child_ok_nil|].
  intros m Hm. apply filter_In in Hm. tauto.
Qed.

Lemma reload_child_ok E rp : repo_child_ok (reload_repo E rp).
Proof.
  unfold repo_child_ok, reload_repo, rebuild_children. simpl.
  apply scan_children_child_ok. exact child_ok_nil.
Qed.

Lemma step_child_ok cfg E s q : ChildOK s -> ChildOK (fst (step cfg E s q)).
Proof.
  intros H. apply (step_inv cfg E ChildOK); auto.
  - intros; apply exec_act_child_ok; auto.
  - intros s0 q0 H0. destruct q0 as [| | | | | | | | | | | |dt|rx|rx|]; auto; simpl.
    + destruct (assoc rx (st_repos s0)) as [rp0|] eqn:Er; simpl; auto.
      apply set_repo_child; auto. unfold repo_child_ok. simpl. eapply H0; eauto.
    + destruct (assoc rx (st_repos s0)) as [rp0|] eqn:Er; simpl; auto.
      apply set_repo_child; auto. unfold repo_child_ok. simpl. eapply H0; eauto.
    + destruct (c_kind cfg); simpl.
      * intros r0 rp0 Ha. simpl in Ha. discriminate.
      * intros r0 rp0 Ha. simpl in Ha. rewrite assoc_map_snd in Ha.
        destruct (assoc r0 (st_repos s0)) eqn:Er; simpl in Ha; [|discriminate].
        inversion Ha; subst. apply reload_child_ok.
Qed.

Theorem child_ok_reachable cfg E h : ChildOK (fst (run_hist cfg E init_state h)).
Proof.
  apply (hist_inv cfg E ChildOK).
  - intros; apply exec_act_child_ok; auto.
  - intros s q H. pose proof (step_child_ok cfg E s q H). destruct q; auto.
  - intros r rp Ha. simpl in Ha. discriminate.
Qed.

(* ---- collections ---------------------------------------------------------------------------------------------------------- *)
Definition res_child_ok (ri : res index) : Prop := forall i, ri = Ok i -> child_ok (child i).

Lemma sweep_blob_child pol now blobs seen inidx st b :
  res_child_ok (fst st) -> res_child_ok (fst (sweep_blob pol now blobs seen inidx st b)).
Proof.
  destruct st as [ri deleted]. unfold sweep_blob. simpl.
  destruct (mem_str (fst b) seen); [auto|].
  destruct (young pol now blobs (fst b) && negb (mem_str (fst b) inidx)); [auto|].
  simpl. intros H i Hi. destruct ri as [i0| |]; simpl in Hi; try discriminate.
  destruct (idx_has (fst b) i0).
  - eapply rm_desc_child_ok; [apply H; reflexivity|exact Hi].
  - inversion Hi; subst. apply H. reflexivity.
Qed.

Lemma fold_sweep_child pol now blobs seen inidx l : forall st,
  res_child_ok (fst st) -> res_child_ok (fst (fold_left (sweep_blob pol now blobs seen inidx) l st)).
Proof. induction l as [|b r IH]; intros st H; simpl; auto. apply IH. apply sweep_blob_child. exact H. Qed.

Lemma prune_missing_child blobs ri d : res_child_ok ri -> res_child_ok (prune_missing blobs ri d).
Proof.
  intros H i Hi. unfold prune_missing in Hi. destruct ri as [i0| |]; simpl in Hi; try discriminate.
  destruct (assoc d blobs).
  - inversion Hi; subst. apply H. reflexivity.
  - eapply rm_desc_child_ok; [apply H; reflexivity|exact Hi].
Qed.

Lemma fold_prune_child blobs l : forall ri, res_child_ok ri -> res_child_ok (fold_left (prune_missing blobs) l ri).
Proof. induction l as [|d r IH]; intros ri H; simpl; auto. apply IH. apply prune_missing_child. exact H. Qed.

Theorem gc_repo_child_ok E pol now rp : repo_child_ok rp -> repo_child_ok (gc_repo E pol now rp).
Proof.
  intros H. unfold gc_repo, repo_gc.
  destruct (phase1 pol now (r_blobs rp) (r_index rp)) as [[kept subjects] inidx0].
  destruct (mark E (r_blobs rp) (mark_fuel E (r_blobs rp) (r_index rp)) kept subjects [] [] inidx0) as [[seen inidx]|]; [|exact H].
  destruct (fold_left (sweep_blob pol now (r_blobs rp) seen inidx) (r_blobs rp) (Ok (r_index rp), [])) as [ri deleted] eqn:Ef.
  destruct (fold_left (prune_missing (r_blobs rp)) inidx ri) as [i'| |] eqn:Ep; try exact H.
  unfold repo_child_ok. simpl.
  assert (Hr : res_child_ok ri).
  { pose proof (fold_sweep_child pol now (r_blobs rp) seen inidx (r_blobs rp) (Ok (r_index rp), [])) as Hs.
    rewrite Ef in Hs. apply Hs. simpl. intros i Hi. inversion Hi; subst. exact H. }
  exact (fold_prune_child (r_blobs rp) inidx ri Hr i' Ep).
Qed.

Theorem gstep_child_ok cfg pol E s g : ChildOK s -> ChildOK (fst (gstep cfg pol E s g)).
Proof.
  intros H. destruct g as [q|r|r d age|]; simpl.
  - apply step_child_ok. exact H.
  - destruct (c_readonly cfg); [exact H|]. destruct (assoc r (st_repos s)) as [rp|] eqn:Er; [|exact H].
    apply set_repo_child; auto. unfold gc_one. destruct (c_kind cfg); apply gc_repo_child_ok; [|apply reload_child_ok]; eapply H; eauto.
  - destruct (assoc r (st_repos s)) as [rp|] eqn:Er; [|exact H].
    apply set_repo_child; auto. unfold repo_child_ok, age_blobs. simpl. eapply H; eauto.
  - destruct (c_kind cfg); simpl.
    + intros r0 rp0 Ha. simpl in Ha. discriminate.
    + intros r0 rp0 Ha. simpl in Ha. rewrite assoc_map_snd in Ha.
      destruct (assoc r0 (st_repos s)) as [rp|] eqn:Er; simpl in Ha; [|discriminate]. inversion Ha; subst.
      unfold restart_repo. apply reload_child_ok.
Qed.
