(* Prelude: results with explicit Panic / OutOfFuel, Go-map-like association
   lists, Go slice primitives (swap-removal), string helpers.
   Model files contain definitions only; proofs live in *Proofs.v files. *)
From Coq Require Export List String Ascii ZArith Bool Arith Lia.
Export ListNotations.
Open Scope string_scope.

(* ---- results ---------------------------------------------------------- *)
(* Go's partial operations (slice index out of range, ...) are [Panic];
   fuelled recursions that run out return [OutOfFuel], never a normal value. *)
Inductive res (A : Type) : Type :=
| Ok (a : A)
| Panic
| OutOfFuel.
Arguments Ok {A} a.
Arguments Panic {A}.
Arguments OutOfFuel {A}.

Definition rbind {A B} (r : res A) (k : A -> res B) : res B :=
  match r with Ok a => k a | Panic => Panic | OutOfFuel => OutOfFuel end.
Notation "'do' x <- r ; k" := (rbind r (fun x => k))
  (at level 200, x name, r at level 100, k at level 200).

Definition is_ok {A} (r : res A) : bool := match r with Ok _ => true | _ => false end.

(* ---- Go maps as association lists -------------------------------------- *)
(* map[string]string.  Keys are kept unique by [aset]; lookups of a missing
   key give "" like Go.  Iteration order of a Go map is unspecified; nothing
   in the model depends on the order of an [amap]. *)
Definition amap := list (string * string).

Fixpoint aget (k : string) (m : amap) : string :=
  match m with
  | [] => ""
  | (k', v) :: r => if String.eqb k k' then v else aget k r
  end.

Fixpoint ahas (k : string) (m : amap) : bool :=
  match m with
  | [] => false
  | (k', _) :: r => if String.eqb k k' then true else ahas k r
  end.

Fixpoint adel (k : string) (m : amap) : amap :=
  match m with
  | [] => []
  | (k', v) :: r => if String.eqb k k' then adel k r else (k', v) :: adel k r
  end.

Definition aset (k v : string) (m : amap) : amap := (k, v) :: adel k m.

(* ---- Go slice primitives ------------------------------------------------ *)
Section Slices.
  Context {A : Type}.

  (* l[mi] = l[len(l)-1]; l = l[:len(l)-1]      (requires mi < len l) *)
  Fixpoint swap_remove (mi : nat) (l : list A) : list A :=
    match mi, l with
    | _, [] => []
    | 0, x :: suf =>
        match suf with
        | [] => []
        | _ => last suf x :: removelast suf
        end
    | S m, x :: r => x :: swap_remove m r
    end.

  (* l[mi] = e                                   (requires mi < len l) *)
  Fixpoint set_nth (mi : nat) (e : A) (l : list A) : list A :=
    match mi, l with
    | _, [] => []
    | 0, _ :: r => e :: r
    | S m, x :: r => x :: set_nth m e r
    end.

  (* index of the first element satisfying p *)
  Fixpoint find_index (p : A -> bool) (l : list A) : option nat :=
    match l with
    | [] => None
    | x :: r => if p x then Some 0 else option_map S (find_index p r)
    end.
End Slices.

(* ---- strings -------------------------------------------------------------- *)
Definition ascii_leb (a b : ascii) : bool := (nat_of_ascii a <=? nat_of_ascii b)%nat.
Definition in_range (lo hi c : ascii) : bool := ascii_leb lo c && ascii_leb c hi.
Definition is_lower (c : ascii) := in_range "a" "z" c.
Definition is_upper (c : ascii) := in_range "A" "Z" c.
Definition is_digit (c : ascii) := in_range "0" "9" c.
Definition is_lhex (c : ascii) := is_digit c || in_range "a" "f" c.

Fixpoint str_forall (p : ascii -> bool) (s : string) : bool :=
  match s with
  | EmptyString => true
  | String c r => p c && str_forall p r
  end.

Fixpoint str_drop (n : nat) (s : string) : string :=
  match n, s with
  | 0, _ => s
  | S m, EmptyString => EmptyString
  | S m, String _ r => str_drop m r
  end.

Definition has_prefix (p s : string) : bool := String.prefix p s.

(* byte-wise lexicographic order, as Go's strings.Compare *)
Definition str_ltb (a b : string) : bool :=
  match String.compare a b with Lt => true | _ => false end.
Definition str_leb (a b : string) : bool :=
  match String.compare a b with Gt => false | _ => true end.
