(* Props_C19.v — every setting has its documented effect.  Gen_*.v are regenerated from the
   current source (olareg.go, config/config.go, cmd/olareg/serve.go) on every run. *)
From Olareg Require Import Base Route Config RateLimit Gen_Routes Gen_Config Gen_Flags RouteProofs.
Local Open Scope list_scope.

(* for all 16 combinations of push / delete / blob-delete / referrers, all methods and all path
   classes the routing chain dispatches exactly as documented: toggling a switch changes the
   routes of that switch and nothing else *)
Theorem C19_switch_exact : switch_table_ok = true.
Proof. exact switch_table. Qed.

(* SetDefaults is, field by field, the documented table *)
Theorem C19_defaults_table : tables_agree gen_defaults spec_defaults = true.
Proof. vm_compute. reflexivity. Qed.

(* meaning of the rules: unset -> default, set -> unchanged *)
Theorem C19_unset_bool : forall b, apply_bool (DBool b) None = Some b.           Proof. exact bool_unset. Qed.
Theorem C19_set_bool : forall r b, apply_bool r (Some b) = Some b.               Proof. exact bool_set. Qed.
Theorem C19_unset_num : forall v, apply_num (DWhenZero v) 0 = v.                 Proof. exact num_unset. Qed.
Theorem C19_set_num : forall v z, z <> 0%Z -> apply_num (DWhenZero v) z = z.     Proof. exact num_set. Qed.
Theorem C19_set_num_np : forall v z, (0 < z)%Z -> apply_num (DWhenNonPositive v) z = z. Proof. exact num_set_np. Qed.
Theorem C19_set_str : forall r st s, s <> "" -> apply_str r st s = s.            Proof. exact str_set. Qed.

(* every documented flag feeds exactly one configuration field, the documented one *)
Theorem C19_flags_wired : flags_wired gen_flags gen_wiring = true.
Proof. vm_compute. reflexivity. Qed.

(* flag defaults equal configuration defaults *)
Theorem C19_flag_defaults : flag_defaults_consistent gen_flags gen_defaults = true.
Proof. vm_compute. reflexivity. Qed.

(* rate limit: in every accounting window of every address at most L requests are served *)
Theorem C19_rate_bound : forall L reqs, (0 <= L)%Z -> forall s, rl_inv L s -> rl_inv L (fst (rl_run L s reqs)).
Proof. exact rl_run_inv. Qed.
Print Assumptions C19_rate_bound.

Theorem C19_rate_exact : forall L s now ip e,
  rl_get ip s = Some e -> (now - rl_first e <= second)%Z ->
  snd (rl_step L s now ip) = (rl_count e + 1 <=? L)%Z.
Proof. exact rl_served_iff. Qed.

(* other addresses are unaffected *)
Theorem C19_rate_independent : forall L s now ip ip',
  ip <> ip' -> rl_get ip' (fst (rl_step L s now ip)) = rl_get ip' s.
Proof. exact rl_independent. Qed.
Theorem C19_rate_local : forall L s s' now ip,
  rl_get ip s = rl_get ip s' -> snd (rl_step L s now ip) = snd (rl_step L s' now ip).
Proof. exact rl_decision_local. Qed.
Print Assumptions C19_rate_local.

(* SetDefaults on a whole configuration, with the rule table generated from the current source: a field that is
   explicitly set keeps its value whatever the other fields hold; fields without a rule and the set of fields are untouched;
   defaulting twice changes nothing more *)
Theorem C19_defaults_keep_set : forall store cfg f v r,
  In (f, v) cfg -> lookup f gen_defaults = Some r -> is_set r v = true -> In (f, v) (set_defaults gen_defaults store cfg).
Proof. exact (set_defaults_keeps_set gen_defaults). Qed.
Theorem C19_defaults_fields : forall store cfg, map fst (set_defaults gen_defaults store cfg) = map fst cfg.
Proof. exact (set_defaults_fields gen_defaults). Qed.
Theorem C19_defaults_idem : forall store cfg,
  set_defaults gen_defaults store (set_defaults gen_defaults store cfg) = set_defaults gen_defaults store cfg.
Proof. exact (set_defaults_idem gen_defaults). Qed.
Print Assumptions C19_defaults_idem.
