(* Props_C13.v — data-race freedom as a lockset discipline on the accesses regenerated from the current source. *)
From Olareg Require Import Base Sync Access Gen_Access Gen_Sync.
Local Open Scope list_scope.

(* every field of Server, dir, dirRepo, dirRepoUpload, mem, memRepo, memRepoUpload and Cache that some method writes is
   read and written only with the structure's own mutex held (Access.called_locked and Access.lockfree_ok list the
   methods / fields exempted, each with its reason) *)
Theorem C13_lockset : access_violations_al gen_aliases gen_access = [].
Proof. vm_compute. reflexivity. Qed.

(* (the table of wrappers only adds fields to the written ones: the discipline without it follows) *)
Theorem C13_lockset_plain : access_violations gen_access = [].
Proof. vm_compute. reflexivity. Qed.

(* the mutexes those accesses rely on are acquired and released in a disciplined way (balanced per function, ranked) *)
Theorem C13_locks_disciplined : sync_violations gen_sync = [].
Proof. vm_compute. reflexivity. Qed.
