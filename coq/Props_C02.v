(* Props_C02.v — acknowledged pushes read back byte-identical until deleted.
   Blob part proved over Reg.v; the manifest part additionally rests on the index
   refinement of C18 (lookup by digest succeeds iff the digest is present). *)
From Olareg Require Import Base Index Reg RegProofs RegProofs2 IndexProofs.
Local Open Scope list_scope.

(* A stored blob stays stored with the same bytes through every client request except a blob
   delete of that very digest in that very repository.  [hash_inj]: no two different contents in
   play share a digest (an upload without expected digest overwrites by name, in the code too). *)
Theorem C02_blob_persists : forall cfg E s q r d c,
  hash_inj E -> BlobsOK E s -> raw_not_resp d ->
  stored cfg s r d c -> client_req q = true -> q <> QBlobDelete r d ->
  stored cfg (fst (step cfg E s q)) r d c.
Proof. exact stored_persists. Qed.
Print Assumptions C02_blob_persists.

(* reading it back: 200 (206 for a range), the digest header, exactly the stored bytes *)
Theorem C02_blob_read_back : forall cfg E s r d c rng,
  stored cfg s r d c -> dvalid d = true -> repo_allowed cfg r = true ->
  let res := run cfg E (h_blob_get E r d rng) s in
  fst res = s /\ rs_status (snd res) = (match rng with Some _ => 206 | None => 200 end)%Z
  /\ rs_digest (snd res) = d /\ rs_body (snd res) = BoBlob (BRaw c) rng.
Proof. exact stored_read_back. Qed.
Print Assumptions C02_blob_read_back.

(* a manifest larger than the limit is never acknowledged (known or unknown length) *)
Theorem C02_limit : forall cfg E r arg ctype clen dq body s s' o,
  run cfg E (h_manifest_put cfg E r arg ctype clen dq body) s = (s', o) ->
  rs_status o = 201%Z -> (e_len E body >? c_mlimit cfg)%Z = false.
Proof. intros. eapply (manifest_put_accept_sound cfg E r arg ctype clen dq body s s' o); eauto. Qed.
Print Assumptions C02_limit.

(* lookup by digest in the index succeeds exactly for digests at top level or recorded as children *)
Theorem C02_manifest_lookup : forall arg i,
  is_tag arg = false -> dvalid arg = true ->
  ((exists d, get_desc arg i = Some d) <->
   Exists (fun e => d_dig e = arg) (top i) \/ Exists (fun e => d_dig e = arg) (child i)).
Proof. exact get_desc_digest_iff. Qed.
Print Assumptions C02_manifest_lookup.
