(* RegProofs.v — invariants of the registry machine (Reg.v): lifting of per-action
   invariants to programs, requests and histories; content integrity (C01);
   repository frame (C16); read-only / disabled APIs (C14). *)
From Olareg Require Import Base Index Reg.
Local Open Scope list_scope.

(* ---- association lists ----------------------------------------------------------- *)
Section Assoc.
  Context {A : Type}.
  Lemma assoc_del_same k (l : list (string * A)) : assoc k (assoc_del k l) = None.
  Proof. induction l as [|[k' v] r IH]; simpl; auto. destruct (String.eqb k k') eqn:E; auto. simpl. rewrite E. auto. Qed.
  Lemma assoc_del_other k k' (l : list (string * A)) : k <> k' -> assoc k' (assoc_del k l) = assoc k' l.
  Proof.
    intros H. induction l as [|[k2 v] r IH]; simpl; auto.
    destruct (String.eqb k k2) eqn:E.
    - apply String.eqb_eq in E. subst k2. rewrite IH.
      destruct (String.eqb k' k) eqn:E2; auto. apply String.eqb_eq in E2. congruence.
    - simpl. rewrite IH. auto.
  Qed.
  Lemma assoc_set_same k v (l : list (string * A)) : assoc k (assoc_set k v l) = Some v.
  Proof. unfold assoc_set. simpl. rewrite String.eqb_refl. auto. Qed.
  Lemma assoc_set_other k k' v (l : list (string * A)) : k <> k' -> assoc k' (assoc_set k v l) = assoc k' l.
  Proof.
    intros H. unfold assoc_set. simpl. destruct (String.eqb k' k) eqn:E.
    - apply String.eqb_eq in E. congruence.
    - apply assoc_del_other. auto.
  Qed.
  Lemma assoc_set_cases k k' v (l : list (string * A)) x :
    assoc k' (assoc_set k v l) = Some x -> (k' = k /\ x = v) \/ (k' <> k /\ assoc k' l = Some x).
  Proof.
    destruct (string_dec k k') as [->|Hn].
    - rewrite assoc_set_same. intros H; inversion H; auto.
    - rewrite assoc_set_other by auto. intros H. right. split; auto.
  Qed.
  Lemma assoc_del_some k k' (l : list (string * A)) x :
    assoc k' (assoc_del k l) = Some x -> k' <> k /\ assoc k' l = Some x.
  Proof.
    destruct (string_dec k k') as [->|Hn].
    - rewrite assoc_del_same. discriminate.
    - rewrite assoc_del_other by auto. auto.
  Qed.
End Assoc.

Lemma get_repo_set_same cfg r rp s : get_repo cfg r (set_repo r rp s) = rp.
Proof. unfold get_repo, set_repo. cbn [st_repos]. rewrite assoc_set_same. auto. Qed.
Lemma get_repo_set_other cfg r r' rp s : r <> r' -> get_repo cfg r' (set_repo r rp s) = get_repo cfg r' s.
Proof. intros H. unfold get_repo, set_repo. cbn [st_repos]. rewrite assoc_set_other; auto. Qed.

(* ---- lifting invariants ---------------------------------------------------------------- *)
Section Lift.
  Variables (cfg : config) (E : env).
  Variable Inv : state -> Prop.
  Hypothesis act_inv : forall a s, Inv s -> Inv (fst (exec_act cfg E a s)).

  Lemma run_inv : forall p s, Inv s -> Inv (fst (run cfg E p s)).
  Proof.
    induction p as [r|a k IH]; intros s H; simpl; auto.
    specialize (act_inv a s H). destruct (exec_act cfg E a s) as [s' x]. simpl in act_inv. apply IH. auto.
  Qed.

  Hypothesis env_inv : forall s q, Inv s ->
    match q with QTick _ | QExpire _ | QPruneCount _ | QRestart => Inv (fst (step cfg E s q)) | _ => True end.

  Lemma step_inv : forall s q, Inv s -> Inv (fst (step cfg E s q)).
  Proof.
    intros s q H. pose proof (env_inv s q H) as He.
    destruct q; auto; unfold step; apply run_inv; auto.
  Qed.

  Lemma hist_inv : forall h s, Inv s -> Inv (fst (run_hist cfg E s h)).
  Proof.
    induction h as [|q r IH]; intros s H; simpl; auto.
    pose proof (step_inv s q H) as Hs. destruct (step cfg E s q) as [s' o]. simpl in Hs.
    specialize (IH s' Hs). destruct (run_hist cfg E s' r). simpl in *. auto.
  Qed.
End Lift.

(* ---- C01: every stored blob hashes to the digest it is stored under -------------------- *)
Definition blob_ok (E : env) (d : string) (b : blob) : Prop :=
  match b with
  | BRaw c => exists a, d = e_hash E a c
  | BResp l => d = resp_digest l
  end.

Definition repo_blobs_ok (E : env) (rp : repo) : Prop :=
  forall d be, assoc d (r_blobs rp) = Some be -> blob_ok E d (b_data be).

Definition BlobsOK (E : env) (s : state) : Prop :=
  forall r rp, assoc r (st_repos s) = Some rp -> repo_blobs_ok E rp.

Lemma get_repo_ok cfg E r s : BlobsOK E s -> repo_blobs_ok E (get_repo cfg r s).
Proof.
  intros H. unfold get_repo. destruct (assoc r (st_repos s)) eqn:Er; [eapply H; eauto|].
  intros d be Hd. simpl in Hd. discriminate.
Qed.

Lemma set_repo_ok E r rp s : BlobsOK E s -> repo_blobs_ok E rp -> BlobsOK E (set_repo r rp s).
Proof.
  intros H Hr r' rp' Ha. unfold set_repo in Ha. simpl in Ha.
  apply assoc_set_cases in Ha. destruct Ha as [[-> ->]|[_ Ha]]; auto. eapply H; eauto.
Qed.

Lemma same_blobs_ok E rp rp' : r_blobs rp' = r_blobs rp -> repo_blobs_ok E rp -> repo_blobs_ok E rp'.
Proof. unfold repo_blobs_ok. intros ->. auto. Qed.

Lemma put_blob_ok E d b now rp : repo_blobs_ok E rp -> blob_ok E d b -> repo_blobs_ok E (put_blob d b now rp).
Proof.
  intros H Hb d' be Ha. unfold put_blob in Ha. simpl in Ha.
  apply assoc_set_cases in Ha. destruct Ha as [[-> ->]|[_ Ha]]; simpl; auto.
Qed.

Lemma del_blob_ok E d rp : repo_blobs_ok E rp -> repo_blobs_ok E (del_blob d rp).
Proof. intros H d' be Ha. unfold del_blob in Ha. simpl in Ha. apply assoc_del_some in Ha. destruct Ha. eauto. Qed.

Ltac same_blobs := eapply same_blobs_ok; [reflexivity|]; try assumption.

Lemma exec_act_blobs_ok cfg E a s : BlobsOK E s -> BlobsOK E (fst (exec_act cfg E a s)).
Proof.
  intros H. pose proof (fun r => get_repo_ok cfg E r s H) as Hg.
  destruct a; simpl;
    repeat match goal with
           | |- context [if ?b then _ else _] => destruct b eqn:?
           | |- context [match ?x with _ => _ end] => destruct x eqn:?
           end; simpl; auto;
    try (apply set_repo_ok; auto;
         first [ same_blobs; apply Hg
               | apply del_blob_ok; apply Hg
               | apply put_blob_ok; [apply Hg | simpl; eauto]
               | apply put_blob_ok; [apply Hg | eapply (Hg _); eassumption]
               | unfold del_sess; same_blobs; apply put_blob_ok; [apply Hg | simpl; unfold sess_digest; eauto] ]).
  (* ABlobCreate of content that is there: the same content under a new time *)
  all: try (match goal with Hb : assoc ?d (r_blobs (get_repo ?c ?rr ?s0)) = Some ?be |- blob_ok _ ?d (b_data ?be) => exact (Hg rr d be Hb) end).
  (* ABlobCreate builds the state directly *)
  all: try (intros r' rp' Ha; simpl in Ha; apply assoc_set_cases in Ha;
            destruct Ha as [[-> ->]|[_ Ha]]; [unfold put_sess; same_blobs; apply Hg | eapply H; eauto]).
  all: unfold sess_digest; eexists; reflexivity.
Qed.

Lemma reload_repo_ok E rp : repo_blobs_ok E rp -> repo_blobs_ok E (reload_repo E rp).
Proof. apply same_blobs_ok. reflexivity. Qed.

Lemma assoc_map_snd {A} (f : A -> A) k (l : list (string * A)) :
  assoc k (map (fun nr => (fst nr, f (snd nr))) l) = option_map f (assoc k l).
Proof. induction l as [|[k' v] r IH]; simpl; auto. destruct (String.eqb k k'); auto. Qed.

Lemma step_blobs_ok cfg E s q : BlobsOK E s -> BlobsOK E (fst (step cfg E s q)).
Proof.
  intros H. apply (step_inv cfg E (BlobsOK E)); auto.
  - intros; apply exec_act_blobs_ok; auto.
  - intros s0 q0 H0. destruct q0 as [| | | | | | | | | | | |dt|rx|rx|]; auto; simpl.
    + destruct (assoc rx (st_repos s0)) as [rp0|] eqn:Er; simpl; auto.
      apply set_repo_ok; auto. intros d be Hd. simpl in Hd. eapply H0; eauto.
    + destruct (assoc rx (st_repos s0)) as [rp0|] eqn:Er; simpl; auto.
      apply set_repo_ok; auto. intros d be Hd. simpl in Hd. eapply H0; eauto.
    + destruct (c_kind cfg); simpl.
      * intros r0 rp0 Ha. simpl in Ha. discriminate.
      * intros r0 rp0 Ha. simpl in Ha. rewrite assoc_map_snd in Ha.
        destruct (assoc r0 (st_repos s0)) eqn:Er; simpl in Ha; [|discriminate].
        inversion Ha; subst. apply reload_repo_ok. eapply H0; eauto.
Qed.

Theorem blobs_ok_reachable cfg E h : BlobsOK E (fst (run_hist cfg E init_state h)).
Proof.
  apply (hist_inv cfg E (BlobsOK E)).
  - intros; apply exec_act_blobs_ok; auto.
  - intros s q H. pose proof (step_blobs_ok cfg E s q H). destruct q; auto.
  - intros r rp Ha. simpl in Ha. discriminate.
Qed.

(* reads do not change the state *)
Definition is_read (a : act) : bool :=
  match a with ARepoGet _ | AIndexGet _ | ABlobGet _ _ | ASessInfo _ _ => true | _ => false end.

Lemma read_same cfg E a s : is_read a = true -> fst (exec_act cfg E a s) = s.
Proof.
  destruct a; simpl; try discriminate; intros _;
    repeat match goal with
           | |- context [if ?b then _ else _] => destruct b
           | |- context [match ?x with _ => _ end] => destruct x
           end; auto.
Qed.

Lemma blob_get_result cfg E r d s s' b :
  exec_act cfg E (ABlobGet r d) s = (s', RBlob b) ->
  s' = s /\ exists be, assoc d (r_blobs (get_repo cfg r s)) = Some be /\ b_data be = b.
Proof.
  simpl. destruct (negb (dvalid' d)); [intros H; inversion H|].
  destruct (assoc d (r_blobs (get_repo cfg r s))) eqn:Ea; intros H; inversion H; subst. eauto.
Qed.

(* a 200/206 answer of the blob endpoint carries a blob that hashes to the digest header *)
Theorem blob_get_served cfg E r arg rng s s' o :
  BlobsOK E s ->
  run cfg E (h_blob_get E r arg rng) s = (s', o) ->
  s' = s /\ forall b g, rs_body o = BoBlob b g -> rs_digest o = arg /\ blob_ok E arg b.
Proof.
  intros Hok H. unfold h_blob_get, with_repo in H.
  repeat (simpl in H;
          match type of H with
          | context [if ?b then _ else _] => destruct b eqn:?
          | context [match ?x with _ => _ end] => destruct x eqn:?
          end);
    simpl in H; inversion H; subst; clear H;
    repeat match goal with
           | Hx : (if ?c then _ else _) = (_, _) |- _ => destruct c eqn:?; inversion Hx; subst; clear Hx
           | Hx : (match ?y with _ => _ end) = (_, _) |- _ => destruct y eqn:?; inversion Hx; subst; clear Hx
           end;
    (split; [reflexivity|]); intros bx gx Hb; simpl in Hb; try discriminate.
  all: inversion Hb; subst; (split; [reflexivity|]).
  all: match goal with Ha : assoc ?d (r_blobs (get_repo ?c ?rr ?s0)) = Some ?be, Hk : BlobsOK ?e ?s0 |- _ =>
         exact (get_repo_ok c e rr s0 Hk d be Ha) end.
Qed.

(* ---- C16: a request touches only the repository it addresses ------------------------- *)
Definition act_repo (a : act) : string :=
  match a with
  | ARepoGet r | AIndexGet r | AIndexInsert r _ _ | AIndexRemove r _ | ABlobGet r _
  | ABlobCreate r _ _ | ABlobDelete r _ | ABlobPutResp r _ | ASessGet r _ | ASessInfo r _
  | ASessWrite r _ _ | ASessChangeAlg r _ _ | ASessVerify r _ _ | ASessClose r _ | ASessCancel r _ => r
  end.

Lemma exec_act_frame cfg E a s r' :
  act_repo a <> r' -> get_repo cfg r' (fst (exec_act cfg E a s)) = get_repo cfg r' s.
Proof.
  intros Hn. destruct a; simpl in Hn; simpl;
    repeat match goal with
           | |- context [if ?b then _ else _] => destruct b
           | |- context [match ?x with _ => _ end] => destruct x
           end; simpl; auto;
    try (apply get_repo_set_other; auto).
  all: unfold get_repo; simpl; rewrite assoc_set_other; auto.
Qed.

(* all actions of a program address repository r, or are reads *)
Inductive runs_on (r : string) : prog -> Prop :=
| RO_ret o : runs_on r (Ret o)
| RO_do a k : (act_repo a = r \/ is_read a = true) -> (forall x, runs_on r (k x)) -> runs_on r (Do a k).

Lemma runs_on_frame cfg E r p : runs_on r p -> forall s r', r <> r' ->
  get_repo cfg r' (fst (run cfg E p s)) = get_repo cfg r' s.
Proof.
  induction 1 as [o|a k Ha Hk IH]; intros s r' Hn; simpl; auto.
  destruct (exec_act cfg E a s) as [s1 x] eqn:Ex. rewrite IH by auto.
  replace s1 with (fst (exec_act cfg E a s)) by (rewrite Ex; auto).
  destruct Ha as [Ha|Ha]; [apply exec_act_frame; congruence | rewrite read_same; auto].
Qed.

Ltac ro_step :=
  match goal with
  | |- runs_on _ (Ret _) => apply RO_ret
  | |- runs_on _ (Do _ _) => apply RO_do; [simpl; auto | intros ?]
  | |- runs_on _ (if ?b then _ else _) => destruct b
  | |- runs_on _ (match ?x with _ => _ end) => destruct x
  | |- runs_on _ (let (_, _) := ?x in _) => destruct x
  end.
Ltac ro := repeat ro_step.

Lemma check_blobs_on r ds : forall m k, (forall n, runs_on r (k n)) -> runs_on r (check_blobs r ds m k).
Proof. induction ds as [|d rest IH]; intros m k Hk; simpl; auto. apply RO_do; [auto|]. intros x. destruct x; apply IH; auto. Qed.

Lemma referrer_store_on r subj ri k1 k2 : runs_on r k1 -> runs_on r k2 -> runs_on r (referrer_store r subj ri k1 k2).
Proof. intros H1 H2. unfold referrer_store. ro; auto. Qed.

Lemma referrer_add_on E r subj d k1 k2 : runs_on r k1 -> runs_on r k2 -> runs_on r (referrer_add E r subj d k1 k2).
Proof. intros H1 H2. unfold referrer_add. ro; auto; apply referrer_store_on; auto. Qed.

Lemma referrer_delete_on E r subj d k : runs_on r k -> runs_on r (referrer_delete E r subj d k).
Proof. intros H. unfold referrer_delete. ro; auto; apply referrer_store_on; auto. Qed.

Lemma mp_commit_on E r tag mt d alg body children subj : runs_on r (mp_commit E r tag mt d alg body children subj).
Proof. unfold mp_commit. ro; try apply referrer_add_on; ro. Qed.

Definition req_repo (q : req) : string :=
  match q with
  | QBlobGet r _ _ | QBlobDelete r _ | QUploadPost r _ _ _ _ _ _ | QUploadPatch r _ _ _ _
  | QUploadPut r _ _ _ _ _ | QUploadGet r _ | QUploadDelete r _ | QManifestGet r _ _ _
  | QManifestPut r _ _ _ _ _ | QManifestDelete r _ | QTagList r _ _ | QReferrers r _ _
  | QExpire r | QPruneCount r => r
  | QTick _ | QRestart => ""
  end.

Lemma handler_on cfg E q : runs_on (req_repo q) (handler cfg E q).
Proof.
  destruct q; simpl.
  - unfold h_blob_get, with_repo. ro.
  - unfold h_blob_delete, with_repo. ro.
  - unfold upload_post, upload_mount, with_repo. ro.
  - unfold upload_patch, sess_prog, with_repo. ro.
  - unfold upload_put, sess_prog, with_repo. ro.
  - unfold h_upload_get, sess_prog, with_repo. ro.
  - unfold h_upload_delete, sess_prog, with_repo. ro.
  - unfold h_manifest_get, with_repo. ro.
  - unfold h_manifest_put, with_repo. ro.
    all: try (apply check_blobs_on; intros n; ro; apply mp_commit_on).
  - unfold h_manifest_delete, with_repo. ro; try apply referrer_delete_on; ro.
  - unfold h_tag_list, with_repo. ro.
  - unfold h_referrers. ro.
  - ro.
  - ro.
  - ro.
  - ro.
Qed.

(* A request addressed to repository r leaves every other repository exactly as it was
   (the only cross-repository access, the mount source, is read-only). *)
Theorem request_frame cfg E s q r' :
  match q with QRestart => False | _ => True end ->
  req_repo q <> r' -> get_repo cfg r' (fst (step cfg E s q)) = get_repo cfg r' s.
Proof.
  intros Hq Hn. destruct q; try contradiction;
    try (unfold step; apply (runs_on_frame cfg E _ _ (handler_on cfg E _)); auto).
  - simpl. reflexivity.
  - simpl in *. destruct (assoc r (st_repos s)); simpl; auto. apply get_repo_set_other; auto.
  - simpl in *. destruct (assoc r (st_repos s)); simpl; auto. apply get_repo_set_other; auto.
Qed.

(* ---- C14: read-only storage -------------------------------------------------------------- *)
Definition NoSessions (s : state) : Prop :=
  forall r rp, assoc r (st_repos s) = Some rp -> r_uploads rp = [].

Lemma no_sess_find cfg s r sid : NoSessions s -> find_sess sid (get_repo cfg r s) = None.
Proof.
  intros H. unfold get_repo, find_sess. destruct (assoc r (st_repos s)) eqn:Er; simpl; auto.
  rewrite (H _ _ Er). auto.
Qed.

Lemma exec_act_readonly cfg E a s :
  c_readonly cfg = true -> NoSessions s -> fst (exec_act cfg E a s) = s.
Proof.
  intros Hro Hn. destruct a; simpl; rewrite ?Hro; simpl;
    rewrite ?(no_sess_find cfg s _ _ Hn); simpl; auto;
    repeat match goal with
           | |- context [if ?b then _ else _] => destruct b
           | |- context [match ?x with _ => _ end] => destruct x
           end; auto.
Qed.

Lemma run_readonly cfg E : c_readonly cfg = true -> forall p s, NoSessions s -> fst (run cfg E p s) = s.
Proof.
  intros Hro. induction p as [o|a k IH]; intros s Hn; simpl; auto.
  pose proof (exec_act_readonly cfg E a s Hro Hn) as He.
  destruct (exec_act cfg E a s) as [s1 x]. simpl in He. subst s1. apply IH; auto.
Qed.

Definition client_req (q : req) : bool :=
  match q with QTick _ | QExpire _ | QPruneCount _ | QRestart => false | _ => true end.

(* with read-only storage no client request changes the stored state *)
Theorem readonly_noop cfg E s q :
  c_readonly cfg = true -> NoSessions s -> client_req q = true -> fst (step cfg E s q) = s.
Proof.
  intros Hro Hn Hq. destruct q; try discriminate; unfold step; apply run_readonly; auto.
Qed.

(* and every mutating request is refused *)
Theorem readonly_refused cfg E s q :
  c_readonly cfg = true ->
  match q with
  | QBlobDelete _ _ | QUploadPost _ _ _ _ _ _ _ | QManifestPut _ _ _ _ _ _ | QManifestDelete _ _ =>
      let st := rs_status (snd (step cfg E s q)) in (400 <= st < 500)%Z
  | _ => True
  end.
Proof.
  intros Hro. destruct q; auto; simpl;
    repeat match goal with |- context [if ?b then _ else _] => destruct b eqn:? end; simpl; try lia;
    unfold h_blob_delete, upload_post, h_manifest_put, h_manifest_delete; rewrite Hro; simpl; lia.
Qed.

(* disabled APIs: the request is refused before any store action *)
Theorem disabled_noop cfg E s q :
  match q with
  | QUploadPost _ _ _ _ _ _ _ | QUploadPatch _ _ _ _ _ | QUploadPut _ _ _ _ _ _ | QUploadGet _ _
  | QUploadDelete _ _ | QManifestPut _ _ _ _ _ _ => c_push cfg = false
  | QManifestDelete _ _ => c_delete cfg = false
  | QBlobDelete _ _ => c_delete cfg && c_blobdelete cfg = false
  | _ => False
  end ->
  fst (step cfg E s q) = s /\ (400 <= rs_status (snd (step cfg E s q)) < 500)%Z.
Proof.
  destruct q; try contradiction; simpl; intros ->; simpl; split; auto; lia.
Qed.
