(* GCProofs.v — safety of the collection model (GC.v): what is marked is never swept, recent
   content is never swept, kept roots are marked, a collection only removes blobs. *)
From Olareg Require Import Base Index Reg RegProofs GC.
Local Open Scope list_scope.

Lemma mem_str_in x l : mem_str x l = true <-> In x l.
Proof.
  unfold mem_str. rewrite existsb_exists. split.
  - intros [y [Hy He]]. apply String.eqb_eq in He. subst. auto.
  - intros H. exists x. split; auto. apply String.eqb_refl.
Qed.

Section Sweep.
  Variables (E : env) (pol : gcpol) (now : Z) (blobs : list (string * bentry)).
  Variables (seen inidx : list string).

  (* the sweep only ever adds unseen digests that are not (young and outside the index) *)
  Lemma sweep_deleted_spec l : forall st d,
    In d (snd (fold_left (sweep_blob pol now blobs seen inidx) l st)) ->
    In d (snd st) \/ (In d (map fst l) /\ mem_str d seen = false
                      /\ (young pol now blobs d && negb (mem_str d inidx)) = false).
  Proof.
    induction l as [|b r IH]; intros st d H; simpl in *; auto.
    apply IH in H. destruct H as [H|[H1 [H2 H3]]]; [|right; auto].
    unfold sweep_blob in H. destruct st as [ri del]. simpl in *.
    destruct (mem_str (fst b) seen) eqn:Es; simpl in H; auto.
    destruct (young pol now blobs (fst b) && negb (mem_str (fst b) inidx)) eqn:Ey; simpl in H; auto.
    destruct H as [H|H]; auto. subst d. right. auto.
  Qed.

  (* C05: a marked digest is never deleted *)
  Theorem sweep_keeps_seen l ri d :
    In d seen -> ~ In d (snd (fold_left (sweep_blob pol now blobs seen inidx) l (ri, []))).
  Proof.
    intros Hs H. apply sweep_deleted_spec in H. destruct H as [H|[_ [H _]]]; [destruct H|].
    apply mem_str_in in Hs. congruence.
  Qed.

  (* C05: a blob younger than the grace period that is not an index entry is never deleted *)
  Theorem sweep_keeps_young l ri d :
    young pol now blobs d = true -> ~ In d inidx ->
    ~ In d (snd (fold_left (sweep_blob pol now blobs seen inidx) l (ri, []))).
  Proof.
    intros Hy Hn H. apply sweep_deleted_spec in H. destruct H as [H|[_ [_ H]]]; [destruct H|].
    rewrite Hy in H. simpl in H. apply negb_false_iff in H. apply mem_str_in in H. contradiction.
  Qed.
End Sweep.

(* ---- mark: the seen set only grows, and every popped descriptor with a blob is marked ---------------- *)
Section Mark.
  Variables (E : env) (pol : gcpol) (now : Z) (blobs : list (string * bentry)).

  Lemma mark_mono : forall fuel work subjects seen walked inidx seen' inidx',
    mark E blobs fuel work subjects seen walked inidx = Some (seen', inidx') ->
    incl seen seen'.
  Proof.
    induction fuel as [|f IH]; intros work subjects seen walked inidx seen' inidx' H; simpl in H; [discriminate|].
    destruct (rev work) as [|d rest]; [inversion H; subst; apply incl_refl|].
    repeat match type of H with
           | context [if ?b then _ else _] => destruct b
           end;
      apply IH in H; (eapply incl_tran; [|exact H]);
      first [ apply incl_refl | apply incl_tl, incl_refl | apply incl_tl, incl_appr, incl_tl, incl_refl ].
  Qed.

  Lemma in_requeue (subjects : list (string * desc)) k (w : list desc) d :
    In d w -> In d (match assoc k subjects with Some r => w ++ [r] | None => w end).
  Proof. intros H. destruct (assoc k subjects); auto. apply in_or_app; auto. Qed.

  (* every descriptor on the work list whose blob exists ends up marked *)
  Lemma mark_marks_work : forall fuel work subjects seen walked inidx seen' inidx',
    (forall x, In x walked -> In x seen) ->
    mark E blobs fuel work subjects seen walked inidx = Some (seen', inidx') ->
    forall d, In d work -> has_blob blobs (d_dig d) = true -> In (d_dig d) seen'.
  Proof.
    induction fuel as [|f IH]; intros work subjects seen walked inidx seen' inidx' Hw H d Hd Hb; simpl in H; [discriminate|].
    destruct (rev work) as [|d0 rest] eqn:Er.
    { apply (f_equal (@rev _)) in Er. rewrite rev_involutive in Er. simpl in Er. subst work. destruct Hd. }
    assert (Hwork : work = rev rest ++ [d0]).
    { apply (f_equal (@rev _)) in Er. rewrite rev_involutive in Er. simpl in Er. exact Er. }
    assert (Hcase : d = d0 \/ In d (rev rest)).
    { rewrite Hwork in Hd. apply in_app_or in Hd. destruct Hd as [Hd|[Hd|[]]]; auto. }
    clear Hd Hwork Er.
    destruct (mem_str (d_dig d0) walked) eqn:Ewk.
    { destruct Hcase as [->|Hin]; [|eapply IH; eauto].
      apply mem_str_in in Ewk. apply Hw in Ewk. eapply mark_mono; eauto. }
    destruct (negb (has_blob blobs (d_dig d0))) eqn:Ehb.
    { destruct Hcase as [->|Hin]; [apply negb_true_iff in Ehb; congruence|]. eapply IH; eauto. }
    set (WK := if mt_index (d_mt d0) || mt_image (d_mt d0) then d_dig d0 :: walked else walked) in *.
    assert (Hw1 : forall S, incl (d_dig d0 :: seen) S -> forall x, In x WK -> In x S).
    { intros S HS x Hx. apply HS. unfold WK in Hx.
      destruct (mt_index (d_mt d0) || mt_image (d_mt d0)); [destruct Hx as [->|Hx]; [left; auto|right; auto]|right; auto]. }
    destruct Hcase as [->|Hin].
    - repeat match type of H with context [if ?b then _ else _] => destruct b end;
        apply mark_mono in H; apply H;
        first [ left; reflexivity | right; apply in_or_app; right; left; reflexivity ].
    - repeat match type of H with context [if ?b then _ else _] => destruct b end;
        (eapply (IH _ _ _ _ _ _ _ (Hw1 _ _) H); [ | exact Hb ]);
        first [ exact Hin | apply in_requeue; first [ exact Hin | apply in_or_app; left; exact Hin ] ].
      Unshelve.
      all: first [ apply incl_refl | apply incl_tl, incl_appr, incl_refl ].
  Qed.
End Mark.

(* ---- a collection only removes blobs: what stays is unchanged ------------------------------------------ *)
Lemma fold_del_sub (del : list string) : forall (bl : list (string * bentry)) d be,
  assoc d (fold_left (fun bl x => assoc_del x bl) del bl) = Some be -> assoc d bl = Some be.
Proof.
  induction del as [|x r IH]; intros bl d be H; simpl in H; auto.
  apply IH in H. apply assoc_del_some in H. destruct H. auto.
Qed.

Lemma gc_repo_blobs_sub E pol now rp d be :
  assoc d (r_blobs (gc_repo E pol now rp)) = Some be -> assoc d (r_blobs rp) = Some be.
Proof.
  unfold gc_repo. destruct (repo_gc E pol now (r_blobs rp) (r_index rp)) as [[[i'| |] del]|]; simpl; auto.
  apply fold_del_sub.
Qed.

(* C01 across collections: content integrity is preserved *)
Theorem gc_repo_blobs_ok E pol now rp : repo_blobs_ok E rp -> repo_blobs_ok E (gc_repo E pol now rp).
Proof. intros H d be Hd. apply gc_repo_blobs_sub in Hd. eauto. Qed.

Lemma assoc_map_data (p : string * bentry -> bool) t d : forall (l : list (string * bentry)) be,
  assoc d (map (fun b => if p b then (fst b, mkB (b_data (snd b)) t) else b) l) = Some be ->
  exists be', assoc d l = Some be' /\ b_data be' = b_data be.
Proof.
  induction l as [|[k v] r IH]; intros be H; simpl in H; [discriminate|].
  destruct (p (k, v)); simpl in *; destruct (String.eqb d k); auto; inversion H; subst; eexists; split; eauto.
Qed.

Theorem gstep_blobs_ok cfg pol E s g : BlobsOK E s -> BlobsOK E (fst (gstep cfg pol E s g)).
Proof.
  intros H. destruct g as [q|r|r d age|]; simpl.
  - apply step_blobs_ok; auto.
  - destruct (c_readonly cfg); auto. destruct (assoc r (st_repos s)) as [rp|] eqn:Er; simpl; auto.
    apply set_repo_ok; auto. unfold gc_one. destruct (c_kind cfg); apply gc_repo_blobs_ok;
      [|apply reload_repo_ok]; eapply H; eauto.
  - destruct (assoc r (st_repos s)) as [rp|] eqn:Er; simpl; auto.
    apply set_repo_ok; auto. intros d0 be Hd. unfold age_blobs in Hd. simpl in Hd.
    apply assoc_map_data in Hd. destruct Hd as [be' [Hd He]]. rewrite <- He. eapply H; eauto.
  - destruct (c_kind cfg); simpl.
    + intros r rp Ha. simpl in Ha. discriminate.
    + intros r rp Ha. simpl in Ha. rewrite assoc_map_snd in Ha.
      destruct (assoc r (st_repos s)) as [rp0|] eqn:Er; simpl in Ha; [|discriminate].
      inversion Ha; subst. unfold restart_repo. apply reload_repo_ok.
      assert (H0 : repo_blobs_ok E (mkR (r_blobs rp0) (r_index rp0) (r_conv rp0) [])) by (intros x y Hx; simpl in Hx; eapply H; eauto).
      destruct (c_readonly cfg); auto. unfold gc_one. destruct (c_kind cfg); apply gc_repo_blobs_ok; auto.
Qed.

(* ---- phase 1 keeps tagged entries; end to end: a tagged manifest's blob survives the collection -------- *)
Section Phase1.
  Variables (pol : gcpol) (now : Z) (blobs : list (string * bentry)).

  Definition kept_of (st : list desc * list (string * desc) * list string) : list desc := fst (fst st).

  Lemma phase1_entry_mono st e x : In x (kept_of st) -> In x (kept_of (phase1_entry pol now blobs st e)).
  Proof.
    destruct st as [[kept subj] idx]. unfold phase1_entry, kept_of. simpl. intros H.
    repeat match goal with |- context [if ?b then _ else _] => destruct b end; simpl; auto; apply in_or_app; auto.
  Qed.

  Lemma phase1_fold_mono l : forall st x, In x (kept_of st) -> In x (kept_of (fold_left (phase1_entry pol now blobs) l st)).
  Proof. induction l as [|e r IH]; intros st x H; simpl; auto. apply IH. apply phase1_entry_mono. auto. Qed.

  (* a tagged entry that is not a referrers response is kept as a root, under every policy *)
  Lemma phase1_entry_tagged st e :
    nonempty (ann_get RefName e) = true -> ann_get RefSubject e = "" ->
    In e (kept_of (phase1_entry pol now blobs st e)).
  Proof.
    destruct st as [[kept subj] idx]. unfold phase1_entry, kept_of. intros Ht Hs. rewrite Hs, Ht. simpl.
    rewrite orb_true_r. simpl. apply in_or_app. right. left. reflexivity.
  Qed.

  Lemma phase1_tagged l : forall st e,
    In e l -> nonempty (ann_get RefName e) = true -> ann_get RefSubject e = "" ->
    In e (kept_of (fold_left (phase1_entry pol now blobs) l st)).
  Proof.
    induction l as [|x r IH]; intros st e Hin Ht Hs; [destruct Hin|]. simpl. destruct Hin as [->|Hin].
    - apply phase1_fold_mono. apply phase1_entry_tagged; auto.
    - apply IH; auto.
  Qed.

  (* with untagged collection off every entry that is not a referrers response is kept as a root *)
  Lemma phase1_entry_untagged_off st e :
    gp_untagged pol = false -> ann_get RefSubject e = "" -> In e (kept_of (phase1_entry pol now blobs st e)).
  Proof.
    destruct st as [[kept subj] idx]. unfold phase1_entry, kept_of. intros Hu Hs. rewrite Hs, Hu. simpl.
    apply in_or_app. right. left. reflexivity.
  Qed.

  Lemma phase1_untagged_off l : forall st e,
    In e l -> gp_untagged pol = false -> ann_get RefSubject e = "" ->
    In e (kept_of (fold_left (phase1_entry pol now blobs) l st)).
  Proof.
    induction l as [|x r IH]; intros st e Hin Hu Hs; [destruct Hin|]. simpl. destruct Hin as [->|Hin].
    - apply phase1_fold_mono. apply phase1_entry_untagged_off; auto.
    - apply IH; auto.
  Qed.

  (* an entry younger than the grace period that is not a referrers response is kept as a root *)
  Lemma phase1_entry_young st e :
    young pol now blobs (d_dig e) = true -> ann_get RefSubject e = "" -> In e (kept_of (phase1_entry pol now blobs st e)).
  Proof.
    destruct st as [[kept subj] idx]. unfold phase1_entry, kept_of. intros Hy Hs. rewrite Hs, Hy. simpl.
    rewrite orb_true_r. apply in_or_app. right. left. reflexivity.
  Qed.

  Lemma phase1_young l : forall st e,
    In e l -> young pol now blobs (d_dig e) = true -> ann_get RefSubject e = "" ->
    In e (kept_of (fold_left (phase1_entry pol now blobs) l st)).
  Proof.
    induction l as [|x r IH]; intros st e Hin Hy Hs; [destruct Hin|]. simpl. destruct Hin as [->|Hin].
    - apply phase1_fold_mono. apply phase1_entry_young; auto.
    - apply IH; auto.
  Qed.
End Phase1.

(* C05, end to end on the model: the blob of a root entry (tagged / untagged with untagged collection off /
   younger than the grace period) is not among the blobs a collection deletes *)
Theorem gc_keeps_root E pol now blobs i ri deleted e :
  repo_gc E pol now blobs i = Some (ri, deleted) ->
  In e (top i) -> ann_get RefSubject e = "" -> has_blob blobs (d_dig e) = true ->
  (nonempty (ann_get RefName e) = true \/ gp_untagged pol = false \/ young pol now blobs (d_dig e) = true) ->
  ~ In (d_dig e) deleted.
Proof.
  unfold repo_gc. intros H Hin Hs Hb Hroot.
  destruct (phase1 pol now blobs i) as [[kept subjects] inidx0] eqn:Ep.
  destruct (mark E blobs (mark_fuel E blobs i) kept subjects [] [] inidx0) as [[seen inidx]|] eqn:Em; [|discriminate].
  destruct (fold_left (sweep_blob pol now blobs seen inidx) blobs (Ok i, [])) as [ri0 del0] eqn:Es.
  inversion H; subst. clear H.
  assert (Hk : In e kept).
  { unfold phase1 in Ep. replace kept with (kept_of (fold_left (phase1_entry pol now blobs) (top i) ([], [], [])))
      by (rewrite Ep; reflexivity).
    destruct Hroot as [Ht|[Hu|Hy]];
      [apply phase1_tagged | apply phase1_untagged_off | apply phase1_young]; auto. }
  assert (Hseen : In (d_dig e) seen).
  { eapply (mark_marks_work E blobs); [| exact Em | exact Hk | exact Hb]. intros x []. }
  intro Hd. replace deleted with (snd (fold_left (sweep_blob pol now blobs seen inidx) blobs (Ok i, []))) in Hd
    by (rewrite Es; reflexivity).
  exact (sweep_keeps_seen pol now blobs seen inidx blobs (Ok i) (d_dig e) Hseen Hd).
Qed.

(* C05: a blob younger than the grace period that is not an index entry (e.g. the layers uploaded before
   the manifest of an image) is not deleted *)
Theorem gc_keeps_young_blob E pol now blobs i ri deleted d :
  repo_gc E pol now blobs i = Some (ri, deleted) ->
  young pol now blobs d = true ->
  (forall seen inidx, mark E blobs (mark_fuel E blobs i) (fst (fst (phase1 pol now blobs i))) (snd (fst (phase1 pol now blobs i))) [] []
                        (snd (phase1 pol now blobs i)) = Some (seen, inidx) -> ~ In d inidx) ->
  ~ In d deleted.
Proof.
  unfold repo_gc. intros H Hy Hni.
  destruct (phase1 pol now blobs i) as [[kept subjects] inidx0] eqn:Ep. simpl in Hni.
  destruct (mark E blobs (mark_fuel E blobs i) kept subjects [] [] inidx0) as [[seen inidx]|] eqn:Em; [|discriminate].
  destruct (fold_left (sweep_blob pol now blobs seen inidx) blobs (Ok i, [])) as [ri0 del0] eqn:Es.
  inversion H; subst. clear H.
  intro Hd. replace deleted with (snd (fold_left (sweep_blob pol now blobs seen inidx) blobs (Ok i, []))) in Hd
    by (rewrite Es; reflexivity).
  exact (sweep_keeps_young pol now blobs seen inidx blobs (Ok i) d Hy (Hni seen inidx eq_refl) Hd).
Qed.

(* ---- C06: what is neither marked nor protected by the grace period is deleted ---------------------------- *)
Lemma sweep_deletes_unseen pol now blobs seen inidx l : forall st d,
  In d (map fst l) -> mem_str d seen = false ->
  (young pol now blobs d && negb (mem_str d inidx)) = false ->
  In d (snd (fold_left (sweep_blob pol now blobs seen inidx) l st)).
Proof.
  assert (Hmono : forall l st d, In d (snd st) -> In d (snd (fold_left (sweep_blob pol now blobs seen inidx) l st))).
  { induction l0 as [|b r IH]; intros st d H; simpl; auto. apply IH. unfold sweep_blob. destruct st as [ri del]. simpl in *.
    destruct (mem_str (fst b) seen); simpl; auto. destruct (young pol now blobs (fst b) && negb (mem_str (fst b) inidx)); simpl; auto. }
  induction l as [|b r IH]; intros st d Hin Hs Hy; simpl in *; [destruct Hin|].
  destruct Hin as [<-|Hin]; [|apply IH; auto].
  apply Hmono. unfold sweep_blob. destruct st as [ri del]. rewrite Hs, Hy. simpl. auto.
Qed.

(* the pass treats every repository on its own: the result for r does not depend on the other repositories,
   their order, or whether their collection fails *)
Theorem gc_pass_independent cfg E pol now fails repos r :
  assoc r (gc_pass cfg E pol now fails repos)
  = option_map (fun rp => if fails r then rp else gc_one cfg E pol now rp) (assoc r repos).
Proof.
  unfold gc_pass. induction repos as [|[k v] l IH]; simpl; auto.
  destruct (String.eqb r k) eqn:Ek; auto. apply String.eqb_eq in Ek. subst. reflexivity.
Qed.

(* ---- tags stay unique through collections -------------------------------------------------------------------------- *)
From Olareg Require Import IndexInv RegInv.

Definition res_unique (ri : res index) : Prop := forall i, ri = Ok i -> unique (top i).

Lemma sweep_blob_unique pol now blobs seen inidx st b :
  res_unique (fst st) -> res_unique (fst (sweep_blob pol now blobs seen inidx st b)).
Proof.
  destruct st as [ri deleted]. unfold sweep_blob. simpl.
  destruct (mem_str (fst b) seen); [auto|].
  destruct (young pol now blobs (fst b) && negb (mem_str (fst b) inidx)); [auto|].
  simpl. intros H i Hi. destruct ri as [i0| |]; simpl in Hi; try discriminate.
  destruct (idx_has (fst b) i0).
  - eapply rm_desc_unique; [apply H; reflexivity|exact Hi].
  - inversion Hi; subst. apply H. reflexivity.
Qed.

Lemma fold_sweep_unique pol now blobs seen inidx l : forall st,
  res_unique (fst st) -> res_unique (fst (fold_left (sweep_blob pol now blobs seen inidx) l st)).
Proof. induction l as [|b r IH]; intros st H; simpl; auto. apply IH. apply sweep_blob_unique. exact H. Qed.

Lemma prune_missing_unique blobs ri d : res_unique ri -> res_unique (prune_missing blobs ri d).
Proof.
  intros H i Hi. unfold prune_missing in Hi. destruct ri as [i0| |]; simpl in Hi; try discriminate.
  destruct (assoc d blobs).
  - inversion Hi; subst. apply H. reflexivity.
  - eapply rm_desc_unique; [apply H; reflexivity|exact Hi].
Qed.

Lemma fold_prune_unique blobs l : forall ri, res_unique ri -> res_unique (fold_left (prune_missing blobs) l ri).
Proof. induction l as [|d r IH]; intros ri H; simpl; auto. apply IH. apply prune_missing_unique. exact H. Qed.

Theorem gc_repo_idx_ok E pol now rp : repo_idx_ok rp -> repo_idx_ok (gc_repo E pol now rp).
Proof.
  intros H. unfold gc_repo, repo_gc.
  destruct (phase1 pol now (r_blobs rp) (r_index rp)) as [[kept subjects] inidx0].
  destruct (mark E (r_blobs rp) (mark_fuel E (r_blobs rp) (r_index rp)) kept subjects [] [] inidx0) as [[seen inidx]|]; [|exact H].
  destruct (fold_left (sweep_blob pol now (r_blobs rp) seen inidx) (r_blobs rp) (Ok (r_index rp), [])) as [ri deleted] eqn:Ef.
  destruct (fold_left (prune_missing (r_blobs rp)) inidx ri) as [i'| |] eqn:Ep; try exact H.
  unfold repo_idx_ok. simpl.
  assert (Hr : res_unique ri).
  { pose proof (fold_sweep_unique pol now (r_blobs rp) seen inidx (r_blobs rp) (Ok (r_index rp), [])) as Hs.
    rewrite Ef in Hs. apply Hs. simpl. intros i Hi. inversion Hi; subst. exact H. }
  exact (fold_prune_unique (r_blobs rp) inidx ri Hr i' Ep).
Qed.

Theorem gstep_idx_ok cfg pol E s g : IdxOK s -> IdxOK (fst (gstep cfg pol E s g)).
Proof.
  intros H. destruct g as [q|r|r d age|]; simpl.
  - apply step_idx_ok. exact H.
  - destruct (c_readonly cfg); [exact H|]. destruct (assoc r (st_repos s)) as [rp|] eqn:Er; [|exact H].
    apply set_repo_idx; auto. unfold gc_one. destruct (c_kind cfg); apply gc_repo_idx_ok; [|apply reload_idx_ok]; eapply H; eauto.
  - destruct (assoc r (st_repos s)) as [rp|] eqn:Er; [|exact H].
    apply set_repo_idx; auto. unfold repo_idx_ok, age_blobs. simpl. eapply H; eauto.
  - destruct (c_kind cfg); simpl.
    + intros r0 rp0 Ha. simpl in Ha. discriminate.
    + intros r0 rp0 Ha. simpl in Ha. rewrite assoc_map_snd in Ha.
      destruct (assoc r0 (st_repos s)) as [rp|] eqn:Er; simpl in Ha; [|discriminate]. inversion Ha; subst.
      unfold restart_repo. apply reload_idx_ok.
      assert (H0 : repo_idx_ok (mkR (r_blobs rp) (r_index rp) (r_conv rp) [])) by (unfold repo_idx_ok; simpl; eapply H; eauto).
      destruct (c_readonly cfg); [exact H0|]. unfold gc_one. destruct (c_kind cfg); apply gc_repo_idx_ok; [|apply reload_idx_ok]; exact H0.
Qed.
