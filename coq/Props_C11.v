(* Props_C11.v — concurrent requests on a repository.  Model: Conc.v (requests in flight = an interleaving, chosen by a
   scheduler, of the atomic store actions of their handlers; every action is one critical section of the store). *)
From Olareg Require Import Base Index IndexProofs Reg RegProofs Conc.
Local Open Scope list_scope.

(* whatever the atomic actions preserve holds in every state of every schedule of any set of requests ... *)
Theorem C11_invariants_under_every_schedule : forall cfg E (Inv : state -> Prop),
  (forall a s, Inv s -> Inv (fst (exec_act cfg E a s))) ->
  forall sched sp, Inv (fst sp) -> Inv (fst (crun cfg E sched sp)).
Proof. exact crun_inv. Qed.
Print Assumptions C11_invariants_under_every_schedule.

(* ... in particular content addressing: no interleaving stores bytes under a digest that is not theirs *)
Theorem C11_blobs_ok_under_every_schedule : forall cfg E sched sp,
  BlobsOK E (fst sp) -> BlobsOK E (fst (crun cfg E sched sp)).
Proof. exact conc_blobs_ok. Qed.
Print Assumptions C11_blobs_ok_under_every_schedule.

(* an action of a request on one repository never changes another repository, so requests on different repositories
   cannot lose each other's updates under any schedule *)
Theorem C11_other_repositories_untouched : forall cfg E a s r',
  act_repo a <> r' \/ is_read a = true -> get_repo cfg r' (fst (exec_act cfg E a s)) = get_repo cfg r' s.
Proof. exact conc_frame. Qed.
Print Assumptions C11_other_repositories_untouched.

(* a request scheduled without interference is the sequential request: the sequential model is the specification the
   linearizability check of lib/c11.py compares concurrent histories with *)
Theorem C11_alone_is_sequential : forall cfg E p s,
  crun cfg E (repeat 0 (psize cfg E p s)) (s, mkPool [p] []) = (fst (run cfg E p s), mkPool [] [snd (run cfg E p s)]).
Proof. exact alone_is_sequential. Qed.

(* index updates never panic, whatever state a concurrent request left (total on every index) *)
Theorem C11_index_update_total : forall d cs i, exists i', add_desc d cs i = Ok i'.
Proof. exact add_desc_total. Qed.

(* no lost update: whatever the scheduler does, the store sees some sequence of atomic actions; in any such sequence in
   which the index of r is only modified by insertions of plain tagged descriptors with pairwise distinct tags, every
   inserted descriptor (tag, digest) is in r's index at the end - tags pushed concurrently are all present afterwards *)
Theorem C11_concurrent_tag_pushes_all_present : forall cfg E r D,
  c_readonly cfg = false ->
  Forall plain_tagged D ->
  (forall d1 d2, In d1 D -> In d2 D -> ann_get RefName d1 = ann_get RefName d2 -> d1 = d2) ->
  forall acts s, Forall (only_inserts r D) acts ->
    forall d, In d D ->
      (In d (top (r_index (get_repo cfg r s))) \/ In (AIndexInsert r d []) acts) ->
      In d (top (r_index (get_repo cfg r (exec_acts cfg E acts s)))).
Proof. exact concurrent_tag_pushes_all_present. Qed.
Print Assumptions C11_concurrent_tag_pushes_all_present.
