(* Props_C11.v — concurrent requests on a repository.  Model: Conc.v (requests in flight = an interleaving, chosen by a
   scheduler, of the atomic store actions of their handlers; every action is one critical section of the store). *)
From Olareg Require Import Base Index IndexProofs Reg RegProofs Conc ConcAtomic.
Local Open Scope list_scope.

(* whatever the atomic actions preserve holds in every state of every schedule of any set of requests ... *)
Theorem C11_invariants_under_every_schedule : forall cfg E (Inv : state -> Prop),
  (forall a s, Inv s -> Inv (fst (exec_act cfg E a s))) ->
  forall sched sp, Inv (fst sp) -> Inv (fst (crun cfg E sched sp)).
Proof. exact crun_inv. Qed.
Print Assumptions C11_invariants_under_every_schedule.

(* ... in particular content addressing: no interleaving stores bytes under a digest that is not theirs *)
Theorem C11_blobs_ok_under_every_schedule : forall cfg E sched sp,
  BlobsOK E (fst sp) -> BlobsOK E (fst (crun cfg E sched sp)).
Proof. exact conc_blobs_ok. Qed.
Print Assumptions C11_blobs_ok_under_every_schedule.

(* an action of a request on one repository never changes another repository, so requests on different repositories
   cannot lose each other's updates under any schedule *)
Theorem C11_other_repositories_untouched : forall cfg E a s r',
  act_repo a <> r' \/ is_read a = true -> get_repo cfg r' (fst (exec_act cfg E a s)) = get_repo cfg r' s.
Proof. exact conc_frame. Qed.
Print Assumptions C11_other_repositories_untouched.

(* a request scheduled without interference is the sequential request: the sequential model is the specification the
   linearizability check of lib/c11.py compares concurrent histories with *)
Theorem C11_alone_is_sequential : forall cfg E p s,
  crun cfg E (repeat 0 (psize cfg E p s)) (s, mkPool [p] []) = (fst (run cfg E p s), mkPool [] [snd (run cfg E p s)]).
Proof. exact alone_is_sequential. Qed.

(* index updates never panic, whatever state a concurrent request left (total on every index) *)
Theorem C11_index_update_total : forall d cs i, exists i', add_desc d cs i = Ok i'.
Proof. exact add_desc_total. Qed.

(* no lost update: whatever the scheduler does, the store sees some sequence of atomic actions; in any such sequence in
   which the index of r is only modified by insertions of plain tagged descriptors with pairwise distinct tags, every
   inserted descriptor (tag, digest) is in r's index at the end - tags pushed concurrently are all present afterwards *)
Theorem C11_concurrent_tag_pushes_all_present : forall cfg E r D,
  c_readonly cfg = false ->
  Forall plain_tagged D ->
  (forall d1 d2, In d1 D -> In d2 D -> ann_get RefName d1 = ann_get RefName d2 -> d1 = d2) ->
  forall acts s, Forall (only_inserts r D) acts ->
    forall d, In d D ->
      (In d (top (r_index (get_repo cfg r s))) \/ In (AIndexInsert r d []) acts) ->
      In d (top (r_index (get_repo cfg r (exec_acts cfg E acts s)))).
Proof. exact concurrent_tag_pushes_all_present. Qed.
Print Assumptions C11_concurrent_tag_pushes_all_present.

(* ---- what another client can see of a request in flight ------------------------------------------------------------------ *)
(* Only IndexInsert / IndexRemove change an index; every other store action leaves the index of every repository as it is. *)
Theorem C11_only_index_writes_change_an_index : forall cfg E a s r',
  is_iw a = false -> r_index (get_repo cfg r' (fst (exec_act cfg E a s))) = r_index (get_repo cfg r' s).
Proof. exact other_actions_keep_indexes. Qed.

(* A request with at most n index writes on every path: while it runs - under any schedule, its actions being atomic - the
   index another client reads moves through at most n new values, in order, never back. *)
Theorem C11_index_seen_during_a_request : forall cfg E r' n p, IW n p -> forall s,
  exists vals, (List.length vals <= n)%nat /\ follows (r_index (get_repo cfg r' s)) vals (idx_trace cfg E r' p s).
Proof. exact IW_trace. Qed.
Print Assumptions C11_index_seen_during_a_request.

(* One write at most, hence atomic for everything read through the index, on every path of: a manifest push without a subject
   (or with the referrers API off), a delete by tag, every read, and the whole blob / upload side (which never writes an index) *)
Theorem C11_plain_push_is_atomic : forall cfg E r arg ctype clen dq body,
  c_referrer cfg = false \/ j_subject (e_view E body) = None -> IW 1 (h_manifest_put cfg E r arg ctype clen dq body).
Proof. exact manifest_put_plain_is_atomic. Qed.

Theorem C11_delete_by_tag_is_atomic : forall cfg E r arg, is_tag arg = true -> IW 1 (h_manifest_delete cfg E r arg).
Proof. exact manifest_delete_by_tag_is_atomic. Qed.

Theorem C11_reads_write_nothing : forall E r arg acc rng n last filter,
  IW 0 (h_manifest_get E r arg acc rng) /\ IW 0 (h_tag_list r n last) /\ IW 0 (h_referrers E r arg filter) /\ IW 0 (h_blob_get E r arg rng).
Proof. exact reads_write_no_index. Qed.

Theorem C11_blob_side_writes_no_index : forall cfg E r sid cr dg st body m f fo dq aq arg,
  IW 0 (upload_patch E r sid cr st body) /\ IW 0 (upload_put E r sid cr dg st body) /\ IW 0 (upload_post cfg r m f fo dq aq body)
  /\ IW 0 (h_blob_delete cfg r arg) /\ IW 0 (h_upload_get E r sid) /\ IW 0 (h_upload_delete r sid).
Proof. exact blob_side_writes_no_index. Qed.

(* The exceptions, exactly: a push or a delete by digest of a manifest with a subject writes twice - the entry and the referrers
   response - and never more (finding F53: the state between the two writes is observable; the paused-request exploration of
   lib/c11.py shows it on the implementation and shows nothing else) *)
Theorem C11_artifact_requests_write_twice_at_most : forall cfg E r arg ctype clen dq body,
  IW 2 (h_manifest_put cfg E r arg ctype clen dq body) /\ IW 2 (h_manifest_delete cfg E r arg).
Proof. intros. split; [apply manifest_put_writes_twice_at_most|apply manifest_delete_writes_twice_at_most]. Qed.
Print Assumptions C11_artifact_requests_write_twice_at_most.
