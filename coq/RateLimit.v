(* RateLimit.v — the per-address fixed-window counter of Server.ServeHTTP (olareg.go:148-187).
   Times are nanoseconds (Z); [served] is a ghost field counting the requests of the current
   window that were let through. *)
From Olareg Require Import Base.
Local Open Scope list_scope.
Local Open Scope Z_scope.

Record rl_entry := mkRL { rl_first : Z; rl_count : Z; rl_served : Z }.
Definition rl_state := list (string * rl_entry).

Fixpoint rl_get (ip : string) (s : rl_state) : option rl_entry :=
  match s with [] => None | (k, e) :: r => if String.eqb ip k then Some e else rl_get ip r end.
Fixpoint rl_del (ip : string) (s : rl_state) : rl_state :=
  match s with [] => [] | (k, e) :: r => if String.eqb ip k then rl_del ip r else (k, e) :: rl_del ip r end.
Definition rl_set (ip : string) (e : rl_entry) (s : rl_state) : rl_state := (ip, e) :: rl_del ip s.

Definition second : Z := 1000000000.

(* one request from [ip] at time [now] with limit [L] > 0: new state and whether it is served *)
Definition rl_step (L : Z) (s : rl_state) (now : Z) (ip : string) : rl_state * bool :=
  let fresh := mkRL now 1 (if 1 <=? L then 1 else 0) in
  match rl_get ip s with
  | None => (rl_set ip fresh s, 1 <=? L)
  | Some e =>
      if now - rl_first e >? second then (rl_set ip fresh s, 1 <=? L)
      else
        let c := rl_count e + 1 in
        (rl_set ip (mkRL (rl_first e) c (if c <=? L then rl_served e + 1 else rl_served e)) s, c <=? L)
  end.

(* the address the limit is accounted to: first element of X-Forwarded-For, else RemoteAddr minus port *)
Fixpoint cut_at (sep : string) (s : string) : string :=
  match s with
  | EmptyString => EmptyString
  | String c r => if String.prefix sep s then EmptyString else String c (cut_at sep r)
  end.

Fixpoint rl_run (L : Z) (s : rl_state) (reqs : list (Z * string)) : rl_state * list bool :=
  match reqs with
  | [] => (s, [])
  | (t, ip) :: r => let (s1, ok) := rl_step L s t ip in
                    let (s2, oks) := rl_run L s1 r in (s2, ok :: oks)
  end.

(* ---- proofs ---------------------------------------------------------------------------------------- *)
Definition rl_inv (L : Z) (s : rl_state) : Prop :=
  forall ip e, rl_get ip s = Some e -> 0 <= rl_served e /\ rl_served e <= L /\ rl_served e <= rl_count e.

Lemma rl_get_set_same ip e s : rl_get ip (rl_set ip e s) = Some e.
Proof. unfold rl_set. simpl. rewrite String.eqb_refl. auto. Qed.

Lemma rl_get_del_other ip ip' s : ip <> ip' -> rl_get ip' (rl_del ip s) = rl_get ip' s.
Proof.
  intros H. induction s as [|[k e] r IH]; simpl; auto.
  destruct (String.eqb ip k) eqn:E.
  - apply String.eqb_eq in E. subst k. rewrite IH.
    destruct (String.eqb ip' ip) eqn:E2; auto. apply String.eqb_eq in E2. congruence.
  - simpl. rewrite IH. auto.
Qed.

Lemma rl_get_set_other ip ip' e s : ip <> ip' -> rl_get ip' (rl_set ip e s) = rl_get ip' s.
Proof.
  intros H. unfold rl_set. simpl. destruct (String.eqb ip' ip) eqn:E.
  - apply String.eqb_eq in E. congruence.
  - apply rl_get_del_other. auto.
Qed.

(* in every accounting window of every address at most L requests are served *)
Theorem rl_step_inv L s now ip : 0 <= L -> rl_inv L s -> rl_inv L (fst (rl_step L s now ip)).
Proof.
  intros HL Hinv ip' e' Hg. unfold rl_step in Hg.
  destruct (string_dec ip ip') as [<-|Hn].
  - destruct (rl_get ip s) as [e|] eqn:Eg.
    + destruct (now - rl_first e >? second).
      * cbn [fst] in Hg. rewrite rl_get_set_same in Hg. inversion Hg; subst; simpl.
        destruct (Z.leb_spec 1 L); lia.
      * cbn [fst] in Hg. rewrite rl_get_set_same in Hg. inversion Hg; subst; simpl.
        destruct (Hinv ip e Eg) as [H0 [H1 H2]].
        destruct (Z.leb_spec (rl_count e + 1) L); lia.
    + cbn [fst] in Hg. rewrite rl_get_set_same in Hg. inversion Hg; subst; simpl.
      destruct (Z.leb_spec 1 L); lia.
  - destruct (rl_get ip s) as [e|]; [destruct (now - rl_first e >? second)|]; cbn [fst] in Hg;
      rewrite rl_get_set_other in Hg by auto; eauto.
Qed.

Theorem rl_run_inv L reqs : 0 <= L -> forall s, rl_inv L s -> rl_inv L (fst (rl_run L s reqs)).
Proof.
  intros HL. induction reqs as [|[t ip] r IH]; intros s H; simpl; auto.
  pose proof (rl_step_inv L s t ip HL H) as H1. destruct (rl_step L s t ip) as [s1 ok]. simpl in H1.
  specialize (IH s1 H1). destruct (rl_run L s1 r). simpl in *. auto.
Qed.

(* a request is served exactly when it is among the first L of its window *)
Theorem rl_served_iff L s now ip e :
  rl_get ip s = Some e -> now - rl_first e <= second ->
  snd (rl_step L s now ip) = (rl_count e + 1 <=? L).
Proof.
  intros Hg Ht. unfold rl_step. rewrite Hg.
  destruct (Z.gtb_spec (now - rl_first e) second); [lia|]. reflexivity.
Qed.

(* other addresses are unaffected: the entry of ip' neither influences nor is influenced by a request of ip *)
Theorem rl_independent L s now ip ip' :
  ip <> ip' -> rl_get ip' (fst (rl_step L s now ip)) = rl_get ip' s.
Proof.
  intros Hn. unfold rl_step.
  destruct (rl_get ip s) as [e|]; [destruct (now - rl_first e >? second)|]; cbn [fst]; apply rl_get_set_other; auto.
Qed.

Theorem rl_decision_local L s s' now ip :
  rl_get ip s = rl_get ip s' -> snd (rl_step L s now ip) = snd (rl_step L s' now ip).
Proof. intros H. unfold rl_step. rewrite H. destruct (rl_get ip s') as [e|]; [destruct (now - rl_first e >? second)|]; reflexivity. Qed.

Example rl_burst : snd (rl_run 3 [] [(0, "a"); (1, "a"); (2, "b"); (3, "a"); (4, "a"); (second + 10, "a")])
                   = [true; true; true; true; false; true].
Proof. vm_compute. reflexivity. Qed.

(* ---- the address a request is accounted to ------------------------------------------------------------ *)
Fixpoint last_colon (s : string) (i : nat) (acc : option nat) : option nat :=
  match s with
  | EmptyString => acc
  | String c r => last_colon r (S i) (if Ascii.eqb c ":" then Some i else acc)
  end.

(* RemoteAddr without its port: ip[:LastIndex(ip, ":")] when that index is positive *)
Definition strip_port (s : string) : string :=
  match last_colon s 0 None with
  | Some (S n) => substring 0 (S n) s
  | _ => s
  end.

(* first element of X-Forwarded-For when the header is present, else RemoteAddr minus the port *)
Definition rl_ip (xff remote : string) : string :=
  if String.eqb xff "" then strip_port remote else cut_at ", " xff.

(* requests as they arrive: time, X-Forwarded-For, RemoteAddr *)
Definition rl_serve (L : Z) (reqs : list (Z * (string * string))) : list bool :=
  snd (rl_run L [] (map (fun r => (fst r, rl_ip (fst (snd r)) (snd (snd r)))) reqs)).
