(* RouteProofs.v — the repository grammar excludes dot segments; routing reaches a handler only
   with a repository name of the grammar; the regenerated routing table realises the documented
   switch behaviour (finite table, by computation). *)
From Olareg Require Import Base Route Gen_Routes Gen_Errors Gen_Consts.
Local Open Scope list_scope.

(* ---- grammar ------------------------------------------------------------------------------------ *)
Lemma rrun_fail s : rrun RFail s = RFail.
Proof. induction s; simpl; auto. Qed.

Definition comp_start_ok (c : string) : bool :=
  match c with String a _ => is_alnum a | EmptyString => false end.

Lemma comp_start_app c a : comp_start_ok c = true -> comp_start_ok (c ++ String a "") = true.
Proof. destruct c; simpl; auto. discriminate. Qed.

Lemma slash_not_alnum : is_alnum "/" = false.
Proof. reflexivity. Qed.

(* state of the automaton vs the component being read *)
Definition consistent (q : rstate) (cur : string) : Prop :=
  match q with
  | RStart => cur = ""
  | RFail => True
  | _ => comp_start_ok cur = true
  end.

Lemma repo_components : forall s q cur,
  consistent q cur -> rrun q s = RAlnum -> Forall (fun c => comp_start_ok c = true) (split_on "/" cur s).
Proof.
  induction s as [|c r IH]; intros q cur Hc Hr; simpl in *.
  - subst q. constructor; auto.
  - destruct (Ascii.eqb c "/") eqn:Es.
    + apply Ascii.eqb_eq in Es. subst c.
      destruct q; simpl in Hr; try (rewrite rrun_fail in Hr; discriminate).
      constructor; [exact Hc|]. apply (IH RStart ""); simpl; auto.
    + assert (Hq' : rnext q c <> RFail) by (intro E; rewrite E, rrun_fail in Hr; discriminate).
      apply (IH (rnext q c)); auto.
      destruct q; simpl in *; try contradiction;
        repeat match goal with
               | |- context [if ?b then _ else _] => destruct b eqn:?
               | H : context [if ?b then _ else _] |- _ => destruct b eqn:?
               end; simpl; try contradiction; try congruence;
        try (subst cur; simpl; assumption); try (apply comp_start_app; assumption); auto.
Qed.

(* every '/'-separated component of an accepted name starts with [a-z0-9]: none is empty, ".",
   "..", or begins with '_' (so none is "_uploads") *)
Theorem repo_ok_components s :
  repo_ok s = true -> Forall (fun c => comp_start_ok c = true) (split_on "/" "" s).
Proof.
  unfold repo_ok. intros H. destruct (rrun RStart s) eqn:E; try discriminate.
  apply (repo_components s RStart ""); simpl; auto.
Qed.

Corollary repo_ok_no_dotdot s c :
  repo_ok s = true -> In c (split_on "/" "" s) -> c <> ".." /\ c <> "." /\ c <> "" /\ c <> "_uploads".
Proof.
  intros H Hin. pose proof (repo_ok_components s H) as Hf. rewrite Forall_forall in Hf.
  specialize (Hf c Hin). repeat split; intro E; subst c; discriminate.
Qed.

(* ---- routing reaches handlers only with grammar names --------------------------------------------- *)
Definition repo_first (ps : list pat) : bool :=
  match ps with PRepo :: rest => negb (has_repo rest) | _ => negb (has_repo ps) end.

Lemma match_v2_repo els ps m :
  match_v2 els (PRepo :: ps) = Some m -> exists r m', m = r :: m' /\ (r = "" \/ repo_ok r = true).
Proof.
  unfold match_v2. destruct els as [|v rest]; [discriminate|].
  destruct (negb (String.eqb v "v2")); [discriminate|].
  destruct (List.length (v :: rest) <? List.length (PRepo :: ps) + 1)%nat; [discriminate|].
  destruct (match_pats rest (PRepo :: ps)) as [m0|] eqn:Em; [|discriminate].
  simpl has_repo. cbv iota.
  simpl in Em. destruct (List.length rest <? List.length ps)%nat; [discriminate|].
  destruct (match_pats (skipn (List.length rest - List.length ps) rest) ps); [|discriminate].
  inversion Em; subst m0. clear Em.
  set (r := join_slash (firstn (List.length rest - List.length ps) rest)).
  destruct (negb (String.eqb r "") && negb (repo_ok r)) eqn:Ec; [discriminate|].
  intros H; inversion H; subst. exists r. eexists. split; [reflexivity|].
  apply andb_false_iff in Ec. destruct Ec as [Ec|Ec]; apply negb_false_iff in Ec.
  - left. apply String.eqb_eq. auto.
  - right. auto.
Qed.

(* well-formedness of a routing table: a handler that takes match 0 as its repository belongs to a
   route whose pattern starts with the repository wildcard *)
Definition action_ok (ps : list pat) (a : rcond * raction) : bool :=
  match snd a with
  | AHandler _ (0%nat :: _) => match ps with PRepo :: _ => true | _ => false end
  | _ => true
  end.
Definition route_wf (rt : route) : bool := forallb (action_ok (rt_pats rt)) (rt_actions rt).

Lemma first_action_repo sw method m l dflt ps name args :
  forallb (action_ok ps) l = true ->
  first_action sw method m l dflt = THandler name args ->
  (exists i rest, args = nth i m "" :: rest /\ (i = 0%nat -> exists ps', ps = PRepo :: ps')) \/ args = [].
Proof.
  induction l as [|[c a] r IH]; simpl; intros Hw H; [discriminate|].
  apply andb_prop in Hw. destruct Hw as [Ha Hr].
  destruct (eval_cond sw method m c); [|auto].
  destruct a as [n ar|z]; [|discriminate]. inversion H; subst. clear H.
  destruct ar as [|i ar]; [right; reflexivity|]. left. exists i. eexists. split; [reflexivity|].
  intros ->. unfold action_ok in Ha. simpl in Ha. destruct ps as [|[] ps']; try discriminate. eauto.
Qed.

Theorem dispatch_repo_grammar routes dflt sw method els name args :
  forallb route_wf routes = true ->
  dispatch routes dflt sw method els = THandler name args ->
  forall r rest, args = r :: rest ->
  (* the first argument of a handler is match 0 ... *)
  (exists rt m, In rt routes /\ match_v2 els (rt_pats rt) = Some m /\
                (exists i, r = nth i m "" /\ (i = 0%nat -> r = "" \/ repo_ok r = true))).
Proof.
  induction routes as [|rt rs IH]; simpl; intros Hw H r rest Ha; [discriminate|].
  apply andb_prop in Hw. destruct Hw as [Hw1 Hw2].
  destruct (match_v2 els (rt_pats rt)) as [m|] eqn:Em.
  - destruct (eval_cond sw method m (rt_cond rt)).
    + destruct (first_action_repo _ _ _ _ _ _ _ _ Hw1 H) as [[i [rest' [Hargs Hi]]]|Hnil]; [|subst; discriminate].
      subst args. inversion Hargs; subst. exists rt, m. split; [left; auto|]. split; auto.
      exists i. split; auto. intros ->. destruct (Hi eq_refl) as [ps' Hps]. rewrite Hps in Em.
      destruct (match_v2_repo _ _ _ Em) as [r0 [m' [-> Hr0]]]. simpl. exact Hr0.
    + destruct (IH Hw2 H r rest Ha) as [rt' [m' [Hin Hx]]]. exists rt', m'. split; [right; auto|auto].
  - destruct (IH Hw2 H r rest Ha) as [rt' [m' [Hin Hx]]]. exists rt', m'. split; [right; auto|auto].
Qed.

(* ---- obligations over the regenerated table (re-checked against the current source) ------------------ *)
Lemma gen_routes_wf : forallb route_wf gen_routes = true.
Proof. vm_compute. reflexivity. Qed.

(* the documented behaviour of the switches on representative requests *)
Definition R := "proj/app".
Definition D := "sha256:0000000000000000000000000000000000000000000000000000000000000000".
Definition methods := ["GET"; "HEAD"; "POST"; "PUT"; "PATCH"; "DELETE"; "OPTIONS"].
Definition all_switches : list switches :=
  flat_map (fun a => flat_map (fun b => flat_map (fun c => map (fun d => mkSw a b c d) [true; false]) [true; false]) [true; false]) [true; false].

Inductive pclass := PPing | PManifest | PBlob | PUploads | PSession | PReferrers | PTags | POther | PBadRepo | PNotV2.
Definition pclasses := [PPing; PManifest; PBlob; PUploads; PSession; PReferrers; PTags; POther; PBadRepo; PNotV2].
Definition class_path (c : pclass) : string :=
  match c with
  | PPing => "/v2/"
  | PManifest => "/v2/proj/app/manifests/latest"
  | PBlob => ("/v2/proj/app/blobs/" ++ D)%string
  | PUploads => "/v2/proj/app/blobs/uploads/"
  | PSession => "/v2/proj/app/blobs/uploads/some-session"
  | PReferrers => ("/v2/proj/app/referrers/" ++ D)%string
  | PTags => "/v2/proj/app/tags/list"
  | POther => "/v2/proj/app/unknown/x"
  | PBadRepo => "/v2/Proj/App/tags/list"
  | PNotV2 => "/v1/proj/app/tags/list"
  end.

Definition is_read_m (m : string) : bool := String.eqb m "GET" || String.eqb m "HEAD".

(* handler name (or bare status) the API documentation prescribes *)
Definition spec_route (sw : switches) (method : string) (c : pclass) : target :=
  let h n args := THandler n args in
  match c with
  | PPing => if is_read_m method then h "v2Ping" [] else TStatus 404
  | PManifest =>
      if is_read_m method then h "manifestGet" [R; "latest"]
      else if String.eqb method "PUT" then (if sw_push sw then h "manifestPut" [R; "latest"] else TStatus 405)
      else if String.eqb method "DELETE" then (if sw_delete sw then h "manifestDelete" [R; "latest"] else TStatus 405)
      else TStatus 405
  | PBlob =>
      if is_read_m method then h "blobGet" [R; D]
      else if String.eqb method "DELETE" then (if sw_delete sw && sw_blobdelete sw then h "blobDelete" [R; D] else TStatus 405)
      else TStatus 405
  | PUploads =>
      (* the trailing slash is cleaned away: the path is .../blobs/uploads *)
      if is_read_m method then h "blobGet" [R; "uploads"]
      else if String.eqb method "DELETE" then (if sw_delete sw && sw_blobdelete sw then h "blobDelete" [R; "uploads"] else TStatus 405)
      else if String.eqb method "POST" then (if sw_push sw then h "blobUploadPost" [R] else TStatus 405)
      else TStatus 405
  | PSession =>
      if negb (sw_push sw) then TStatus 404
      else if String.eqb method "PATCH" then h "blobUploadPatch" [R; "some-session"]
      else if String.eqb method "PUT" then h "blobUploadPut" [R; "some-session"]
      else if String.eqb method "GET" then h "blobUploadGet" [R; "some-session"]
      else if String.eqb method "DELETE" then h "blobUploadDelete" [R; "some-session"]
      else TStatus 405
  | PReferrers =>
      if negb (sw_referrer sw) then TStatus 404
      else if is_read_m method then h "referrerGet" [R; D] else TStatus 405
  | PTags => if is_read_m method then h "tagList" [R] else TStatus 404
  | POther | PBadRepo | PNotV2 => TStatus 404
  end.

Definition target_eqb (a b : target) : bool :=
  match a, b with
  | TStatus x, TStatus y => Z.eqb x y
  | THandler n l, THandler n' l' =>
      String.eqb n n' && Nat.eqb (List.length l) (List.length l')
      && forallb (fun p => String.eqb (fst p) (snd p)) (combine l l')
  | _, _ => false
  end.

Definition switch_table_ok : bool :=
  forallb (fun sw => forallb (fun m => forallb (fun c =>
    target_eqb (route_request gen_routes gen_default_status sw m (class_path c)) (spec_route sw m c))
    pclasses) methods) all_switches.

(* for every combination of the four routing switches, every method and every path class, the
   routing chain of the current source dispatches as documented *)
Lemma switch_table : switch_table_ok = true.
Proof. vm_compute. reflexivity. Qed.

(* dot segments are removed before matching: no request path reaches a handler with a repository
   name containing them *)
Lemma traversal_examples :
  route_request gen_routes gen_default_status (mkSw true true true true) "GET" "/v2/a/../b/tags/list" = THandler "tagList" ["b"]
  /\ route_request gen_routes gen_default_status (mkSw true true true true) "GET" "/v2/../../etc/tags/list" = TStatus 404
  /\ route_request gen_routes gen_default_status (mkSw true true true true) "GET" "/v2/a/./b//tags/list" = THandler "tagList" ["a/b"].
Proof. vm_compute. auto. Qed.

(* ---- error table ---------------------------------------------------------------------------------------- *)
(* the codes registered by the OCI distribution specification, with the constructor that must carry them *)
Definition spec_errors : list (string * string) := [
  ("ErrInfoBlobUnknown", "BLOB_UNKNOWN"); ("ErrInfoBlobUploadInvalid", "BLOB_UPLOAD_INVALID");
  ("ErrInfoBlobUploadUnknown", "BLOB_UPLOAD_UNKNOWN"); ("ErrInfoDigestInvalid", "DIGEST_INVALID");
  ("ErrInfoManifestBlobUnknown", "MANIFEST_BLOB_UNKNOWN"); ("ErrInfoManifestInvalid", "MANIFEST_INVALID");
  ("ErrInfoManifestUnknown", "MANIFEST_UNKNOWN"); ("ErrInfoNameInvalid", "NAME_INVALID");
  ("ErrInfoNameUnknown", "NAME_UNKNOWN"); ("ErrInfoSizeInvalid", "SIZE_INVALID");
  ("ErrInfoUnauthorized", "UNAUTHORIZED"); ("ErrInfoDenied", "DENIED"); ("ErrInfoUnsupported", "UNSUPPORTED");
  ("ErrInfoTooManyRequests", "TOOMANYREQUESTS")].

Fixpoint lookup2 (k : string) (l : list (string * string)) : option string :=
  match l with [] => None | (k', v) :: r => if String.eqb k k' then Some v else lookup2 k r end.

Definition error_table_ok : bool :=
  forallb (fun e => match lookup2 (fst e) spec_errors with
                    | Some c => String.eqb (fst (snd e)) c && negb (String.eqb (snd (snd e)) "")
                                && negb (String.eqb (snd (snd e)) c)
                    | None => false
                    end) gen_errors
  && forallb (fun s => existsb (fun e => String.eqb (fst e) (fst s)) gen_errors) spec_errors.

(* every error constructor of the current source carries the registered code for its condition
   (and a human message distinct from the code) *)
Lemma error_table : error_table_ok = true.
Proof. vm_compute. reflexivity. Qed.

(* ---- constants the model was written against ---------------------------------------------------------- *)
Definition spec_consts : list (string * string) := [
  ("AnnotRefName", "org.opencontainers.image.ref.name");
  ("AnnotReferrerConvert", "org.olareg.referrer.convert");
  ("AnnotReferrerSubject", "org.olareg.referrer.subject");
  ("LayoutVersion", "1.0.0");
  ("RefTagRE", "^[a-zA-Z0-9_][a-zA-Z0-9._-]{0,127}$");
  ("blobsDir", "blobs"); ("indexFile", "index.json"); ("layoutFile", "oci-layout");
  ("pathPart", "[a-z0-9]+(?:(?:\.|_|__|-+)[a-z0-9]+)*");
  ("rePath", "^[a-z0-9]+(?:(?:\.|_|__|-+)[a-z0-9]+)*(?:\/[a-z0-9]+(?:(?:\.|_|__|-+)[a-z0-9]+)*)*$");
  ("uploadDir", "_uploads")].

Definition consts_ok : bool :=
  forallb (fun s => match lookup2 (fst s) gen_consts with Some v => String.eqb v (snd s) | None => false end) spec_consts.

(* the regular-expression literals and file names in the source are the ones the recognisers
   (Route.repo_ok, Index.is_tag) and the directory model were proved against *)
Lemma consts_match : consts_ok = true.
Proof. vm_compute. reflexivity. Qed.
