(* Correspondence evaluator for C18: the harness writes the operation
   sequences it ran on the real types.Index together with what it observed;
   [c18_mismatches] re-runs them on the model and returns the ids that differ.
   Compared: after every operation the multiset of top-level and of child
   entries (not their order), and the answers of GetDesc / GetByAnnotation. *)
From Olareg Require Import Base Index.

Fixpoint amap_sub (a b : amap) : bool :=
  match a with
  | [] => true
  | (k, v) :: r => ahas k b && String.eqb v (aget k b) && amap_sub r b
  end.
Definition amap_eqb (a b : amap) : bool :=
  (List.length a =? List.length b)%nat && amap_sub a b && amap_sub b a.
Definition oamap_eqb (a b : option amap) : bool :=
  match a, b with
  | None, None => true
  | Some x, Some y => amap_eqb x y
  | _, _ => false
  end.
Definition desc_eqb (a b : desc) : bool :=
  String.eqb (d_mt a) (d_mt b) && String.eqb (d_dig a) (d_dig b)
  && Z.eqb (d_size a) (d_size b) && oamap_eqb (d_ann a) (d_ann b)
  && String.eqb (d_at a) (d_at b).
Definition odesc_eqb (a b : option desc) : bool :=
  match a, b with
  | None, None => true
  | Some x, Some y => desc_eqb x y
  | _, _ => false
  end.

Fixpoint remove_first (d : desc) (l : list desc) : option (list desc) :=
  match l with
  | [] => None
  | x :: r => if desc_eqb d x then Some r
              else match remove_first d r with Some r' => Some (x :: r') | None => None end
  end.
Fixpoint bag_eqb (a b : list desc) : bool :=
  match a with
  | [] => match b with [] => true | _ => false end
  | x :: r => match remove_first x b with Some b' => bag_eqb r b' | None => false end
  end.

Fixpoint list_eqb {A} (e : A -> A -> bool) (a b : list A) : bool :=
  match a, b with
  | [], [] => true
  | x :: r, y :: s => e x y && list_eqb e r s
  | _, _ => false
  end.

Record obs := mkObs {
  o_panic : bool;
  o_top : list desc;
  o_child : list desc;
  o_get : list (option desc);
  o_getann : list (option desc)
}.

Definition observe (queries : list string) (annq : list (string * string)) (i : index) : obs :=
  mkObs false (top i) (child i)
        (map (fun q => get_desc q i) queries)
        (map (fun kv => get_by_annotation (fst kv) (snd kv) i) annq).

Definition obs_eqb (a b : obs) : bool :=
  Bool.eqb (o_panic a) (o_panic b) &&
  (if o_panic a then true else
     bag_eqb (o_top a) (o_top b) && bag_eqb (o_child a) (o_child b)
     && list_eqb odesc_eqb (o_get a) (o_get b)
     && list_eqb odesc_eqb (o_getann a) (o_getann b)).

Fixpoint run_case (ops : list iop) (queries : list string) (annq : list (string * string))
         (i : index) : list obs :=
  match ops with
  | [] => []
  | o :: r =>
      match apply_op o i with
      | Ok i' => observe queries annq i' :: run_case r queries annq i'
      | _ => [mkObs true [] [] [] []]
      end
  end.

Record c18case := mkCase {
  c_id : nat;
  c_ops : list iop;
  c_queries : list string;
  c_annq : list (string * string);
  c_expect : list obs
}.

Definition case_ok (c : c18case) : bool :=
  list_eqb obs_eqb (run_case (c_ops c) (c_queries c) (c_annq c) empty_index) (c_expect c).

Definition c18_mismatches (cs : list c18case) : list nat :=
  map c_id (filter (fun c => negb (case_ok c)) cs).
