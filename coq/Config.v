(* Config.v — defaulting rules of config.Config.SetDefaults as data (regenerated from the
   source into Gen_Config.v) and their meaning. *)
From Olareg Require Import Base.
Local Open Scope list_scope.

Inductive default_rule :=
| DBool (b : bool)                    (* c.X = boolDefault(c.X, b): applies when the *bool is nil *)
| DWhenZero (v : Z)                   (* if c.X == 0 { c.X = v } *)
| DWhenNonPositive (v : Z)            (* if c.X <= 0 { c.X = v } *)
| DStr (s : string)                   (* if c.X == "" { c.X = s } *)
| DStrWhen (store : string) (s : string).   (* the same, only for the named store type *)

Definition apply_bool (r : default_rule) (cur : option bool) : option bool :=
  match r, cur with DBool b, None => Some b | _, _ => cur end.

Definition apply_num (r : default_rule) (cur : Z) : Z :=
  match r with
  | DWhenZero v => if (cur =? 0)%Z then v else cur
  | DWhenNonPositive v => if (cur <=? 0)%Z then v else cur
  | _ => cur
  end.

Definition apply_str (r : default_rule) (store cur : string) : string :=
  match r with
  | DStr s => if String.eqb cur "" then s else cur
  | DStrWhen st s => if String.eqb store st && String.eqb cur "" then s else cur
  | _ => cur
  end.

(* unset fields take the default *)
Lemma bool_unset b : apply_bool (DBool b) None = Some b.              Proof. reflexivity. Qed.
Lemma num_unset v : apply_num (DWhenZero v) 0 = v.                    Proof. reflexivity. Qed.
Lemma num_unset_np v z : (z <= 0)%Z -> apply_num (DWhenNonPositive v) z = v.
Proof. intros H. simpl. destruct (Z.leb_spec z 0); auto; lia. Qed.
(* explicitly set values are never overridden *)
Lemma bool_set r b : apply_bool r (Some b) = Some b.                  Proof. destruct r; reflexivity. Qed.
Lemma num_set v z : z <> 0%Z -> apply_num (DWhenZero v) z = z.
Proof. intros H. simpl. destruct (Z.eqb_spec z 0); auto; contradiction. Qed.
Lemma num_set_np v z : (0 < z)%Z -> apply_num (DWhenNonPositive v) z = z.
Proof. intros H. simpl. destruct (Z.leb_spec z 0); auto; lia. Qed.
Lemma str_set r st s : s <> "" -> apply_str r st s = s.
Proof.
  intros H. destruct r; simpl; auto.
  - destruct (String.eqb_spec s ""); auto; contradiction.
  - destruct (String.eqb_spec s ""); [contradiction|]. rewrite andb_false_r. auto.
Qed.

(* the documented defaults (comments of config/config.go and the serve flag help):
   push on, delete off, blob delete off, referrers on, manifest limit 8 MiB, referrers response
   4 MiB, page cache 5 min / 1000 entries, read-only off, directory store rooted at ".",
   collection every 15 min with a grace period of 1 h, 1000 upload sessions per repository,
   untagged kept, empty repositories removed, dangling referrers kept, referrers removed with
   their subject *)
Definition spec_defaults : list (string * default_rule) := [
  ("API.DeleteEnabled", DBool false);
  ("API.PushEnabled", DBool true);
  ("API.Blob.DeleteEnabled", DBool false);
  ("API.Referrer.Enabled", DBool true);
  ("API.Manifest.Limit", DWhenNonPositive 8388608);
  ("API.Referrer.PageCacheExpire", DWhenZero 300000000000);
  ("API.Referrer.PageCacheLimit", DWhenZero 1000);
  ("API.Referrer.Limit", DWhenZero 4194304);
  ("Storage.ReadOnly", DBool false);
  ("Storage.RootDir", DStrWhen "StoreDir" ".");
  ("Storage.GC.Frequency", DWhenZero 900000000000);
  ("Storage.GC.GracePeriod", DWhenZero 3600000000000);
  ("Storage.GC.RepoUploadMax", DWhenZero 1000);
  ("Storage.GC.Untagged", DBool false);
  ("Storage.GC.EmptyRepo", DBool true);
  ("Storage.GC.ReferrersDangling", DBool false);
  ("Storage.GC.ReferrersWithSubj", DBool true)].

Definition rule_eqb (a b : default_rule) : bool :=
  match a, b with
  | DBool x, DBool y => Bool.eqb x y
  | DWhenZero x, DWhenZero y | DWhenNonPositive x, DWhenNonPositive y => Z.eqb x y
  | DStr x, DStr y => String.eqb x y
  | DStrWhen s x, DStrWhen t y => String.eqb s t && String.eqb x y
  | _, _ => false
  end.

Fixpoint lookup {A} (k : string) (l : list (string * A)) : option A :=
  match l with
  | [] => None
  | (k', v) :: r => if String.eqb k k' then Some v else lookup k r
  end.

(* the two tables agree: same fields, same rule per field *)
Definition tables_agree (gen spec : list (string * default_rule)) : bool :=
  Nat.eqb (List.length gen) (List.length spec)
  && forallb (fun kv => match lookup (fst kv) gen with Some r => rule_eqb r (snd kv) | None => false end) spec.

(* flags: the documented flag set, the option variable each one sets, and the config field it feeds *)
Definition spec_flags : list (string * string) := [
  ("store-ro", "Storage.ReadOnly"); ("api-push", "API.PushEnabled"); ("api-delete", "API.DeleteEnabled");
  ("api-blob-delete", "API.Blob.DeleteEnabled"); ("api-referrer", "API.Referrer.Enabled");
  ("rate-limit", "API.RateLimit"); ("gc-frequency", "Storage.GC.Frequency");
  ("gc-grace-period", "Storage.GC.GracePeriod"); ("gc-untagged", "Storage.GC.Untagged");
  ("gc-referrer-dangling", "Storage.GC.ReferrersDangling"); ("gc-referrer-subject", "Storage.GC.ReferrersWithSubj");
  ("warning", "API.Warnings"); ("dir", "Storage.RootDir"); ("store-type", "Storage.StoreType");
  ("tls-cert", "HTTP.CertFile"); ("tls-key", "HTTP.KeyFile")].

(* flag -> field through the generated tables (flag -> option variable -> config field) *)
Definition flag_field (flags : list (string * (string * (string * string)))) (wiring : list (string * string))
           (flag : string) : list string :=
  match lookup flag flags with
  | Some (var, _) => map fst (filter (fun w => String.eqb (snd w) var) wiring)
  | None => []
  end.

Definition flags_wired (flags : list (string * (string * (string * string)))) (wiring : list (string * string)) : bool :=
  forallb (fun sf => match flag_field flags wiring (fst sf) with
                     | [f] => String.eqb f (snd sf)
                     | _ => false
                     end) spec_flags.

(* decimal digits -> Z *)
Fixpoint dec_val (acc : Z) (s : string) : option Z :=
  match s with
  | EmptyString => Some acc
  | String c r => if is_digit c then dec_val (acc * 10 + Z.of_nat (nat_of_ascii c - 48)) r else None
  end.

(* the default of a boolean / numeric flag equals the default of the field it feeds, so that passing
   no flag and passing no configuration mean the same *)
Definition flag_defaults_consistent (flags : list (string * (string * (string * string))))
           (defaults : list (string * default_rule)) : bool :=
  forallb (fun sf =>
             match lookup (fst sf) flags, lookup (snd sf) defaults with
             | Some (_, (_, d)), Some (DBool b) => String.eqb d (if b then "true" else "false")
             | Some (_, (k, d)), Some (DWhenZero v) =>
                 if String.eqb k "DurationVar"
                 then match dec_val 0 d with Some z => Z.eqb z v | None => false end
                 else true
             | _, _ => true
             end) spec_flags.

(* ---- SetDefaults as a function on a whole configuration ---------------------------------------------- *)
(* a configuration = its fields by name; booleans are *bool in Go (None = nil) *)
Inductive cval := CB (b : option bool) | CN (z : Z) | CS (s : string).

Definition apply_rule (r : default_rule) (store : string) (v : cval) : cval :=
  match v with
  | CB b => CB (apply_bool r b)
  | CN z => CN (apply_num r z)
  | CS s => CS (apply_str r store s)
  end.

Definition set_defaults (rules : list (string * default_rule)) (store : string) (cfg : list (string * cval)) : list (string * cval) :=
  map (fun fv => match lookup (fst fv) rules with
                 | Some r => (fst fv, apply_rule r store (snd fv))
                 | None => fv
                 end) cfg.

(* a field counts as explicitly set when its value is not the "unset" value of its rule *)
Definition is_set (r : default_rule) (v : cval) : bool :=
  match r, v with
  | DBool _, CB (Some _) => true
  | DWhenZero _, CN z => negb (z =? 0)%Z
  | DWhenNonPositive _, CN z => (0 <? z)%Z
  | (DStr _ | DStrWhen _ _), CS s => negb (String.eqb s "")
  | _, _ => false
  end.

Lemma apply_rule_set r store v : is_set r v = true -> apply_rule r store v = v.
Proof.
  destruct r as [d|d|d|d|st d]; destruct v as [[b|]|z|s]; simpl; try discriminate; intros H; auto.
  - destruct (Z.eqb_spec z 0); [discriminate|reflexivity].
  - destruct (Z.leb_spec z 0); [apply Z.ltb_lt in H; lia|reflexivity].
  - destruct (String.eqb s ""); [discriminate|reflexivity].
  - destruct (String.eqb s ""); [discriminate|]. rewrite andb_false_r. reflexivity.
Qed.

(* explicitly set values are never overridden by defaulting, whatever the other fields hold *)
Theorem set_defaults_keeps_set rules store cfg f v r :
  In (f, v) cfg -> lookup f rules = Some r -> is_set r v = true -> In (f, v) (set_defaults rules store cfg).
Proof.
  intros Hin Hl Hs. unfold set_defaults. apply in_map_iff. exists (f, v). split; auto.
  simpl. rewrite Hl. rewrite apply_rule_set; auto.
Qed.

(* fields without a rule are left alone; the set of fields is unchanged *)
Theorem set_defaults_fields rules store cfg : map fst (set_defaults rules store cfg) = map fst cfg.
Proof.
  unfold set_defaults. rewrite map_map. apply map_ext. intros [f v]. simpl. destruct (lookup f rules); reflexivity.
Qed.

Theorem set_defaults_no_rule rules store cfg f v :
  In (f, v) cfg -> lookup f rules = None -> In (f, v) (set_defaults rules store cfg).
Proof.
  intros Hin Hl. unfold set_defaults. apply in_map_iff. exists (f, v). simpl. rewrite Hl. auto.
Qed.

(* defaulting twice changes nothing more *)
Lemma apply_rule_idem r store v : apply_rule r store (apply_rule r store v) = apply_rule r store v.
Proof.
  destruct r as [d|d|d|d|st d]; destruct v as [[b|]|z|s]; simpl; auto.
  - destruct (Z.eqb_spec z 0); simpl; auto. destruct (Z.eqb_spec d 0); auto. destruct (Z.eqb_spec z 0); auto; contradiction.
  - destruct (Z.leb_spec z 0); simpl; auto. destruct (Z.leb_spec d 0); auto. destruct (Z.leb_spec z 0); auto; lia.
  - destruct (String.eqb s "") eqn:E; simpl; auto; [|rewrite E; auto]. destruct (String.eqb d "") eqn:E2; auto.
  - destruct (String.eqb store st && String.eqb s "") eqn:E; simpl; auto; [|rewrite E; auto].
    destruct (String.eqb store st && String.eqb d "") eqn:E2; auto.
Qed.

Theorem set_defaults_idem rules store cfg :
  set_defaults rules store (set_defaults rules store cfg) = set_defaults rules store cfg.
Proof.
  unfold set_defaults. rewrite map_map. apply map_ext. intros [f v]. simpl.
  destruct (lookup f rules) eqn:E; simpl; rewrite E; [rewrite apply_rule_idem|]; reflexivity.
Qed.
