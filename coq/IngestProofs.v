(* IngestProofs.v — laws of the referrers conversion (Ingest.v). *)
From Olareg Require Import Base Index IndexProofs Reg Ingest.
Local Open Scope list_scope.

(* ---- totality: no panic, no fuel exhaustion ------------------------------------------------------------ *)
Lemma fold_tag_total E blobs l : forall cs, exists cs', fold_left (conv_tag_step E blobs) l (Ok cs) = Ok cs'.
Proof.
  induction l as [|d r IH]; intros cs; simpl; [eexists; reflexivity|].
  destruct (get_index E blobs d) as [ms|]; [|apply IH].
  match goal with |- context [if ?c then _ else _] => destruct c end; [|apply IH].
  match goal with |- context [add_desc ?a ?b ?c] => destruct (add_desc_total a b c) as [i' Hi]; rewrite Hi end.
  simpl. apply IH.
Qed.

Lemma fold_gen_total E blobs resp now l : forall s, exists s', fold_left (conv_gen_step E blobs resp now) l (Ok s) = Ok s'.
Proof.
  induction l as [|kv r IH]; intros [i bl]; simpl; [eexists; reflexivity|].
  match goal with |- context [add_desc ?a ?b ?c] => destruct (add_desc_total a b c) as [i' Hi]; rewrite Hi end.
  simpl. apply IH.
Qed.

Lemma fold_rm_total l : forall i, exists i', fold_left conv_rm_step l (Ok i) = Ok i'.
Proof.
  induction l as [|d r IH]; intros i; cbn [fold_left]; [eexists; reflexivity|].
  destruct (rm_desc_total d i) as [i' [Hi _]]. replace (conv_rm_step (Ok i) d) with (rm_desc d i) by reflexivity.
  rewrite Hi. apply IH.
Qed.

Theorem convert_total E now blobs i : exists r, convert E now blobs i = Ok r.
Proof.
  unfold convert.
  destruct (fold_tag_total E blobs (digest_tags i) (mkCS i (responses_of i) [] [])) as [cs Hcs]. rewrite Hcs. simpl.
  destruct (fold_gen_total E blobs (cs_resp cs) now (cs_add cs) (cs_index cs, blobs)) as [ib Hib]. rewrite Hib. simpl.
  destruct (fold_rm_total (cs_rm cs) (fst ib)) as [i' Hi]. rewrite Hi. simpl. eexists; reflexivity.
Qed.

Theorem ingest_total E now rp : exists rp', ingest_repo E now rp = Ok rp'.
Proof.
  unfold ingest_repo. destruct (r_conv rp); [eexists; reflexivity|].
  destruct (convert_total E now (r_blobs rp) (r_index rp)) as [r Hr]. rewrite Hr. simpl. eexists; reflexivity.
Qed.

(* ---- marked, and repeatable ------------------------------------------------------------------------------- *)
Theorem ingest_marks E now rp rp' : ingest_repo E now rp = Ok rp' -> r_conv rp' = true.
Proof.
  unfold ingest_repo. destruct (r_conv rp) eqn:Ec; [intros H; inversion H; subst; exact Ec|].
  destruct (convert E now (r_blobs rp) (r_index rp)); simpl; intros H; inversion H. reflexivity.
Qed.

Theorem ingest_idempotent E now now' rp rp' : ingest_repo E now rp = Ok rp' -> ingest_repo E now' rp' = Ok rp'.
Proof.
  intros H. pose proof (ingest_marks _ _ _ _ H) as Hc. unfold ingest_repo. rewrite Hc. reflexivity.
Qed.

(* upload sessions are not touched *)
Theorem ingest_uploads E now rp rp' : ingest_repo E now rp = Ok rp' -> r_uploads rp' = r_uploads rp.
Proof.
  unfold ingest_repo. destruct (r_conv rp); [intros H; inversion H; reflexivity|].
  destruct (convert E now (r_blobs rp) (r_index rp)); simpl; intros H; inversion H. reflexivity.
Qed.

(* ---- every blob stays, with its bytes ------------------------------------------------------------------------ *)
Lemma assoc_set_other {A} k k' (v : A) l : k <> k' -> assoc k' (assoc_set k v l) = assoc k' l.
Proof.
  intros Hk. unfold assoc_set. simpl. destruct (String.eqb_spec k' k); [congruence|].
  induction l as [|[a b] r IH]; simpl; auto.
  destruct (String.eqb_spec k a).
  - subst a. destruct (String.eqb_spec k' k); [congruence|]. exact IH.
  - simpl. destruct (String.eqb k' a); auto.
Qed.

Lemma gen_step_keeps E blobs resp now st kv i bl i' bl' d be :
  st = Ok (i, bl) -> conv_gen_step E blobs resp now st kv = Ok (i', bl') ->
  assoc d bl = Some be -> assoc d bl' = Some be.
Proof.
  intros -> H Hd. unfold conv_gen_step in H. simpl in H.
  match type of H with context [add_desc ?a ?b ?c] => destruct (add_desc a b c) as [ix| |]; simpl in H; try discriminate end.
  inversion H; subst; clear H.
  match goal with |- context [assoc ?k bl] => destruct (assoc k bl) eqn:Ek end; [exact Hd|].
  rewrite assoc_set_other; [exact Hd|]. intros Heq. subst d. rewrite Hd in Ek. discriminate.
Qed.

Lemma fold_gen_err E blobs resp now l st : is_ok st = false -> is_ok (fold_left (conv_gen_step E blobs resp now) l st) = false.
Proof.
  revert st. induction l as [|kv r IH]; intros st H; cbn [fold_left]; auto. apply IH.
  destruct st; [discriminate| |]; reflexivity.
Qed.

Lemma fold_gen_keeps E blobs resp now l : forall i bl i' bl' d be,
  fold_left (conv_gen_step E blobs resp now) l (Ok (i, bl)) = Ok (i', bl') ->
  assoc d bl = Some be -> assoc d bl' = Some be.
Proof.
  induction l as [|kv r IH]; intros i bl i' bl' d be H Hd; cbn [fold_left] in H; [inversion H; subst; exact Hd|].
  destruct (conv_gen_step E blobs resp now (Ok (i, bl)) kv) as [[i1 bl1]| |] eqn:E1.
  - eapply IH; [exact H|]. eapply gen_step_keeps; [reflexivity|exact E1|exact Hd].
  - pose proof (fold_gen_err E blobs resp now r Panic eq_refl) as He. rewrite H in He. discriminate.
  - pose proof (fold_gen_err E blobs resp now r OutOfFuel eq_refl) as He. rewrite H in He. discriminate.
Qed.

Theorem convert_keeps_blobs E now blobs i i' blobs' d be :
  convert E now blobs i = Ok (i', blobs') -> assoc d blobs = Some be -> assoc d blobs' = Some be.
Proof.
  unfold convert. intros H Hd.
  destruct (fold_left (conv_tag_step E blobs) (digest_tags i) (Ok (mkCS i (responses_of i) [] []))) as [cs| |]; simpl in H; try discriminate.
  destruct (fold_left (conv_gen_step E blobs (cs_resp cs) now) (cs_add cs) (Ok (cs_index cs, blobs))) as [[i1 bl1]| |] eqn:Eg; simpl in H; try discriminate.
  destruct (fold_left conv_rm_step (cs_rm cs) (Ok i1)) as [i2| |]; simpl in H; try discriminate.
  inversion H; subst. eapply fold_gen_keeps; eauto.
Qed.

Theorem ingest_keeps_blobs E now rp rp' d be :
  ingest_repo E now rp = Ok rp' -> assoc d (r_blobs rp) = Some be -> assoc d (r_blobs rp') = Some be.
Proof.
  unfold ingest_repo. destruct (r_conv rp); [intros H; inversion H; subst; auto|].
  destruct (convert E now (r_blobs rp) (r_index rp)) as [[i' bl']| |] eqn:Ec; simpl; intros H Hd; inversion H; subst; simpl.
  eapply convert_keeps_blobs; eauto.
Qed.

(* ---- grouping by the subject each manifest actually names ---------------------------------------------------- *)
(* what a listed descriptor contributes: the manifest exists, parses, names a subject *)
Definition names (E : env) (blobs : blobs_t) (d : desc) (subj : string) (rd : desc) : Prop :=
  exists b raw, assoc (d_dig d) blobs = Some b /\ b_data b = BRaw raw /\ ref_desc E raw d = Some (subj, rd).

Definition grouped (E : env) (blobs : blobs_t) (ms : list desc) (m : list (string * list desc)) : Prop :=
  forall s l rd, In (s, l) m -> In rd l -> exists d, In d ms /\ names E blobs d s rd.

Lemma rappend_in k vs m s l :
  In (s, l) (rappend k vs m) ->
  (exists l0, In (s, l0) m /\ (l = l0 \/ (s = k /\ l = l0 ++ vs))) \/ (s = k /\ l = vs).
Proof.
  induction m as [|[k' l'] r IH]; simpl.
  - intros [H|[]]. inversion H; subst. right. auto.
  - destruct (String.eqb_spec k k') as [->|Hne]; simpl.
    + intros [H|H].
      * inversion H; subst. left. exists l'. split; [left; reflexivity|]. right. auto.
      * left. exists l. split; [right; exact H|]. left. reflexivity.
    + intros [H|H].
      * inversion H; subst. left. exists l. split; [left; reflexivity|]. left. reflexivity.
      * destruct (IH H) as [[l0 [H1 H2]]|H2]; [left; exists l0; split; [right; exact H1|exact H2]|right; exact H2].
Qed.

Lemma valid_step_grouped E blobs ms st d :
  In d ms -> grouped E blobs ms (v_resp st) -> grouped E blobs ms (v_resp (valid_step E blobs st d)).
Proof.
  intros Hin Hg. unfold valid_step.
  destruct (assoc (d_dig d) blobs) as [b|] eqn:Eb; [|exact Hg].
  destruct (b_data b) as [raw|l0] eqn:Ed; [|exact Hg].
  destruct (ref_desc E raw d) as [[subj rd]|] eqn:Er; [|exact Hg].
  simpl. intros s l rd' Hin1 Hin2.
  destruct (rappend_in _ _ _ _ _ Hin1) as [[l0 [H1 [->|[-> ->]]]]|[-> ->]].
  - eapply Hg; eauto.
  - apply in_app_or in Hin2. destruct Hin2 as [H|[<-|[]]]; [eapply Hg; eauto|].
    exists d. split; auto. exists b, raw. auto.
  - destruct Hin2 as [<-|[]]. exists d. split; auto. exists b, raw. auto.
Qed.

Lemma fold_valid_grouped E blobs ms : forall l st,
  (forall d, In d l -> In d ms) -> grouped E blobs ms (v_resp st) ->
  grouped E blobs ms (v_resp (fold_left (valid_step E blobs) l st)).
Proof.
  induction l as [|d r IH]; intros st Hsub Hg; simpl; [exact Hg|].
  apply IH; [intros x Hx; apply Hsub; right; exact Hx|].
  apply valid_step_grouped; [apply Hsub; left; reflexivity|exact Hg].
Qed.

(* every descriptor filed under subject s by indexValidReferrer was computed from a listed manifest that exists and
   names s as its subject *)
Theorem valid_referrer_grouped E blobs ms : grouped E blobs ms (v_resp (valid_referrer E blobs ms)).
Proof.
  unfold valid_referrer. simpl. apply fold_valid_grouped; auto.
  intros s l rd H. destruct H.
Qed.

(* ... and nothing listed is lost: every listed manifest that exists and names a subject is filed under it *)
Definition filed (m : list (string * list desc)) (s : string) (rd : desc) : Prop := exists l, In (s, l) m /\ In rd l.

Lemma rappend_keeps k vs m s rd : filed m s rd -> filed (rappend k vs m) s rd.
Proof.
  intros [l [H1 H2]]. induction m as [|[k' l'] r IH]; [destruct H1|]. simpl.
  destruct (String.eqb_spec k k') as [->|Hne].
  - destruct H1 as [H1|H1].
    + inversion H1; subst. exists (l ++ vs). split; [left; reflexivity|apply in_or_app; left; exact H2].
    + exists l. split; [right; exact H1|exact H2].
  - destruct H1 as [H1|H1].
    + inversion H1; subst. exists l. split; [left; reflexivity|exact H2].
    + destruct (IH H1) as [l1 [H3 H4]]. exists l1. split; [right; exact H3|exact H4].
Qed.

Lemma rappend_adds k rd m : filed (rappend k [rd] m) k rd.
Proof.
  induction m as [|[k' l'] r IH]; simpl.
  - exists [rd]. split; left; reflexivity.
  - destruct (String.eqb_spec k k') as [->|Hne].
    + exists (l' ++ [rd]). split; [left; reflexivity|apply in_or_app; right; left; reflexivity].
    + destruct IH as [l1 [H3 H4]]. exists l1. split; [right; exact H3|exact H4].
Qed.

Lemma valid_step_keeps_filed E blobs st d s rd : filed (v_resp st) s rd -> filed (v_resp (valid_step E blobs st d)) s rd.
Proof.
  intros H. unfold valid_step. destruct (assoc (d_dig d) blobs) as [b|]; [|exact H].
  destruct (b_data b); [|exact H]. destruct (ref_desc E b0 d) as [[subj rd']|]; [|exact H].
  simpl. apply rappend_keeps. exact H.
Qed.

Lemma fold_valid_keeps_filed E blobs l : forall st s rd, filed (v_resp st) s rd -> filed (v_resp (fold_left (valid_step E blobs) l st)) s rd.
Proof.
  induction l as [|d r IH]; intros st s rd H; simpl; auto. apply IH. apply valid_step_keeps_filed. exact H.
Qed.

Theorem valid_referrer_complete E blobs ms d s rd :
  In d ms -> names E blobs d s rd -> filed (v_resp (valid_referrer E blobs ms)) s rd.
Proof.
  intros Hin [b [raw [Hb [Hd Hr]]]]. unfold valid_referrer. simpl.
  generalize (mkV true "" [] []). induction ms as [|x r IH]; intros st; [destruct Hin|].
  simpl. destruct Hin as [->|Hin].
  - apply fold_valid_keeps_filed. unfold valid_step. rewrite Hb, Hd, Hr. simpl. apply rappend_adds.
  - apply IH. exact Hin.
Qed.

(* ---- every other tag is kept ------------------------------------------------------------------------------------- *)
From Olareg Require Import IndexInv.

Section KeepsTags.
  Variables (E : env) (x : desc) (t' : string).
  Hypothesis Ht1 : t' <> "".
  Hypothesis Hnf : reftag t' = false.            (* not a fallback tag *)
  Hypothesis Hh : holds t' x = true.
  Hypothesis Hsub : ann_get RefSubject x = "".    (* not a referrers response *)

  Lemma fold_err_tag blobs l st : is_ok st = false -> is_ok (fold_left (conv_tag_step E blobs) l st) = false.
  Proof. revert st. induction l as [|d r IH]; intros st H; cbn [fold_left]; auto. apply IH. destruct st; [discriminate| |]; reflexivity. Qed.

  Lemma tag_step_keeps blobs cs cs' d :
    conv_tag_step E blobs (Ok cs) d = Ok cs' -> In x (top (cs_index cs)) -> In x (top (cs_index cs')).
  Proof.
    unfold conv_tag_step. cbn [rbind]. destruct (get_index E blobs d) as [ms|]; [|intros H; inversion H; subst; auto].
    match goal with |- context [if ?c then _ else _] => destruct c end.
    - match goal with |- context [add_desc ?a ?b ?c] => destruct (add_desc a b c) as [i'| |] eqn:Ea end; cbn [rbind]; try discriminate.
      intros H Hin. inversion H; subst. cbn [cs_index].
      eapply (add_desc_keeps_other_tags _ [] _ i' x t' Ea Hin Hh Ht1); auto.
    - intros H; inversion H; subst; auto.
  Qed.

  Lemma fold_tag_keeps blobs l : forall cs cs',
    fold_left (conv_tag_step E blobs) l (Ok cs) = Ok cs' -> In x (top (cs_index cs)) ->
    In x (top (cs_index cs')) /\ (forall d, In d (cs_rm cs') -> In d (cs_rm cs) \/ In d l).
  Proof.
    induction l as [|d r IH]; intros cs cs' H Hin; cbn [fold_left] in H; [inversion H; subst; auto|].
    destruct (conv_tag_step E blobs (Ok cs) d) as [cs1| |] eqn:E1.
    - pose proof (tag_step_keeps blobs cs cs1 d E1 Hin) as H1. destruct (IH cs1 cs' H H1) as [H2 H3]. split; auto.
      intros y Hy. destruct (H3 y Hy) as [H4|H4]; [|right; right; exact H4].
      (* rm entries only grow by the current tag *)
      unfold conv_tag_step in E1. cbn [rbind] in E1. destruct (get_index E blobs d); [|inversion E1; subst; auto].
      match type of E1 with context [if ?c then _ else _] => destruct c end.
      + match type of E1 with context [add_desc ?a ?b ?c] => destruct (add_desc a b c) end; cbn [rbind] in E1; try discriminate.
        inversion E1; subst. auto.
      + inversion E1; subst. cbn [cs_rm] in H4. apply in_app_or in H4. destruct H4 as [H4|[<-|[]]]; auto. right. left. reflexivity.
    - pose proof (fold_err_tag blobs r Panic eq_refl) as He. rewrite H in He. discriminate.
    - pose proof (fold_err_tag blobs r OutOfFuel eq_refl) as He. rewrite H in He. discriminate.
  Qed.

  Lemma fold_gen_keeps_tag blobs resp now l : forall i bl i' bl',
    fold_left (conv_gen_step E blobs resp now) l (Ok (i, bl)) = Ok (i', bl') -> In x (top i) -> In x (top i').
  Proof.
    induction l as [|kv r IH]; intros i bl i' bl' H Hin; cbn [fold_left] in H; [inversion H; subst; auto|].
    destruct (conv_gen_step E blobs resp now (Ok (i, bl)) kv) as [[i1 bl1]| |] eqn:E1.
    - eapply IH; [exact H|]. unfold conv_gen_step in E1. cbn [rbind] in E1.
      match type of E1 with context [add_desc ?a ?b ?c] => destruct (add_desc a b c) as [ix| |] eqn:Ea end; cbn [rbind] in E1; try discriminate.
      inversion E1; subst. eapply (add_desc_keeps_other_tags _ [] _ i1 x t' Ea Hin Hh Ht1); auto.
    - pose proof (fold_gen_err E blobs resp now r Panic eq_refl) as He. rewrite H in He. discriminate.
    - pose proof (fold_gen_err E blobs resp now r OutOfFuel eq_refl) as He. rewrite H in He. discriminate.
  Qed.

  Lemma fold_rm_err l st : is_ok st = false -> is_ok (fold_left conv_rm_step l st) = false.
  Proof. revert st. induction l as [|d r IH]; intros st H; cbn [fold_left]; auto. apply IH. destruct st; [discriminate| |]; reflexivity. Qed.

  Lemma fold_rm_keeps l : forall i i',
    (forall d, In d l -> reftag (ann_get RefName d) = true) ->
    fold_left conv_rm_step l (Ok i) = Ok i' -> In x (top i) -> In x (top i').
  Proof.
    induction l as [|d r IH]; intros i i' Hl H Hin; cbn [fold_left] in H; [inversion H; subst; auto|].
    replace (conv_rm_step (Ok i) d) with (rm_desc d i) in H by reflexivity.
    destruct (rm_desc d i) as [i1| |] eqn:Er.
    - apply (IH i1 i'); auto; [intros y Hy; apply Hl; right; exact Hy|].
      destruct (rm_desc_top d i i1 Er) as [s' Hb].
      assert (Hft : reftag (rm_tag_of d) = true) by (apply Hl; left; reflexivity).
      assert (Hne : nonempty (rm_tag_of d) = true).
      { unfold nonempty, sneq. destruct (String.eqb_spec (rm_tag_of d) ""); auto. rewrite e in Hft. discriminate. }
      eapply rm_top_keeps_othertag; eauto. intros ->. congruence.
    - pose proof (fold_rm_err r Panic eq_refl) as He. rewrite H in He. discriminate.
    - pose proof (fold_rm_err r OutOfFuel eq_refl) as He. rewrite H in He. discriminate.
  Qed.

  Theorem convert_keeps_tags now blobs i i' blobs' :
    convert E now blobs i = Ok (i', blobs') -> In x (top i) -> In x (top i').
  Proof.
    unfold convert. intros H Hin.
    destruct (fold_left (conv_tag_step E blobs) (digest_tags i) (Ok (mkCS i (responses_of i) [] []))) as [cs| |] eqn:Et; cbn [rbind] in H; try discriminate.
    destruct (fold_tag_keeps blobs _ _ _ Et Hin) as [H1 Hrm].
    destruct (fold_left (conv_gen_step E blobs (cs_resp cs) now) (cs_add cs) (Ok (cs_index cs, blobs))) as [[i1 bl1]| |] eqn:Eg; cbn [rbind] in H; try discriminate.
    pose proof (fold_gen_keeps_tag blobs _ _ _ _ _ _ _ Eg H1) as H2.
    cbn [fst snd] in H.
    destruct (fold_left conv_rm_step (cs_rm cs) (Ok i1)) as [i2| |] eqn:Er; cbn [rbind] in H; try discriminate.
    inversion H; subst. apply (fold_rm_keeps (cs_rm cs) i1 i'); auto.
    intros d Hd. destruct (Hrm d Hd) as [[]|Hd'].
    unfold digest_tags in Hd'. apply filter_In in Hd'. destruct Hd' as [_ Hd']. apply andb_true_iff in Hd'. tauto.
  Qed.
End KeepsTags.
