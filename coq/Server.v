(* Server.v — Server.ServeHTTP end to end: routing through the table regenerated from the
   source (Gen_Routes.v), then the handler of Reg.v with the parameters net/http and net/url
   parsed out of the request (query parameters, header values: parsing those is the standard
   library's job and is done by the harness). *)
From Olareg Require Import Base Index Reg Route Gen_Routes.
Local Open Scope list_scope.

Record rawreq := mkRaw {
  q_method : string;
  q_path : string;                       (* URL.Path (decoded) *)
  q_params : list (string * string);     (* URL.Query(): first value of each key *)
  q_accept : list string;                (* Accept entries, split at ',', base type lower-cased *)
  q_ctype : string;                      (* Content-Type base, lower-cased *)
  q_clen : Z;                            (* ContentLength, -1 = unknown *)
  q_cr : string;                         (* Content-Range *)
  q_range : option (Z * Z);              (* a single satisfiable byte range, if requested *)
  q_state : option Z;                    (* offset carried by a decodable ?state= token *)
  q_body : string
}.

Fixpoint param (k : string) (l : list (string * string)) : string :=
  match l with [] => "" | (k', v) :: r => if String.eqb k k' then v else param k r end.

Definition sw_of (cfg : config) : switches :=
  mkSw (c_push cfg) (c_delete cfg) (c_blobdelete cfg) (c_referrer cfg).

Definition ping : resp := mkResp 200 [] "" "application/json" BoNone "" "" "" "" false false.

Definition to_req (name : string) (args : list string) (rq : rawreq) : option req :=
  let p k := param k (q_params rq) in
  match args with
  | [r] =>
      if String.eqb name "tagList" then Some (QTagList r (p "n") (p "last"))
      else if String.eqb name "blobUploadPost" then
        Some (QUploadPost r (p "mount") (p "from") (repo_ok (p "from")) (p "digest") (p "digest-algorithm") (q_body rq))
      else None
  | [r; a] =>
      if String.eqb name "manifestGet" then Some (QManifestGet r a (q_accept rq) (q_range rq))
      else if String.eqb name "manifestPut" then Some (QManifestPut r a (q_ctype rq) (q_clen rq) (p "digest") (q_body rq))
      else if String.eqb name "manifestDelete" then Some (QManifestDelete r a)
      else if String.eqb name "blobGet" then Some (QBlobGet r a (q_range rq))
      else if String.eqb name "blobDelete" then Some (QBlobDelete r a)
      else if String.eqb name "referrerGet" then Some (QReferrers r a (p "artifactType"))
      else if String.eqb name "blobUploadPatch" then Some (QUploadPatch r a (q_cr rq) (q_state rq) (q_body rq))
      else if String.eqb name "blobUploadPut" then Some (QUploadPut r a (q_cr rq) (p "digest") (q_state rq) (q_body rq))
      else if String.eqb name "blobUploadGet" then Some (QUploadGet r a)
      else if String.eqb name "blobUploadDelete" then Some (QUploadDelete r a)
      else None
  | _ => None
  end.

Definition serve (cfg : config) (E : env) (s : state) (rq : rawreq) : state * resp :=
  match route_request gen_routes gen_default_status (sw_of cfg) (q_method rq) (q_path rq) with
  | TStatus z => (s, rsp z)
  | THandler name args =>
      if String.eqb name "v2Ping" then (s, ping) else
      match to_req name args rq with
      | Some q => step cfg E s q
      | None => (s, rsp 500)          (* a handler the model does not know: never for the current table *)
      end
  end.
