(* TagProofs.v — the tag listing of tag.go (Reg.tag_all / tag_page_n): sortedness,
   exactness, and the pagination walk.  Model definitions stay in Reg.v. *)
From Olareg Require Import Base Index Reg.
From Coq Require Import Permutation Sorted OrderedTypeEx.
Local Open Scope list_scope.

(* ---- byte-wise string order ------------------------------------------------------ *)
Definition slt (a b : string) : Prop := str_ltb a b = true.
Definition sle (a b : string) : Prop := str_leb a b = true.

Lemma slt_iff a b : slt a b <-> String_as_OT.lt a b.
Proof.
  unfold slt, str_ltb. rewrite <- String_as_OT.cmp_lt. unfold String_as_OT.cmp.
  destruct (String.compare a b); split; intro H; congruence.
Qed.

Lemma slt_trans a b c : slt a b -> slt b c -> slt a c.
Proof. rewrite !slt_iff. apply String_as_OT.lt_trans. Qed.

Lemma slt_irrefl a : ~ slt a a.
Proof. rewrite slt_iff. intro H. exact (String_as_OT.lt_not_eq _ _ H eq_refl). Qed.

Lemma sle_iff a b : sle a b <-> slt a b \/ a = b.
Proof.
  unfold sle, slt, str_leb, str_ltb.
  destruct (String.compare a b) eqn:E.
  - apply String.compare_eq_iff in E. subst. split; auto.
  - split; auto.
  - split; [discriminate|]. intros [H|H]; [discriminate|].
    subst. assert (String.compare b b = Eq) by (apply (proj2 (String_as_OT.cmp_eq b b)); reflexivity). congruence.
Qed.

Lemma not_sle_slt a b : str_leb a b = false -> slt b a.
Proof.
  unfold slt, str_leb, str_ltb. intros H. rewrite (String.compare_antisym a b) in H.
  destruct (String.compare b a); simpl in *; congruence.
Qed.

Lemma sle_slt_trans a b c : sle a b -> slt b c -> slt a c.
Proof. rewrite sle_iff. intros [H|H] H2; [eapply slt_trans; eauto | subst; auto]. Qed.

Lemma slt_sle_trans a b c : slt a b -> sle b c -> slt a c.
Proof. rewrite sle_iff. intros H [H2|H2]; [eapply slt_trans; eauto | subst; auto]. Qed.

Lemma sle_trans a b c : sle a b -> sle b c -> sle a c.
Proof.
  intros H1 H2. rewrite sle_iff in H2. destruct H2 as [H2|H2]; [|subst; auto].
  rewrite sle_iff. left. eapply sle_slt_trans; eauto.
Qed.

(* ---- insertion sort ------------------------------------------------------------------ *)
Lemma insert_perm x l : Permutation (insert_sorted x l) (x :: l).
Proof.
  induction l as [|y r IH]; simpl; auto.
  destruct (str_leb x y); auto.
  eapply perm_trans; [apply perm_skip, IH | apply perm_swap].
Qed.

Lemma sort_perm l : Permutation (sort_strings l) l.
Proof.
  induction l as [|x r IH]; simpl; auto.
  eapply perm_trans; [apply insert_perm | apply perm_skip, IH].
Qed.

Lemma insert_sorted_sorted x l :
  StronglySorted sle l -> StronglySorted sle (insert_sorted x l).
Proof.
  induction 1 as [|y r Hs IH Hall]; simpl.
  - repeat constructor.
  - destruct (str_leb x y) eqn:E.
    + constructor; [constructor; auto|]. constructor; [exact E|].
      eapply Forall_impl; [|exact Hall]. intros z Hz. eapply sle_trans; eauto.
    + constructor; auto.
      assert (Hyx : sle y x) by (apply sle_iff; left; apply not_sle_slt; exact E).
      rewrite Forall_forall. intros z Hz.
      apply (Permutation_in _ (insert_perm x r)) in Hz. destruct Hz as [Hz|Hz]; [subst; auto|].
      rewrite Forall_forall in Hall. auto.
Qed.

Lemma sort_sorted l : StronglySorted sle (sort_strings l).
Proof. induction l; simpl; [constructor | apply insert_sorted_sorted; auto]. Qed.

(* sorted + duplicate-free = strictly sorted *)
Lemma sorted_nodup_strict l : StronglySorted sle l -> NoDup l -> StronglySorted slt l.
Proof.
  induction 1 as [|x r Hs IH Hall]; intros Hnd; constructor; inversion Hnd; subst; auto.
  rewrite Forall_forall in *. intros y Hy. specialize (Hall y Hy).
  apply sle_iff in Hall. destruct Hall; [auto | subst; contradiction].
Qed.

(* two strictly sorted lists with the same elements are equal *)
Lemma strict_sorted_ext l1 : forall l2,
  StronglySorted slt l1 -> StronglySorted slt l2 -> (forall x, In x l1 <-> In x l2) -> l1 = l2.
Proof.
  induction l1 as [|a r1 IH]; intros [|b r2] H1 H2 Hin; auto.
  - exfalso. apply (proj2 (Hin b)). left; auto.
  - exfalso. apply (proj1 (Hin a)). left; auto.
  - inversion H1 as [|? ? Hs1 Ha1]; inversion H2 as [|? ? Hs2 Ha2]; subst.
    rewrite Forall_forall in Ha1, Ha2.
    assert (a = b).
    { destruct (proj1 (Hin a) (or_introl eq_refl)) as [E|E]; [auto|].
      destruct (proj2 (Hin b) (or_introl eq_refl)) as [E2|E2]; [auto|].
      exfalso. apply (slt_irrefl a). eapply slt_trans; [apply Ha1; exact E2 | apply Ha2; exact E]. }
    subst b. f_equal. apply IH; auto.
    intros x; split; intros Hx.
    + destruct (proj1 (Hin x) (or_intror Hx)) as [E|E]; auto.
      subst. exfalso. apply (slt_irrefl x). apply Ha1; auto.
    + destruct (proj2 (Hin x) (or_intror Hx)) as [E|E]; auto.
      subst. exfalso. apply (slt_irrefl x). apply Ha2; auto.
Qed.

(* ---- the listing ------------------------------------------------------------------------ *)
Definition tags_of (i : index) : list string := filter nonempty (map (ann_get RefName) (top i)).

(* index invariant I1 of C18: a tag is held by at most one top-level entry *)
Definition TagsUnique (i : index) : Prop := NoDup (tags_of i).

Lemma tag_all_in i last t :
  In t (tag_all i last) <-> In t (tags_of i) /\ slt last t.
Proof.
  unfold tag_all, tags_of. split.
  - intros H. apply (Permutation_in _ (sort_perm _)) in H.
    apply filter_In in H. destruct H as [H1 H2]. apply andb_prop in H2. destruct H2.
    split; auto. apply filter_In; auto.
  - intros [H1 H2]. apply (Permutation_in _ (Permutation_sym (sort_perm _))).
    apply filter_In in H1. destruct H1. apply filter_In. split; auto. apply andb_true_intro; auto.
Qed.

Lemma filter_nodup {A} (p : A -> bool) l : NoDup l -> NoDup (filter p l).
Proof.
  induction 1; simpl; [constructor|]. destruct (p x); auto. constructor; auto.
  intro Hin. apply filter_In in Hin. tauto.
Qed.

Lemma filter_filter_and {A} (p q : A -> bool) l :
  filter (fun x => p x && q x) l = filter q (filter p l).
Proof.
  induction l as [|x r IH]; simpl; auto. destruct (p x); simpl; [destruct (q x); simpl; congruence | auto].
Qed.

Lemma tag_all_strict i last : TagsUnique i -> StronglySorted slt (tag_all i last).
Proof.
  intros Hu. apply sorted_nodup_strict; [apply sort_sorted|].
  unfold tag_all. eapply Permutation_NoDup; [apply Permutation_sym, sort_perm|].
  rewrite filter_filter_and. apply filter_nodup. exact Hu.
Qed.

(* the listing is exactly the resolvable tags after [last]: sorted, each once *)
Theorem tag_list_exact i last :
  TagsUnique i ->
  StronglySorted slt (tag_all i last) /\
  (forall t, In t (tag_all i last) <-> In t (tags_of i) /\ slt last t).
Proof. intros Hu. split; [apply tag_all_strict; auto | apply tag_all_in]. Qed.

(* ---- pagination -------------------------------------------------------------------------- *)
(* elements of a strictly sorted list that are above its k-th element = the rest *)
Lemma strict_sorted_app l1 l2 :
  StronglySorted slt (l1 ++ l2) ->
  StronglySorted slt l1 /\ StronglySorted slt l2 /\ (forall a b, In a l1 -> In b l2 -> slt a b).
Proof.
  induction l1 as [|x r IH]; simpl; intros H.
  - split; [constructor | split; [assumption | intros a b Ha; destruct Ha]].
  - inversion H as [|? ? Hs Hall]; subst. destruct (IH Hs) as [A [B C]].
    rewrite Forall_forall in Hall.
    repeat split; auto.
    + constructor; auto. rewrite Forall_forall. intros y Hy. apply Hall. apply in_or_app; auto.
    + intros a b [Ha|Ha] Hb; [subst; apply Hall; apply in_or_app; auto | auto].
Qed.

Lemma last_in {A} (l : list A) d : l <> [] -> In (List.last l d) l.
Proof.
  induction l as [|x [|y r] IH]; intros H; [congruence | left; auto |].
  right. apply IH. discriminate.
Qed.

Lemma last_max l d : StronglySorted slt l -> forall x, In x l -> x = List.last l d \/ slt x (List.last l d).
Proof.
  induction 1 as [|x r Hs IH Hall]; intros y Hy; [destruct Hy|].
  destruct Hy as [Hy|Hy].
  - subst. destruct r as [|z r']; [left; auto|]. right.
    rewrite Forall_forall in Hall. apply Hall. apply (last_in (z :: r') d). discriminate.
  - destruct r as [|z r']; [destruct Hy|]. apply IH; auto.
Qed.

(* the next page request continues exactly where the page stopped *)
Lemma tag_all_continue i k :
  TagsUnique i -> (0 < k)%nat ->
  forall lastq,
  let all := tag_all i lastq in
  (k <= List.length all)%nat ->
  tag_all i (List.last (firstn k all) "") = skipn k all.
Proof.
  intros Hu Hk lastq all Hlen.
  assert (Hs : StronglySorted slt all) by (apply tag_all_strict; auto).
  assert (Hsplit : all = firstn k all ++ skipn k all) by (symmetry; apply firstn_skipn).
  rewrite Hsplit in Hs. destruct (strict_sorted_app _ _ Hs) as [S1 [S2 S12]].
  assert (Hne : firstn k all <> []).
  { intro E. apply (f_equal (@List.length _)) in E. rewrite firstn_length in E. simpl in E. lia. }
  set (p := List.last (firstn k all) "") in *.
  assert (Hp : In p (firstn k all)) by (apply last_in; auto).
  apply strict_sorted_ext; [apply tag_all_strict; auto | auto |].
  intros t. rewrite tag_all_in. split.
  - intros [Ht Hpt].
    assert (Hin : In t all).
    { apply tag_all_in. split; auto.
      assert (Hpa : In p all) by (rewrite Hsplit; apply in_or_app; auto).
      apply tag_all_in in Hpa. destruct Hpa as [_ Hlp]. eapply slt_trans; eauto. }
    rewrite Hsplit in Hin. apply in_app_or in Hin. destruct Hin as [Hin|Hin]; auto.
    exfalso. destruct (last_max _ "" S1 t Hin) as [E|E]; fold p in E.
    + subst t. exact (slt_irrefl _ Hpt).
    + exact (slt_irrefl _ (slt_trans _ _ _ E Hpt)).
  - intros Hin. assert (Hall : In t all) by (rewrite Hsplit; apply in_or_app; auto).
    apply tag_all_in in Hall. destruct Hall as [Ht _]. split; auto.
Qed.

(* following the Link chain: [walk fuel last] collects the pages *)
Fixpoint walk (i : index) (k : Z) (fuel : nat) (lastq : string) : option (list (list string)) :=
  match fuel with
  | 0 => None                       (* out of fuel: not a result *)
  | S f =>
      match tag_page_n i (Some k) lastq with
      | (page, None) => Some [page]
      | (page, Some l) => match walk i k f l with Some ps => Some (page :: ps) | None => None end
      end
  end.

Lemma walk_from i k : TagsUnique i -> (0 < k)%Z ->
  forall fuel lastq, (List.length (tag_all i lastq) < fuel)%nat ->
  exists pages, walk i k fuel lastq = Some pages /\ List.concat pages = tag_all i lastq
                /\ Forall (fun p => (Z.of_nat (List.length p) <= k)%Z) pages.
Proof.
  intros Hu Hk. induction fuel as [|f IH]; intros lastq Hlen; [lia|].
  simpl. unfold tag_page_n.
  destruct ((0 <=? k)%Z && (Z.of_nat (List.length (tag_all i lastq)) >? k)%Z) eqn:E.
  - apply andb_prop in E. destruct E as [_ E]. apply Z.gtb_lt in E.
    assert (Hk0 : (0 <? k)%Z = true) by (apply Z.ltb_lt; auto). rewrite Hk0.
    set (all := tag_all i lastq) in *. set (kn := Z.to_nat k).
    assert (Hkn : (0 < kn)%nat /\ (kn <= List.length all)%nat) by (unfold kn; lia).
    assert (Hc' : tag_all i (List.last (firstn kn all) "") = skipn kn all)
      by (apply (tag_all_continue i kn Hu (proj1 Hkn)); apply Hkn).
    destruct (IH (List.last (firstn kn all) "")) as [ps [Hw [Hcat Hsz]]].
    { rewrite Hc'. rewrite skipn_length. lia. }
    rewrite Hw. eexists. split; [reflexivity|]. split.
    + simpl. rewrite Hcat, Hc'. apply firstn_skipn.
    + constructor; auto. rewrite firstn_length. lia.
  - exists [tag_all i lastq]. split; [reflexivity|]. split; [simpl; apply app_nil_r|].
    constructor; auto.
    apply andb_false_iff in E. destruct E as [E|E]; [apply Z.leb_gt in E; lia|].
    rewrite Z.gtb_ltb in E. apply Z.ltb_ge in E. lia.
Qed.

(* for every positive page size the walk from the start terminates, visits every
   resolvable tag exactly once in order, and no page exceeds the size *)
Theorem tag_paging_exact i k :
  TagsUnique i -> (0 < k)%Z ->
  exists pages, walk i k (S (List.length (tag_all i ""))) "" = Some pages
                /\ List.concat pages = tag_all i ""
                /\ Forall (fun p => (Z.of_nat (List.length p) <= k)%Z) pages.
Proof. intros Hu Hk. apply walk_from; auto. Qed.

(* n = 0, negative, or not a number: a valid listing, never an error *)
Theorem tag_page_nonpositive i k lastq :
  (match k with Some z => (z <= 0)%Z | None => True end) ->
  tag_page_n i k lastq = (if match k with Some 0%Z => negb (Nat.eqb (List.length (tag_all i lastq)) 0) | _ => false end
                          then [] else tag_all i lastq, None).
Proof.
  unfold tag_page_n. destruct k as [z|]; auto. intros Hz.
  destruct (Z.eq_dec z 0) as [->|Hn].
  - simpl. destruct (tag_all i lastq) as [|a r] eqn:E; simpl; auto.
  - assert ((0 <=? z)%Z = false) by (apply Z.leb_gt; lia). rewrite H. simpl.
    destruct z; try reflexivity; lia.
Qed.
