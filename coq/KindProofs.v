(* KindProofs.v — the handlers do not look at the store type: a request whose repository name both stores accept, and
   which does not end an upload with a digest mismatch, runs identically on the memory and on the directory store (C10). *)
From Olareg Require Import Base Index Reg RegProofs.
Local Open Scope list_scope.

Definition with_kind (k : skind) (cfg : config) : config :=
  mkCfg k (c_readonly cfg) (c_push cfg) (c_delete cfg) (c_blobdelete cfg) (c_referrer cfg) (c_mlimit cfg) (c_rlimit cfg) (c_uploadmax cfg).

Lemma handler_kind k cfg E q : handler (with_kind k cfg) E q = handler cfg E q.
Proof. destruct cfg; destruct q; reflexivity. Qed.

(* the two places where exec_act looks at the store type *)
Definition kind_neutral (cfg : config) (E : env) (a : act) (s : state) : Prop :=
  match a with
  | ARepoGet r => repo_allowed (with_kind KDir cfg) r = true
  | ASessClose r sid =>
      match find_sess sid (get_repo cfg r s) with
      | Some x => s_broken x = true \/ nonempty (s_expect x) = false \/ String.eqb (sess_digest E x) (s_expect x) = true
      | None => True
      end
  | _ => True
  end.

Lemma get_repo_kind k cfg r s : get_repo (with_kind k cfg) r s = get_repo cfg r s.
Proof. unfold get_repo. destruct (assoc r (st_repos s)); reflexivity. Qed.

Theorem exec_act_kind_indifferent cfg E a s : kind_neutral cfg E a s ->
  exec_act (with_kind KMem cfg) E a s = exec_act (with_kind KDir cfg) E a s.
Proof.
  intros Hn. destruct a; simpl in *; rewrite ?get_repo_kind; auto.
  - (* ARepoGet: the memory store accepts every name *) rewrite Hn. reflexivity.
  - (* ASessClose: only a digest mismatch is handled differently *)
    destruct (find_sess sid (get_repo cfg r s)) as [x|]; auto.
    destruct (s_broken x) eqn:Eb; auto.
    destruct Hn as [Hn|[Hn|Hn]]; [discriminate| |]; rewrite Hn; simpl; rewrite ?andb_false_r; auto.
Qed.

(* every action a run performs is neutral *)
Fixpoint neutral_run (cfg : config) (E : env) (p : prog) (s : state) : Prop :=
  match p with
  | Ret _ => True
  | Do a k => kind_neutral cfg E a s /\ let (s', x) := exec_act (with_kind KDir cfg) E a s in neutral_run cfg E (k x) s'
  end.

Theorem run_kind_indifferent cfg E p : forall s, neutral_run cfg E p s ->
  run (with_kind KMem cfg) E p s = run (with_kind KDir cfg) E p s.
Proof.
  induction p as [r|a k IH]; intros s Hn; simpl; auto.
  destruct Hn as [Ha Hk]. rewrite (exec_act_kind_indifferent cfg E a s Ha).
  destruct (exec_act (with_kind KDir cfg) E a s) as [s' x]. apply IH. exact Hk.
Qed.

(* a client request: same answer and same state on both stores *)
Theorem request_kind_indifferent cfg E s q :
  match q with QRestart => False | _ => True end ->
  neutral_run cfg E (handler cfg E q) s ->
  step (with_kind KMem cfg) E s q = step (with_kind KDir cfg) E s q.
Proof.
  intros Hq Hn. destruct q; try contradiction; unfold step; rewrite ?handler_kind;
    try (rewrite <- (handler_kind KMem cfg E) at 1; rewrite !handler_kind; apply run_kind_indifferent; exact Hn); reflexivity.
Qed.
