(* RespInv.v — the referrers response of a subject lists each manifest once (C07 "each once").
   The response is maintained with AddDesc / RmDesc on the list of descriptors of the stored response
   (Reg.referrer_add / referrer_delete); for descriptors that do not use the reserved annotation keys (the open finding F10
   is about those that do) adding keeps the digests distinct, keeps every entry that was there, and adds the new one; deleting
   by digest removes every entry with that digest, keeps every other entry, and keeps the digests distinct. *)
From Olareg Require Import Base Index IndexProofs IndexInv Reg.
From Coq Require Import Permutation.
Local Open Scope list_scope.

Definition digs (l : list desc) : list string := map d_dig l.

(* ---- adding ------------------------------------------------------------------------------------------------------------ *)
Lemma add_scan_plain d : forall l mi c,
  add_scan d "" "" mi c l = SKeep \/ (~ In (d_dig d) (digs l) /\ add_scan d "" "" mi c l = match c with Some k => SReplace k | None => SAppend end).
Proof.
  induction l as [|md r IH]; intros mi c; simpl.
  - right. split; auto.
  - destruct (String.eqb_spec (d_dig md) (d_dig d)) as [He|Hne]; simpl.
    + left. reflexivity.
    + destruct (IH (S mi) c) as [H|[H1 H2]]; [left; exact H|].
      right. split; [|exact H2]. intros [H|H]; [contradiction|contradiction].
Qed.

Lemma nodup_snoc {A} (l : list A) x : NoDup l -> ~ In x l -> NoDup (l ++ [x]).
Proof.
  induction l as [|y r IH]; intros Hn Hx; simpl.
  - constructor; [intros []|constructor].
  - inversion Hn; subst. constructor.
    + intros H. apply in_app_or in H. destruct H as [H|[H|[]]]; [contradiction|]. subst. apply Hx. left. reflexivity.
    + apply IH; auto. intros H. apply Hx. right. exact H.
Qed.

Lemma add_scan_keep_in d : forall l mi c, add_scan d "" "" mi c l = SKeep -> In (d_dig d) (digs l).
Proof.
  induction l as [|md r IH]; intros mi c; simpl; [destruct c; discriminate|].
  destruct (String.eqb_spec (d_dig md) (d_dig d)) as [He|Hne]; simpl; [intros _; left; exact He|].
  intros Hx. right. eapply IH; eauto.
Qed.

Theorem resp_add_once d old i' :
  ann_get RefName d = "" -> ann_get RefSubject d = "" ->
  NoDup (digs old) -> add_desc d [] (resp_index old) = Ok i' ->
  NoDup (digs (top i')) /\ In (d_dig d) (digs (top i')) /\ (forall x, In x old -> In x (top i'))
  /\ (forall x, In x (top i') -> In x old \/ x = d).
Proof.
  intros Ht Hr Hnd H. unfold add_desc in H. rewrite Ht, Hr in H. simpl in H.
  inversion H; subst i'; clear H. cbn [top resp_index child add_rm_child].
  unfold add_final.
  destruct (add_scan_plain d old 0 None) as [Hk|[Hn Hs]].
  - rewrite Hk. repeat split; auto. eapply add_scan_keep_in; eauto.
  - rewrite Hs. unfold digs. rewrite map_app. simpl. repeat split.
    + apply nodup_snoc; auto.
    + apply in_or_app. right. left. reflexivity.
    + intros x Hx. apply in_or_app. left. exact Hx.
    + intros x Hx. apply in_app_or in Hx. destruct Hx as [Hx|[<-|[]]]; auto.
Qed.

(* ---- deleting by digest --------------------------------------------------------------------------------------------------- *)
Section Rm.
  Variable dig : string.
  Hypothesis Hdig : nonempty dig = true.
  Definition keepq (x : desc) : bool := negb (String.eqb (d_dig x) dig).

  Lemma filter_snoc (l : list desc) x : filter keepq (l ++ [x]) = filter keepq l ++ (if keepq x then [x] else []).
  Proof. rewrite filter_app. reflexivity. Qed.

  Lemma rm_plain_perm l found l' s' :
    bloop (rm_top_step dig "" "") (List.length l) found l = Ok (s', l') -> Permutation (filter keepq l) l'.
  Proof.
    intros Hb.
    pose (Inv := fun (_ : bool) (pre vis : list desc) => Permutation (filter keepq l) (filter keepq pre ++ vis)).
    destruct (bloop_inv (rm_top_step dig "" "") Inv) with (s:=found) (l:=l) as [s2 [l2 [H1 H2]]].
    - intros s0 pre v v' Hp H. unfold Inv in *. eapply Permutation_trans; [exact H|]. apply Permutation_app_head. exact Hp.
    - intros s0 pre x vis H. unfold Inv in *. rewrite filter_snoc in H.
      unfold rm_top_step. rewrite Hdig. cbn [andb].
      assert (Hf : String.eqb dig "" = false) by (unfold nonempty, sneq in Hdig; destruct (String.eqb dig ""); auto; discriminate).
      unfold keepq in H at 3.
      destruct (String.eqb (d_dig x) dig) eqn:E.
      + replace (nonempty "") with false by reflexivity. cbn [negb] in H. rewrite app_nil_r in H. exact H.
      + rewrite Hf. cbn [andb]. cbn [negb] in H. rewrite <- app_assoc in H. exact H.
    - unfold Inv. rewrite app_nil_r. apply Permutation_refl.
    - rewrite Hb in H1. inversion H1; subst. unfold Inv in H2. simpl in H2. exact H2.
  Qed.
End Rm.

Theorem resp_rm_once d l i' :
  ann_get RefName d = "" -> ann_get RefSubject d = "" -> nonempty (d_dig d) = true ->
  rm_desc d (resp_index l) = Ok i' ->
  (forall x, In x (top i') <-> (In x l /\ d_dig x <> d_dig d))
  /\ (NoDup (digs l) -> NoDup (digs (top i'))).
Proof.
  intros Ht Hr Hd H. unfold rm_desc in H. unfold rm_tag_of, rm_ref_of in H. rewrite Ht, Hr, Hd in H. cbn [String.eqb andb] in H.
  cbn [resp_index child top List.length bloop rbind] in H.
  destruct (bloop (rm_top_step (d_dig d) "" "") (List.length l) false l) as [[s' l']| |] eqn:Eb; simpl in H; try discriminate.
  inversion H; subst i'; clear H. cbn [top].
  pose proof (rm_plain_perm (d_dig d) Hd l false l' s' Eb) as Hp. unfold keepq in Hp.
  split.
  - intros x. split.
    + intros Hx. apply (Permutation_in _ (Permutation_sym Hp)) in Hx. apply filter_In in Hx. destruct Hx as [H1 H2].
      split; auto. apply negb_true_iff in H2. apply eqb_false_neq in H2. exact H2.
    + intros [H1 H2]. apply (Permutation_in _ Hp). apply filter_In. split; auto.
      apply negb_true_iff. destruct (String.eqb_spec (d_dig x) (d_dig d)); [contradiction|reflexivity].
  - intros Hn. unfold digs. eapply Permutation_NoDup; [apply Permutation_map; exact Hp|].
    clear -Hn. induction l as [|y r IH]; simpl; [constructor|].
    inversion Hn; subst. destruct (negb (String.eqb (d_dig y) (d_dig d))); simpl; auto.
    constructor; auto. intros Hin. apply H1. apply in_map_iff in Hin. destruct Hin as [z [Hz1 Hz2]].
    apply filter_In in Hz2. destruct Hz2 as [Hz2 _]. unfold digs. apply in_map_iff. exists z. auto.
Qed.
