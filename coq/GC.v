(* GC.v — repoGarbageCollect (internal/store/store.go:391-528) over the repository state of
   Reg.v: phase 1 keep decisions per top-level entry, phase 2 mark walk (worklist with fuel),
   phase 3 sweep of unseen blobs and pruning of index entries.
   Times are integers (nanoseconds relative to the model clock); [gp_grace] < 0 disables the grace period. *)
From Olareg Require Import Base Index Reg.
Local Open Scope list_scope.

Record gcpol := mkPol {
  gp_untagged : bool;       (* GC.Untagged *)
  gp_dangling : bool;       (* GC.ReferrersDangling *)
  gp_withsubj : bool;       (* GC.ReferrersWithSubj *)
  gp_grace : Z              (* GC.GracePeriod *)
}.

Definition mem_str (x : string) (l : list string) : bool := existsb (String.eqb x) l.

Section GC.
  Variable E : env.
  Variable pol : gcpol.
  Variable now : Z.
  Variable blobs : list (string * bentry).

  Definition cutoff : Z := now - gp_grace pol.
  (* blobMeta: found and modified after the cutoff (only meaningful when the grace period is enabled) *)
  Definition young (d : string) : bool :=
    (0 <=? gp_grace pol)%Z &&
    match assoc d blobs with Some b => (cutoff <? b_time b)%Z | None => false end.
  Definition has_blob (d : string) : bool :=
    dvalid' d && match assoc d blobs with Some _ => true | None => false end.

  (* ---- phase 1 ---------------------------------------------------------------------------- *)
  (* result: (kept manifests in order, subjects map (subject digest -> response descriptor), inIndex) *)
  Definition phase1_entry (st : list desc * list (string * desc) * list string) (d : desc)
    : list desc * list (string * desc) * list string :=
    let '(kept, subjects, inidx) := st in
    let inidx := d_dig d :: inidx in
    let keep0 := negb (gp_untagged pol) || nonempty (ann_get RefName d) in
    let keep1 := keep0 || young (d_dig d) in
    let sj := ann_get RefSubject d in
    if nonempty sj then
      let dig := if dvalid sj then sj else "" in
      let subj_exists := nonempty dig && has_blob dig in
      if gp_withsubj pol && subj_exists then (kept, assoc_set dig d subjects, inidx)
      else if negb (gp_dangling pol) then (kept ++ [d], subjects, inidx)
      else if subj_exists then
        if young (d_dig d) then (kept ++ [d], subjects, inidx)
        else (kept, assoc_set dig d subjects, inidx)
      else if keep1 then (kept ++ [d], subjects, inidx) else (kept, subjects, inidx)
    else if keep1 then (kept ++ [d], subjects, inidx) else (kept, subjects, inidx).

  Definition phase1 (i : index) := fold_left phase1_entry (top i) ([], [], []).

  (* ---- phase 2: mark ------------------------------------------------------------------------ *)
  (* the work list is a stack: the Go code pops from the tail and appends at the tail *)
  Fixpoint mark (fuel : nat) (work : list desc) (subjects : list (string * desc))
           (seen walked inidx : list string) : option (list string * list string) :=
    match fuel with
    | 0 => None
    | S f =>
        match rev work with
        | [] => Some (seen, inidx)
        | d :: rest_rev =>
            let work' := rev rest_rev in
            let inidx' := d_dig d :: inidx in
            (* a digest seen as a config or layer may also be a manifest: parsed manifests are tracked separately *)
            if mem_str (d_dig d) walked then mark f work' subjects seen walked inidx'
            else if negb (has_blob (d_dig d)) then mark f work' subjects seen walked inidx'
            else
              let seen1 := d_dig d :: seen in
              let walked1 := if mt_index (d_mt d) || mt_image (d_mt d) then d_dig d :: walked else walked in
              let v := match assoc (d_dig d) blobs with Some b => blob_view E (b_data b) | None => jbad end in
              let requeue w := match assoc (d_dig d) subjects with Some r => w ++ [r] | None => w end in
              (* the referrers response of a subject is queued once: its entry leaves the map *)
              let subjects1 := assoc_del (d_dig d) subjects in
              if mt_index (d_mt d) || mt_image (d_mt d) then
                (* the media type is the claim of the entry that lists the digest (an index may list an image as an index or the
                   reverse) and a manifest is walked once: the blob is read as both kinds *)
                if negb (j_ok_i v) && negb (j_ok_m v) then
                  mark f work' subjects seen1 walked1 inidx'   (* decode errors: `continue`, the referrers are not queued *)
                else
                  let kids := if j_ok_i v then j_manifests v else [] in
                  let seen2 := if j_ok_m v then (match j_config v with Some c => d_dig c | None => "" end)
                                                  :: map d_dig (j_layers v) ++ seen1
                               else seen1 in
                  mark f (requeue (work' ++ kids)) subjects1 seen2 walked1 inidx'
              else mark f (requeue work') subjects1 seen1 walked1 inidx'
        end
    end.

  (* every iteration pops one descriptor; descriptors are pushed only when a manifest is parsed for the
     first time (the children it lists) or when a descriptor with a referrers response is popped (that response, once:
     its entry then leaves the map); that this fuel always suffices is mark_terminates (GCProofs.v) *)
  Definition mark_fuel (i : index) : nat :=
    2 * List.length (top i)
    + 2 * fold_right (fun b n => List.length (j_manifests (blob_view E (b_data (snd b)))) + 2 + n) 0 blobs + 1.

  (* index.GetDesc(d) succeeds (d comes from the blob list: never a tag); digests of generated
     referrers responses are symbolic in the model and are looked up structurally *)
  Definition idx_has (d : string) (i : index) : bool :=
    if dvalid d then match get_desc d i with Some _ => true | None => false end
    else existsb (fun e => String.eqb (d_dig e) d) (top i) || existsb (fun e => String.eqb (d_dig e) d) (child i).

  (* ---- phase 3: sweep ------------------------------------------------------------------------ *)
  Definition sweep_blob (seen inidx : list string) (st : res index * list string) (b : string * bentry)
    : res index * list string :=
    let '(ri, deleted) := st in
    let d := fst b in
    if mem_str d seen then st
    else if young d && negb (mem_str d inidx) then st
    else
      let ri' := do i <- ri;
                 if idx_has d i then rm_desc (mkD "" d 0 None "") i else Ok i in
      (ri', d :: deleted).

  Definition prune_missing (ri : res index) (d : string) : res index :=
    do i <- ri; if match assoc d blobs with Some _ => true | None => false end then Ok i
                else rm_desc (mkD "" d 0 None "") i.

  Definition repo_gc (rp_index : index) : option (res index * list string) :=
    let '(kept, subjects, inidx0) := phase1 rp_index in
    match mark (mark_fuel rp_index) kept subjects [] [] inidx0 with
    | None => None
    | Some (seen, inidx) =>
        let '(ri, deleted) := fold_left (sweep_blob seen inidx) blobs (Ok rp_index, []) in
        Some (fold_left prune_missing inidx ri, deleted)
    end.
End GC.

(* the collection of one repository: new index, blobs removed *)
Definition gc_repo (E : env) (pol : gcpol) (now : Z) (rp : repo) : repo :=
  match repo_gc E pol now (r_blobs rp) (r_index rp) with
  | Some (Ok i', deleted) =>
      mkR (fold_left (fun bl d => assoc_del d bl) deleted (r_blobs rp)) i' (r_conv rp) (r_uploads rp)
  | _ => rp          (* out of fuel / panic: excluded by gc_total (GCProofs.v) *)
  end.

(* ---- the registry machine with collections ------------------------------------------------------- *)
Inductive greq :=
| GReq (q : req)
| GGC (r : string)                       (* Repo.gc() on one repository *)
| GAge (r d : string) (age : Z)          (* the blob's modification time becomes now - age ("" = every blob of r) *)
| GRestart.                              (* Close + a new server on the same storage *)

Definition age_blobs (d : string) (t : Z) (rp : repo) : repo :=
  mkR (map (fun b => if String.eqb d "" || String.eqb (fst b) d then (fst b, mkB (b_data (snd b)) t) else b) (r_blobs rp))
      (r_index rp) (r_conv rp) (r_uploads rp).

(* the directory store re-reads index.json before collecting (the child list is rebuilt) *)
Definition gc_one (cfg : config) (E : env) (pol : gcpol) (now : Z) (rp : repo) : repo :=
  match c_kind cfg with
  | KDir => gc_repo E pol now (reload_repo E rp)
  | KMem => gc_repo E pol now rp
  end.

(* dir.Close: sessions are dropped, every open repository is collected (unless read-only); then the new
   server loads the directory *)
Definition restart_repo (cfg : config) (E : env) (pol : gcpol) (now : Z) (rp : repo) : repo :=
  let rp0 := mkR (r_blobs rp) (r_index rp) (r_conv rp) [] in
  reload_repo E (if c_readonly cfg then rp0 else gc_one cfg E pol now rp0).

Definition gstep (cfg : config) (pol : gcpol) (E : env) (s : state) (g : greq) : state * resp :=
  match g with
  | GReq q => step cfg E s q
  | GGC r =>
      if c_readonly cfg then (s, rsp 0) else
      match assoc r (st_repos s) with
      | Some rp => (set_repo r (gc_one cfg E pol (st_now s) rp) s, rsp 0)
      | None => (s, rsp 0)
      end
  | GAge r d age =>
      match assoc r (st_repos s) with
      | Some rp => (set_repo r (age_blobs d (st_now s - age) rp) s, rsp 0)
      | None => (s, rsp 0)
      end
  | GRestart =>
      match c_kind cfg with
      | KMem => (mkSt [] (st_nsid s) (st_now s), rsp 0)
      | KDir => (mkSt (map (fun nr => (fst nr, restart_repo cfg E pol (st_now s) (snd nr))) (st_repos s)) (st_nsid s) (st_now s), rsp 0)
      end
  end.

(* ---- re-opening the storage under another configuration ------------------------------------------------- *)
(* A new Server on the same directory with the referrers API enabled converts, on the first load, every index that
   was never converted (indexIngest, store.go "convert referrers").  Fallback tags (sha256-<hex> / sha512-<hex> on an
   OCI index) are adopted or regenerated by that conversion; that part is not modelled: without any fallback tag in
   the index (the registry creates none while the API is off) the conversion only sets the annotation. *)
Definition fallback_name (s : string) : bool :=
  (String.prefix "sha256-" s || String.prefix "sha512-" s) && (String.length s =? 71)%nat.
Definition has_fallback_tag (i : index) : bool :=
  existsb (fun d => String.eqb (d_mt d) MT_OCI_I && fallback_name (ann_get RefName d)) (top i).
Definition reopen_repo (cfg' : config) (rp : repo) : repo :=
  if c_referrer cfg' && negb (r_conv rp) && negb (has_fallback_tag (r_index rp))
  then mkR (r_blobs rp) (r_index rp) true (r_uploads rp) else rp.
Definition reopen (cfg' : config) (s : state) : state :=
  mkSt (map (fun nr => (fst nr, reopen_repo cfg' (snd nr))) (st_repos s)) (st_nsid s) (st_now s).

(* the store-wide pass (dir.gc / mem.gc after the fix: a failing repository is skipped, the pass goes on):
   every tracked repository is collected on its own; [fails r] = the collection of r errs (corrupt index.json,
   directory removed) and leaves r untouched *)
Definition gc_pass (cfg : config) (E : env) (pol : gcpol) (now : Z) (fails : string -> bool)
           (repos : list (string * repo)) : list (string * repo) :=
  map (fun nr => (fst nr, if fails (fst nr) then snd nr else gc_one cfg E pol now (snd nr))) repos.
