(* Props_C10.v — the directory is a valid layout equal to the API state.  Model: Reg.v (requests), GC.v (collections,
   restarts); what the directory of a repository holds = its blobs, the top-level entries of its index and the conversion mark. *)
From Olareg Require Import Base Index IndexInv Reg RegProofs RegInv TagProofs GC GCProofs LayoutProofs KindProofs ChildInv.
Local Open Scope list_scope.

(* blobs/<alg>/<hex>: in every state reachable by client requests every stored blob is stored under the digest of its bytes ... *)
Theorem C10_blob_names_requests : forall cfg E h, BlobsOK E (fst (run_hist cfg E init_state h)).
Proof. exact blobs_ok_reachable. Qed.
Print Assumptions C10_blob_names_requests.

(* ... and collections, ageing and restarts at any point keep it so *)
Theorem C10_blob_names_gc : forall cfg pol E s g, BlobsOK E s -> BlobsOK E (fst (gstep cfg pol E s g)).
Proof. exact gstep_blobs_ok. Qed.
Print Assumptions C10_blob_names_gc.

(* closing and re-opening a directory store keeps, for every repository, the blobs, the top-level entries of
   index.json and the conversion mark *)
Theorem C10_restart_keeps_disk : forall cfg E s r,
  c_kind cfg = KDir -> same_disk cfg r s (fst (step cfg E s QRestart)).
Proof. exact restart_same_disk. Qed.
Print Assumptions C10_restart_keeps_disk.

(* hence the same answers: blobs, tag listings (every n / last), manifests by tag and by any digest listed in index.json *)
Theorem C10_reopen_blob_get : forall cfg E r arg range s s',
  same_disk cfg r s s' ->
  snd (run cfg E (h_blob_get E r arg range) s') = snd (run cfg E (h_blob_get E r arg range) s).
Proof. exact blob_get_same_disk. Qed.
Theorem C10_reopen_tag_list : forall cfg E r n last s s',
  same_disk cfg r s s' ->
  snd (run cfg E (h_tag_list r n last) s') = snd (run cfg E (h_tag_list r n last) s).
Proof. exact tag_list_same_disk. Qed.
Theorem C10_reopen_manifest_get : forall cfg E r arg accept range s s',
  same_disk cfg r s s' -> resolves_top arg (r_index (get_repo cfg r s)) = true ->
  snd (run cfg E (h_manifest_get E r arg accept range) s') = snd (run cfg E (h_manifest_get E r arg accept range) s).
Proof. exact manifest_get_same_disk. Qed.
Print Assumptions C10_reopen_manifest_get.

(* unique tags: every index.json the model can produce - through any requests, collections, ageing and restarts - holds
   each tag on at most one entry *)
Theorem C10_tags_unique_requests : forall cfg E h, IdxOK (fst (run_hist cfg E init_state h)).
Proof. exact idx_ok_reachable. Qed.
Theorem C10_tags_unique_gc : forall cfg pol E s g, IdxOK s -> IdxOK (fst (gstep cfg pol E s g)).
Proof. exact gstep_idx_ok. Qed.
Print Assumptions C10_tags_unique_gc.

(* memory store = directory store: a client request all of whose store actions are neutral (the repository names are ones the
   directory store accepts; no upload is closed with a digest mismatch) gets the same answer and leaves the same state on both *)
Theorem C10_store_type_indifferent : forall cfg E s q,
  match q with QRestart => False | _ => True end ->
  neutral_run cfg E (handler cfg E q) s ->
  step (with_kind KMem cfg) E s q = step (with_kind KDir cfg) E s q.
Proof. exact request_kind_indifferent. Qed.
Print Assumptions C10_store_type_indifferent.

(* non-vacuity: a tag listing on repository "a" is such a request in every state *)
Example C10_neutral_example : forall cfg E s, neutral_run cfg E (handler cfg E (QTagList "a" "" "")) s.
Proof. intros. simpl. repeat split. Qed.

(* the derived part of the state - the in-memory list of child manifests that index.json does not record - only ever holds
   descriptors listed under a manifest media type, through any requests, collections, ageing and restarts: a descriptor under
   which an index lists a digest as a plain blob never becomes (or shadows) the child entry of a manifest, neither when the
   index is pushed nor when the directory is read again (finding C05-F50, repaired) *)
Theorem C10_child_entries_are_manifests_requests : forall cfg E h, ChildOK (fst (run_hist cfg E init_state h)).
Proof. exact child_ok_reachable. Qed.
Theorem C10_child_entries_are_manifests_gc : forall cfg pol E s g, ChildOK s -> ChildOK (fst (gstep cfg pol E s g)).
Proof. exact gstep_child_ok. Qed.
Theorem C10_reopen_child_entries_are_manifests : forall E rp, repo_child_ok (reload_repo E rp).
Proof. exact reload_child_ok. Qed.
Theorem C10_push_skips_blob_descriptors : forall d cs i i' c,
  add_desc d cs i = Ok i' -> In c (child i') -> manifest_mt (d_mt c) = false -> In c (child i).
Proof. exact add_desc_skips_blob_descriptors. Qed.
Print Assumptions C10_child_entries_are_manifests_gc.
Print Assumptions C10_push_skips_blob_descriptors.
