(* ConcAtomic.v — how often a request changes the index of its repository (C11: what another client can see of a request in
   flight).  A request is a sequence of atomic store actions; only IndexInsert / IndexRemove change an index, every other
   action leaves every index as it is.  A request that performs at most ONE index write on every path is atomic for everything
   that is read through the index (tags, manifests by tag or digest, referrers): whatever the schedule, other clients see the
   index before it or after it.  This is proved for every request except pushes and deletes by digest of manifests with a
   subject when the referrers API is on, which write twice - the entry, then the referrers response (finding F53: the state
   between the two writes is observable) - and never more than twice. *)
From Olareg Require Import Base Index Reg RegProofs Conc.
Local Open Scope list_scope.

Definition is_iw (a : act) : bool :=
  match a with AIndexInsert _ _ _ | AIndexRemove _ _ => true | _ => false end.

(* at most n index writes on every path *)
Inductive IW : nat -> prog -> Prop :=
| IW_ret n r : IW n (Ret r)
| IW_read n a k : is_iw a = false -> (forall x, IW n (k x)) -> IW n (Do a k)
| IW_write n a k : is_iw a = true -> (forall x, IW n (k x)) -> IW (S n) (Do a k).

Lemma IW_weaken n p : IW n p -> IW (S n) p.
Proof.
  induction 1 as [n r|n a k Ha Hk IH|n a k Ha Hk IH].
  - constructor.
  - apply IW_read; auto.
  - apply IW_write; auto.
Qed.

(* ---- semantics: the number of index writes of a run, and what the other actions leave alone ------------------------------ *)
Fixpoint iw_run (cfg : config) (E : env) (p : prog) (s : state) : nat :=
  match p with
  | Ret _ => 0
  | Do a k => let (s', x) := exec_act cfg E a s in (if is_iw a then 1 else 0) + iw_run cfg E (k x) s'
  end.

Theorem IW_bound cfg E n p : IW n p -> forall s, (iw_run cfg E p s <= n)%nat.
Proof.
  induction 1 as [n r|n a k Ha Hk IH|n a k Ha Hk IH]; intros s; cbn [iw_run].
  - lia.
  - destruct (exec_act cfg E a s) as [s' x]. rewrite Ha. specialize (IH x s'). simpl. lia.
  - destruct (exec_act cfg E a s) as [s' x]. rewrite Ha. specialize (IH x s'). simpl. lia.
Qed.

Lemma r_index_get_repo_assoc_set cfg r r' rp s :
  r_index rp = r_index (get_repo cfg r s) ->
  r_index (get_repo cfg r' (set_repo r rp s)) = r_index (get_repo cfg r' s).
Proof.
  intros H. destruct (string_dec r r') as [->|Hn].
  - rewrite get_repo_set_same. exact H.
  - rewrite get_repo_set_other by auto. reflexivity.
Qed.

(* an action that is not an index write leaves the index of every repository as it is *)
Theorem other_actions_keep_indexes cfg E a s r' :
  is_iw a = false ->
  r_index (get_repo cfg r' (fst (exec_act cfg E a s))) = r_index (get_repo cfg r' s).
Proof.
  intros Ha. destruct a; try discriminate; cbn [exec_act];
    repeat match goal with
           | |- context [if ?b then _ else _] => destruct b
           | |- context [match ?x with _ => _ end] => destruct x
           end; cbn [fst]; auto;
    try (apply r_index_get_repo_assoc_set; reflexivity).
  all: try (change (mkSt (assoc_set ?r ?rp (st_repos ?s0)) ?n ?t) with (set_repo r rp s0)).
  all: try (unfold get_repo; cbn [st_repos];
            match goal with |- context [assoc_set ?r ?v ?l] =>
              destruct (string_dec r r') as [->|Hn]; [rewrite assoc_set_same|rewrite assoc_set_other by auto]; reflexivity end).
Qed.

(* what another client can see of the index of repository r' while the request runs: the index after each action *)
Fixpoint idx_trace (cfg : config) (E : env) (r' : string) (p : prog) (s : state) : list index :=
  match p with
  | Ret _ => []
  | Do a k => let (s', x) := exec_act cfg E a s in r_index (get_repo cfg r' s') :: idx_trace cfg E r' (k x) s'
  end.

(* the trace stays at [cur] and moves on through [vals], in order *)
Inductive follows : index -> list index -> list index -> Prop :=
| F_end cur vals : follows cur vals []
| F_stay cur vals t : follows cur vals t -> follows cur vals (cur :: t)
| F_move cur v vals t : follows v vals t -> follows cur (v :: vals) (v :: t).

Theorem IW_trace cfg E r' n p : IW n p -> forall s,
  exists vals, (List.length vals <= n)%nat /\ follows (r_index (get_repo cfg r' s)) vals (idx_trace cfg E r' p s).
Proof.
  induction 1 as [n r|n a k Ha Hk IH|n a k Ha Hk IH]; intros s; cbn [idx_trace].
  - exists []. split; [simpl; lia|constructor].
  - pose proof (other_actions_keep_indexes cfg E a s r' Ha) as Hkeep.
    destruct (exec_act cfg E a s) as [s' x]. cbn [fst] in Hkeep.
    destruct (IH x s') as [vals [Hl Hf]]. exists vals. split; auto.
    rewrite Hkeep in *. apply F_stay. exact Hf.
  - destruct (exec_act cfg E a s) as [s' x].
    destruct (IH x s') as [vals [Hl Hf]]. exists (r_index (get_repo cfg r' s') :: vals). split; [simpl; lia|].
    apply F_move. exact Hf.
Qed.

(* one write at most: every index another client can see while the request runs is the one before it or the one after it,
   and once the new one was seen the old one is not seen again *)
Corollary IW_one_is_atomic cfg E r' p s :
  IW 1 p -> exists v, follows (r_index (get_repo cfg r' s)) [v] (idx_trace cfg E r' p s) \/ follows (r_index (get_repo cfg r' s)) [] (idx_trace cfg E r' p s).
Proof.
  intros H. destruct (IW_trace cfg E r' 1 p H s) as [vals [Hl Hf]].
  destruct vals as [|v [|w rest]]; simpl in Hl; try lia.
  - exists (r_index (get_repo cfg r' s)). right. exact Hf.
  - exists v. left. exact Hf.
Qed.

(* ---- the handlers ------------------------------------------------------------------------------------------------------- *)
Ltac iw_step :=
  match goal with
  | |- IW _ (Ret _) => apply IW_ret
  | |- IW _ (if ?b then _ else _) => destruct b
  | |- IW _ (match ?x with _ => _ end) => destruct x
  | |- IW _ (Do ?a _) => first [apply IW_read; [reflexivity|intros ?] | apply IW_write; [reflexivity|intros ?]]
  end.
Ltac iw := repeat iw_step.

Lemma IW_with_repo n r k : IW n k -> IW n (with_repo r k).
Proof. intros H. unfold with_repo. apply IW_read; [reflexivity|]. intros x. destruct x; try exact H. destruct e; try apply IW_ret; exact H. Qed.

Lemma IW_check_blobs n r : forall ds m k, (forall m', IW n (k m')) -> IW n (check_blobs r ds m k).
Proof.
  induction ds as [|d rest IH]; intros m k Hk; cbn [check_blobs]; auto.
  apply IW_read; [reflexivity|]. intros x. destruct x; apply IH; auto.
Qed.

Lemma IW_referrer_store n r subject ri k_ok k_err : IW n k_ok -> IW n k_err -> IW (S n) (referrer_store r subject ri k_ok k_err).
Proof.
  intros Ho He. unfold referrer_store. destruct ri; try (apply IW_weaken; exact He).
  apply IW_read; [reflexivity|]. intros c. destruct c; try (apply IW_weaken; exact He).
  apply IW_write; [reflexivity|]. intros y. destruct y; auto.
Qed.

Lemma IW_referrer_add n E r subject d k_ok k_err : IW n k_ok -> IW n k_err -> IW (S n) (referrer_add E r subject d k_ok k_err).
Proof.
  intros Ho He. unfold referrer_add. apply IW_read; [reflexivity|]. intros x.
  destruct x; try (apply IW_weaken; exact He).
  destruct (get_by_annotation RefSubject subject i).
  - apply IW_read; [reflexivity|]. intros b. destruct b; try (apply IW_referrer_store; auto).
    destruct (j_ok_i (blob_view E b)); apply IW_referrer_store; auto.
  - apply IW_referrer_store; auto.
Qed.

Lemma IW_referrer_delete n E r subject d k : IW n k -> IW (S n) (referrer_delete E r subject d k).
Proof.
  intros Hk. unfold referrer_delete. apply IW_read; [reflexivity|]. intros x.
  destruct x; try (apply IW_weaken; exact Hk).
  destruct (get_by_annotation RefSubject subject i); [|apply IW_weaken; exact Hk].
  apply IW_read; [reflexivity|]. intros b. destruct b; try (apply IW_weaken; exact Hk).
  destruct (j_ok_i (blob_view E b)); [|apply IW_weaken; exact Hk].
  apply IW_referrer_store; auto.
Qed.

(* the commit part of a manifest push: one write without a subject, two with one *)
Lemma IW_mp_commit_plain E r tag mt d alg body children : IW 1 (mp_commit E r tag mt d alg body children None).
Proof. unfold mp_commit. iw. Qed.

Lemma IW_mp_commit_subject E r tag mt d alg body children sj : IW 2 (mp_commit E r tag mt d alg body children (Some sj)).
Proof.
  unfold mp_commit. destruct sj as [sdig rd].
  repeat match goal with
         | |- IW _ (Ret _) => apply IW_ret
         | |- IW _ (referrer_add _ _ _ _ _ _) => apply IW_referrer_add; apply IW_ret
         | |- IW _ (if ?b then _ else _) => destruct b
         | |- IW _ (match ?x with _ => _ end) => destruct x
         | |- IW _ (Do ?a _) => first [apply IW_read; [reflexivity|intros ?] | apply IW_write; [reflexivity|intros ?]]
         end.
Qed.

(* pushes: two index writes at most; one when the manifest has no subject or the referrers API is off *)
Theorem manifest_put_writes_twice_at_most cfg E r arg ctype clen dq body : IW 2 (h_manifest_put cfg E r arg ctype clen dq body).
Proof.
  unfold h_manifest_put. destruct (c_readonly cfg); [apply IW_ret|]. apply IW_with_repo.
  repeat match goal with
         | |- IW _ (Ret _) => apply IW_ret
         | |- IW _ (check_blobs _ _ _ _) => apply IW_check_blobs; intros ?
         | |- IW _ (mp_commit _ _ _ _ _ _ _ _ ?sj) =>
             destruct sj eqn:?; [apply IW_mp_commit_subject | apply IW_weaken; apply IW_mp_commit_plain]
         | |- IW _ (if ?b then _ else _) => destruct b eqn:?
         end.
Qed.

Theorem manifest_put_plain_is_atomic cfg E r arg ctype clen dq body :
  c_referrer cfg = false \/ j_subject (e_view E body) = None ->
  IW 1 (h_manifest_put cfg E r arg ctype clen dq body).
Proof.
  intros Hs. unfold h_manifest_put. destruct (c_readonly cfg); [apply IW_ret|]. apply IW_with_repo.
  assert (Hsubj : forall mt d0, (if c_referrer cfg then
                      match j_subject (e_view E body) with
                      | Some sd => if String.eqb (d_dig sd) "" then None
                                   else Some (d_dig sd, mkD mt d0 (e_len E body) (j_ann (e_view E body))
                                                           (if mt_image mt && String.eqb (j_at (e_view E body)) ""
                                                            then match j_config (e_view E body) with Some c => d_mt c | None => "" end
                                                            else j_at (e_view E body)))
                      | None => None
                      end else None) = None \/
                     exists sd, j_subject (e_view E body) = Some sd /\ d_dig sd = "" /\ c_referrer cfg = true).
  { intros mt d0. destruct Hs as [Hs|Hs]; rewrite Hs; [left; reflexivity|]. left. destruct (c_referrer cfg); reflexivity. }
  repeat match goal with
         | |- IW _ (Ret _) => apply IW_ret
         | |- IW _ (check_blobs _ _ _ _) => apply IW_check_blobs; intros ?
         | |- IW _ (mp_commit _ _ _ _ _ _ _ _ ?sj) =>
             let H := fresh in
             assert (H : sj = None) by (destruct Hs as [Hs|Hs]; rewrite Hs; [reflexivity|destruct (c_referrer cfg); reflexivity]);
             rewrite H; apply IW_mp_commit_plain
         | |- IW _ (if ?b then _ else _) => destruct b eqn:?
         end.
Qed.

(* deletes: by tag one write; by digest two at most (the referrers response first, then the entry) *)
Theorem manifest_delete_writes_twice_at_most cfg E r arg : IW 2 (h_manifest_delete cfg E r arg).
Proof.
  unfold h_manifest_delete. destruct (c_readonly cfg); [apply IW_ret|]. apply IW_with_repo.
  apply IW_read; [reflexivity|]. intros x. destruct x; try apply IW_ret.
  destruct (get_desc arg i); [|apply IW_ret]. destruct (String.eqb (d_dig d) ""); [apply IW_ret|].
  assert (Hrm : IW 1 (Do (AIndexRemove r d) (fun y => match y with RUnit => Ret (rsp 202) | _ => Ret (rsp 500) end))).
  { apply IW_write; [reflexivity|]. intros y. destruct y; apply IW_ret. }
  destruct (c_referrer cfg && negb (is_tag arg)); [|apply IW_weaken; exact Hrm].
  apply IW_read; [reflexivity|]. intros b. destruct b; try (apply IW_weaken; exact Hrm).
  destruct b as [raw|lr]; try (apply IW_weaken; exact Hrm).
  destruct (referrer_desc E (e_view E raw) raw d) as [[subj rd]|]; [|apply IW_weaken; exact Hrm].
  apply IW_referrer_delete. exact Hrm.
Qed.

Theorem manifest_delete_by_tag_is_atomic cfg E r arg : is_tag arg = true -> IW 1 (h_manifest_delete cfg E r arg).
Proof.
  intros Ht. unfold h_manifest_delete. destruct (c_readonly cfg); [apply IW_ret|]. apply IW_with_repo.
  apply IW_read; [reflexivity|]. intros x. destruct x; try apply IW_ret.
  destruct (get_desc arg i); [|apply IW_ret]. destruct (String.eqb (d_dig d) ""); [apply IW_ret|].
  rewrite Ht. rewrite andb_false_r.
  apply IW_write; [reflexivity|]. intros y. destruct y; apply IW_ret.
Qed.

(* reads and the whole blob / upload side never write an index *)
Theorem reads_write_no_index E r arg acc rng n last filter :
  IW 0 (h_manifest_get E r arg acc rng) /\ IW 0 (h_tag_list r n last) /\ IW 0 (h_referrers E r arg filter) /\ IW 0 (h_blob_get E r arg rng).
Proof.
  repeat split.
  - unfold h_manifest_get, with_repo. iw.
  - unfold h_tag_list, with_repo. iw.
  - unfold h_referrers. iw.
  - unfold h_blob_get, with_repo. iw.
Qed.

Theorem blob_side_writes_no_index cfg E r sid cr dg st body m f fo dq aq arg :
  IW 0 (upload_patch E r sid cr st body) /\ IW 0 (upload_put E r sid cr dg st body) /\ IW 0 (upload_post cfg r m f fo dq aq body)
  /\ IW 0 (h_blob_delete cfg r arg) /\ IW 0 (h_upload_get E r sid) /\ IW 0 (h_upload_delete r sid).
Proof.
  repeat split.
  - unfold upload_patch, sess_prog, with_repo. iw.
  - unfold upload_put, sess_prog, with_repo. iw.
  - unfold upload_post, upload_mount, sess_prog, with_repo. iw.
  - unfold h_blob_delete, with_repo. iw.
  - unfold h_upload_get, sess_prog, with_repo. iw.
  - unfold h_upload_delete, sess_prog, with_repo. iw.
Qed.
