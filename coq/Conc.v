(* Conc.v — concurrent executions of request handlers: the handlers of Reg.v are programs over atomic store actions
   (each action is one critical section of the store: the repository mutex is held for its whole duration); several
   requests in flight = an interleaving of their actions chosen by a scheduler.  Results here hold for EVERY schedule. *)
From Olareg Require Import Base Index Reg RegProofs.
Local Open Scope list_scope.

(* the requests in flight: what is left of each handler, and the answers given so far *)
Record pool := mkPool { p_running : list prog; p_done : list resp }.

Fixpoint replace_nth {A} (n : nat) (x : A) (l : list A) : list A :=
  match n, l with
  | _, [] => []
  | 0, _ :: r => x :: r
  | S m, y :: r => y :: replace_nth m x r
  end.
Fixpoint remove_nth {A} (n : nat) (l : list A) : list A :=
  match n, l with
  | _, [] => []
  | 0, _ :: r => r
  | S m, y :: r => y :: remove_nth m r
  end.

(* the scheduler picks request number [n]: it performs its next atomic action, or delivers its answer *)
Definition cstep (cfg : config) (E : env) (n : nat) (sp : state * pool) : state * pool :=
  let (s, p) := sp in
  match nth_error (p_running p) n with
  | None => sp
  | Some (Ret r) => (s, mkPool (remove_nth n (p_running p)) (p_done p ++ [r]))
  | Some (Do a k) => let (s', x) := exec_act cfg E a s in (s', mkPool (replace_nth n (k x) (p_running p)) (p_done p))
  end.

Definition crun (cfg : config) (E : env) (sched : list nat) (sp : state * pool) : state * pool :=
  fold_left (fun sp n => cstep cfg E n sp) sched sp.

(* ---- every invariant of the atomic actions holds under every schedule ---------------------------------------- *)
Section ConcInv.
  Variables (cfg : config) (E : env).
  Variable Inv : state -> Prop.
  Hypothesis act_inv : forall a s, Inv s -> Inv (fst (exec_act cfg E a s)).

  Lemma cstep_inv n sp : Inv (fst sp) -> Inv (fst (cstep cfg E n sp)).
  Proof.
    destruct sp as [s p]. simpl. intros H. destruct (nth_error (p_running p) n) as [[r|a k]|]; simpl; auto.
    specialize (act_inv a s H). destruct (exec_act cfg E a s). exact act_inv.
  Qed.

  Theorem crun_inv sched : forall sp, Inv (fst sp) -> Inv (fst (crun cfg E sched sp)).
  Proof.
    unfold crun. induction sched as [|n r IH]; intros sp H; simpl; auto. apply IH. apply cstep_inv. exact H.
  Qed.
End ConcInv.

(* content addressing survives every interleaving of any requests *)
Theorem conc_blobs_ok cfg E sched sp : BlobsOK E (fst sp) -> BlobsOK E (fst (crun cfg E sched sp)).
Proof. apply crun_inv. intros a s. apply exec_act_blobs_ok. Qed.

(* ---- progress: the model has no blocking action, every request completes within its own length ----------------- *)
Fixpoint psize (cfg : config) (E : env) (p : prog) (s : state) : nat :=
  match p with
  | Ret _ => 1
  | Do a k => let (s', x) := exec_act cfg E a s in S (psize cfg E (k x) s')
  end.

(* a single request scheduled alone finishes with exactly the answer of the sequential semantics *)
Theorem alone_is_sequential cfg E p : forall s,
  crun cfg E (repeat 0 (psize cfg E p s)) (s, mkPool [p] []) = (fst (run cfg E p s), mkPool [] [snd (run cfg E p s)]).
Proof.
  induction p as [r|a k IH]; intros s.
  - reflexivity.
  - cbn [psize run]. destruct (exec_act cfg E a s) as [s' x] eqn:Ea.
    cbn [repeat]. unfold crun. cbn [fold_left]. unfold cstep at 2. cbn [nth_error p_running]. rewrite Ea.
    cbn [replace_nth p_done]. exact (IH x s').
Qed.

(* requests on different repositories: an action of one never changes the repository of the other *)
Theorem conc_frame cfg E a s r' : act_repo a <> r' \/ is_read a = true ->
  get_repo cfg r' (fst (exec_act cfg E a s)) = get_repo cfg r' s.
Proof.
  intros [H|H].
  - apply exec_act_frame. exact H.
  - rewrite (read_same cfg E a s H). reflexivity.
Qed.

(* ---- no lost update: tags pushed concurrently are all present, under every schedule ------------------------------- *)
(* Whatever the scheduler does, the store sees some sequence of atomic actions.  Take any such sequence in which the
   index of repository r is only modified by insertions of plain tagged descriptors (a tag, no referrers annotation,
   no children) with pairwise distinct tags: every inserted descriptor is in r's index at the end. *)
From Olareg Require Import IndexProofs IndexInv.

Definition exec_acts (cfg : config) (E : env) (acts : list act) (s : state) : state :=
  fold_left (fun s a => fst (exec_act cfg E a s)) acts s.

Definition plain_tagged (d : desc) : Prop := ann_get RefName d <> "" /\ ann_get RefSubject d = "".

(* an action that may change the index of r is one of the allowed insertions *)
Definition only_inserts (r : string) (D : list desc) (a : act) : Prop :=
  match a with
  | AIndexInsert r' d cs => r' = r -> In d D /\ cs = []
  | AIndexRemove r' _ => r' <> r
  | _ => True
  end.

Lemma exec_act_index_other cfg E a s r :
  (match a with AIndexInsert r' _ _ | AIndexRemove r' _ => r' <> r | _ => True end) ->
  r_index (get_repo cfg r (fst (exec_act cfg E a s))) = r_index (get_repo cfg r s).
Proof.
  intros Ha. destruct (String.eqb_spec (act_repo a) r) as [Heq|Hne].
  - destruct a; simpl in *; try contradiction;
      repeat match goal with
             | |- context [if ?b then _ else _] => destruct b eqn:?
             | |- context [match ?x with _ => _ end] => destruct x eqn:?
             end; simpl; auto; subst;
      try (unfold get_repo, set_repo; simpl; rewrite String.eqb_refl; reflexivity).
    all: try (unfold get_repo; simpl; rewrite String.eqb_refl; reflexivity).
  - rewrite exec_act_frame; auto.
Qed.

Theorem concurrent_tag_pushes_all_present cfg E r D :
  c_readonly cfg = false ->
  Forall plain_tagged D ->
  (forall d1 d2, In d1 D -> In d2 D -> ann_get RefName d1 = ann_get RefName d2 -> d1 = d2) ->
  forall acts s, Forall (only_inserts r D) acts ->
    forall d, In d D ->
      (In d (top (r_index (get_repo cfg r s))) \/ In (AIndexInsert r d []) acts) ->
      In d (top (r_index (get_repo cfg r (exec_acts cfg E acts s)))).
Proof.
  intros Hro HD Hdist. induction acts as [|a rest IH]; intros s Hok d Hd Hor.
  - simpl. destruct Hor as [H|[]]. exact H.
  - inversion Hok as [|? ? Ha Hrest]; subst. simpl. apply IH; auto.
    (* after the first action: d is present if it was, or if the action inserted it *)
    assert (Hkeep : In d (top (r_index (get_repo cfg r s))) -> In d (top (r_index (get_repo cfg r (fst (exec_act cfg E a s)))))).
    { intros Hin. destruct a; try (rewrite exec_act_index_other; [exact Hin|exact I]).
      - (* an insertion *)
        destruct (String.eqb_spec r0 r) as [->|Hne]; [|rewrite exec_act_index_other; auto].
        destruct (Ha eq_refl) as [Hd0 ->]. simpl. rewrite Hro.
        destruct (add_desc d0 [] (r_index (get_repo cfg r s))) as [i'| |] eqn:Ead; simpl; auto.
        unfold get_repo, set_repo. simpl. rewrite String.eqb_refl. simpl.
        destruct (string_dec (ann_get RefName d) (ann_get RefName d0)) as [Heq|Hneq].
        + rewrite (Hdist d d0 Hd Hd0 Heq). rewrite Forall_forall in HD. eapply add_desc_in; [apply (HD d0 Hd0)|exact Ead].
        + rewrite Forall_forall in HD. destruct (HD d Hd) as [Ht Hs].
          apply (add_desc_keeps_other_tags d0 [] _ i' d (ann_get RefName d) Ead Hin); auto.
          unfold holds, tag_of. apply String.eqb_refl.
      - rewrite exec_act_index_other; [exact Hin|]. simpl in Ha. exact Ha. }
    destruct Hor as [H|[H|H]].
    + left. apply Hkeep. exact H.
    + subst a. left. simpl. rewrite Hro.
      destruct (add_desc d [] (r_index (get_repo cfg r s))) as [i'| |] eqn:Ead.
      * simpl. unfold get_repo, set_repo. simpl. rewrite String.eqb_refl. simpl.
        rewrite Forall_forall in HD. eapply add_desc_in; [apply (HD d Hd)|exact Ead].
      * destruct (add_desc_total d [] (r_index (get_repo cfg r s))) as [x Hx]. congruence.
      * destruct (add_desc_total d [] (r_index (get_repo cfg r s))) as [x Hx]. congruence.
    + right. exact H.
Qed.
