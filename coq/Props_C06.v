(* Props_C06.v — collection removes the garbage and is not starved (model: GC.v). *)
From Olareg Require Import Base Index Reg RegProofs GC GCProofs GCTerm.
Local Open Scope list_scope.

(* every blob that the mark phase did not reach and that the grace period does not protect is deleted *)
Theorem C06_unmarked_removed : forall pol now blobs seen inidx l st d,
  In d (map fst l) -> mem_str d seen = false ->
  (young pol now blobs d && negb (mem_str d inidx)) = false ->
  In d (snd (fold_left (sweep_blob pol now blobs seen inidx) l st)).
Proof. exact sweep_deletes_unseen. Qed.
Print Assumptions C06_unmarked_removed.

(* and only those: a deleted blob was unmarked and unprotected *)
Theorem C06_removed_only_garbage : forall pol now blobs seen inidx l st d,
  In d (snd (fold_left (sweep_blob pol now blobs seen inidx) l st)) ->
  In d (snd st) \/ (In d (map fst l) /\ mem_str d seen = false
                    /\ (young pol now blobs d && negb (mem_str d inidx)) = false).
Proof. exact sweep_deleted_spec. Qed.
Print Assumptions C06_removed_only_garbage.

(* the store-wide pass collects every repository on its own: the outcome for r does not depend on the
   presence, order or failure of the others *)
Theorem C06_pass_independent : forall cfg E pol now fails repos r,
  assoc r (gc_pass cfg E pol now fails repos)
  = option_map (fun rp => if fails r then rp else gc_one cfg E pol now rp) (assoc r repos).
Proof. exact gc_pass_independent. Qed.
Print Assumptions C06_pass_independent.

(* not starved by its own loop: the mark phase terminates for every index and every set of blobs - also for entries whose media
   type is not a manifest type and that name each other as referrers subject, the input on which the loop of repoGarbageCollect
   ran forever before the response of a subject was queued only once (finding C06-F54, repaired) *)
Theorem C06_mark_terminates : forall E pol now blobs i,
  mark E blobs (mark_fuel E blobs i) (fst (fst (phase1 pol now blobs i))) (snd (fst (phase1 pol now blobs i))) [] []
       (snd (phase1 pol now blobs i)) <> None.
Proof. exact mark_terminates. Qed.
Theorem C06_collection_total : forall E pol now blobs i, repo_gc E pol now blobs i <> None.
Proof. exact gc_total. Qed.
Print Assumptions C06_collection_total.
