(* Access.v — lockset discipline for the structures shared between goroutines, evaluated on the table of field accesses
   regenerated from the source (Gen_Access.v, harness/gofacts genAccess):
     a field of a shared structure that some method writes is only read or written while the structure's own mutex is
     held by the method itself (a conditional `if !locked { mu.Lock() }` counts as the method's lock statement).
   The held flag is simulated per method over the statements in source order: lock / unlock on the receiver's mutex,
   deferred unlocks hold to the end, goroutines started by the method hold nothing, closures called in place inherit. *)
From Olareg Require Import Base Sync.
Local Open Scope list_scope.

Definition type_of_key (k : string) : string :=
  (* "file:Type.method" -> "Type" *)
  let after := fix go (s : string) : string :=
                 match s with
                 | EmptyString => EmptyString
                 | String c r => if Ascii.eqb c ":" then r else go r
                 end in
  let t := after k in
  (fix upto (s : string) : string :=
     match s with
     | EmptyString => EmptyString
     | String c r => if Ascii.eqb c "." then EmptyString else String c (upto r)
     end) t.

Definition is_write (op : string) : bool := String.prefix "w " op.
Definition is_read (op : string) : bool := String.prefix "r " op.
Definition field_of (op : string) : string := substring 2 (String.length op - 2) op.

(* fields written by some method of the type *)
Definition written_fields (tbl : list (string * (bool * list string))) (ty : string) : list string :=
  List.concat (map (fun e => if String.eqb (type_of_key (fst e)) ty
                             then map field_of (filter is_write (snd (snd e))) else []) tbl).

Definition mem_s (x : string) (l : list string) : bool := existsb (String.eqb x) l.

(* a field that holds a wrapper over what another field holds (Gen_Access.gen_aliases: a MultiWriter over the session's buffer or
   file): what is written through the wrapper is written to the wrapped object - the wrapped field counts as written wherever the
   wrapper is (one step: wrappers of wrappers do not occur; the table says so if that changes) *)
Definition with_aliases (al : list (string * (string * string))) (ty : string) (w : list string) : list string :=
  w ++ List.concat (map (fun a => if String.eqb (fst a) ty && mem_s (fst (snd a)) w then [snd (snd a)] else []) al).

(* accesses that are deliberately lock-free, with the reason *)
(* methods that run before the structure is visible to another goroutine, or that every caller runs with the mutex held *)
Definition called_locked : list string := [
  (* the session's file handle is torn down by the cache callbacks: PrunePreFn holds the session's mutex around the age and
     count prune, Close / Cancel hold it around cache.Delete, dir.Close calls DeleteAll after the last request is gone *)
  "internal/store/dir.go:dirRepoUpload.delete";
  (* loads the index of a repository that mem.RepoGet has not published yet *)
  "internal/store/mem.go:memRepo.repoInit"].

Definition lockfree_ok : list (string * string) := [
  (* Server: the store pointer is set by New and cleared by Close / Shutdown, which the caller runs after the last request *)
  ("Server", "store");
  ("Server", "httpServer")].

Record asim := mkA { a_held : bool;
                     a_du : bool                          (* a deferred unlock of the receiver's mutex is registered in this frame *);
                     a_stack : list (bool * (bool * bool)) (* (is goroutine / deferred / leaving branch, (held, deferred unlock) outside) *);
                     a_bad : list string }.

(* Deferred calls run last-in-first-out when the function returns.  A deferred closure registered AFTER the deferred unlock runs
   before it - with the mutex, if the method holds it at its returns; one registered BEFORE the deferred unlock (or in a method
   that unlocks explicitly) runs after the mutex was released: its accesses are judged as made without the mutex. *)
Definition astep (ty : string) (written : list string) (s : asim) (op : string) : asim :=
  if String.eqb op "go{" then mkA false false ((true, (a_held s, a_du s)) :: a_stack s) (a_bad s)
  else if String.eqb op "defer func{" then mkA (a_du s) false ((true, (a_held s, a_du s)) :: a_stack s) (a_bad s)
  else if String.eqb op "func{" then mkA (a_held s) (a_du s) ((false, (a_held s, a_du s)) :: a_stack s) (a_bad s)
  else if String.eqb op "ifret{" then mkA (a_held s) (a_du s) ((true, (a_held s, a_du s)) :: a_stack s) (a_bad s)     (* a branch that leaves the function: restored at its end *)
  else if String.eqb op "}" then
    match a_stack s with
    | (true, (h, d)) :: r => mkA h d r (a_bad s)
    | (false, (_, d)) :: r => mkA (a_held s) d r (a_bad s)
    | [] => mkA (a_held s) (a_du s) [] (a_bad s ++ ["unbalanced"])
    end
  else if String.eqb op "lock" then mkA true (a_du s) (a_stack s) (a_bad s)
  else if String.eqb op "unlock" then mkA false (a_du s) (a_stack s) (a_bad s)
  else if String.eqb op "defer unlock" then mkA (a_held s) true (a_stack s) (a_bad s)
  else if (is_read op || is_write op) && mem_s (field_of op) written
          && negb (a_held s) && negb (existsb (fun a => String.eqb (fst a) ty && String.eqb (snd a) (field_of op)) lockfree_ok)
  then mkA (a_held s) (a_du s) (a_stack s) (a_bad s ++ [op])
  else s.

(* a method with a `locked` parameter is called both ways (the exported wrappers pass false): it gets no credit for its
   caller's lock; its own conditional `if !locked { mu.Lock() }` is the lock statement the simulation sees *)
Definition asim_fn (al : list (string * (string * string))) (tbl : list (string * (bool * list string))) (e : string * (bool * list string)) : list string :=
  let ty := type_of_key (fst e) in
  let written := with_aliases al ty (written_fields tbl ty) in
  let ops := snd (snd e) in
  if mem_s (fst e) called_locked then [] else
  a_bad (fold_left (astep ty written) ops (mkA false false [] [])).

Definition access_violations_al (al : list (string * (string * string))) (tbl : list (string * (bool * list string))) : list (string * string) :=
  List.concat (map (fun e => map (fun b => (fst e, b)) (asim_fn al tbl e)) tbl).

Definition access_violations (tbl : list (string * (bool * list string))) : list (string * string) := access_violations_al [] tbl.
