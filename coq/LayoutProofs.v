(* LayoutProofs.v — what re-opening a directory store keeps (C10): blobs, the top-level entries of index.json and the
   conversion mark survive a restart; the child list is rebuilt.  Reads that resolve in what survives answer the same. *)
From Olareg Require Import Base Index Reg RegProofs.
Local Open Scope list_scope.

(* two states agree on what is stored on disk for repository r *)
Definition same_disk (cfg : config) (r : string) (s s' : state) : Prop :=
  r_blobs (get_repo cfg r s') = r_blobs (get_repo cfg r s)
  /\ top (r_index (get_repo cfg r s')) = top (r_index (get_repo cfg r s))
  /\ r_conv (get_repo cfg r s') = r_conv (get_repo cfg r s).

Lemma assoc_map_snd {A B} (f : A -> B) name (l : list (string * A)) :
  assoc name (map (fun nr => (fst nr, f (snd nr))) l) = option_map f (assoc name l).
Proof.
  induction l as [|[k v] r IH]; simpl; auto. destruct (String.eqb name k); auto.
Qed.

Lemma reload_empty cfg E : reload_repo E (empty_repo cfg) = empty_repo cfg.
Proof. reflexivity. Qed.

Lemma get_repo_restart cfg E s r :
  c_kind cfg = KDir -> get_repo cfg r (fst (step cfg E s QRestart)) = reload_repo E (get_repo cfg r s).
Proof.
  intros Hk. unfold step. rewrite Hk. simpl. unfold get_repo. simpl. rewrite assoc_map_snd.
  destruct (assoc r (st_repos s)); simpl; auto.
Qed.

(* a restart of the directory store keeps the disk of every repository *)
Theorem restart_same_disk cfg E s r :
  c_kind cfg = KDir -> same_disk cfg r s (fst (step cfg E s QRestart)).
Proof.
  intros Hk. unfold same_disk. rewrite (get_repo_restart cfg E s r Hk). simpl. auto.
Qed.

(* ---- reads ------------------------------------------------------------------------------------------- *)
Theorem blob_get_same_disk cfg E r arg range s s' :
  same_disk cfg r s s' ->
  snd (run cfg E (h_blob_get E r arg range) s') = snd (run cfg E (h_blob_get E r arg range) s).
Proof.
  intros [Hb _]. unfold h_blob_get, with_repo. destruct (negb (dvalid arg)); [reflexivity|].
  simpl. destruct (repo_allowed cfg r); simpl; [|reflexivity].
  destruct (negb (dvalid' arg)); simpl; [reflexivity|]. rewrite Hb.
  destruct (assoc arg (r_blobs (get_repo cfg r s))); reflexivity.
Qed.

Lemma tag_all_top t c1 c2 lastq : tag_all (mkI t c1) lastq = tag_all (mkI t c2) lastq.
Proof. reflexivity. Qed.

Lemma tag_page_top i i' n lastq : top i' = top i -> tag_page i' n lastq = tag_page i n lastq.
Proof.
  intros H. unfold tag_page, tag_page_n, tag_all. rewrite H. reflexivity.
Qed.

Theorem tag_list_same_disk cfg E r n last s s' :
  same_disk cfg r s s' ->
  snd (run cfg E (h_tag_list r n last) s') = snd (run cfg E (h_tag_list r n last) s).
Proof.
  intros [_ [Ht _]]. unfold h_tag_list, with_repo. simpl. destruct (repo_allowed cfg r); simpl; [|reflexivity].
  rewrite (tag_page_top _ _ n last Ht).
  destruct (tag_page (r_index (get_repo cfg r s)) n last). reflexivity.
Qed.

(* a reference that resolves among the top-level entries: every tag, and every digest listed in index.json *)
Definition resolves_top (arg : string) (i : index) : bool :=
  is_tag arg || existsb (fun d => String.eqb (d_dig d) arg) (top i).

Lemma find_some_existsb {A} (p : A -> bool) l : existsb p l = true -> exists x, find p l = Some x.
Proof.
  induction l as [|x r IH]; simpl; [discriminate|]. destruct (p x); [eexists; reflexivity|]. exact IH.
Qed.

Lemma get_desc_top arg i i' :
  top i' = top i -> resolves_top arg i = true -> get_desc arg i' = get_desc arg i.
Proof.
  intros Ht Hr. unfold resolves_top in Hr. unfold get_desc. rewrite Ht.
  destruct (is_tag arg) eqn:Etag.
  - destruct (top i) eqn:E1; simpl.
    + destruct (child i'), (child i); reflexivity.
    + reflexivity.
  - simpl in Hr. destruct (find_some_existsb _ _ Hr) as [x Hx].
    destruct (top i) eqn:E1; [simpl in Hr; discriminate|].
    destruct (dvalid arg); [|reflexivity]. rewrite Hx. reflexivity.
Qed.

Theorem manifest_get_same_disk cfg E r arg accept range s s' :
  same_disk cfg r s s' -> resolves_top arg (r_index (get_repo cfg r s)) = true ->
  snd (run cfg E (h_manifest_get E r arg accept range) s') = snd (run cfg E (h_manifest_get E r arg accept range) s).
Proof.
  intros [Hb [Ht _]] Hr. unfold h_manifest_get, with_repo. simpl.
  destruct (repo_allowed cfg r); simpl; [|reflexivity].
  rewrite (get_desc_top arg _ _ Ht Hr).
  destruct (get_desc arg (r_index (get_repo cfg r s))) as [de|]; [|reflexivity].
  destruct (String.eqb (d_dig de) ""); [reflexivity|].
  assert (Hserve : forall d,
    snd (run cfg E (Do (ABlobGet r (d_dig d)) (fun b =>
           match b with
           | RBlob bb => Ret (mkResp (match range with Some _ => 206 | None => 200 end) [] (d_dig d) (d_mt d) (BoBlob bb range) "" "" "" "" false false)
           | RErr ENotFound => Ret (rerr 404 "MANIFEST_BLOB_UNKNOWN")
           | _ => Ret (rsp 500)
           end)) s') =
    snd (run cfg E (Do (ABlobGet r (d_dig d)) (fun b =>
           match b with
           | RBlob bb => Ret (mkResp (match range with Some _ => 206 | None => 200 end) [] (d_dig d) (d_mt d) (BoBlob bb range) "" "" "" "" false false)
           | RErr ENotFound => Ret (rerr 404 "MANIFEST_BLOB_UNKNOWN")
           | _ => Ret (rsp 500)
           end)) s)).
  { intros d. simpl. destruct (negb (dvalid' (d_dig d))); simpl; [reflexivity|]. rewrite Hb.
    destruct (assoc (d_dig d) (r_blobs (get_repo cfg r s))); reflexivity. }
  destruct (accepts (d_mt de) accept); [apply Hserve|].
  destruct accept as [|a0 al]; [reflexivity|].
  destruct (mt_index (d_mt de) && is_tag arg); [|reflexivity].
  simpl. destruct (negb (dvalid' (d_dig de))); simpl; [reflexivity|]. rewrite Hb.
  destruct (assoc (d_dig de) (r_blobs (get_repo cfg r s))) as [b|]; simpl; [|reflexivity].
  match goal with |- context [if ?c then Ret (rsp 500) else _] => destruct c; [reflexivity|] end.
  match goal with |- context [find ?f ?l] => destruct (find f l) as [d|]; [|reflexivity] end.
  apply Hserve.
Qed.

(* the handlers never look at the store type except through the name check and the restart: with a name both stores
   accept, a request is answered the same and leaves the same repositories *)
