(* LockOrder.v — the lock order across calls: a mutex is only acquired, directly or through any chain of calls, while mutexes
   of strictly lower rank are held.  The table of acquisitions, releases and calls per function (callees resolved by the Go type
   checker, interface calls to every implementing method) is REGENERATED from the source on every run (Gen_Locks.v,
   harness/gofacts genLocks); this file closes the acquisitions over the call graph and checks every acquisition and every call
   site against the ranks.  Together with Sync.no_lock_order_deadlock (ranks strictly increase along any wait-for chain) this
   excludes lock-order deadlocks between the server, the stores, the repositories, the upload sessions and the caches, except
   at the sites listed in [known_sites] (finding C12-F45).
   Conventions of the code that the check encodes:
     - `locked bool` parameters: inside `if !locked { ... }` the lock is taken only when the caller does not hold it; a call that
       passes `true` is made with the lock held (the simulation of a function with such a parameter starts, for locked = true,
       with its conditional locks held);
     - closures passed to a cache (PruneFn / PrunePreFn / PrunePostFn) run under that cache's mutex;
     - `go` statements start with nothing held; deferred unlocks hold to the end of the function. *)
From Olareg Require Import Base Sync.
Local Open Scope list_scope.

(* ---- events ---------------------------------------------------------------------------------------------------------- *)
Definition after_space (s : string) : string :=
  (fix go (s : string) : string :=
     match s with
     | EmptyString => EmptyString
     | String c r => if Ascii.eqb c " " then r else go r
     end) s.

Definition before_space (s : string) : string :=
  (fix go (s : string) : string :=
     match s with
     | EmptyString => EmptyString
     | String c r => if Ascii.eqb c " " then EmptyString else String c (go r)
     end) s.

Inductive ev :=
| ELock (cond : bool) (c : string)
| EUnlock (cond : bool) (c : string)
| EDeferUnlock (cond : bool) (c : string)
| ECall (callee flag : string)
| EOpen (kind : string)      (* go{ func{ defer func{ ifret{ *)
| EClose
| EOther.

Definition parse (s : string) : ev :=
  if String.eqb s "}" then EClose
  else if String.eqb s "go{" || String.eqb s "func{" || String.eqb s "defer func{" || String.eqb s "ifret{" then EOpen s
  else
    let k := before_space s in
    let r := after_space s in
    if String.eqb k "L" then ELock false r
    else if String.eqb k "cL" then ELock true r
    else if String.eqb k "U" then EUnlock false r
    else if String.eqb k "cU" then EUnlock true r
    else if String.eqb k "DU" then EDeferUnlock false r
    else if String.eqb k "cDU" then EDeferUnlock true r
    else if String.eqb k "C" || String.eqb k "DC" then ECall (before_space r) (after_space r)
    else EOther.

(* ---- ranks --------------------------------------------------------------------------------------------------------------- *)
(* classes are <struct type>.<field>; the ranks are those of Sync.v *)
Definition lrank (c : string) : option nat :=
  if String.eqb c "Server.mu" then Some 1
  else if String.eqb c "Server.referrerMu" then Some 2
  else if String.eqb c "dir.mu" || String.eqb c "mem.mu" then Some 3
  else if String.eqb c "dirRepoUpload.mu" || String.eqb c "memRepoUpload.mu" then Some 5
  else if String.eqb c "dirRepo.mu" || String.eqb c "memRepo.mu" then Some 6
  else if String.eqb c "Cache.mu@dir.repos" then Some 4                       (* the directory store's cache of open repositories *)
  else if String.eqb c "Cache.mu@dirRepo.uploads" || String.eqb c "Cache.mu@memRepo.uploads" then Some 7   (* sessions of a repository *)
  else if String.eqb c "Cache.mu" then Some 7                                 (* inside the cache package: the cache's own mutex *)
  else if String.eqb c "Cache.mu@Server.referrerCache" then Some 8
  else if String.eqb c "Cache.mu@Server.rateLimit" then Some 9
  else None.

(* calls on a cache name the instance (the field through which it is reached): "cache.Cache.Get@dirRepo.uploads" *)
Fixpoint before_at (s : string) : string :=
  match s with
  | EmptyString => EmptyString
  | String c r => if Ascii.eqb c "@" then EmptyString else String c (before_at r)
  end.
Fixpoint after_at (s : string) : string :=
  match s with
  | EmptyString => EmptyString
  | String c r => if Ascii.eqb c "@" then r else after_at r
  end.
Definition inst_class (inst c : string) : string :=
  if String.eqb c "Cache.mu" && negb (String.eqb inst "") && negb (String.eqb inst "?") then append "Cache.mu@" inst else c.

(* the two store implementations never share objects: a directory repository holds directory sessions, a memory repository
   memory sessions, and the `Repo` / `BlobCreator` values a store hands to the shared helpers (indexIngest, repoGarbageCollect)
   are its own.  Interface calls are resolved to the methods of both; an acquisition of the other family's mutex reached from a
   function that holds a mutex of one family is such an impossible resolution and is not counted. *)
Definition family (c : string) : nat :=
  if String.prefix "dir" c then 1 else if String.prefix "mem" c then 2 else 0.
Definition other_family (held : list string) (c : string) : bool :=
  negb (family c =? 0)%nat && existsb (fun h => negb (family h =? 0)%nat && negb (family h =? family c)%nat) held.

(* ---- the call graph ------------------------------------------------------------------------------------------------------ *)
Section Graph.
  Variable tbl : list (string * list string).
  Variable impls : list (string * list string).

  Fixpoint lookup (k : string) (l : list (string * list string)) : option (list string) :=
    match l with
    | [] => None
    | (k', v) :: r => if String.eqb k k' then Some v else lookup k r
    end.

  (* the functions a call event may reach *)
  Definition targets (callee : string) : list string :=
    if String.prefix "iface:" callee then match lookup callee impls with Some l => l | None => [] end
    else [before_at callee].

  Definition flag_of (flag : string) (mine : bool) : bool :=
    if String.eqb flag "T" then true else if String.eqb flag "P" then mine else false.

  (* the events of a function that run in its own goroutine frame: closures and go statements are skipped *)
  Fixpoint own_events (depth : nat) (l : list string) : list ev :=
    match l with
    | [] => []
    | s :: r =>
        match parse s with
        | EOpen k =>
            if String.eqb k "ifret{" then (if (depth =? 0)%nat then own_events depth r else own_events (S depth) r)
            else own_events (S depth) r
        | EClose => own_events (Nat.pred depth) r
        | e => if (depth =? 0)%nat then e :: own_events depth r else own_events depth r
        end
    end.

  (* ifret{ ... } bodies belong to the function's own frame: keep their events, drop only closure bodies *)
  Fixpoint own_events' (stack : list bool) (l : list string) : list ev :=
    (* stack: for every open brace, is it a closure (true) or an ifret block (false) *)
    match l with
    | [] => []
    | s :: r =>
        match parse s with
        | EOpen k => own_events' ((negb (String.eqb k "ifret{")) :: stack) r
        | EClose => own_events' (tl stack) r
        | e => if existsb (fun b => b) stack then own_events' stack r else e :: own_events' stack r
        end
    end.

  Definition add_class (c : string) (l : list string) : list string :=
    if existsb (String.eqb c) l then l else c :: l.

  (* classes a function may acquire, itself or through calls, when called with locked = [lk] *)
  Fixpoint acq (fuel : nat) (fn : string) (lk : bool) : list string :=
    match fuel with
    | 0 => []
    | S f =>
        match lookup fn tbl with
        | None => []
        | Some evs =>
            fold_left (fun acc e =>
                         match e with
                         | ELock cond c => if cond && lk then acc else add_class c acc
                         | ECall callee flag =>
                             fold_left (fun acc2 t => fold_left (fun a c => add_class (inst_class (after_at callee) c) a) (acq f t (flag_of flag lk)) acc2)
                                       (targets callee) acc
                         | _ => acc
                         end)
                      (own_events' [] evs) []
        end
    end.

  (* ---- simulation of one function ------------------------------------------------------------------------------------ *)
  Record lsim := mkL { lheld : list string; lstack : list (bool * list string); lbad : list (string * string) }.

  Definition below (held : list string) (c : string) : bool :=
    match lrank c with
    | None => false
    | Some rc => forallb (fun h => match lrank h with Some rh => (rh <? rc)%nat | None => false end) held
    end.

  Variable known_sites : list (string * string).
  Definition known (fn op : string) : bool :=
    existsb (fun a => String.eqb (fst a) fn && String.eqb (snd a) op) known_sites.

  Definition lstep (fuel : nat) (fn : string) (lk : bool) (creates_cache : option string) (s : lsim) (op : string) : lsim :=
    match parse op with
    | EOpen k =>
        if String.eqb k "ifret{" then mkL (lheld s) ((false, lheld s) :: lstack s) (lbad s)
        else if String.eqb k "func{" then mkL (match creates_cache with Some inst => [inst_class inst "Cache.mu"] | None => [] end) ((true, lheld s) :: lstack s) (lbad s)
        else mkL [] ((true, lheld s) :: lstack s) (lbad s)
    | EClose =>
        match lstack s with
        | (_, h) :: r => mkL h r (lbad s)
        | [] => mkL (lheld s) [] (lbad s ++ [(op, "unbalanced")])
        end
    | ELock cond c =>
        if cond && lk then s            (* the caller holds it *)
        else
          match lrank c with
          | None => mkL (lheld s) (lstack s) (lbad s ++ [(op, "unknown mutex")])
          | Some _ =>
              mkL (c :: lheld s) (lstack s)
                  (if below (lheld s) c || known fn op then lbad s else lbad s ++ [(op, "lock order")])
          end
    | EUnlock cond c => if cond && lk then s else mkL (remove_first c (lheld s)) (lstack s) (lbad s)
    | EDeferUnlock _ _ => s
    | ECall callee flag =>
        let cs := fold_left (fun a t => fold_left (fun a2 c => add_class (inst_class (after_at callee) c) a2) (acq fuel t (flag_of flag lk)) a) (targets callee) [] in
        let badc := filter (fun c => negb (below (lheld s) c) && negb (other_family (lheld s) c)) cs in
        match badc with
        | [] => s
        | c :: _ => if known fn op then s
                    else mkL (lheld s) (lstack s) (lbad s ++ [(op, append "lock order through the call: acquires " c)])
        end
    | EOther => s
    end.

  Definition cond_classes (evs : list string) : list string :=
    fold_left (fun a s => match parse s with ELock true c => add_class c a | _ => a end) evs [].

  Definition sim_fn (fuel : nat) (fn : string) (evs : list string) (lk : bool) : list (string * string) :=
    let creates := fold_left (fun a s => match a, parse s with
                                         | None, ECall c _ => if String.eqb (before_at c) "cache.New" then Some (after_at c) else None
                                         | _, _ => a
                                         end) evs None in
    lbad (fold_left (lstep fuel fn lk creates) evs (mkL (if lk then cond_classes evs else []) [] [])).

  Definition has_cond (evs : list string) : bool :=
    existsb (fun s => match parse s with ELock true _ => true | _ => false end) evs.

  Definition order_violations : list (string * (string * string)) :=
    let fuel := S (List.length tbl) in
    List.concat (map (fun fe =>
                        map (fun b => (fst fe, b))
                            (sim_fn fuel (fst fe) (snd fe) false
                             ++ (if has_cond (snd fe) then sim_fn fuel (fst fe) (snd fe) true else [])))
                     tbl).
End Graph.

(* The one site where the order is violated in the current code (finding C12-F45): the PrunePreFn of a directory repository's
   upload cache locks the session under the cache's mutex, while Close / Cancel of a session remove it from the cache (cache
   mutex) under the session's mutex.  Listed so that every other acquisition and call is still constrained. *)
Definition known_sites : list (string * string) := [("store.dir.RepoGet", "L dirRepoUpload.mu")].
