(* GateProofs.v — the gate protocol keeps its token and its count (see Gate.v). *)
From Olareg Require Import Base Gate.
Local Open Scope list_scope.
Local Open Scope nat_scope.

Lemma toks_upd : forall l i t t', nth_error l i = Some t -> toks (upd i t' l) + t_tok t = toks l + t_tok t'.
Proof.
  induction l as [|x r IH]; intros i t t' H; destruct i; simpl in *; try discriminate.
  - inversion H; subst. lia.
  - specialize (IH i t t' H). lia.
Qed.

Lemma hnds_upd : forall l i t t', nth_error l i = Some t -> hnds (upd i t' l) + t_hnd t = hnds l + t_hnd t'.
Proof.
  induction l as [|x r IH]; intros i t t' H; destruct i; simpl in *; try discriminate.
  - inversion H; subst. lia.
  - specialize (IH i t t' H). lia.
Qed.

Lemma toks_app l t : toks (l ++ [t]) = toks l + t_tok t.
Proof. induction l as [|x r IH]; simpl; lia. Qed.
Lemma hnds_app l t : hnds (l ++ [t]) = hnds l + t_hnd t.
Proof. induction l as [|x r IH]; simpl; lia. Qed.

Lemma hnds_ge : forall l i t, nth_error l i = Some t -> t_hnd t <= hnds l.
Proof.
  induction l as [|x r IH]; intros i t H; destruct i; simpl in *; try discriminate.
  - inversion H; subst. lia.
  - specialize (IH i t H). lia.
Qed.

Lemma toks_ge : forall l i t, nth_error l i = Some t -> t_tok t <= toks l.
Proof.
  induction l as [|x r IH]; intros i t H; destruct i; simpl in *; try discriminate.
  - inversion H; subst. lia.
  - specialize (IH i t H). lia.
Qed.

Lemma gstep_inv g g' : GateInv g -> gstep g g' -> GateInv g'.
Proof.
  intros [Ht Hc] Hs. unfold GateInv. destruct Hs as [g i t Hn Hp|g i t Hn Hp|g i t Hn Hp|g i t Hn Hp|g]; cbn [chan count thrs].
  - pose proof (toks_upd _ i t (mkT (S (t_tok t)) (t_hnd t)) Hn) as H1. pose proof (hnds_upd _ i t (mkT (S (t_tok t)) (t_hnd t)) Hn) as H2.
    cbn [t_tok t_hnd] in *. lia.
  - pose proof (toks_upd _ i t (mkT (t_tok t - 1) (t_hnd t)) Hn) as H1. pose proof (hnds_upd _ i t (mkT (t_tok t - 1) (t_hnd t)) Hn) as H2.
    cbn [t_tok t_hnd] in *. lia.
  - pose proof (toks_upd _ i t (mkT (t_tok t) (S (t_hnd t))) Hn) as H1. pose proof (hnds_upd _ i t (mkT (t_tok t) (S (t_hnd t))) Hn) as H2.
    cbn [t_tok t_hnd] in *. lia.
  - pose proof (toks_upd _ i t (mkT (t_tok t) (t_hnd t - 1)) Hn) as H1. pose proof (hnds_upd _ i t (mkT (t_tok t) (t_hnd t - 1)) Hn) as H2.
    pose proof (hnds_ge _ i t Hn) as H3. cbn [t_tok t_hnd] in *. lia.
  - rewrite toks_app, hnds_app. simpl. lia.
Qed.

(* every reachable state: exactly one token, in the channel or in one pocket; the count is the number of handles out *)
Theorem gate_inv_reachable g : greach g -> GateInv g.
Proof.
  induction 1 as [|g g' Hr IH Hs].
  - unfold GateInv. simpl. lia.
  - eapply gstep_inv; eauto.
Qed.

(* while one thread (a collection) has the token, no other thread can take it or count a reference: the count can only fall *)
Theorem gate_exclusive g i j ti tj :
  greach g -> nth_error (thrs g) i = Some ti -> nth_error (thrs g) j = Some tj -> i <> j -> 0 < t_tok ti ->
  t_tok tj = 0 /\ chan g = 0.
Proof.
  intros Hr Hi Hj Hne Hp. destruct (gate_inv_reachable g Hr) as [Ht _].
  assert (Hsum : forall l i j ti tj, nth_error l i = Some ti -> nth_error l j = Some tj -> i <> j -> t_tok ti + t_tok tj <= toks l).
  { clear. induction l as [|x r IH]; intros i j ti tj Hi Hj Hne; destruct i, j; simpl in *; try discriminate; try congruence.
    - inversion Hi; subst. pose proof (toks_ge r j tj Hj). lia.
    - inversion Hj; subst. pose proof (toks_ge r i ti Hi). lia.
    - assert (i <> j) by congruence. specialize (IH i j ti tj Hi Hj H). lia. }
  specialize (Hsum _ i j ti tj Hi Hj Hne). lia.
Qed.

(* with the token in a pocket the only enabled step that changes the count lowers it *)
Theorem gate_count_falls_under_collection g g' i ti :
  greach g -> nth_error (thrs g) i = Some ti -> 0 < t_tok ti -> gstep g g' ->
  count g' <= count g \/ (exists t', nth_error (thrs g') i = Some t' /\ t_hnd t' = S (t_hnd ti)).
Proof.
  intros Hr Hi Hp Hs. destruct Hs as [g k t Hn Hq|g k t Hn Hq|g k t Hn Hq|g k t Hn Hq|g]; cbn [chan count thrs]; try (left; lia).
  (* add: only the holder itself *)
  destruct (Nat.eq_dec k i) as [->|Hne].
  - right. rewrite Hi in Hn. inversion Hn; subst t. exists (mkT (t_tok ti) (S (t_hnd ti))). split; [|reflexivity].
    clear -Hi. revert i Hi. induction (thrs g) as [|x r IH]; intros i Hi; destruct i; simpl in *; try discriminate; auto.
  - exfalso. destruct (gate_exclusive g i k ti t Hr Hi Hn (fun e => Hne (eq_sym e)) Hp) as [H0 _]. lia.
Qed.

(* no thread inside RepoGet or a collection (nobody has a token in its pocket): the gate is open, the token is in the channel;
   and the count is zero exactly when every handle was released *)
Theorem gate_quiescent g : greach g -> toks (thrs g) = 0 -> chan g = 1.
Proof. intros Hr H0. destruct (gate_inv_reachable g Hr) as [Ht _]. lia. Qed.

Theorem gate_count_zero g : greach g -> (count g = 0 <-> hnds (thrs g) = 0).
Proof. intros Hr. destruct (gate_inv_reachable g Hr) as [_ Hc]. lia. Qed.

(* a lost token (a thread that leaves with it for good) closes the gate for ever: what G1 excludes *)
Example lost_token_blocks : forall g i t, greach g -> nth_error (thrs g) i = Some t -> 0 < t_tok t -> ~ (0 < chan g).
Proof.
  intros g i t Hr Hi Hp Hc. destruct (gate_inv_reachable g Hr) as [Ht _]. pose proof (toks_ge _ i t Hi). lia.
Qed.
