(* C18 — The repository index keeps its invariants under any insert/remove sequence.
   Property theorems only (each closed by [exact] of a lemma of IndexProofs.v),
   non-vacuity examples, regression witnesses of the repaired defects, and
   Print Assumptions.  Model: Index.v (types/manifest.go). *)
From Olareg Require Import IndexInv Base Index IndexProofs ChildPersist.
Local Open Scope list_scope.

(* every finite sequence of AddDesc / RmDesc / AddChildren, over any universe of
   digests, tags, subjects and annotation shapes, runs to completion: no slice
   index is out of range (Go panic) and the loops terminate (no OutOfFuel) *)
Theorem C18_no_panic : forall (ops : list iop) (i : index), exists i', apply_ops ops i = Ok i'.
Proof. exact apply_ops_total. Qed.

(* removing a digest removes every reference to it (top level and children) *)
Theorem C18_rm_digest_total : forall d i i',
    rm_tag_of d = "" -> d_dig d <> "" -> rm_desc d i = Ok i' ->
    Forall (fun e => d_dig e <> d_dig d) (top i') /\ Forall (fun e => d_dig e <> d_dig d) (child i').
Proof. exact rm_desc_digest_total. Qed.

(* removing a tag keeps the digest reachable *)
Theorem C18_untag_keeps : forall d i i',
    rm_tag_of d <> "" -> d_dig d <> "" -> rm_desc d i = Ok i' ->
    Exists (fun e => d_dig e = d_dig d) (top i) -> Exists (fun e => d_dig e = d_dig d) (top i').
Proof. exact rm_desc_untag_keeps. Qed.

(* lookup by digest succeeds exactly for digests present at top level or recorded
   as children (every valid digest string; it is never mistaken for a tag) *)
Theorem C18_lookup_iff : forall arg i,
    dvalid arg = true ->
    ((exists d, get_desc arg i = Some d)
     <-> (Exists (fun e => d_dig e = arg) (top i) \/ Exists (fun e => d_dig e = arg) (child i))).
Proof. intros arg i H. exact (get_desc_digest_iff arg i (dvalid_not_tag arg H) H). Qed.

(* ---- non-vacuity and regression witnesses (vm_compute on concrete histories) ---- *)
Definition dA := "sha256:aaaaaaaaaaaaaaaaaaaaaaaaaaaaaaaaaaaaaaaaaaaaaaaaaaaaaaaaaaaaaaaa".
Definition dM := "sha256:bbbbbbbbbbbbbbbbbbbbbbbbbbbbbbbbbbbbbbbbbbbbbbbbbbbbbbbbbbbbbbbb".
Definition mk (dg : string) (a : option amap) := mkD "application/vnd.oci.image.manifest.v1+json" dg 7 a "".
Definition tagged (dg t : string) := mk dg (Some [(RefName, t)]).
Definition tags_of (i : index) : list string :=
  filter nonempty (map (ann_get RefName) (top i)).
Definition run (ops : list iop) : option index :=
  match apply_ops ops empty_index with Ok i => Some i | _ => None end.

Example C18_hypotheses_satisfiable :
  dvalid dA = true /\ rm_tag_of (tagged dM "t1") <> "" /\ d_dig (tagged dM "t1") <> ""
  /\ exists i, run [OAdd (tagged dM "t1") []; OAdd (tagged dM "t2") []] = Some i
               /\ Exists (fun e => d_dig e = dM) (top i).
Proof.
  repeat split; try discriminate.
  eexists; split; [vm_compute; reflexivity|]. constructor. reflexivity.
Qed.

(* defect C18-F32 (repaired by "fix: Index.AddDesc reuses the entry already holding
   the tag"): push M under t1,t2; push A; delete t2; delete A; push M under t1 again.
   Before the repair the tag t1 was listed twice. *)
Example C18_regress_F32 :
  option_map tags_of
    (run [OAdd (mk dA None) []; OAdd (tagged dM "t1") []; OAdd (tagged dM "t2") [];
          ORm (tagged dM "t2"); ORm (mk dA None); OAdd (tagged dM "t1") []])
  = Some ["t1"].
Proof. vm_compute. reflexivity. Qed.

(* defect C18-F31: a child stays addressable when the top-level list is empty *)
Example C18_regress_F31 :
  option_map (fun i => match get_desc dA i with Some _ => true | None => false end)
    (run [OAddChildren [mk dA None]]) = Some true.
Proof. vm_compute. reflexivity. Qed.

(* defect C18-F23: a referrer annotation added on the digest keeps the tag *)
Example C18_regress_F23 :
  option_map (fun i => option_map d_dig (get_desc "t1" i))
    (run [OAdd (tagged dM "t1") []; OAdd (mk dM (Some [(RefSubject, dA)])) []]) = Some (Some dM).
Proof. vm_compute. reflexivity. Qed.

Print Assumptions C18_no_panic.
Print Assumptions C18_rm_digest_total.
Print Assumptions C18_untag_keeps.
Print Assumptions C18_lookup_iff.

(* I1: a tag is held by at most one top-level entry - for every sequence of AddDesc / RmDesc / AddChildren from the empty index *)
Theorem C18_tags_unique : forall ops i, apply_ops ops empty_index = Ok i -> unique (top i).
Proof. intros ops i H. exact (apply_ops_unique ops empty_index i unique_empty H). Qed.
Print Assumptions C18_tags_unique.

Theorem C18_add_unique : forall d cs i i', unique (top i) -> add_desc d cs i = Ok i' -> unique (top i').
Proof. exact add_desc_unique. Qed.
Theorem C18_rm_unique : forall d i i', unique (top i) -> rm_desc d i = Ok i' -> unique (top i').
Proof. exact rm_desc_unique. Qed.

(* "recorded as children" over histories: a digest handed to AddChildren is found by digest after ANY further sequence of
   insertions, removals and AddChildren that is not about that digest itself (an insertion of it at the top level, or its
   removal by digest): insertions and removals of other digests, removals by tag or subject alone and removals of a tag of it
   never take a recorded child away *)
Theorem C18_recorded_child_found : forall c cs ops i i',
  In c cs -> dvalid (d_dig c) = true ->
  apply_ops ops (add_children cs i) = Ok i' -> Forall (fun o => ~ op_about o (d_dig c)) ops ->
  get_desc (d_dig c) i' <> None.
Proof. exact recorded_child_found. Qed.
Print Assumptions C18_recorded_child_found.

Theorem C18_child_kept_by_other_ops : forall o i i' g,
  apply_op o i = Ok i' -> child_has g (child i) -> ~ op_about o g -> child_has g (child i').
Proof. exact op_child_keeps. Qed.

(* the children option of AddDesc (an index pushed with its children): every descriptor of the list that is listed as a manifest
   is, after the loop, at the top level or recorded as a child - whatever stands before it in the list (plain-blob entries,
   entries that were moved, entries already recorded) *)
Theorem C18_children_option_lists_every_manifest : forall cs i c,
  In c cs -> manifest_mt (d_mt c) = true -> listed (d_dig c) (add_move_children cs i).
Proof. exact children_option_lists_every_manifest. Qed.
Print Assumptions C18_children_option_lists_every_manifest.
