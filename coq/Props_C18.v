From Olareg Require Import Base Index.
Theorem placeholder : True. Proof. exact I. Qed.
