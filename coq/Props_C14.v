(* Props_C14.v — read-only stores and disabled APIs never change anything (API level). *)
From Olareg Require Import Base Index Reg RegProofs.
Local Open Scope list_scope.

Theorem C14_readonly_noop : forall cfg E s q,
  c_readonly cfg = true -> NoSessions s -> client_req q = true -> fst (step cfg E s q) = s.
Proof. exact readonly_noop. Qed.
Print Assumptions C14_readonly_noop.

Theorem C14_readonly_refused : forall cfg E s q,
  c_readonly cfg = true ->
  match q with
  | QBlobDelete _ _ | QUploadPost _ _ _ _ _ _ _ | QManifestPut _ _ _ _ _ _ | QManifestDelete _ _ =>
      let st := rs_status (snd (step cfg E s q)) in (400 <= st < 500)%Z
  | _ => True
  end.
Proof. exact readonly_refused. Qed.
Print Assumptions C14_readonly_refused.

Theorem C14_disabled_noop : forall cfg E s q,
  match q with
  | QUploadPost _ _ _ _ _ _ _ | QUploadPatch _ _ _ _ _ | QUploadPut _ _ _ _ _ _ | QUploadGet _ _
  | QUploadDelete _ _ | QManifestPut _ _ _ _ _ _ => c_push cfg = false
  | QManifestDelete _ _ => c_delete cfg = false
  | QBlobDelete _ _ => c_delete cfg && c_blobdelete cfg = false
  | _ => False
  end ->
  fst (step cfg E s q) = s /\ (400 <= rs_status (snd (step cfg E s q)) < 500)%Z.
Proof. exact disabled_noop. Qed.
Print Assumptions C14_disabled_noop.

Example C14_nonvacuous : NoSessions init_state /\ NoSessions (mkSt [("a", mkR [] empty_index true [])] 0 0).
Proof. split; intros r rp H; simpl in H; [discriminate|]. destruct (String.eqb r "a"); inversion H; reflexivity. Qed.
