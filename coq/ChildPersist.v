(* ChildPersist.v — a digest recorded as a child stays recorded until it is removed by digest or inserted at the top level
   (C18: "lookup by digest succeeds exactly for digests present at top level or recorded as children" over histories:
   nothing else - insertions and removals of other digests, removals by tag or by subject alone, further AddChildren -
   takes a recorded child away). *)
From Olareg Require Import Base Index IndexProofs IndexInv ChildInv.
From Coq Require Import Permutation.
Local Open Scope list_scope.

Definition child_has (g : string) (l : list desc) : Prop := exists x, In x l /\ d_dig x = g.

Lemma child_has_app_l g l r : child_has g l -> child_has g (l ++ r).
Proof. intros [x [H1 H2]]. exists x. split; auto. apply in_or_app. left. exact H1. Qed.

Lemma child_has_app_r g l r : child_has g r -> child_has g (l ++ r).
Proof. intros [x [H1 H2]]. exists x. split; auto. apply in_or_app. right. exact H1. Qed.

(* the child loop of RmDesc keeps every entry of another digest *)
Lemma rm_child_keeps dig g l s' l' :
  dig <> g -> bloop (rm_child_step dig) (List.length l) tt l = Ok (s', l') -> child_has g l -> child_has g l'.
Proof.
  intros Hne Hb Hc.
  pose (Inv := fun (_ : unit) (pre vis : list desc) => child_has g (pre ++ vis)).
  destruct (bloop_inv (rm_child_step dig) Inv) with (s:=tt) (l:=l) as [s2 [l2 [H1 H2]]].
  - intros s0 pre v v' Hp [x [Hx1 Hx2]]. exists x. split; auto.
    apply in_app_or in Hx1. apply in_or_app. destruct Hx1 as [Hx1|Hx1]; [left; exact Hx1|right; eapply Permutation_in; eauto].
  - intros s0 pre e vis [x [Hx1 Hx2]]. unfold rm_child_step.
    destruct (String.eqb_spec (d_dig e) dig) as [He|He].
    + exists x. split; auto. rewrite <- app_assoc in Hx1. apply in_app_or in Hx1. apply in_or_app.
      destruct Hx1 as [Hx1|[Hx1|Hx1]]; [left; exact Hx1| |right; exact Hx1].
      subst x. exfalso. apply Hne. rewrite <- He. exact Hx2.
    + exists x. split; auto. rewrite <- app_assoc in Hx1. exact Hx1.
  - unfold Inv. rewrite app_nil_r. exact Hc.
  - rewrite Hb in H1. inversion H1; subst. exact H2.
Qed.

Lemma rm_desc_child_keeps d i i' g :
  rm_desc d i = Ok i' -> child_has g (child i) -> (d_dig d <> g \/ rm_tag_of d <> "") -> child_has g (child i').
Proof.
  unfold rm_desc. intros H Hc Hd.
  destruct (String.eqb (rm_tag_of d) "" && nonempty (d_dig d)) eqn:Ec.
  - apply andb_true_iff in Ec. destruct Ec as [Et _]. apply String.eqb_eq in Et.
    destruct Hd as [Hd|Hd]; [|contradiction].
    destruct (bloop (rm_child_step (d_dig d)) (List.length (child i)) tt (child i)) as [[s1 ch]| |] eqn:Eb; simpl in H; try discriminate.
    destruct (bloop (rm_top_step (d_dig d) (rm_tag_of d) (rm_ref_of d)) (List.length (top i)) false (top i)) as [[s2 l2]| |]; simpl in H; try discriminate.
    inversion H; subst. cbn [child]. eapply rm_child_keeps; eauto.
  - simpl in H.
    destruct (bloop (rm_top_step (d_dig d) (rm_tag_of d) (rm_ref_of d)) (List.length (top i)) false (top i)) as [[s2 l2]| |]; simpl in H; try discriminate.
    inversion H; subst. exact Hc.
Qed.

(* the first loop of AddDesc only removes by digest + tag, or drops top-level entries: the child list is untouched *)
Lemma add_loop1_child_keeps dig tag ref g : forall fuel mi i i1,
  add_loop1 fuel mi dig tag ref i = Ok i1 -> child_has g (child i) -> child_has g (child i1).
Proof.
  induction fuel as [|fuel IH]; intros mi i i1 H Hc; simpl in H; [discriminate|].
  destruct (nth_error (top i) mi) as [e|]; [|discriminate].
  match type of H with context [rbind ?st _] => destruct st as [[i' mi']| |] eqn:Est end; simpl in H; try discriminate.
  assert (Hstep : child_has g (child i')).
  { destruct (sneq (d_dig e) dig && negb (ann_nil e)); [|inversion Est; subst; auto].
    destruct (nonempty tag && String.eqb (ann_get RefName e) tag) eqn:Et.
    - destruct (rm_desc _ i) as [i2| |] eqn:Er; simpl in Est; try discriminate. inversion Est; subst.
      eapply rm_desc_child_keeps; eauto. right.
      apply andb_true_iff in Et. destruct Et as [Et _].
      assert (Hrt : rm_tag_of (mkD (d_mt e) (d_dig e) (d_size e) (Some [(RefName, tag)]) "") = tag).
      { unfold rm_tag_of, ann_get. cbn [d_ann aget]. rewrite String.eqb_refl. reflexivity. }
      rewrite Hrt. intros E. subst tag. discriminate.
    - destruct (nonempty ref && String.eqb (ann_get RefSubject e) ref); inversion Est; subst; auto. }
  destruct mi' as [|p].
  - inversion H; subst. exact Hstep.
  - eapply IH; eauto.
Qed.

Lemma add_rm_child_keeps dig g ch : dig <> g -> child_has g ch -> child_has g (add_rm_child dig ch).
Proof.
  intros Hne [x [H1 H2]]. unfold add_rm_child.
  destruct (find_index (fun c => String.eqb (d_dig c) dig) ch) as [ci|] eqn:Ef; [|exists x; auto].
  destruct (find_index_some _ _ _ Ef) as [y [Hy1 Hy2]]. apply String.eqb_eq in Hy2.
  exists x. split; auto. apply (swap_remove_keeps _ _ x y H1 Hy1). intros ->. apply Hne. rewrite <- Hy2. exact H2.
Qed.

Lemma move_children_child_keeps g : forall cs i, child_has g (child i) -> child_has g (child (add_move_children cs i)).
Proof.
  induction cs as [|cd r IH]; intros i H; simpl; auto. apply IH.
  destruct (manifest_mt (d_mt cd)); simpl; [|exact H].
  destruct (find_index _ (top i)) as [mi|]; simpl.
  - apply child_has_app_l. exact H.
  - destruct (existsb _ (top i) || existsb _ (child i)); simpl; auto. apply child_has_app_l. exact H.
Qed.

Theorem add_desc_child_keeps d cs i i' g :
  add_desc d cs i = Ok i' -> child_has g (child i) -> d_dig d <> g -> child_has g (child i').
Proof.
  intros H Hc Hne. unfold add_desc in H.
  match type of H with context [rbind ?x _] => destruct x as [i1| |] eqn:E1 end; simpl in H; try discriminate.
  inversion H; subst i'; clear H. cbn [child].
  apply move_children_child_keeps. cbn [child]. apply add_rm_child_keeps; auto.
  destruct (nonempty (ann_get RefName d) || nonempty (ann_get RefSubject d)).
  - destruct (List.length (top i)) as [|p]; [inversion E1; subst; exact Hc|].
    eapply add_loop1_child_keeps; eauto.
  - inversion E1; subst. exact Hc.
Qed.

(* the digest an operation is about *)
Definition op_about (o : iop) (g : string) : Prop :=
  match o with
  | OAdd d _ => d_dig d = g
  | ORm d => d_dig d = g /\ rm_tag_of d = ""
  | OAddChildren _ => False
  end.

Theorem op_child_keeps o i i' g :
  apply_op o i = Ok i' -> child_has g (child i) -> ~ op_about o g -> child_has g (child i').
Proof.
  destruct o as [d cs|d|cs]; simpl; intros H Hc Hn.
  - eapply add_desc_child_keeps; eauto.
  - eapply rm_desc_child_keeps; eauto.
    destruct (String.eqb_spec (d_dig d) g) as [E|E]; [|left; exact E].
    right. intros Et. apply Hn. split; auto.
  - inversion H; subst. unfold add_children. cbn [child]. apply child_has_app_l. exact Hc.
Qed.

(* over histories: recorded by AddChildren, then any operations that are not about that digest: still recorded, hence found *)
Theorem ops_child_keeps g : forall ops i i',
  apply_ops ops i = Ok i' -> child_has g (child i) -> Forall (fun o => ~ op_about o g) ops -> child_has g (child i').
Proof.
  induction ops as [|o r IH]; intros i i' H Hc Hf; simpl in H.
  - inversion H; subst. exact Hc.
  - destruct (apply_op o i) as [i1| |] eqn:Eo; simpl in H; try discriminate.
    inversion Hf; subst. eapply IH; eauto. eapply op_child_keeps; eauto.
Qed.

Lemma child_has_found g i : dvalid g = true -> child_has g (child i) -> get_desc g i <> None.
Proof.
  intros Hv [x [H1 H2]]. unfold get_desc.
  destruct (top i) as [|t0 tr] eqn:Et; destruct (child i) as [|c0 cr] eqn:Ec; try (exfalso; exact H1).
  - rewrite (dvalid_not_tag g Hv), Hv. simpl find at 1. cbn iota.
    destruct (find (fun d => String.eqb (d_dig d) g) (c0 :: cr)) as [y|] eqn:Ef; [simpl; discriminate|].
    exfalso. apply (find_none _ _ Ef x) in H1. rewrite H2, String.eqb_refl in H1. discriminate.
  - rewrite (dvalid_not_tag g Hv), Hv.
    destruct (find (fun d => String.eqb (d_dig d) g) (t0 :: tr)) as [y|]; [discriminate|].
    destruct (find (fun d => String.eqb (d_dig d) g) (c0 :: cr)) as [y|] eqn:Ef; [simpl; discriminate|].
    exfalso. apply (find_none _ _ Ef x) in H1. rewrite H2, String.eqb_refl in H1. discriminate.
Qed.

Theorem recorded_child_found c cs ops i i' :
  In c cs -> dvalid (d_dig c) = true ->
  apply_ops ops (add_children cs i) = Ok i' -> Forall (fun o => ~ op_about o (d_dig c)) ops ->
  get_desc (d_dig c) i' <> None.
Proof.
  intros Hin Hv H Hf. apply child_has_found; auto.
  eapply ops_child_keeps; eauto. unfold add_children. cbn [child]. apply child_has_app_r. exists c. auto.
Qed.

(* ---- the children option of AddDesc: every descriptor listed as a manifest ends up listed, wherever it stands in the list ------ *)
Definition listed (g : string) (i : index) : Prop :=
  (exists m, In m (top i) /\ d_dig m = g) \/ child_has g (child i).

Definition move_child_step (cd : desc) (i : index) : index :=
  if negb (manifest_mt (d_mt cd)) then i else
  match find_index (fun m => String.eqb (d_dig m) (d_dig cd) && (ann_len m =? 0)%nat) (top i) with
  | Some mi => mkI (swap_remove mi (top i)) (child i ++ [cd])
  | None =>
      if existsb (fun m => String.eqb (d_dig m) (d_dig cd)) (top i)
         || existsb (fun c => String.eqb (d_dig c) (d_dig cd)) (child i)
      then i else mkI (top i) (child i ++ [cd])
  end.

Lemma add_move_children_step : forall cs i, add_move_children cs i = fold_left (fun a cd => move_child_step cd a) cs i.
Proof.
  induction cs as [|cd r IH]; intros i.
  - reflexivity.
  - cbn [add_move_children fold_left]. rewrite IH. unfold move_child_step. reflexivity.
Qed.

Lemma move_step_listed g cd i : listed g i -> listed g (move_child_step cd i).
Proof.
  intros H. unfold move_child_step. destruct (negb (manifest_mt (d_mt cd))); [exact H|].
  destruct (find_index _ (top i)) as [mi|] eqn:Ef.
  - destruct (find_index_some _ _ _ Ef) as [y [Hy1 Hy2]]. apply andb_true_iff in Hy2. destruct Hy2 as [Hy2 _]. apply String.eqb_eq in Hy2.
    destruct H as [[m [Hm1 Hm2]]|Hc].
    + destruct (string_dec (d_dig cd) g) as [Hg|Hg].
      * right. cbn [child]. apply child_has_app_r. exists cd. split; [left; reflexivity|exact Hg].
      * left. exists m. split; auto. cbn [top]. apply (swap_remove_keeps _ _ m y Hm1 Hy1). intros ->. apply Hg. rewrite <- Hy2. exact Hm2.
    + right. cbn [child]. apply child_has_app_l. exact Hc.
  - destruct (existsb _ (top i) || existsb _ (child i)); [exact H|].
    destruct H as [Hm|Hc]; [left; exact Hm|right; cbn [child]; apply child_has_app_l; exact Hc].
Qed.

Lemma move_step_lists_it cd i : manifest_mt (d_mt cd) = true -> listed (d_dig cd) (move_child_step cd i).
Proof.
  intros Hm. unfold move_child_step. rewrite Hm. cbn [negb].
  destruct (find_index _ (top i)) as [mi|] eqn:Ef.
  - right. cbn [child]. apply child_has_app_r. exists cd. split; [left; reflexivity|reflexivity].
  - destruct (existsb (fun m => String.eqb (d_dig m) (d_dig cd)) (top i)) eqn:Et; cbn [orb].
    + apply existsb_exists in Et. destruct Et as [m [H1 H2]]. apply String.eqb_eq in H2. left. exists m. auto.
    + destruct (existsb (fun c => String.eqb (d_dig c) (d_dig cd)) (child i)) eqn:Ec.
      * apply existsb_exists in Ec. destruct Ec as [c [H1 H2]]. apply String.eqb_eq in H2. right. exists c. auto.
      * right. cbn [child]. apply child_has_app_r. exists cd. split; [left; reflexivity|reflexivity].
Qed.

Theorem children_option_lists_every_manifest : forall cs i c,
  In c cs -> manifest_mt (d_mt c) = true -> listed (d_dig c) (add_move_children cs i).
Proof.
  intros cs i c Hin Hm. rewrite add_move_children_step. revert i.
  induction cs as [|cd r IH]; intros i; [destruct Hin|]. cbn [fold_left].
  destruct Hin as [->|Hin].
  - pose proof (move_step_lists_it c i Hm) as H0.
    assert (Hfold : forall l a, listed (d_dig c) a -> listed (d_dig c) (fold_left (fun a0 cd0 => move_child_step cd0 a0) l a)).
    { induction l as [|x l' IHl]; intros a Ha; simpl; auto. apply IHl. apply move_step_listed. exact Ha. }
    apply Hfold. exact H0.
  - apply IH. exact Hin.
Qed.
