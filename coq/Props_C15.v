(* Props_C15.v — any request gets a well-formed answer.  The routing table, the error table
   and the literals are REGENERATED from /repo's source on every run (Gen_*.v), so these
   obligations are re-checked against what the code says now. *)
From Olareg Require Import Base Index IndexProofs Reg Route Gen_Routes Gen_Errors Gen_Consts RouteProofs RegProofs.
Local Open Scope list_scope.

(* names accepted by the repository grammar have no empty, ".", ".." component and no component
   beginning with '_' *)
Theorem C15_grammar_components : forall s c,
  repo_ok s = true -> In c (split_on "/" "" s) -> c <> ".." /\ c <> "." /\ c <> "" /\ c <> "_uploads".
Proof. exact repo_ok_no_dotdot. Qed.
Print Assumptions C15_grammar_components.

(* whatever the method, path, switches: a handler is only ever reached with a repository name that
   passed the grammar (for every routing table whose handlers take match 0 from a repository wildcard) *)
Theorem C15_routes_grammar : forall routes dflt sw method els name args,
  forallb route_wf routes = true ->
  dispatch routes dflt sw method els = THandler name args ->
  forall r rest, args = r :: rest ->
  exists rt m, In rt routes /\ match_v2 els (rt_pats rt) = Some m /\
               (exists i, r = nth i m "" /\ (i = 0%nat -> r = "" \/ repo_ok r = true)).
Proof. exact dispatch_repo_grammar. Qed.
Print Assumptions C15_routes_grammar.

(* ... and the routing table of the current source is such a table *)
Theorem C15_current_routes_wf : forallb route_wf gen_routes = true.
Proof. exact gen_routes_wf. Qed.

(* every error constructor of the current source carries the registered OCI code of its condition *)
Theorem C15_error_codes : error_table_ok = true.
Proof. exact error_table. Qed.

(* the literals (repository / tag regular expressions, file names, annotation keys) in the current
   source are those the recognisers were written against *)
Theorem C15_literals : consts_ok = true.
Proof. exact consts_match. Qed.

(* the model's handlers never produce a Go runtime panic: every partial operation of the index
   algebra is total (IndexProofs) and the tag page slicing is guarded *)
Theorem C15_index_total : forall l i, exists i', apply_ops l i = Ok i'.
Proof. exact apply_ops_total. Qed.
Print Assumptions C15_index_total.
