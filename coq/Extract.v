(* Extraction of the executable model to OCaml for the correspondence runs.
   Directives used: ExtrOcamlBasic (bool, option, list, prod, unit, sumbool to
   native OCaml types) and ExtrOcamlString (ascii -> char, string -> char list).
   nat, Z, positive, N stay the extracted Coq inductives. No Extract Constant /
   Extract Inductive of our own. coqc is run in the output directory. *)
From Olareg Require Import Base Index Reg Route Gen_Routes Server GC Referrer Cache Config Gen_Config RateLimit Ingest.
Require Extraction.
Require Import ExtrOcamlBasic ExtrOcamlString.
Extraction Language OCaml.
Extraction "model.ml"
  apply_op get_desc get_by_annotation empty_index is_tag dvalid
  step run_hist init_state serve route_request gen_routes gen_default_status repo_ok path_els gstep split c_step new_cache
  set_defaults spec_defaults gen_defaults rl_serve rl_ip reopen ingest_repo reload_repo set_repo get_repo exec_act sess_digest.
