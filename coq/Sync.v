(* Sync.v — the lock discipline of the server, the stores and the cache, checked on the table of synchronisation
   statements REGENERATED from the source (Gen_Sync.v, harness/gofacts genSync), and why that discipline excludes
   lock-order deadlocks.
   Discipline:
     R1  no blocking wait (receive of a repository's collection token, WaitGroup.Wait, a call to gc / Shutdown / RepoGet) happens
         while a store-wide or server-wide mutex (Server.mu, Server.referrerMu, the store's mutex) is held, except at the sites
         listed in [allowed_waits];
     R2  a mutex is only acquired while mutexes of strictly lower rank are held
         (Server.mu < referrerMu < store.mu < upload.mu < repository.mu < cache.mu);
     R3  every lock expression that occurs is one of the known classes (a new mutex has to be ranked first);
     R5  no plain receive statement (outside a select) while any mutex is held;
     R6  no blocking wait inside a closure handed to a cache (it runs in the cache's critical section), except the site
         listed in [known_blocking_callbacks] (finding C12-F66).
   The held set is simulated per function over the statements in source order; closures (go, func literals) start with
   nothing held; deferred unlocks hold to the end of the function. *)
From Olareg Require Import Base.
Local Open Scope list_scope.

(* ---- string helpers ------------------------------------------------------------------------------------------ *)
Fixpoint ends_with (suf s : string) : bool :=
  if String.eqb suf s then true else
  match s with
  | EmptyString => false
  | String _ r => ends_with suf r
  end.

Fixpoint contains (sub s : string) : bool :=
  if String.prefix sub s then true else
  match s with
  | EmptyString => false
  | String _ r => contains sub r
  end.

Definition drop_suffix (n : nat) (s : string) : string := substring 0 (String.length s - n) s.

(* ---- classes and ranks ----------------------------------------------------------------------------------------- *)
(* lock expressions as they are written in the source, per file *)
Definition lock_classes : list ((string * string) * string) := [
  (("olareg.go", "s.mu"), "Server.mu");
  (("referrer.go", "s.referrerMu"), "Server.referrerMu");
  (("internal/store/dir.go", "d.mu"), "store.mu");
  (("internal/store/mem.go", "m.mu"), "store.mu");
  (("internal/store/dir.go", "dr.mu"), "repo.mu");
  (("internal/store/dir.go", "repo.mu"), "repo.mu");
  (("internal/store/dir.go", "dru.dr.mu"), "repo.mu");
  (("internal/store/mem.go", "mr.mu"), "repo.mu");
  (("internal/store/mem.go", "repo.mu"), "repo.mu");
  (("internal/store/mem.go", "mru.mr.mu"), "repo.mu");
  (("internal/store/dir.go", "dru.mu"), "upload.mu");
  (("internal/store/mem.go", "mru.mu"), "upload.mu");
  (("internal/cache/cache.go", "c.mu"), "cache.mu")].

Definition rank (c : string) : option nat :=
  if String.eqb c "Server.mu" then Some 1
  else if String.eqb c "Server.referrerMu" then Some 2
  else if String.eqb c "store.mu" then Some 3
  else if String.eqb c "upload.mu" then Some 5
  else if String.eqb c "repo.mu" then Some 6
  else if String.eqb c "cache.mu" then Some 7
  else None.

Definition global_class (c : string) : bool :=
  String.eqb c "Server.mu" || String.eqb c "Server.referrerMu" || String.eqb c "store.mu".

Fixpoint class_of (file expr : string) (l : list ((string * string) * string)) : option string :=
  match l with
  | [] => None
  | ((f, e), c) :: r => if String.eqb f file && String.eqb e expr then Some c else class_of file expr r
  end.

(* file of a table key "file:Func" *)
Fixpoint before_colon (s : string) : string :=
  match s with
  | EmptyString => EmptyString
  | String c r => if Ascii.eqb c ":" then EmptyString else String c (before_colon r)
  end.

(* ---- statements -------------------------------------------------------------------------------------------------- *)
Definition is_defer (s : string) : bool := String.prefix "defer " s.
Definition is_lock (s : string) : bool := negb (is_defer s) && ends_with ".Lock()" s.
Definition is_unlock (s : string) : bool := negb (is_defer s) && ends_with ".Unlock()" s.
Definition lock_expr (s : string) : string := drop_suffix 7 s.
Definition unlock_expr (s : string) : string := drop_suffix 9 s.

Definition is_blocking (s : string) : bool :=
  (contains "wgBlock" s && (String.prefix "<-" s || String.prefix "case <-" s))
  || ends_with ".wg.Wait()" s || String.eqb s "call gc" || String.eqb s "call Shutdown"
  (* obtaining a repository waits at its gate while a collection runs, and the collection waits for the requests that hold the
     repository - which may be waiting for the very mutex the caller holds (the referrers mutex is taken with a repository in hand) *)
  || String.eqb s "call RepoGet".

(* waits under a global mutex that are part of the design:
   - dir.Close keeps the store mutex while it waits for the requests in flight on each repository: new RepoGet calls
     queue on the mutex and are refused once they get it (the stop channel is closed first), and no handler asks for a
     second repository while it holds one;
   - Server.Shutdown closes the store under Server.mu after the HTTP server has stopped accepting requests *)
Definition allowed_waits : list (string * string) := [
  ("internal/store/dir.go:dir.Close", "repo.wg.Wait()")].

Definition allowed (fn op : string) : bool :=
  existsb (fun a => String.eqb (fst a) fn && String.eqb (snd a) op) allowed_waits.

(* R4  the closures handed to a cache (PruneFn / PrunePreFn / PrunePostFn) run under that cache's mutex when the age or
       count prune calls them: they are simulated with cache.mu held.
   One inversion is known and recorded as finding C12-F45: the upload cache of a directory repository locks the session
   (upload.mu) from PrunePreFn under cache.mu, while Close / Cancel of a session remove it from the cache (cache.mu)
   under upload.mu - an eviction racing the completion of the evicted session deadlocks.  It is listed here so that the
   discipline still constrains every other callback. *)
Definition known_inversions : list (string * string) := [
  ("internal/store/dir.go:dir.RepoGet", "dru.mu.Lock()")].

Definition known_inversion (fn op : string) : bool :=
  existsb (fun a => String.eqb (fst a) fn && String.eqb (snd a) op) known_inversions.

(* R6  a closure handed to a cache runs inside that cache's critical section: a blocking wait there stalls everybody who
       asks the cache for anything - for the repository cache of the directory store, every request to every repository,
       and that wait does not look at a context.
   One such wait is known and recorded as finding C12-F66: the PruneFn of the repository cache collects the repository it is
   about to drop (dirRepo.gc waits for the requests that hold the repository).  It is listed here so that the rule still
   constrains every other callback. *)
Definition known_blocking_callbacks : list (string * string) := [
  ("internal/store/dir.go:NewDir", "call gc")].

Definition known_blocking_callback (fn op : string) : bool :=
  existsb (fun a => String.eqb (fst a) fn && String.eqb (snd a) op) known_blocking_callbacks.

(* ---- simulation of one function -------------------------------------------------------------------------------- *)
Inductive frame := FBody | FClosure | FDeferred | FSelect | FIfRet.

Record sim := mkSim {
  held : list string;                    (* classes held in the current goroutine frame *)
  stack : list (frame * list string);    (* enclosing frames with the classes held there *)
  bad : list (string * string)           (* (statement, reason) *)
}.

Fixpoint remove_first (c : string) (l : list string) : list string :=
  match l with [] => [] | x :: r => if String.eqb x c then r else x :: remove_first c r end.

Definition in_deferred (s : sim) : bool :=
  existsb (fun fr => match fst fr with FDeferred => true | _ => false end) (stack s).

Definition sim_step (fn : string) (creates_cache : bool) (s : sim) (op : string) : sim :=
  let file := before_colon fn in
  if String.eqb op "go{" then mkSim [] ((FClosure, held s) :: stack s) (bad s)
  else if String.eqb op "func{" then mkSim (if creates_cache then ["cache.mu"] else []) ((FClosure, held s) :: stack s) (bad s)
  else if String.eqb op "defer func{" then mkSim [] ((FDeferred, held s) :: stack s) (bad s)
  else if String.eqb op "select{" then mkSim (held s) ((FSelect, held s) :: stack s) (bad s)
  else if String.eqb op "ifret{" then mkSim (held s) ((FIfRet, held s) :: stack s) (bad s)   (* a branch that leaves the function *)
  else if String.eqb op "}" then
    match stack s with
    | (FSelect, _) :: r => mkSim (held s) r (bad s)
    | (_, h) :: r => mkSim h r (bad s)
    | [] => mkSim (held s) [] (bad s ++ [(op, "unbalanced")])
    end
  else if in_deferred s then s           (* statements of a deferred closure run when the function returns *)
  else if is_lock op then
    match class_of file (lock_expr op) lock_classes with
    | None => mkSim (held s) (stack s) (bad s ++ [(op, "R3: unknown lock")])
    | Some c =>
        match rank c with
        | None => mkSim (held s) (stack s) (bad s ++ [(op, "R3: unranked lock")])
        | Some rc =>
            let ok := forallb (fun h => match rank h with Some rh => (rh <? rc)%nat | None => false end) (held s) in
            mkSim (c :: held s) (stack s) (if ok || known_inversion fn op then bad s else bad s ++ [(op, "R2: lock order")])
        end
    end
  else if is_unlock op then
    match class_of file (unlock_expr op) lock_classes with
    | None => mkSim (held s) (stack s) (bad s ++ [(op, "R3: unknown lock")])
    | Some c => mkSim (remove_first c (held s)) (stack s) (bad s)
    end
  else if is_blocking op then
    if existsb global_class (held s) && negb (allowed fn op)
    then mkSim (held s) (stack s) (bad s ++ [(op, "R1: blocking wait under a global mutex")])
    else if existsb (String.eqb "cache.mu") (held s) && negb (known_blocking_callback fn op)
    then mkSim (held s) (stack s) (bad s ++ [(op, "R6: blocking wait inside a cache's critical section")])
    else s
  else if String.prefix "<-" op then
    (* R5: a plain receive statement (not a case of a select) waits until somebody sends: never with a mutex held - nobody who
       needs that mutex can get to the send (a timer created with AfterFunc has no channel at all: such a receive never ends) *)
    match held s with
    | [] => s
    | _ => mkSim (held s) (stack s) (bad s ++ [(op, "R5: receives from a channel while holding a mutex")])
    end
  else s.

Definition sim_fn (fn : string) (ops : list string) : list (string * string) :=
  bad (fold_left (sim_step fn (existsb (String.eqb "call New") ops)) ops (mkSim [] [] [])).

Definition sync_violations (tbl : list (string * list string)) : list (string * (string * string)) :=
  List.concat (map (fun fo => map (fun b => (fst fo, b)) (sim_fn (fst fo) (snd fo))) tbl).

Definition sync_ok (tbl : list (string * list string)) : bool :=
  match sync_violations tbl with [] => true | _ => false end.

(* ---- why ranked acquisition excludes lock-order deadlock ------------------------------------------------------------ *)
(* A deadlock among mutexes is a cycle of threads, each holding a mutex the previous one waits for.  If every thread
   that waits for a mutex of rank r holds only mutexes of rank < r, ranks strictly increase along the cycle: impossible. *)
Record waiter := mkW { w_holds : nat; w_wants : nat }.     (* ranks of a mutex it holds and of the one it waits for *)

Definition disciplined (w : waiter) : Prop := (w_holds w < w_wants w)%nat.

(* a chain: each waiter wants what the next one holds *)
Fixpoint chain (first : waiter) (rest : list waiter) : Prop :=
  match rest with
  | [] => True
  | n :: r => w_wants first = w_holds n /\ chain n r
  end.

Fixpoint last_w (first : waiter) (rest : list waiter) : waiter :=
  match rest with [] => first | n :: r => last_w n r end.

Lemma chain_increases first rest :
  disciplined first -> Forall disciplined rest -> chain first rest ->
  (w_holds first < w_wants (last_w first rest))%nat.
Proof.
  revert first. induction rest as [|n r IH]; intros first Hf Hr Hc; simpl.
  - exact Hf.
  - inversion Hr as [|? ? Hn Hrr]; subst. destruct Hc as [He Hc].
    specialize (IH n Hn Hrr Hc). unfold disciplined in Hf. lia.
Qed.

(* no cycle: the last waiter cannot want what the first one holds *)
Theorem no_lock_order_deadlock first rest :
  disciplined first -> Forall disciplined rest -> chain first rest ->
  w_wants (last_w first rest) <> w_holds first.
Proof.
  intros Hf Hr Hc. pose proof (chain_increases first rest Hf Hr Hc). lia.
Qed.
