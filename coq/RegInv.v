(* RegInv.v — in every state reachable by client requests, every repository's index holds each tag at most once
   (the hypothesis TagsUnique of the listing theorems, TagProofs.v), and a pushed tag resolves to the pushed manifest. *)
From Olareg Require Import Base Index IndexProofs IndexInv Reg TagProofs RegProofs.
Local Open Scope list_scope.

Definition repo_idx_ok (rp : repo) : Prop := unique (top (r_index rp)).
Definition IdxOK (s : state) : Prop := forall r rp, assoc r (st_repos s) = Some rp -> repo_idx_ok rp.

Lemma get_repo_idx cfg r s : IdxOK s -> repo_idx_ok (get_repo cfg r s).
Proof.
  intros H. unfold get_repo. destruct (assoc r (st_repos s)) eqn:Er; [eapply H; eauto|].
  unfold repo_idx_ok. simpl. exact unique_empty.
Qed.

Lemma set_repo_idx r rp s : IdxOK s -> repo_idx_ok rp -> IdxOK (set_repo r rp s).
Proof.
  intros H Hr r' rp' Ha. unfold set_repo in Ha. simpl in Ha.
  apply assoc_set_cases in Ha. destruct Ha as [[-> ->]|[_ Ha]]; auto. eapply H; eauto.
Qed.

Lemma same_idx_ok rp rp' : r_index rp' = r_index rp -> repo_idx_ok rp -> repo_idx_ok rp'.
Proof. unfold repo_idx_ok. intros ->. auto. Qed.

Ltac same_idx := eapply same_idx_ok; [reflexivity|]; try assumption.

Lemma exec_act_idx_ok cfg E a s : IdxOK s -> IdxOK (fst (exec_act cfg E a s)).
Proof.
  intros H. pose proof (fun r => get_repo_idx cfg r s H) as Hg.
  destruct a; simpl;
    repeat match goal with
           | |- context [if ?b then _ else _] => destruct b eqn:?
           | |- context [match ?x with _ => _ end] => destruct x eqn:?
           end; simpl; auto;
    try (apply set_repo_idx; auto;
         first [ same_idx; apply Hg
               | unfold del_sess, put_blob, del_blob, put_sess; same_idx; apply Hg
               | unfold set_index, repo_idx_ok; simpl; eapply add_desc_unique; [apply Hg|eassumption]
               | unfold set_index, repo_idx_ok; simpl; eapply rm_desc_unique; [apply Hg|eassumption] ]).
  all: try (intros r' rp' Ha; simpl in Ha; apply assoc_set_cases in Ha;
            destruct Ha as [[-> ->]|[_ Ha]]; [unfold put_sess; same_idx; apply Hg | eapply H; eauto]).
Qed.

Lemma reload_idx_ok E rp : repo_idx_ok rp -> repo_idx_ok (reload_repo E rp).
Proof. unfold repo_idx_ok, reload_repo. simpl. auto. Qed.

Lemma step_idx_ok cfg E s q : IdxOK s -> IdxOK (fst (step cfg E s q)).
Proof.
  intros H. apply (step_inv cfg E IdxOK); auto.
  - intros; apply exec_act_idx_ok; auto.
  - intros s0 q0 H0. destruct q0 as [| | | | | | | | | | | |dt|rx|rx|]; auto; simpl.
    + destruct (assoc rx (st_repos s0)) as [rp0|] eqn:Er; simpl; auto.
      apply set_repo_idx; auto. unfold repo_idx_ok. simpl. eapply H0; eauto.
    + destruct (assoc rx (st_repos s0)) as [rp0|] eqn:Er; simpl; auto.
      apply set_repo_idx; auto. unfold repo_idx_ok. simpl. eapply H0; eauto.
    + destruct (c_kind cfg); simpl.
      * intros r0 rp0 Ha. simpl in Ha. discriminate.
      * intros r0 rp0 Ha. simpl in Ha. rewrite assoc_map_snd in Ha.
        destruct (assoc r0 (st_repos s0)) eqn:Er; simpl in Ha; [|discriminate].
        inversion Ha; subst. apply reload_idx_ok. eapply H0; eauto.
Qed.

Theorem idx_ok_reachable cfg E h : IdxOK (fst (run_hist cfg E init_state h)).
Proof.
  apply (hist_inv cfg E IdxOK).
  - intros; apply exec_act_idx_ok; auto.
  - intros s q H. pose proof (step_idx_ok cfg E s q H). destruct q; auto.
  - intros r rp Ha. simpl in Ha. discriminate.
Qed.

(* the form the listing theorems take as hypothesis *)
Theorem tags_unique_reachable cfg E h r :
  TagsUnique (r_index (get_repo cfg r (fst (run_hist cfg E init_state h)))).
Proof.
  unfold TagsUnique, tags_of. apply (unique_nodup (top _)).
  apply get_repo_idx. apply idx_ok_reachable.
Qed.
