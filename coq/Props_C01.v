(* Props_C01.v — served content always hashes to the digest it is served under.
   Statements only; proofs in RegProofs.v / RegProofs2.v.  Every theorem is for all
   environments E (hash function, JSON decoder): nothing is assumed about the hash. *)
From Olareg Require Import Base Index Reg RegProofs RegProofs2.
Local Open Scope list_scope.

(* In every state reachable from the empty registry by any history of requests (all upload
   protocols, algorithm changes, deletes, restarts, session expiry / eviction), every stored
   blob is stored under the digest the hash function gives for its own bytes. *)
Theorem C01_integrity : forall cfg E h, BlobsOK E (fst (run_hist cfg E init_state h)).
Proof. exact blobs_ok_reachable. Qed.
Print Assumptions C01_integrity.

(* one step preserves it from any state that satisfies it (pre-existing content included) *)
Theorem C01_step : forall cfg E s q, BlobsOK E s -> BlobsOK E (fst (step cfg E s q)).
Proof. exact step_blobs_ok. Qed.
Print Assumptions C01_step.

(* what the blob endpoint serves: the bytes hash to the digest in Docker-Content-Digest,
   which is the digest requested *)
Theorem C01_blob_served : forall cfg E r arg rng s s' o,
  BlobsOK E s -> run cfg E (h_blob_get E r arg rng) s = (s', o) ->
  s' = s /\ forall b g, rs_body o = BoBlob b g -> rs_digest o = arg /\ blob_ok E arg b.
Proof. exact blob_get_served. Qed.
Print Assumptions C01_blob_served.

(* what the manifest endpoint serves, by digest or by tag, with or without negotiation *)
Theorem C01_manifest_served : forall cfg E r arg acc rng s s' o,
  BlobsOK E s -> run cfg E (h_manifest_get E r arg acc rng) s = (s', o) ->
  s' = s /\ forall b g, rs_body o = BoBlob b g -> blob_ok E (rs_digest o) b.
Proof. exact manifest_get_served. Qed.
Print Assumptions C01_manifest_served.

(* a manifest push is acknowledged only if the declared digest is the digest of the body *)
Theorem C01_manifest_mismatch_refused : forall cfg E r arg ctype clen dq body s s' o,
  run cfg E (h_manifest_put cfg E r arg ctype clen dq body) s = (s', o) ->
  rs_status o = 201%Z -> mp_accept_cond cfg E r arg ctype clen dq body s.
Proof. exact manifest_put_accept_sound. Qed.
Print Assumptions C01_manifest_mismatch_refused.

Example C01_nonvacuous :
  let E := mkEnv (fun a b => (a ++ ":" ++ b)%string) (fun _ => jbad) (fun b => Z.of_nat (String.length b)) (fun _ b => b) in
  let s := mkSt [("a", mkR [("sha256:hello", mkB (BRaw "hello") 0)] empty_index true [])] 0 0 in
  BlobsOK E s.
Proof. intros E s r rp Ha d be Hd. simpl in Ha. destruct (String.eqb r "a"); inversion Ha; subst.
       simpl in Hd. destruct (String.eqb d "sha256:hello") eqn:Ed; inversion Hd; subst.
       apply String.eqb_eq in Ed. subst. simpl. exists "sha256". reflexivity. Qed.
