(* Route.v — request routing of Server.ServeHTTP (olareg.go:136-280): path cleaning,
   the v2 matcher with the repository grammar, and an interpreter of the routing table
   that harness/gofacts regenerates from the source (gen/Gen_Routes.v). *)
From Olareg Require Import Base.
Local Open Scope list_scope.

(* ---- repository grammar ------------------------------------------------------------------- *)
(* rePath = ^pathPart(/pathPart)*$  with  pathPart = [a-z0-9]+((\.|_|__|-+)[a-z0-9]+)*
   as a deterministic automaton over the characters of the name *)
Inductive rstate := RStart | RAlnum | RDot | RUnder1 | RUnder2 | RDash | RFail.

Definition is_alnum (c : ascii) : bool := is_lower c || is_digit c.

Definition rnext (q : rstate) (c : ascii) : rstate :=
  match q with
  | RStart => if is_alnum c then RAlnum else RFail
  | RAlnum =>
      if is_alnum c then RAlnum
      else if Ascii.eqb c "." then RDot
      else if Ascii.eqb c "_" then RUnder1
      else if Ascii.eqb c "-" then RDash
      else if Ascii.eqb c "/" then RStart
      else RFail
  | RDot | RUnder2 => if is_alnum c then RAlnum else RFail
  | RUnder1 => if is_alnum c then RAlnum else if Ascii.eqb c "_" then RUnder2 else RFail
  | RDash => if is_alnum c then RAlnum else if Ascii.eqb c "-" then RDash else RFail
  | RFail => RFail
  end.

Fixpoint rrun (q : rstate) (s : string) : rstate :=
  match s with
  | EmptyString => q
  | String c r => rrun (rnext q c) r
  end.

Definition repo_ok (s : string) : bool :=
  match rrun RStart s with RAlnum => true | _ => false end.

(* ---- path.Clean("/" + p), trim, split -------------------------------------------------------- *)
Fixpoint split_on (sep : ascii) (cur : string) (s : string) : list string :=
  match s with
  | EmptyString => [cur]
  | String c r => if Ascii.eqb c sep then cur :: split_on sep "" r
                  else split_on sep (cur ++ String c "")%string r
  end.

(* elements of the cleaned rooted path: empty and "." elements dropped, ".." pops (never above the root) *)
Fixpoint clean_els (acc : list string) (els : list string) : list string :=
  match els with
  | [] => rev acc
  | e :: r =>
      if String.eqb e "" || String.eqb e "." then clean_els acc r
      else if String.eqb e ".." then clean_els (tl acc) r
      else clean_els (e :: acc) r
  end.

Definition path_els (p : string) : list string :=
  match clean_els [] (split_on "/" "" p) with
  | [] => [""]          (* strings.Split("", "/") *)
  | l => l
  end.

(* ---- matchV2 ------------------------------------------------------------------------------------ *)
Inductive pat := PRepo | PAny | PLit (s : string).

Fixpoint join_slash (l : list string) : string :=
  match l with
  | [] => ""
  | [x] => x
  | x :: r => (x ++ "/" ++ join_slash r)%string
  end.

(* match the elements after "v2" against the patterns; PRepo takes everything but what the
   remaining patterns need (at least zero elements) *)
Fixpoint match_pats (els : list string) (ps : list pat) : option (list string) :=
  match ps with
  | [] => match els with [] => Some [] | _ => None end
  | PRepo :: rest =>
      let n := List.length els - List.length rest in
      if (List.length els <? List.length rest)%nat then None else
      match match_pats (skipn n els) rest with
      | Some m => Some (join_slash (firstn n els) :: m)
      | None => None
      end
  | PAny :: rest =>
      match els with
      | e :: r => match match_pats r rest with Some m => Some (e :: m) | None => None end
      | [] => None
      end
  | PLit s :: rest =>
      match els with
      | e :: r => if String.eqb e s then match_pats r rest else None
      | [] => None
      end
  end.

Definition has_repo (ps : list pat) : bool := existsb (fun p => match p with PRepo => true | _ => false end) ps.

Definition match_v2 (els : list string) (ps : list pat) : option (list string) :=
  match els with
  | v :: rest =>
      if negb (String.eqb v "v2") then None else
      if (List.length els <? List.length ps + 1)%nat then None else
      match match_pats rest ps with
      | Some m =>
          (* repoStr != "" && !rePath.MatchString(repoStr) *)
          if has_repo ps then
            match m with
            | r :: _ => if negb (String.eqb r "") && negb (repo_ok r) then None else Some m
            | [] => Some m
            end
          else Some m
      | None => None
      end
  | [] => None
  end.

(* ---- the routing table ---------------------------------------------------------------------------- *)
Inductive rcond :=
| CTrue
| CAnd (a b : rcond)
| COr (a b : rcond)
| CMethod (m : string)
| CConf (field : string)
| CMatchEq (i : nat) (v : string).

Inductive raction :=
| AHandler (name : string) (args : list nat)
| AStatus (code : Z).

Record route := mkRoute {
  rt_pats : list pat;
  rt_cond : rcond;
  rt_actions : list (rcond * raction)
}.

(* the five boolean switches the routing reads *)
Record switches := mkSw {
  sw_push : bool; sw_delete : bool; sw_blobdelete : bool; sw_referrer : bool
}.

Definition conf_val (sw : switches) (f : string) : bool :=
  if String.eqb f "API.PushEnabled" then sw_push sw
  else if String.eqb f "API.DeleteEnabled" then sw_delete sw
  else if String.eqb f "API.Blob.DeleteEnabled" then sw_blobdelete sw
  else if String.eqb f "API.Referrer.Enabled" then sw_referrer sw
  else false.

Fixpoint eval_cond (sw : switches) (method : string) (m : list string) (c : rcond) : bool :=
  match c with
  | CTrue => true
  | CAnd a b => eval_cond sw method m a && eval_cond sw method m b
  | COr a b => eval_cond sw method m a || eval_cond sw method m b
  | CMethod x => String.eqb method x
  | CConf f => conf_val sw f
  | CMatchEq i v => String.eqb (nth i m "") v
  end.

Inductive target :=
| THandler (name : string) (args : list string)
| TStatus (code : Z).

Fixpoint first_action (sw : switches) (method : string) (m : list string)
         (l : list (rcond * raction)) (dflt : Z) : target :=
  match l with
  | [] => TStatus dflt
  | (c, a) :: r =>
      if eval_cond sw method m c then
        match a with
        | AHandler n args => THandler n (map (fun i => nth i m "") args)
        | AStatus z => TStatus z
        end
      else first_action sw method m r dflt
  end.

Fixpoint dispatch (routes : list route) (dflt : Z) (sw : switches) (method : string)
         (els : list string) : target :=
  match routes with
  | [] => TStatus dflt
  | rt :: rest =>
      match match_v2 els (rt_pats rt) with
      | Some m =>
          if eval_cond sw method m (rt_cond rt)
          then first_action sw method m (rt_actions rt) dflt
          else dispatch rest dflt sw method els
      | None => dispatch rest dflt sw method els
      end
  end.

Definition route_request (routes : list route) (dflt : Z) (sw : switches) (method path : string) : target :=
  dispatch routes dflt sw method (path_els path).
