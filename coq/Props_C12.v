(* Props_C12.v — no schedule can hang the registry: the lock discipline, checked on the synchronisation statements
   regenerated from the current source (Gen_Sync.v), and its consequence. *)
From Olareg Require Import Base Sync Gen_Sync Gen_Locks LockOrder Reg Conc.
Local Open Scope list_scope.

(* R1-R3 hold for every function of olareg.go, referrer.go, internal/store and internal/cache: no blocking wait under a
   store-wide or server-wide mutex (outside the two documented sites), mutexes acquired in rank order, no unknown mutex *)
Theorem C12_lock_discipline : sync_violations gen_sync = [].
Proof. vm_compute. reflexivity. Qed.

(* the order also holds across calls: closing the acquisitions over the call graph of the current source (callees resolved by
   the Go type checker, interface calls to every implementing method, `locked` parameters followed, the cache instances told
   apart), every mutex is acquired - directly or through any chain of calls - only while mutexes of strictly lower rank are
   held, with the one exception listed in LockOrder.known_sites (finding C12-F45) *)
Theorem C12_lock_order_across_calls : order_violations gen_locks gen_impls known_sites = [].
Proof. vm_compute. reflexivity. Qed.

(* non-vacuity: the table is not empty, the exception is needed (without it the check reports exactly that site), and the
   closure sees through calls (closing the directory store reaches the mutexes of the repository cache and of the upload caches) *)
Example C12_lock_order_not_vacuous :
  (30 <=? List.length gen_locks)%nat = true
  /\ map fst (order_violations gen_locks gen_impls []) = ["store.dir.RepoGet"]
  /\ existsb (String.eqb "Cache.mu@dirRepo.uploads") (acq gen_locks gen_impls 200 "store.dir.Close" false) = true.
Proof. vm_compute. repeat split; reflexivity. Qed.

(* threads that acquire mutexes in rank order cannot form a wait-for cycle *)
Theorem C12_no_lock_order_deadlock : forall first rest,
  disciplined first -> Forall disciplined rest -> chain first rest ->
  w_wants (last_w first rest) <> w_holds first.
Proof. exact no_lock_order_deadlock. Qed.
Print Assumptions C12_no_lock_order_deadlock.

(* the request handlers themselves have no blocking step: scheduled alone a request finishes after as many atomic store
   actions as its handler has, with the answer of the sequential semantics (so a stall can only come from the
   synchronisation around the actions, which is what R1-R3 are about) *)
Theorem C12_handlers_terminate : forall cfg E p s,
  crun cfg E (repeat 0 (psize cfg E p s)) (s, mkPool [p] []) = (fst (run cfg E p s), mkPool [] [snd (run cfg E p s)]).
Proof. exact alone_is_sequential. Qed.
Print Assumptions C12_handlers_terminate.
