(* Props_C17.v — fallback-tag referrers are converted without loss, repeatably.  Model: Ingest.v, a statement-by-statement
   mirror of indexIngest / indexValidReferrer / referrerListDedup over the index algebra (Index.v). *)
From Olareg Require Import Base Index IndexProofs IndexInv Reg Ingest IngestProofs Config Gen_Consts.
Local Open Scope list_scope.

(* the conversion always terminates with a result: no panic, no loop that runs out of fuel, for every layout *)
Theorem C17_terminates : forall E now rp, exists rp', ingest_repo E now rp = Ok rp'.
Proof. exact ingest_total. Qed.
Print Assumptions C17_terminates.

(* the layout is marked as converted ... *)
Theorem C17_marked : forall E now rp rp', ingest_repo E now rp = Ok rp' -> r_conv rp' = true.
Proof. exact ingest_marks. Qed.

(* ... and repeating the conversion gives the same result *)
Theorem C17_repeatable : forall E now now' rp rp', ingest_repo E now rp = Ok rp' -> ingest_repo E now' rp' = Ok rp'.
Proof. exact ingest_idempotent. Qed.
Print Assumptions C17_repeatable.

(* every blob is kept with its bytes (the conversion only adds the responses it generates) *)
Theorem C17_keeps_blobs : forall E now rp rp' d be,
  ingest_repo E now rp = Ok rp' -> assoc d (r_blobs rp) = Some be -> assoc d (r_blobs rp') = Some be.
Proof. exact ingest_keeps_blobs. Qed.
Print Assumptions C17_keeps_blobs.

(* grouping: whatever a fallback index contributes is filed under the subject the manifest itself names, computed
   from a listed manifest that exists ... *)
Theorem C17_grouped_by_actual_subject : forall E blobs ms s l rd,
  In (s, l) (v_resp (valid_referrer E blobs ms)) -> In rd l ->
  exists d, In d ms /\ names E blobs d s rd.
Proof. exact valid_referrer_grouped. Qed.
Print Assumptions C17_grouped_by_actual_subject.

(* ... and no listed referrer that exists and names a subject is lost *)
Theorem C17_no_listed_referrer_lost : forall E blobs ms d s rd,
  In d ms -> names E blobs d s rd -> filed (v_resp (valid_referrer E blobs ms)) s rd.
Proof. exact valid_referrer_complete. Qed.
Print Assumptions C17_no_listed_referrer_lost.

(* the fallback-tag expression in the source is the one the recogniser [reftag] mirrors *)
Theorem C17_reftag_literal : lookup "referrerTagRe" gen_consts = Some "^(sha256|sha512)-([0-9a-f]{64})$".
Proof. vm_compute. reflexivity. Qed.

(* every other tag is kept: an entry that holds a tag which is not a fallback tag (and is not a referrers response) is still
   in the index after the conversion, unchanged - it resolves to the same manifest *)
Theorem C17_keeps_tags : forall E x t',
  t' <> "" -> reftag t' = false -> holds t' x = true -> ann_get RefSubject x = "" ->
  forall now blobs i i' blobs', convert E now blobs i = Ok (i', blobs') -> In x (top i) -> In x (top i').
Proof. exact convert_keeps_tags. Qed.
Print Assumptions C17_keeps_tags.
