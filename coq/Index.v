(* Index.v — types.Index of olareg (types/manifest.go:76-294), statement by
   statement.  Order of [top] (Go: Index.Manifests) and [child]
   (Go: Index.childManifests) is modelled exactly, including the swap-removal
   `M[mi] = M[len-1]; M = M[:len-1]`, because outcomes depend on it.
   Descriptor.Annotations is [option amap]: Go distinguishes a nil map from an
   emptied one (manifest.go:221, 235, 275). *)
From Olareg Require Import Base.

Definition RefName := "org.opencontainers.image.ref.name".
Definition RefSubject := "org.olareg.referrer.subject".
Definition RefConvert := "org.olareg.referrer.convert".

Record desc := mkD {
  d_mt : string;              (* MediaType *)
  d_dig : string;             (* Digest ("" = unset) *)
  d_size : Z;                 (* Size *)
  d_ann : option amap;        (* Annotations (None = nil map) *)
  d_at : string               (* ArtifactType *)
}.

Record index := mkI {
  top : list desc;            (* Manifests *)
  child : list desc           (* childManifests *)
}.

Definition empty_index := mkI [] [].

Definition ann_get (k : string) (d : desc) : string :=
  match d_ann d with Some a => aget k a | None => "" end.
Definition ann_nil (d : desc) : bool :=
  match d_ann d with Some _ => false | None => true end.
Definition ann_len (d : desc) : nat :=
  match d_ann d with Some a => List.length a | None => 0 end.
Definition with_ann (d : desc) (a : option amap) : desc :=
  mkD (d_mt d) (d_dig d) (d_size d) a (d_at d).
Definition strip (d : desc) : desc := mkD (d_mt d) (d_dig d) (d_size d) None "".

Definition sneq (a b : string) : bool := negb (String.eqb a b).
Definition nonempty (s : string) : bool := sneq s "".

(* ---- grammars (types/ref.go, go-digest) ----------------------------------- *)
(* RefTagRE = ^[a-zA-Z0-9_][a-zA-Z0-9._-]{0,127}$ *)
Definition tag_first (c : ascii) : bool :=
  is_lower c || is_upper c || is_digit c || Ascii.eqb c "_".
Definition tag_rest (c : ascii) : bool :=
  tag_first c || Ascii.eqb c "." || Ascii.eqb c "-".
Definition is_tag (s : string) : bool :=
  match s with
  | EmptyString => false
  | String c r => tag_first c && str_forall tag_rest r && (String.length r <=? 127)%nat
  end.

(* go-digest Parse/Validate restricted to the registered algorithms:
   sha256:<64 lower hex> | sha384:<96> | sha512:<128> *)
Definition dig_alg (s : string) : string :=
  if has_prefix "sha256:" s then "sha256"
  else if has_prefix "sha384:" s then "sha384"
  else if has_prefix "sha512:" s then "sha512" else "".
Definition dig_hex (s : string) : string := str_drop 7 s.
Definition alg_hexlen (a : string) : nat :=
  if String.eqb a "sha256" then 64 else if String.eqb a "sha384" then 96
  else if String.eqb a "sha512" then 128 else 0.
Definition dvalid (s : string) : bool :=
  let a := dig_alg s in
  nonempty a && (String.length (dig_hex s) =? alg_hexlen a)%nat
  && str_forall is_lhex (dig_hex s).

(* ---- backward loop with swap-removal ---------------------------------------- *)
(* for mi := len(l)-1; mi >= 0; mi-- { visit l[mi]: keep / replace / swap-remove }
   [n] is mi+1.  An index outside the slice is a Go panic. *)
Fixpoint bloop {S : Type} (f : S -> desc -> S * option desc)
         (n : nat) (s : S) (l : list desc) : res (S * list desc) :=
  match n with
  | 0 => Ok (s, l)
  | S m =>
      match nth_error l m with
      | None => Panic
      | Some e =>
          let (s', r) := f s e in
          match r with
          | Some e' => bloop f m s' (set_nth m e' l)
          | None => bloop f m s' (swap_remove m l)
          end
      end
  end.

(* ---- RmDesc (manifest.go:251-294) -------------------------------------------- *)
Definition rm_tag_of (d : desc) : string := ann_get RefName d.
Definition rm_ref_of (d : desc) : string := ann_get RefSubject d.

Definition rm_child_step (dig : string) (_ : unit) (e : desc) : unit * option desc :=
  if String.eqb (d_dig e) dig then (tt, None) else (tt, Some e).

Definition rm_top_step (dig tag ref : string) (found : bool) (e : desc)
  : bool * option desc :=
  if nonempty dig && String.eqb (d_dig e) dig then
    if nonempty tag then
      if found && ((ann_len e =? 0)%nat || String.eqb (ann_get RefName e) tag) then (true, None)
      else if negb (ann_nil e) && String.eqb (ann_get RefName e) tag then
        (true, Some (with_ann e (option_map (adel RefName) (d_ann e))))
      else (true, Some e)
    else (found, None)
  else if String.eqb dig "" && negb (ann_nil e)
          && ((nonempty tag && String.eqb (ann_get RefName e) tag)
              || (nonempty ref && String.eqb (ann_get RefSubject e) ref)) then
    (found, None)
  else (found, Some e).

Definition rm_desc (d : desc) (i : index) : res index :=
  let tag := rm_tag_of d in
  let ref := rm_ref_of d in
  do ch <- (if String.eqb tag "" && nonempty (d_dig d)
            then do r <- bloop (rm_child_step (d_dig d)) (List.length (child i)) tt (child i);
                 Ok (snd r)
            else Ok (child i));
  do r <- bloop (rm_top_step (d_dig d) tag ref) (List.length (top i)) false (top i);
  Ok (mkI (snd r) ch).

(* ---- AddDesc (manifest.go:171-245) -------------------------------------------- *)
(* first loop: untag other digests holding [tag], drop the previous response
   for [ref].  [mi] is the Go loop variable; [fuel] bounds the iterations
   (mi strictly decreases, so fuel = initial List.length suffices). *)
Fixpoint add_loop1 (fuel mi : nat) (dig tag ref : string) (i : index) : res index :=
  match fuel with
  | 0 => OutOfFuel
  | S fuel' =>
      match nth_error (top i) mi with
      | None => Panic
      | Some e =>
          do st <-
            (if sneq (d_dig e) dig && negb (ann_nil e) then
               if nonempty tag && String.eqb (ann_get RefName e) tag then
                 do i' <- rm_desc (mkD (d_mt e) (d_dig e) (d_size e)
                                       (Some [(RefName, tag)]) "") i;
                 Ok (i', if (List.length (top i') <? mi)%nat then List.length (top i') else mi)
               else if nonempty ref && String.eqb (ann_get RefSubject e) ref then
                 Ok (mkI (swap_remove mi (top i)) (child i), mi)
               else Ok (i, mi)
             else Ok (i, mi));
          match snd st with
          | 0 => Ok (fst st)
          | S p => add_loop1 fuel' p dig tag ref (fst st)
          end
      end
  end.

(* remove the first child entry with the digest (forward loop with break) *)
Definition add_rm_child (dig : string) (ch : list desc) : list desc :=
  match find_index (fun c => String.eqb (d_dig c) dig) ch with
  | Some ci => swap_remove ci ch
  | None => ch
  end.

(* the media types under which a descriptor is listed as a manifest (types.MediaTypeImage / MediaTypeIndex) *)
Definition manifest_mt (m : string) : bool :=
  String.eqb m "application/vnd.oci.image.manifest.v1+json"
  || String.eqb m "application/vnd.docker.distribution.manifest.v2+json"
  || String.eqb m "application/vnd.oci.image.index.v1+json"
  || String.eqb m "application/vnd.docker.distribution.manifest.list.v2+json".

(* WithChildren: move un-annotated top-level entries to the child list; a descriptor that is not listed as a
   manifest references a plain blob and is skipped *)
Fixpoint add_move_children (cs : list desc) (i : index) : index :=
  match cs with
  | [] => i
  | cd :: r =>
      let i' :=
        if negb (manifest_mt (d_mt cd)) then i else
        match find_index (fun m => String.eqb (d_dig m) (d_dig cd) && (ann_len m =? 0)%nat)
                         (top i) with
        | Some mi => mkI (swap_remove mi (top i)) (child i ++ [cd])
        | None =>
            (* a child that is in neither list is tracked as a child, as when the index is loaded from storage *)
            if existsb (fun m => String.eqb (d_dig m) (d_dig cd)) (top i)
               || existsb (fun c => String.eqb (d_dig c) (d_dig cd)) (child i)
            then i else mkI (top i) (child i ++ [cd])
        end in
      add_move_children r i'
  end.

Definition add_compat (tag ref : string) (md : desc) : bool :=
  ann_nil md
  || ((String.eqb (ann_get RefName md) "" || String.eqb (ann_get RefName md) tag)
      && (String.eqb (ann_get RefSubject md) "" || String.eqb (ann_get RefSubject md) ref)).

(* final loop (manifest.go: "search for matching or compatible entry"): an entry
   already holding the tag / referrer is preferred, else the first compatible one *)
Definition add_exact (tag ref : string) (md : desc) : bool :=
  negb (ann_nil md)
  && ((nonempty tag && String.eqb (ann_get RefName md) tag)
      || (String.eqb tag "" && nonempty ref && String.eqb (ann_get RefSubject md) ref)).

Inductive scanres := SKeep | SReplace (mi : nat) | SAppend.

Fixpoint add_scan (d : desc) (tag ref : string) (mi : nat) (compat : option nat)
         (l : list desc) : scanres :=
  match l with
  | [] => match compat with Some c => SReplace c | None => SAppend end
  | md :: r =>
      if String.eqb (d_dig md) (d_dig d) then
        if String.eqb tag "" && String.eqb ref "" then SKeep
        else if add_exact tag ref md then SReplace mi
        else add_scan d tag ref (S mi)
               (match compat with
                | Some c => Some c
                | None => if add_compat tag ref md then Some mi else None
                end) r
      else add_scan d tag ref (S mi) compat r
  end.

Definition add_final (d : desc) (tag ref : string) (l : list desc) : list desc :=
  match add_scan d tag ref 0 None l with
  | SKeep => l
  | SReplace mi => set_nth mi d l
  | SAppend => l ++ [d]
  end.

Definition add_desc (d : desc) (children : list desc) (i : index) : res index :=
  let tag := ann_get RefName d in
  let ref := ann_get RefSubject d in
  do i1 <- (if nonempty tag || nonempty ref then
              match List.length (top i) with
              | 0 => Ok i
              | S p => add_loop1 (List.length (top i)) p (d_dig d) tag ref i
              end
            else Ok i);
  let i2 := mkI (top i1) (add_rm_child (d_dig d) (child i1)) in
  let i3 := add_move_children children i2 in
  Ok (mkI (add_final d tag ref (top i3)) (child i3)).

Definition add_children (cs : list desc) (i : index) : index :=
  mkI (top i) (child i ++ cs).

(* ---- GetDesc / GetByAnnotation (manifest.go:104-163) ---------------------------- *)
Definition get_desc (arg : string) (i : index) : option desc :=
  match top i, child i with
  | [], [] => None
  | _, _ =>
      if is_tag arg then
        find (fun d => negb (ann_nil d) && String.eqb (ann_get RefName d) arg) (top i)
      else if dvalid arg then
        match find (fun d => String.eqb (d_dig d) arg) (top i) with
        | Some d => Some (strip d)
        | None => option_map strip (find (fun d => String.eqb (d_dig d) arg) (child i))
        end
      else None
  end.

Definition ann_has (k : string) (d : desc) : bool :=
  match d_ann d with Some a => ahas k a | None => false end.

Definition get_by_annotation (key val : string) (i : index) : option desc :=
  find (fun d => ann_has key d && (String.eqb val "" || String.eqb val (ann_get key d))) (top i).

(* ---- operations of the C18 universe ------------------------------------------------ *)
Inductive iop :=
| OAdd (d : desc) (children : list desc)
| ORm (d : desc)
| OAddChildren (cs : list desc).

Definition apply_op (o : iop) (i : index) : res index :=
  match o with
  | OAdd d cs => add_desc d cs i
  | ORm d => rm_desc d i
  | OAddChildren cs => Ok (add_children cs i)
  end.

Fixpoint apply_ops (l : list iop) (i : index) : res index :=
  match l with
  | [] => Ok i
  | o :: r => do i' <- apply_op o i; apply_ops r i'
  end.
