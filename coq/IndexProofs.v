(* Proofs about Index.v (C18).  Model definitions stay in Index.v. *)
From Olareg Require Import Base Index.
From Coq Require Import Permutation.
Local Open Scope list_scope.

(* ---- slice primitives -------------------------------------------------------- *)
Section SliceLemmas.
  Context {A : Type}.

  Lemma set_nth_length (m : nat) (e : A) l : List.length (set_nth m e l) = List.length l.
  Proof. revert m; induction l as [|x r IH]; intros [|m]; simpl; auto. Qed.

  (* l = pre ++ e :: vis  ->  swap_remove |pre| l = pre ++ vis' with vis' ~ vis *)
  Lemma swap_remove_split (pre : list A) (e : A) (vis : list A) :
    exists vis', swap_remove (List.length pre) (pre ++ e :: vis) = pre ++ vis'
                 /\ Permutation vis' vis.
  Proof.
    induction pre as [|x pre IH]; simpl.
    - destruct vis as [|y vis]; [exists []; split; auto|].
      exists (last (y :: vis) e :: removelast (y :: vis)); split; [reflexivity|].
      (* last (y::vis) e :: removelast (y::vis)  ~  y :: vis *)
      clear. revert y e; induction vis as [|z vis IH]; intros y e.
      + simpl. apply Permutation_refl.
      + change (last (y :: z :: vis) e) with (last (z :: vis) e).
        change (removelast (y :: z :: vis)) with (y :: removelast (z :: vis)).
        eapply perm_trans; [apply perm_swap|]. apply perm_skip. apply IH.
    - destruct IH as [vis' [H1 H2]]. exists vis'. rewrite H1. split; auto.
  Qed.

  Lemma set_nth_split (pre : list A) (e e' : A) (vis : list A) :
    set_nth (List.length pre) e' (pre ++ e :: vis) = pre ++ e' :: vis.
  Proof. induction pre as [|x pre IH]; simpl; congruence. Qed.

  Lemma nth_error_split (pre : list A) (e : A) (vis : list A) :
    nth_error (pre ++ e :: vis) (List.length pre) = Some e.
  Proof. induction pre; simpl; auto. Qed.

  Lemma split_last (l : list A) (m : nat) :
    List.length l = S m -> exists pre e, l = pre ++ [e] /\ List.length pre = m.
  Proof.
    intros H. destruct (exists_last (l:=l)) as [pre [e He]].
    - intro; subst; discriminate.
    - exists pre, e. split; auto. subst l. rewrite app_length in H. simpl in H. lia.
  Qed.
End SliceLemmas.

(* ---- the backward loop: general invariant principle ------------------------------- *)
(* The slice is always  pre ++ vis : [pre] not yet visited (in order), [vis] the
   visited part (a permutation of what the visits kept).  An invariant over
   (state, pre, vis) that is stable under permutation of [vis] and under one
   visit holds at the end with pre = []. *)
Section Bloop.
  Context {S : Type} (f : S -> desc -> S * option desc).
  Variable Inv : S -> list desc -> list desc -> Prop.
  Hypothesis Inv_perm : forall s pre v v', Permutation v v' -> Inv s pre v -> Inv s pre v'.
  Hypothesis Inv_step : forall s pre e vis,
      Inv s (pre ++ [e]) vis ->
      match f s e with
      | (s', Some e') => Inv s' pre (e' :: vis)
      | (s', None) => Inv s' pre vis
      end.

  Lemma bloop_inv_gen : forall pre s vis,
      Inv s pre vis ->
      exists s' l', bloop f (List.length pre) s (pre ++ vis) = Ok (s', l') /\ Inv s' [] l'.
  Proof.
    intros pre. remember (List.length pre) as n eqn:Hn. revert pre Hn.
    induction n as [|m IH]; intros pre Hn s vis HI.
    - destruct pre; [|discriminate]. simpl. eauto.
    - destruct (split_last pre m (eq_sym Hn)) as [pre' [e [Hp Hl]]]. subst pre.
      cbn [bloop]. rewrite <- app_assoc. cbn [app].
      rewrite <- Hl. rewrite nth_error_split.
      specialize (Inv_step s pre' e vis HI).
      destruct (f s e) as [s' [e'|]].
      + rewrite set_nth_split. rewrite Hl.
        change (pre' ++ e' :: vis) with (pre' ++ (e' :: vis)).
        apply IH; auto.
      + destruct (swap_remove_split pre' e vis) as [vis' [H1 H2]].
        rewrite H1. rewrite Hl. apply IH; auto.
        eapply Inv_perm; [apply Permutation_sym; exact H2|exact Inv_step].
  Qed.

  Lemma bloop_inv : forall s l,
      Inv s l [] ->
      exists s' l', bloop f (List.length l) s l = Ok (s', l') /\ Inv s' [] l'.
  Proof.
    intros s l H. destruct (bloop_inv_gen l s [] H) as [s' [l' [H1 H2]]].
    rewrite app_nil_r in H1. eauto.
  Qed.
End Bloop.

(* the loop never panics when started at the end of the slice *)
Lemma bloop_total {S} (f : S -> desc -> S * option desc) s l :
  exists s' l', bloop f (List.length l) s l = Ok (s', l')
                /\ (List.length l' <= List.length l)%nat.
Proof.
  destruct (bloop_inv f (fun _ pre vis => (List.length vis + List.length pre <= List.length l)%nat))
    with (s:=s) (l:=l) as [s' [l' [H1 H2]]].
  - intros s0 pre v v' Hp H. rewrite <- (Permutation_length Hp). exact H.
  - intros s0 pre e vis H. rewrite app_length in H. simpl in H.
    destruct (f s0 e) as [s1 [e'|]]; simpl; lia.
  - simpl. lia.
  - exists s', l'. split; auto. simpl in H2. lia.
Qed.

(* every kept element is the image of a visited one, or satisfies P already *)
Lemma bloop_forall {S} (f : S -> desc -> S * option desc) (P : desc -> Prop) s l s' l' :
  (forall s e s1 e', f s e = (s1, Some e') -> P e') ->
  bloop f (List.length l) s l = Ok (s', l') -> Forall P l'.
Proof.
  intros Hf Hb.
  destruct (bloop_inv f (fun _ _ vis => Forall P vis)) with (s:=s) (l:=l) as [s2 [l2 [H1 H2]]].
  - intros s0 pre v v' Hp H. eapply Permutation_Forall; eauto.
  - intros s0 pre e vis H. destruct (f s0 e) as [s1 [e'|]] eqn:E; auto.
    constructor; auto. eapply Hf; eauto.
  - constructor.
  - rewrite Hb in H1. inversion H1; subst. exact H2.
Qed.

(* ---- RmDesc ------------------------------------------------------------------------ *)
Lemma rm_desc_total d i : exists i', rm_desc d i = Ok i'
  /\ (List.length (top i') <= List.length (top i))%nat.
Proof.
  unfold rm_desc.
  destruct (bloop_total (rm_top_step (d_dig d) (rm_tag_of d) (rm_ref_of d)) false (top i))
    as [s' [l' [H1 H2]]].
  destruct (String.eqb (rm_tag_of d) "" && nonempty (d_dig d)).
  - destruct (bloop_total (rm_child_step (d_dig d)) tt (child i)) as [s2 [l2 [H3 H4]]].
    rewrite H3. simpl. rewrite H1. simpl. eauto.
  - simpl. rewrite H1. simpl. eauto.
Qed.

Lemma eqb_false_neq a b : String.eqb a b = false -> a <> b.
Proof. intros H E. subst. rewrite String.eqb_refl in H. discriminate. Qed.

(* removing by digest (no tag) leaves no reference to the digest, neither at top
   level nor among the children *)
Lemma rm_desc_digest_total d i i' :
  rm_tag_of d = "" -> d_dig d <> "" ->
  rm_desc d i = Ok i' ->
  Forall (fun e => d_dig e <> d_dig d) (top i') /\ Forall (fun e => d_dig e <> d_dig d) (child i').
Proof.
  intros Ht Hd. unfold rm_desc. rewrite Ht.
  assert (Hne : nonempty (d_dig d) = true).
  { unfold nonempty, sneq. destruct (String.eqb (d_dig d) "") eqn:E; auto.
    apply String.eqb_eq in E. contradiction. }
  rewrite Hne. cbn [String.eqb andb].
  destruct (bloop (rm_child_step (d_dig d)) (List.length (child i)) tt (child i)) as [[u lc]| |] eqn:Ec;
    cbn [rbind]; try discriminate.
  destruct (bloop (rm_top_step (d_dig d) "" (rm_ref_of d)) (List.length (top i)) false (top i)) as [[b lt]| |] eqn:Et;
    cbn [rbind]; try discriminate.
  intros H; inversion H; subst; clear H. cbn [top child snd]. split.
  - eapply bloop_forall; [|exact Et].
    intros s e s1 e'. unfold rm_top_step. rewrite Hne. cbn [andb].
    destruct (String.eqb (d_dig e) (d_dig d)) eqn:E.
    + cbn [nonempty sneq String.eqb negb]. intros H; inversion H.
    + intros H. assert (e' = e).
      { destruct (String.eqb (d_dig d) "" && _ && _); inversion H; auto. }
      subst. apply eqb_false_neq; auto.
  - eapply bloop_forall; [|exact Ec].
    intros s e s1 e'. unfold rm_child_step.
    destruct (String.eqb (d_dig e) (d_dig d)) eqn:E; intros H; inversion H; subst.
    apply eqb_false_neq; auto.
Qed.

(* removing a tag keeps the digest reachable at top level *)
Lemma rm_desc_untag_keeps d i i' :
  rm_tag_of d <> "" -> d_dig d <> "" ->
  rm_desc d i = Ok i' ->
  Exists (fun e => d_dig e = d_dig d) (top i) ->
  Exists (fun e => d_dig e = d_dig d) (top i').
Proof.
  intros Ht Hd. unfold rm_desc.
  assert (Hne : nonempty (d_dig d) = true).
  { unfold nonempty, sneq. destruct (String.eqb (d_dig d) "") eqn:E; auto.
    apply String.eqb_eq in E. contradiction. }
  assert (Hnt : nonempty (rm_tag_of d) = true).
  { unfold nonempty, sneq. destruct (String.eqb (rm_tag_of d) "") eqn:E; auto.
    apply String.eqb_eq in E. contradiction. }
  assert (Htf : String.eqb (rm_tag_of d) "" = false).
  { unfold nonempty, sneq in Hnt. destruct (String.eqb (rm_tag_of d) ""); auto; discriminate. }
  rewrite Htf. cbn [andb rbind].
  set (D := d_dig d) in *. set (T := rm_tag_of d) in *. set (R := rm_ref_of d) in *.
  intros Hb Hex.
  pose (Inv := fun (found : bool) (pre vis : list desc) =>
                 (found = true -> Exists (fun e => d_dig e = D) vis)
                 /\ (Exists (fun e => d_dig e = D) pre \/ found = true)).
  destruct (bloop_inv (rm_top_step D T R) Inv) with (s:=false) (l:=top i) as [s2 [l2 [H1 H2]]].
  - intros s0 pre v v' Hp [Ha Hb']. split; auto. intros Hf.
    specialize (Ha Hf). apply Exists_exists in Ha. destruct Ha as [x [Hx1 Hx2]].
    apply Exists_exists. exists x. split; auto. eapply Permutation_in; eauto.
  - intros found pre e vis [Ha Hb']. unfold rm_top_step. fold D. rewrite Hne. cbn [andb].
    destruct (String.eqb (d_dig e) D) eqn:E.
    + fold T. rewrite Hnt.
      apply String.eqb_eq in E.
      destruct (found && ((ann_len e =? 0)%nat || String.eqb (ann_get RefName e) T)) eqn:Ef.
      * (* removed: found was already true *)
        apply andb_true_iff in Ef. destruct Ef as [Ef _]. split; auto.
      * destruct (negb (ann_nil e) && String.eqb (ann_get RefName e) T).
        -- split; [intros _; constructor; exact E|right; reflexivity].
        -- split; [intros _; constructor; exact E|right; reflexivity].
    + assert (Hk : (if String.eqb D "" && negb (ann_nil e)
                        && (nonempty T && String.eqb (ann_get RefName e) T
                            || nonempty R && String.eqb (ann_get RefSubject e) R)
                    then (found, @None desc) else (found, Some e)) = (found, Some e)).
      { assert (String.eqb D "" = false) as ->; [|reflexivity].
        unfold nonempty, sneq in Hne. fold D in Hne. destruct (String.eqb D ""); auto; discriminate. }
      rewrite Hk. split.
      * intros Hf. constructor 2. auto.
      * destruct Hb' as [Hb'|Hb']; auto. left.
        apply Exists_app in Hb'. destruct Hb' as [Hb'|Hb']; auto.
        inversion Hb' as [? ? Hd'|? ? Hd']; subst.
        -- apply eqb_false_neq in E. contradiction.
        -- inversion Hd'.
  - split; [discriminate|left; exact Hex].
  - fold D T R in Hb. rewrite H1 in Hb. cbn [rbind snd] in Hb. inversion Hb; subst. cbn [top].
    destruct H2 as [Ha [Hb'|Hb']]; [inversion Hb'|auto].
Qed.

(* ---- AddDesc never panics ---------------------------------------------------------------- *)
Lemma swap_remove_length {A} (m : nat) (l : list A) :
  (m < List.length l)%nat -> List.length (swap_remove m l) = pred (List.length l).
Proof.
  revert m; induction l as [|x r IH]; intros m H; [simpl in H; lia|].
  destruct m as [|m].
  - simpl. destruct r as [|y r]; [reflexivity|].
    simpl. f_equal. clear. revert y. induction r as [|z r IH]; intros y; [reflexivity|].
    change (removelast (y :: z :: r)) with (y :: removelast (z :: r)).
    simpl List.length. f_equal. apply IH.
  - simpl. simpl in H. rewrite IH by lia. destruct r; simpl in *; lia.
Qed.

Lemma add_loop1_total : forall fuel mi dig tag ref i,
    (mi < fuel)%nat -> (mi < List.length (top i))%nat ->
    exists i', add_loop1 fuel mi dig tag ref i = Ok i'.
Proof.
  induction fuel as [|fuel IH]; intros mi dig tag ref i Hf Hl; [lia|].
  cbn [add_loop1].
  destruct (nth_error (top i) mi) as [e|] eqn:En.
  2:{ apply nth_error_None in En. lia. }
  destruct (sneq (d_dig e) dig && negb (ann_nil e)).
  - destruct (nonempty tag && String.eqb (ann_get RefName e) tag).
    + destruct (rm_desc_total (mkD (d_mt e) (d_dig e) (d_size e) (Some [(RefName, tag)]) "") i)
        as [i' [Hr Hlen]].
      rewrite Hr. cbn [rbind fst snd].
      destruct (List.length (top i') <? mi)%nat eqn:El.
      * destruct (List.length (top i')) as [|p] eqn:Ep; [eauto|].
        apply Nat.ltb_lt in El. apply IH; lia.
      * apply Nat.ltb_ge in El. destruct mi as [|p]; [eauto|]. apply IH; lia.
    + destruct (nonempty ref && String.eqb (ann_get RefSubject e) ref).
      * cbn [rbind fst snd]. destruct mi as [|p]; [eauto|]. apply IH; [lia|].
        cbn [top]. rewrite swap_remove_length by lia. lia.
      * cbn [rbind fst snd]. destruct mi as [|p]; [eauto|]. apply IH; lia.
  - cbn [rbind fst snd]. destruct mi as [|p]; [eauto|]. apply IH; lia.
Qed.

Lemma add_desc_total d cs i : exists i', add_desc d cs i = Ok i'.
Proof.
  unfold add_desc.
  destruct (nonempty (ann_get RefName d) || nonempty (ann_get RefSubject d)).
  - destruct (List.length (top i)) as [|p] eqn:El.
    + cbn [rbind]. eauto.
    + destruct (add_loop1_total (S p) p (d_dig d) (ann_get RefName d) (ann_get RefSubject d) i)
        as [i' Hi']; [lia|lia|].
      rewrite Hi'. cbn [rbind]. eauto.
  - cbn [rbind]. eauto.
Qed.

Theorem apply_ops_total : forall l i, exists i', apply_ops l i = Ok i'.
Proof.
  induction l as [|o l IH]; intros i; [simpl; eauto|].
  cbn [apply_ops].
  assert (exists i1, apply_op o i = Ok i1) as [i1 H1].
  { destruct o as [d cs|d|cs]; cbn [apply_op].
    - apply add_desc_total.
    - destruct (rm_desc_total d i) as [i' [H _]]; eauto.
    - eauto. }
  rewrite H1. cbn [rbind]. apply IH.
Qed.

(* ---- GetDesc by digest --------------------------------------------------------------------- *)
Lemma find_some_iff {A} (p : A -> bool) l : (exists x, find p l = Some x) <-> Exists (fun x => p x = true) l.
Proof.
  split.
  - intros [x H]. apply find_some in H. apply Exists_exists. exists x. tauto.
  - intros H. induction H as [x l H|x l H IH]; simpl.
    + rewrite H. eauto.
    + destruct (p x); eauto.
Qed.

Lemma get_desc_digest_iff arg i :
  is_tag arg = false -> dvalid arg = true ->
  (exists d, get_desc arg i = Some d)
  <-> (Exists (fun e => d_dig e = arg) (top i) \/ Exists (fun e => d_dig e = arg) (child i)).
Proof.
  intros Ht Hv. unfold get_desc. rewrite Ht, Hv.
  assert (E1 : forall l, Exists (fun e => d_dig e = arg) l
                         <-> Exists (fun e => String.eqb (d_dig e) arg = true) l).
  { intros l. split; intros H; eapply Exists_impl; try exact H; intros a Ha.
    - apply String.eqb_eq; auto.
    - apply String.eqb_eq; auto. }
  rewrite !E1. rewrite <- !find_some_iff.
  destruct (top i) as [|t0 tl] eqn:Et; destruct (child i) as [|c0 cl] eqn:Ec.
  - simpl. split; [intros [d H]; discriminate|intros [[x H]|[x H]]; discriminate].
  - destruct (find _ []) eqn:F1; [discriminate|].
    split.
    + intros [d H]. right. destruct (find _ (c0 :: cl)); [eauto|discriminate].
    + intros [[x H]|[x H]]; [discriminate|]. rewrite H. simpl. eauto.
  - split.
    + intros [d H]. destruct (find _ (t0 :: tl)) eqn:F; [left; eauto|discriminate].
    + intros [[x H]|[x H]]; [rewrite H; eauto|discriminate].
  - split.
    + intros [d H]. destruct (find _ (t0 :: tl)) eqn:F; [left; eauto|].
      right. destruct (find _ (c0 :: cl)); [eauto|discriminate].
    + intros [[x H]|[x H]].
      * rewrite H; eauto.
      * destruct (find _ (t0 :: tl)); [eauto|]. rewrite H. simpl. eauto.
Qed.

(* a digest string is never a tag: its 7th character is ':' *)
Lemma dvalid_not_tag s : dvalid s = true -> is_tag s = false.
Proof.
  unfold dvalid. intros H.
  assert (Hp : has_prefix "sha256:" s = true \/ has_prefix "sha384:" s = true \/ has_prefix "sha512:" s = true).
  { unfold dig_alg in H.
    destruct (has_prefix "sha256:" s) eqn:E1; [auto|].
    destruct (has_prefix "sha384:" s) eqn:E2; [auto|].
    destruct (has_prefix "sha512:" s) eqn:E3; [auto|].
    cbn in H. discriminate H. }
  clear H.
  assert (G : forall p, String.length p = 6%nat -> has_prefix (p ++ ":")%string s = true -> is_tag s = false).
  { intros p Hl Hpre.
    do 6 (destruct p as [|? p]; [discriminate|]). destruct p; [|discriminate].
    unfold has_prefix in Hpre.
    do 7 (destruct s as [|? s]; [simpl in Hpre; discriminate Hpre|]; simpl in Hpre;
          match type of Hpre with
          | (if ?c then _ else _) = true => destruct c; [|discriminate Hpre]
          end).
    subst. unfold is_tag. cbn [str_forall].
    replace (tag_rest ":") with false by reflexivity.
    repeat (rewrite andb_false_l || rewrite andb_false_r). reflexivity. }
  destruct Hp as [Hp|[Hp|Hp]].
  - apply (G "sha256" eq_refl Hp).
  - apply (G "sha384" eq_refl Hp).
  - apply (G "sha512" eq_refl Hp).
Qed.
