(* Props_C08.v — upload sessions are strictly sequential and isolated. *)
From Olareg Require Import Base Index Reg RegProofs RegProofs2.
Local Open Scope list_scope.

(* out-of-order chunk: refused with 416/400; sessions, blobs and index of every repository unchanged *)
Theorem C08_refuse_unchanged : forall cfg E r sid cr st body s s' o x,
  find_sess sid (get_repo cfg r s) = Some x -> repo_allowed cfg r = true ->
  (valid_range cr (e_len E (s_data x)) = false \/ st <> Some (e_len E (s_data x))) ->
  run cfg E (upload_patch E r sid cr st body) s = (s', o) ->
  (rs_status o = 416 \/ rs_status o = 400)%Z /\ same_content cfg s s'.
Proof. exact patch_refused_unchanged. Qed.
Print Assumptions C08_refuse_unchanged.

(* accepted chunk: it was in order, and the session now holds old bytes ++ body; Range reports it *)
Theorem C08_accepted_appends : forall cfg E r sid cr st body s s' o,
  run cfg E (upload_patch E r sid cr st body) s = (s', o) -> rs_status o = 202%Z ->
  exists x, find_sess sid (get_repo cfg r s) = Some x
            /\ valid_range cr (e_len E (s_data x)) = true /\ st = Some (e_len E (s_data x))
            /\ exists x', find_sess sid (get_repo cfg r s') = Some x'
                          /\ s_data x' = (s_data x ++ body)%string /\ rs_range o = range_hdr E x'.
Proof. exact patch_accepted_appends. Qed.
Print Assumptions C08_accepted_appends.

(* status query: exactly the bytes received, nothing altered *)
Theorem C08_status_exact : forall cfg E r sid s s' o,
  run cfg E (h_upload_get E r sid) s = (s', o) -> rs_status o = 204%Z ->
  exists x, find_sess sid (get_repo cfg r s) = Some x /\ rs_range o = range_hdr E x /\ same_content cfg s s'.
Proof. exact upload_get_exact. Qed.
Print Assumptions C08_status_exact.

(* a session id unknown in the addressed repository (never created there, completed, cancelled,
   expired, evicted, or belonging to another repository) is refused and nothing is touched *)
Theorem C08_unknown_refused : forall cfg E r sid cr st body s,
  find_sess sid (get_repo cfg r s) = None ->
  let res := run cfg E (upload_patch E r sid cr st body) s in
  fst res = s /\ (400 <= rs_status (snd res) <= 500)%Z /\ rs_status (snd res) <> 202%Z.
Proof. exact session_unknown_refused. Qed.
Print Assumptions C08_unknown_refused.

(* sessions of other repositories are never touched by a request *)
Theorem C08_repo_scoped : forall cfg E s q r',
  match q with QRestart => False | _ => True end ->
  req_repo q <> r' -> get_repo cfg r' (fst (step cfg E s q)) = get_repo cfg r' s.
Proof. exact request_frame. Qed.
Print Assumptions C08_repo_scoped.

(* whatever completes a session stores bytes under the digest of exactly those bytes *)
Theorem C08_no_partial_blob : forall cfg E h, BlobsOK E (fst (run_hist cfg E init_state h)).
Proof. exact blobs_ok_reachable. Qed.
Print Assumptions C08_no_partial_blob.
