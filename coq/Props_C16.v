(* Props_C16.v — repositories are isolated (API level). *)
From Olareg Require Import Base Index Reg RegProofs.
Local Open Scope list_scope.

(* a request addressed to repository r leaves every other repository - blobs, index, tags,
   referrers, sessions - exactly as it was; the mount source is only read *)
Theorem C16_isolation : forall cfg E s q r',
  match q with QRestart => False | _ => True end ->
  req_repo q <> r' -> get_repo cfg r' (fst (step cfg E s q)) = get_repo cfg r' s.
Proof. exact request_frame. Qed.
Print Assumptions C16_isolation.

(* every store action of every handler addresses the request's repository or is a read *)
Theorem C16_handler_scope : forall cfg E q, runs_on (req_repo q) (handler cfg E q).
Proof. exact handler_on. Qed.
Print Assumptions C16_handler_scope.

(* nested names are distinct keys *)
Example C16_nested_distinct : forall cfg E s,
  get_repo cfg "a/b" (fst (step cfg E s (QUploadPost "a" "" "" false "" "" ""))) = get_repo cfg "a/b" s.
Proof. intros. apply request_frame; simpl; auto. discriminate. Qed.
