#!/usr/bin/env python3
"""tools/mkprompts.py <base dir> <letter1> <letter2> <ID>... : scratch worktrees and prompts for sub-agents that seed changes
(the agents see the property text and their worktree only, nothing from /verif)"""
import json, os, subprocess, sys
base, l1, l2 = sys.argv[1:4]
ids = sys.argv[4:]
props = {json.loads(l)['id']: json.loads(l) for l in open('/verif/properties.jsonl')}
for pid in ids:
    p = props[pid]
    used = []
    for m in "ABCDEFGHIJ":
        f = '/verif/seeded/%s-%s/notes.md' % (pid, m)
        if os.path.exists(f):
            used.append('  - ' + open(f).read().strip().split("\n")[0].lstrip("# ").strip())
    files = ", ".join(p['anchors']['files'])
    wt, out = '%s/%s' % (base, pid), '%s/%s-out' % (base, pid)
    txt = f"""You are helping to evaluate a verification harness by producing realistic *seeded defects* (mutants) for an open-source Go project, olareg (a minimal OCI container registry). You get a private scratch git worktree of the project at {wt} (a detached checkout; work ONLY inside it and inside {out}; never touch /repo or /verif, and do not read anything under /verif).

Environment: no network. In every shell call first run: export GOFLAGS=-mod=mod GOPROXY=off GOSUMDB=off GOTOOLCHAIN=local
The existing test suite is run with: cd {wt} && go test -vet=off -count=1 ./...   (about 10 s). One existing test, TestServer/Dir/Garbage_Collect, is flaky on this machine even without changes; if only that one fails, re-run, it does not count.
IMPORTANT: never use `git stash` (the stash is shared between worktrees). To switch between changed and unchanged code use `git diff > file` / `git checkout -- .` / `git apply file`.

The semantic property to break:

  {pid}: {p['title']}
  Statement: {p['statement']}
  Quantified over: {p['quantifier']['text']}
  Relevant code: {files} (and whatever these call)

{len(used)} mutants for this property exist already; do NOT repeat their idea:
""" + "\n".join(used) + f"""

Task: produce TWO NEW, different, independent changes (mutant {l1} and mutant {l2}) to the project's non-test Go source, each of which
  1. compiles, and the existing test suite (unedited) still passes with it;
  2. breaks the property above - there is a concrete scenario in which the changed code violates the statement while the unchanged code satisfies it;
  3. needs something specific to manifest: a particular multi-step sequence of operations, an unusual input or boundary value, a particular interleaving or crash/fault point, a particular configuration combination, or two cooperating sites that each look fine alone. Do NOT produce changes that ordinary use (a plain push and pull) would expose at once, and do not make changes that are merely cosmetic or that break a different property only;
  4. is small and looks like a plausible programming slip or a plausible "optimisation/refactor" a maintainer could have written (a few lines; no added debugging code, no comments that give it away).
Mutants {l1} and {l2} must differ in mechanism and location (different function or different clause of the property), and prefer clauses of the property / parts of the quantifier that the existing mutants do not touch.

For each mutant also write a demonstration: a Go test file (in-package _test.go is fine; it may use httptest and the package's own helpers) that FAILS with the change applied and PASSES on the unchanged code. Verify both directions yourself by actually running it, and verify the full existing suite passes with the mutant applied.

Deliverables - write exactly these files, then restore the worktree to a clean state (git checkout -- . ; remove your untracked files from the worktree):
  {out}/{l1}/patch.diff      (output of `git diff` for mutant {l1} only, source change only, not the demo)
  {out}/{l1}/demo_test.go    (first line a comment saying in which package directory, relative to the repo root, it must be placed, e.g. `// place in: internal/store`)
  {out}/{l1}/notes.md        (first line `# {pid} mutant {l1}: <one-line summary>`; then what the change is, which clause it breaks, what is needed for it to manifest, the exact commands you ran and their outcome with and without the change)
  and the same under {out}/{l2}/.
If you can only produce one convincing mutant, deliver {l1} only and say so. If, while reading the code, you notice behaviour of the UNCHANGED code that already seems to violate the property, add a section "Side observations" to notes.md with the concrete scenario. Keep going until the deliverables are verified; your final message should be a short summary (one paragraph per mutant)."""
    if pid == 'C13':
        txt += "\nNote for C13: a demonstration may rely on the Go race detector (go test -race); then make the first line after the placement comment `//go:build race` and say so in the first lines of notes.md.\n"
    os.makedirs(base, exist_ok=True)
    open('%s/%s-prompt.txt' % (base, pid), 'w').write(txt)
    subprocess.call(['git', '-C', '/repo', 'worktree', 'add', '-q', '--detach', wt, 'HEAD'])
    os.makedirs(out, exist_ok=True)
print("ok", len(ids))
