#!/bin/sh
# tools/sweep.sh : every seeded change against its property's quick check (repository: $VERIF_REPO, default /repo)
V=$(cd "$(dirname "$0")/.." && pwd)
cd "$V"
for d in seeded/*/; do
  [ -f $d/patch.diff ] || continue
  n=$(basename $d); id=${n%-*}
  r=$(tools/mutest.sh $V/$d/patch.diff $id 2>&1 | grep -E "violation\(s\)|apply|uncommitted")
  echo "$n: $r"
done
