#!/bin/sh
# sweep: every seeded change against its property's quick check
cd /verif
for d in seeded/*/; do
  [ -f $d/patch.diff ] || continue
  case $d in seeded/*) n=$(basename $d); id=${n%-*};; *) id=$(basename $(dirname $d)); id=${id%-out}; n=$id-$(basename $d);; esac
  r=$(tools/mutest.sh $PWD/$d/patch.diff $id 2>&1 | grep -E "violation\(s\)|apply|uncommitted")
  case $d in /*) r=$(tools/mutest.sh $d/patch.diff $id 2>&1 | grep -E "violation\(s\)|apply|uncommitted");; esac
  echo "$n: $r"
done
