#!/bin/sh
# tools/round2.sh <ID> <letter> : confirm a seeded change of a later round (directory ${MUT:-/tmp/mut2}/<ID>-out/<letter>), run the
# property's quick check against it, print the outcome
P=$1; M=$2; D=${MUT:-/tmp/mut2}/$P-out/$M
[ -f $D/patch.diff ] || { echo "$P-$M: no patch"; exit 1; }
tools/confirm_mutant.sh $D r-$P-$M > /dev/null 2>&1
C=$(cat $D/confirm.txt 2>/dev/null)
echo "== $P-$M confirm: $C"
tools/mutest.sh $D/patch.diff $P 2>&1 | grep -E "^VIOLATION|^#|violation\(s\)|apply" | cut -c1-260 | head -6
