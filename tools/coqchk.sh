#!/bin/sh
# tools/coqchk.sh : re-check every compiled property file (and everything it depends on) with Coq's independent checker and print
# the axioms they rely on.  Works on a scratch copy of coq/ (about a minute for all twenty files).
V=$(cd "$(dirname "$0")/.." && pwd)
T=$(mktemp -d /root/scratch/coqchk.XXXXXX 2>/dev/null || mktemp -d)
trap 'rm -rf "$T"' EXIT
cp -r "$V/coq/." "$T/"
cd "$T" || exit 2
ls Props_C*.vo >/dev/null 2>&1 || { echo "build coq/ first (./setup.sh)"; exit 2; }
timeout 3000 coqchk -silent -o -Q . Olareg $(ls Props_C*.vo | sed 's/\.vo$//; s/^/Olareg./')
