#!/bin/sh
# tools/mutest.sh <patch.diff> <ID> [<ID>...] : apply a seeded change to the repository under test, run the quick checks, undo it.
# The repository is $VERIF_REPO (default /repo); the checks are those of the directory this script lives in.
P=$1; shift
R=${VERIF_REPO:-/repo}
V=$(cd "$(dirname "$0")/.." && pwd)
cd "$R" || exit 2
git diff --quiet || { echo "$R has uncommitted changes"; exit 2; }
git apply "$P" || { echo "patch does not apply"; exit 2; }
trap 'cd "$R" && git checkout -- . && git clean -fdq' EXIT INT TERM
cd "$V"
for id in "$@"; do
  ./check "$id" ${TIER:-quick} 2>&1 | grep -E "^VIOLATION|^KNOWN|^#|violation\(s\)" | cut -c1-400
done
