#!/bin/sh
# tools/mutest.sh <patch.diff> <ID> [<ID>...] : apply a seeded change to /repo, run the quick checks, undo it.
P=$1; shift
cd /repo || exit 2
git diff --quiet || { echo "/repo has uncommitted changes"; exit 2; }
git apply "$P" || { echo "patch does not apply"; exit 2; }
trap 'cd /repo && git checkout -- . && git clean -fdq' EXIT INT TERM
cd /verif
for id in "$@"; do
  ./check "$id" ${TIER:-quick} 2>&1 | grep -E "^VIOLATION|^KNOWN|^#|violation\(s\)" | cut -c1-400
done
