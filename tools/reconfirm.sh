#!/bin/sh
# tools/reconfirm.sh [jobs] : for every seeded change, the demo must still FAIL with the change applied on /repo's HEAD (a fix: commit
# can turn a seeded change into an equivalent one).  Prints the ones whose demo passes or whose patch does not apply.
J=${1:-6}
V=$(cd "$(dirname "$0")/.." && pwd)
export GOFLAGS=-mod=mod GOPROXY=off GOSUMDB=off GOTOOLCHAIN=local
ls -d $V/seeded/*/ | xargs -P $J -I{} sh -c '
  D={}; D=${D%/}; N=$(basename $D); W=/root/scratch/rc-$N
  rm -rf $W; git -C /repo worktree add -q --detach $W HEAD 2>/dev/null || { echo "$N: worktree failed"; exit 0; }
  pkg=$(head -3 $D/demo_test.go | grep -o "place in: *[^ ]*" | sed "s/place in: *//"); [ -z "$pkg" ] && pkg=.; [ "$pkg" = "repo" ] && pkg=.
  case "$pkg" in *root*) pkg=. ;; esac
  cp $D/demo_test.go $W/$pkg/zz_demo_test.go
  tests=$(grep -o "^func Test[A-Za-z0-9_]*" $W/$pkg/zz_demo_test.go | sed "s/func //" | paste -sd"|")
  RACE=""; grep -q "go:build race" $W/$pkg/zz_demo_test.go && RACE=-race
  if (cd $W && git apply $D/patch.diff 2>/dev/null); then
    if (cd $W && go test $RACE -vet=off -count=1 -run "^($tests)\$" ./$pkg >/dev/null 2>&1); then echo "$N: demo PASSES with the change"; fi
  else echo "$N: patch does not apply"; fi
  git -C /repo worktree remove --force $W >/dev/null 2>&1
'
git -C /repo worktree prune
echo reconfirm-done
