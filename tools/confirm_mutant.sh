#!/bin/sh
# tools/confirm_mutant.sh <mutant-dir (patch.diff, demo_test.go)> <name> : confirm a seeded change in a scratch worktree:
#  demo passes without the change, fails with it, and the existing suite passes with it.  Writes <mutant-dir>/confirm.txt
D=$1; N=$2
export GOFLAGS=-mod=mod GOPROXY=off GOSUMDB=off GOTOOLCHAIN=local
W=/root/scratch/cm-$N
rm -rf $W; git -C /repo worktree prune; git -C /repo worktree add -q --detach $W HEAD || exit 2
trap 'git -C /repo worktree remove --force '$W' >/dev/null 2>&1; git -C /repo worktree prune' EXIT
pkg=$(head -3 $D/demo_test.go | grep -o 'place in: *[^ ]*' | sed 's/place in: *//')
[ -z "$pkg" ] && pkg=.
[ "$pkg" = "repo" ] && pkg=.
case "$pkg" in *root*) pkg=. ;; esac
cp $D/demo_test.go $W/$pkg/zz_demo_test.go
cd $W
tests=$(grep -o '^func Test[A-Za-z0-9_]*' $pkg/zz_demo_test.go | sed 's/func //' | paste -sd'|')
RACE=""; grep -q "go:build race" $pkg/zz_demo_test.go && RACE=-race
r1=FAIL; go test $RACE -vet=off -count=1 -run "^($tests)\$" ./$pkg > /tmp/cm-$N-1.log 2>&1 && r1=PASS
git apply $D/patch.diff || { echo "patch does not apply" > $D/confirm.txt; exit 1; }
r2=FAIL; go test $RACE -vet=off -count=1 -run "^($tests)\$" ./$pkg > /tmp/cm-$N-2.log 2>&1 && r2=PASS
rm $pkg/zz_demo_test.go
r3=$(/root/scratch/t.sh | tail -1)
echo "demo-without-change=$r1 demo-with-change=$r2 suite-with-change=$r3 tests=$tests pkg=$pkg commit=$(git -C /repo rev-parse --short HEAD)" | tee $D/confirm.txt
