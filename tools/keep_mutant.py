#!/usr/bin/env python3
"""tools/keep_mutant.py <outdir> <property> <name> <detected_by or ''> : keep a confirmed seeded change under /verif/seeded/"""
import json, os, shutil, sys
out, prop, name, det = sys.argv[1:5]
dst = "/verif/seeded/%s-%s" % (prop, name)
os.makedirs(dst, exist_ok=True)
for f in ("patch.diff", "demo_test.go", "notes.md", "confirm.txt"):
    if os.path.exists(os.path.join(out, f)):
        shutil.copy(os.path.join(out, f), os.path.join(dst, f))
notes = open(os.path.join(out, "notes.md")).read() if os.path.exists(os.path.join(out, "notes.md")) else ""
conf = open(os.path.join(out, "confirm.txt")).read().strip() if os.path.exists(os.path.join(out, "confirm.txt")) else ""
meta = dict(property=prop, name=name, source="independent sub-agent given only the property text and a scratch worktree",
            needs=notes[:1500], ran="tools/confirm_mutant.sh in a scratch worktree: " + conf,
            detected_by=[d for d in det.split(",") if d])
json.dump(meta, open(os.path.join(dst, "meta.json"), "w"), indent=1)
print(dst)
