#!/bin/sh
# tools/psweep.sh <seed> <shards> : the sweep of tools/sweep.sh under a given VERIF_SEED, in <shards> parallel copies of this directory
# (each with its own worktree of /repo, under /root/scratch); logs /root/scratch/psweep-<seed>-<k>.log; copies are removed at the end
SEED=$1; N=${2:-3}
V=$(cd "$(dirname "$0")/.." && pwd)
ls -d $V/seeded/*/ | xargs -n1 basename > /root/scratch/psweep.list
for k in $(seq 1 $N); do
  (
    C=/root/scratch/pv$k; R=/root/scratch/pr$k
    rm -rf $C; git -C /repo worktree remove --force $R 2>/dev/null
    rsync -a --exclude replays --exclude .git $V/ $C/
    git -C /repo worktree add -q --detach $R HEAD
    cd $C
    awk -v n=$N -v k=$k 'NR % n == k % n' /root/scratch/psweep.list | while read n; do
      id=${n%-*}
      r=$(VERIF_SEED=$SEED VERIF_REPO=$R tools/mutest.sh $C/seeded/$n/patch.diff $id 2>&1 | grep -E "violation\(s\)|apply|uncommitted")
      echo "$n: $r"
    done > /root/scratch/psweep-$SEED-$k.log 2>&1
    git -C /repo worktree remove --force $R; rm -rf $C
  ) &
done
wait
