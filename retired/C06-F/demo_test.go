// place in: internal/store
package store

import (
	"context"
	"encoding/json"
	"path/filepath"
	"testing"
	"time"

	"github.com/opencontainers/go-digest"

	"github.com/olareg/olareg/config"
	"github.com/olareg/olareg/types"
)

// TestMutFRetagAfterQuietPeriod covers this history with the scheduled (store wide) collection running,
// a grace period configured and collection of untagged manifests enabled:
//
//  1. image A is pushed as tag "stable", image B is pushed as tag "next"
//  2. nothing happens to the repository for longer than grace period + collection frequency
//  3. tag "stable" is moved to image B; B is already in the repository, so no blob is uploaded,
//     the only change is the index entry (this is what the manifest put handler does when the blob exists)
//
// Image A is now untagged and far older than the grace period: the next scheduled pass has to remove it.
func TestMutFRetagAfterQuietPeriod(t *testing.T) {
	ctx := context.Background()
	grace := time.Millisecond * 300
	freq := time.Millisecond * 50
	boolT := true
	boolF := false
	tempDir := t.TempDir()
	tt := []struct {
		name    string
		store   config.Store
		rootDir string
	}{
		{name: "Mem", store: config.StoreMem},
		{name: "Dir", store: config.StoreDir, rootDir: filepath.Join(tempDir, "dir")},
	}
	for _, tc := range tt {
		tc := tc
		t.Run(tc.name, func(t *testing.T) {
			t.Parallel()
			conf := config.Config{
				Storage: config.ConfigStorage{
					StoreType: tc.store,
					RootDir:   tc.rootDir,
					GC: config.ConfigGC{
						Frequency:         freq,
						GracePeriod:       grace,
						Untagged:          &boolT,
						ReferrersDangling: &boolF,
						ReferrersWithSubj: &boolT,
					},
				},
			}
			conf.SetDefaults()
			var s Store
			if tc.store == config.StoreDir {
				s = NewDir(conf)
			} else {
				s = NewMem(conf)
			}
			t.Cleanup(func() { _ = s.Close() })
			repoName := "proj/app"

			// repos are only held for a short time, the collection waits for users of a repo to finish
			withRepo := func(fn func(repo Repo)) {
				t.Helper()
				repo, err := s.RepoGet(ctx, repoName)
				if err != nil {
					t.Fatalf("failed to get repo: %v", err)
				}
				defer repo.Done()
				fn(repo)
			}
			push := func(repo Repo, b []byte) types.Descriptor {
				t.Helper()
				bc, _, err := repo.BlobCreate(BlobWithAlgorithm(digest.Canonical))
				if err != nil {
					t.Fatalf("failed to create blob: %v", err)
				}
				if _, err = bc.Write(b); err != nil {
					t.Fatalf("failed to write blob: %v", err)
				}
				if err = bc.Close(); err != nil {
					t.Fatalf("failed to close blob: %v", err)
				}
				return types.Descriptor{Digest: digest.Canonical.FromBytes(b), Size: int64(len(b))}
			}
			// pushImage returns the descriptors of the manifest and of its layer
			pushImage := func(repo Repo, name, tag string) (types.Descriptor, types.Descriptor) {
				t.Helper()
				conf := push(repo, []byte(`{"name":"`+name+`"}`))
				conf.MediaType = types.MediaTypeOCI1ImageConfig
				layer := push(repo, []byte("layer of "+name))
				layer.MediaType = types.MediaTypeOCI1LayerGzip
				raw, err := json.Marshal(types.Manifest{
					SchemaVersion: 2,
					MediaType:     types.MediaTypeOCI1Manifest,
					Config:        conf,
					Layers:        []types.Descriptor{layer},
				})
				if err != nil {
					t.Fatalf("failed to marshal manifest: %v", err)
				}
				d := push(repo, raw)
				d.MediaType = types.MediaTypeOCI1Manifest
				tagged := d
				tagged.Annotations = map[string]string{types.AnnotRefName: tag}
				if err = repo.IndexInsert(tagged); err != nil {
					t.Fatalf("failed to tag %s: %v", name, err)
				}
				return d, layer
			}
			exists := func(d digest.Digest) bool {
				found := false
				withRepo(func(repo Repo) {
					if br, err := repo.BlobGet(d); err == nil {
						_ = br.Close()
						found = true
					}
				})
				return found
			}

			// 1. two tagged images
			var manA, layerA, manB, layerB types.Descriptor
			withRepo(func(repo Repo) {
				manA, layerA = pushImage(repo, "image-a", "stable")
				manB, layerB = pushImage(repo, "image-b", "next")
			})

			// 2. quiet period, the scheduled collection keeps running and finds nothing to do
			time.Sleep(grace + freq*2 + time.Millisecond*300)
			for name, d := range map[string]types.Descriptor{"manifest A": manA, "layer A": layerA, "manifest B": manB, "layer B": layerB} {
				if !exists(d.Digest) {
					t.Fatalf("%s was removed while it was tagged", name)
				}
			}

			// 3. move the tag, the blob of B exists so only the index changes
			withRepo(func(repo Repo) {
				if _, _, err := repo.BlobCreate(BlobWithDigest(manB.Digest)); err == nil {
					t.Fatalf("manifest blob of B is expected to exist")
				}
				retag := manB
				retag.Annotations = map[string]string{types.AnnotRefName: "stable"}
				if err := repo.IndexInsert(retag); err != nil {
					t.Fatalf("failed to move tag: %v", err)
				}
				index, err := repo.IndexGet()
				if err != nil {
					t.Fatalf("failed to get index: %v", err)
				}
				if d, err := index.GetDesc("stable"); err != nil || d.Digest != manB.Digest {
					t.Fatalf("tag was not moved: %v %v", d, err)
				}
			})

			// image A is untagged and older than the grace period, scheduled passes run every 50ms
			deadline := time.Now().Add(time.Second * 2)
			for time.Now().Before(deadline) && (exists(manA.Digest) || exists(layerA.Digest)) {
				time.Sleep(freq)
			}
			if exists(manA.Digest) {
				t.Errorf("untagged manifest A was never collected: %s", manA.Digest)
			}
			if exists(layerA.Digest) {
				t.Errorf("layer of untagged manifest A was never collected: %s", layerA.Digest)
			}
			withRepo(func(repo Repo) {
				index, err := repo.IndexGet()
				if err != nil {
					t.Fatalf("failed to get index: %v", err)
				}
				if _, err = index.GetDesc(manA.Digest.String()); err == nil {
					t.Errorf("index entry of untagged manifest A was never collected")
				}
			})
			// B stays
			if !exists(manB.Digest) || !exists(layerB.Digest) {
				t.Errorf("image B was removed")
			}
		})
	}
}
