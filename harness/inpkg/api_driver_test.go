//go:build verif

package olareg

// In-package API driver, injected at check time with `go test -c -overlay`
// (nothing is written into /repo).  It replays request histories read from
// $VERIF_CASES against a real Server (ServeHTTP called in-process) and writes
// what it observed to $VERIF_OUT, one JSON line per case.  It takes no
// decisions: generation, oracles and the comparison with the Coq model live in
// /verif.

import (
	"bufio"
	"bytes"
	"context"
	"crypto/sha256"
	"encoding/base64"
	"encoding/hex"
	"encoding/json"
	"fmt"
	"io"
	"io/fs"
	"log/slog"
	"net/http"
	"net/http/httptest"
	"net/url"
	"os"
	"path/filepath"
	"runtime"
	"runtime/debug"
	"sort"
	"strings"
	"sync"
	"sync/atomic"
	"testing"
	"time"

	"github.com/opencontainers/go-digest"

	"github.com/olareg/olareg/config"
	"github.com/olareg/olareg/internal/store"
	"github.com/olareg/olareg/types"
)

type aConf struct {
	Store      string   `json:"store"` // mem | dir | memdir
	RO         bool     `json:"ro"`
	Push       *bool    `json:"push"`
	Delete     *bool    `json:"delete"`
	BlobDelete *bool    `json:"blobdelete"`
	Referrer   *bool    `json:"referrer"`
	MLimit     int64    `json:"mlimit"`
	RLimit     int64    `json:"rlimit"`
	RateLimit  int      `json:"ratelimit"`
	Warnings   []string `json:"warnings"`
	Untagged   *bool    `json:"untagged"`
	EmptyRepo  *bool    `json:"emptyrepo"`
	Dangling   *bool    `json:"dangling"`
	WithSubj   *bool    `json:"withsubj"`
	GraceMS    int64    `json:"grace_ms"`  // 0 = default (1h); <0 disabled
	FreqMS     int64    `json:"freq_ms"`   // 0 => -1 (ticker off)
	FreqUS     int64    `json:"freq_us"`   // ticker period in microseconds (overrides freq_ms)
	UploadMax  int      `json:"uploadmax"` // 0 = default
	DebugLog   bool     `json:"debuglog"`  // a logger that formats every record (debug level) and throws the text away
	PageExpMS  int64    `json:"pageexp_ms"`
	PageLimit  int      `json:"pagelimit"`
	Root       string   `json:"root"`      // sub-directory name under the case directory ("" = "root")
	Cwd        bool     `json:"cwd"`       // run the case with the root directory as the working directory of the process
	RootSpell  string   `json:"rootspell"` // how the root directory is written in the configuration: "" (clean), "slash" (<root>/), "dot" (<case>/./root), "double" (<case>//root), "dotdot" (<case>/x/../root)
	TmpInCase  bool     `json:"tmpincase"` // TMPDIR of the process points to <case directory>/tmpdir (next to the root), which the case snapshots see
}

type aFile struct {
	Path string `json:"path"`
	B64  string `json:"b64"`
	Dir  bool   `json:"dir"`
}

type aStep struct {
	Op        string                 `json:"op"`
	Method    string                 `json:"method"`
	Path      string                 `json:"path"`
	Query     string                 `json:"query"`
	Headers   map[string][]string    `json:"headers"`
	B64       string                 `json:"b64"`
	Unknown   bool                   `json:"unknown"` // Content-Length unknown (-1)
	Remote    string                 `json:"remote"`
	Repo      string                 `json:"repo"`
	Digest    string                 `json:"digest"`
	Secs      float64                `json:"secs"`
	Kind      string                 `json:"kind"`
	Files     []aFile                `json:"files"`
	Par       [][]aStep              `json:"par"`
	Conf      *aConf                 `json:"conf"`
	Full      bool                   `json:"full"`
	Names     []string               `json:"names"`
	Descs     []vwDesc               `json:"descs"`
	Cfg       map[string]interface{} `json:"cfg"`
	N         int                    `json:"n"`
	Partial   bool                   `json:"partial"`
	Calls     []bcCall               `json:"calls"`      // op "bc": calls on the store's BlobCreator interface
	TimeoutMS int                    `json:"timeout_ms"` // the request's context is cancelled after this long
	Idx       int                    `json:"idx"`        // index under which the session of an upload POST is remembered (steps inside par / async)
	Mid       []aStep                `json:"mid"`        // executed after Split bytes of the body have been read by the handler
	Split     int                    `json:"split"`
}

// hookStore / hookRepo / hookBC wrap the store of the server for one request (op "hooked"): every store action of the request is
// a point at which other steps can be run.
type hookStore struct {
	store.Store
	e    *aEnv
	at   int
	mid  []aStep
	n    int
	busy bool
	log  []string
	out  []aRes
}

func (h *hookStore) point(label string) {
	if h.busy {
		return
	}
	h.n++
	h.log = append(h.log, label)
	if h.n == h.at {
		h.busy = true
		for _, m := range h.mid {
			h.out = append(h.out, h.e.step(m, -1))
		}
		h.busy = false
	}
}

func (h *hookStore) RepoGet(ctx context.Context, name string) (store.Repo, error) {
	if h.busy {
		return h.Store.RepoGet(ctx, name)
	}
	h.point("RepoGet " + name)
	r, err := h.Store.RepoGet(ctx, name)
	if err != nil {
		return r, err
	}
	return &hookRepo{Repo: r, h: h}, nil
}

type hookRepo struct {
	store.Repo
	h *hookStore
}

func (r *hookRepo) IndexGet() (types.Index, error) { r.h.point("IndexGet"); return r.Repo.IndexGet() }
func (r *hookRepo) IndexInsert(d types.Descriptor, opts ...types.IndexOpt) error {
	r.h.point("IndexInsert")
	return r.Repo.IndexInsert(d, opts...)
}
func (r *hookRepo) IndexRemove(d types.Descriptor) error {
	r.h.point("IndexRemove")
	return r.Repo.IndexRemove(d)
}
func (r *hookRepo) BlobGet(d digest.Digest) (io.ReadSeekCloser, error) {
	r.h.point("BlobGet")
	return r.Repo.BlobGet(d)
}
func (r *hookRepo) BlobDelete(d digest.Digest) error {
	r.h.point("BlobDelete")
	return r.Repo.BlobDelete(d)
}
func (r *hookRepo) BlobCreate(opts ...store.BlobOpt) (store.BlobCreator, string, error) {
	r.h.point("BlobCreate")
	bc, id, err := r.Repo.BlobCreate(opts...)
	if err != nil || bc == nil {
		return bc, id, err
	}
	return &hookBC{BlobCreator: bc, h: r.h}, id, nil
}
func (r *hookRepo) BlobSession(id string) (store.BlobCreator, error) {
	r.h.point("BlobSession")
	bc, err := r.Repo.BlobSession(id)
	if err != nil || bc == nil {
		return bc, err
	}
	return &hookBC{BlobCreator: bc, h: r.h}, nil
}
func (r *hookRepo) Done() { r.h.point("Done"); r.Repo.Done() }

type hookBC struct {
	store.BlobCreator
	h *hookStore
}

func (b *hookBC) Write(p []byte) (int, error) { b.h.point("bc.Write"); return b.BlobCreator.Write(p) }
func (b *hookBC) Close() error                { b.h.point("bc.Close"); return b.BlobCreator.Close() }
func (b *hookBC) Cancel() error               { b.h.point("bc.Cancel"); return b.BlobCreator.Cancel() }
func (b *hookBC) Verify(d digest.Digest) error {
	b.h.point("bc.Verify")
	return b.BlobCreator.Verify(d)
}

// splitReader delivers data[:split], then runs fn (other requests, while the handler
// of this request is waiting for more body), then delivers the rest.
type splitReader struct {
	data  []byte
	split int
	pos   int
	fired bool
	fn    func()
}

func (s *splitReader) Read(p []byte) (int, error) {
	if s.pos >= s.split && !s.fired {
		s.fired = true
		s.fn()
	}
	if s.pos >= len(s.data) {
		return 0, io.EOF
	}
	end := len(s.data)
	if s.pos < s.split {
		end = s.split
	}
	n := copy(p, s.data[s.pos:end])
	s.pos += n
	return n, nil
}

type aCase struct {
	ID    int     `json:"id"`
	Conf  aConf   `json:"conf"`
	Seed  []aFile `json:"seed"` // files written under the root before the server starts
	Steps []aStep `json:"steps"`
}

// one call of a store-level upload script: sessions are numbered in the order they are created
type bcCall struct {
	Fn     string `json:"fn"` // create | session | write | verify | chalg | info | close | cancel
	Sess   int    `json:"sess"`
	Alg    string `json:"alg"`
	Digest string `json:"digest"`
	B64    string `json:"b64"`
}

type bcOut struct {
	OK     bool   `json:"ok"`
	Err    string `json:"err,omitempty"`
	Size   int64  `json:"size"`
	Digest string `json:"digest"`
}

type aRes struct {
	BC       []bcOut                `json:"bc,omitempty"`
	Status   int                    `json:"status"`
	Headers  map[string][]string    `json:"headers,omitempty"`
	B64      string                 `json:"b64,omitempty"`
	BodyLen  int                    `json:"bodylen"`
	Panic    string                 `json:"panic,omitempty"`
	Err      string                 `json:"err,omitempty"`
	Files    []aFileInfo            `json:"files,omitempty"`
	N        int                    `json:"n"`
	Names    []string               `json:"names,omitempty"`
	Par      [][]aRes               `json:"par,omitempty"`
	View     *aView                 `json:"view,omitempty"`
	Pages    [][]string             `json:"pages,omitempty"`
	PageLens []int                  `json:"pagelens,omitempty"`
	MS       float64                `json:"ms"`
	T0       int64                  `json:"t0,omitempty"` // ns since the case started: just before / just after the handler ran
	T1       int64                  `json:"t1,omitempty"`
	Cfg      map[string]interface{} `json:"cfg,omitempty"`
	Flag     bool                   `json:"flag"`
}

type aFileInfo struct {
	Path  string `json:"path"`
	Dir   bool   `json:"dir"`
	Size  int64  `json:"size"`
	SHA   string `json:"sha,omitempty"`
	MTime int64  `json:"mtime"`
	Mode  uint32 `json:"mode"`
	B64   string `json:"b64,omitempty"`
}

type aOut struct {
	ID    int    `json:"id"`
	Steps []aRes `json:"steps"`
	Fatal string `json:"fatal,omitempty"`
}

var keepHeaders = []string{"Content-Type", "Content-Length", "Docker-Content-Digest", "Location", "Range",
	"Link", "Oci-Subject", "Oci-Filters-Applied", "Warning", "Retry-After", "Docker-Distribution-Api-Version",
	"Content-Range", "Accept-Ranges"}

// ---- JSON views: what encoding/json makes of a body for each struct olareg parses into ----
type vwDesc struct {
	MT   string             `json:"mt"`
	Dig  string             `json:"dig"`
	Size int64              `json:"size"`
	Ann  *map[string]string `json:"ann"`
	AT   string             `json:"at"`
}

type aView struct {
	OkM       bool               `json:"ok_m"` // types.Manifest
	OkI       bool               `json:"ok_i"` // types.Index
	OkD       bool               `json:"ok_d"` // mtDetect
	OkR       bool               `json:"ok_r"` // referrerParse
	MT        string             `json:"mt"`
	AT        string             `json:"at"`
	Config    *vwDesc            `json:"config"`
	Layers    []vwDesc           `json:"layers"`
	Manifests []vwDesc           `json:"manifests"`
	MNil      bool               `json:"mnil"` // manifests absent/null (Go nil slice)
	Subject   *vwDesc            `json:"subject"`
	Ann       *map[string]string `json:"ann"`
	Len       int                `json:"len"`
}

type vMtDetect struct {
	SchemaVersion int                `json:"schemaVersion"`
	MediaType     string             `json:"mediaType,omitempty"`
	Manifests     []types.Descriptor `json:"manifests"`
	Config        types.Descriptor   `json:"config"`
	Layers        []types.Descriptor `json:"layers"`
}

type vRefParse struct {
	MediaType    string            `json:"mediaType,omitempty"`
	ArtifactType string            `json:"artifactType,omitempty"`
	Config       *types.Descriptor `json:"config"`
	Subject      *types.Descriptor `json:"subject,omitempty"`
	Annotations  map[string]string `json:"annotations,omitempty"`
}

func vwd(d types.Descriptor) vwDesc {
	v := vwDesc{MT: d.MediaType, Dig: string(d.Digest), Size: d.Size, AT: d.ArtifactType}
	if d.Annotations != nil {
		m := map[string]string{}
		for k, x := range d.Annotations {
			m[k] = x
		}
		v.Ann = &m
	}
	return v
}

func vwl(l []types.Descriptor) []vwDesc {
	out := make([]vwDesc, 0, len(l))
	for _, d := range l {
		out = append(out, vwd(d))
	}
	return out
}

func annp(a map[string]string) *map[string]string {
	if a == nil {
		return nil
	}
	m := map[string]string{}
	for k, x := range a {
		m[k] = x
	}
	return &m
}

func descp(d *types.Descriptor) *vwDesc {
	if d == nil {
		return nil
	}
	v := vwd(*d)
	return &v
}

// viewOf unmarshals raw into the four struct shapes olareg uses and merges the
// fields: a field is taken from any shape that decoded without error and has it
// (the same JSON decodes to the same value in each).
func viewOf(raw []byte) *aView {
	v := &aView{Len: len(raw), Layers: []vwDesc{}, Manifests: []vwDesc{}, MNil: true}
	m := types.Manifest{}
	i := types.Index{}
	d := vMtDetect{}
	r := vRefParse{}
	v.OkM = json.Unmarshal(raw, &m) == nil
	v.OkI = json.Unmarshal(raw, &i) == nil
	v.OkD = json.Unmarshal(raw, &d) == nil
	v.OkR = json.Unmarshal(raw, &r) == nil
	switch {
	case v.OkM:
		v.MT = m.MediaType
	case v.OkI:
		v.MT = i.MediaType
	case v.OkD:
		v.MT = d.MediaType
	case v.OkR:
		v.MT = r.MediaType
	}
	switch {
	case v.OkM:
		v.AT, v.Subject, v.Ann = m.ArtifactType, descp(m.Subject), annp(m.Annotations)
	case v.OkI:
		v.AT, v.Subject, v.Ann = i.ArtifactType, descp(i.Subject), annp(i.Annotations)
	case v.OkR:
		v.AT, v.Subject, v.Ann = r.ArtifactType, descp(r.Subject), annp(r.Annotations)
	}
	// config: absent/null is nil (referrerParse has a pointer; the value structs then hold the zero descriptor)
	switch {
	case v.OkR:
		v.Config = descp(r.Config)
	case v.OkM:
		if m.Config.MediaType != "" || m.Config.Digest != "" || m.Config.Size != 0 {
			v.Config = descp(&m.Config)
		}
	case v.OkD:
		if d.Config.MediaType != "" || d.Config.Digest != "" || d.Config.Size != 0 {
			v.Config = descp(&d.Config)
		}
	}
	switch {
	case v.OkM:
		v.Layers = vwl(m.Layers)
	case v.OkD:
		v.Layers = vwl(d.Layers)
	}
	switch {
	case v.OkI:
		v.Manifests, v.MNil = vwl(i.Manifests), i.Manifests == nil
	case v.OkD:
		v.Manifests, v.MNil = vwl(d.Manifests), d.Manifests == nil
	}
	return v
}

// ---- server under test -------------------------------------------------------------------
type aEnv struct {
	mu      sync.Mutex
	async   []chan aRes
	start   time.Time
	closing atomic.Bool // a "close" step was started (it may still be running, or hang)
	dir     string
	conf    aConf
	s       *Server
	sids    map[int]string // step index -> session id / state learned from Location
	sts     map[int]string
	locs    map[int]string
}

func bp(b bool) *bool { return &b }

func (e *aEnv) rootDir() string {
	r := e.conf.Root
	if r == "" {
		r = "root"
	}
	return filepath.Join(e.dir, r)
}

func (e *aEnv) mkConf() config.Config {
	c := e.conf
	cf := config.Config{}
	switch c.Store {
	case "dir":
		cf.Storage.StoreType = config.StoreDir
		cf.Storage.RootDir = e.rootDir()
	case "memdir":
		cf.Storage.StoreType = config.StoreMem
		cf.Storage.RootDir = e.rootDir()
	default:
		cf.Storage.StoreType = config.StoreMem
	}
	if cf.Storage.RootDir != "" {
		// (filepath.Join cleans: the other spellings are put together by hand)
		r := c.Root
		if r == "" {
			r = "root"
		}
		switch c.RootSpell {
		case "slash":
			cf.Storage.RootDir = cf.Storage.RootDir + "/"
		case "dot":
			cf.Storage.RootDir = e.dir + "/./" + r
		case "double":
			cf.Storage.RootDir = e.dir + "//" + r
		case "dotdot":
			cf.Storage.RootDir = e.dir + "/" + r + "/../" + r
		}
	}
	cf.Storage.ReadOnly = bp(c.RO)
	cf.API.PushEnabled = c.Push
	cf.API.DeleteEnabled = c.Delete
	cf.API.Blob.DeleteEnabled = c.BlobDelete
	cf.API.Referrer.Enabled = c.Referrer
	cf.API.Manifest.Limit = c.MLimit
	cf.API.Referrer.Limit = c.RLimit
	cf.API.RateLimit = c.RateLimit
	cf.API.Warnings = c.Warnings
	cf.API.Referrer.PageCacheExpire = time.Duration(c.PageExpMS) * time.Millisecond
	cf.API.Referrer.PageCacheLimit = c.PageLimit
	cf.Storage.GC.Untagged = c.Untagged
	cf.Storage.GC.EmptyRepo = c.EmptyRepo
	cf.Storage.GC.ReferrersDangling = c.Dangling
	cf.Storage.GC.ReferrersWithSubj = c.WithSubj
	cf.Storage.GC.GracePeriod = time.Duration(c.GraceMS) * time.Millisecond
	if c.FreqMS == 0 {
		cf.Storage.GC.Frequency = -1
	} else {
		cf.Storage.GC.Frequency = time.Duration(c.FreqMS) * time.Millisecond
	}
	if c.FreqUS > 0 {
		cf.Storage.GC.Frequency = time.Duration(c.FreqUS) * time.Microsecond
	}
	cf.Storage.GC.RepoUploadMax = c.UploadMax
	if c.DebugLog {
		cf.Log = slog.New(slog.NewTextHandler(io.Discard, &slog.HandlerOptions{Level: slog.LevelDebug}))
	}
	return cf
}

func writeFiles(root string, files []aFile) error {
	for _, f := range files {
		p := filepath.Join(root, filepath.FromSlash(f.Path))
		if f.Dir {
			if err := os.MkdirAll(p, 0o755); err != nil {
				return err
			}
			continue
		}
		if err := os.MkdirAll(filepath.Dir(p), 0o755); err != nil {
			return err
		}
		b, err := base64.StdEncoding.DecodeString(f.B64)
		if err != nil {
			return err
		}
		if err := os.WriteFile(p, b, 0o644); err != nil {
			return err
		}
	}
	return nil
}

func snapshot(root string, full bool) []aFileInfo {
	out := []aFileInfo{}
	_ = filepath.WalkDir(root, func(p string, d fs.DirEntry, err error) error {
		if err != nil {
			return nil
		}
		rel, _ := filepath.Rel(root, p)
		if rel == "." {
			return nil
		}
		fi, err := d.Info()
		if err != nil {
			return nil
		}
		inf := aFileInfo{Path: filepath.ToSlash(rel), Dir: d.IsDir(), Size: fi.Size(), MTime: fi.ModTime().UnixNano(), Mode: uint32(fi.Mode())}
		if !d.IsDir() {
			if b, err := os.ReadFile(p); err == nil {
				h := sha256.Sum256(b)
				inf.SHA = hex.EncodeToString(h[:])
				if full && len(b) <= 1<<20 {
					inf.B64 = base64.StdEncoding.EncodeToString(b)
				}
			}
		} else {
			inf.Size = 0
		}
		out = append(out, inf)
		return nil
	})
	sort.Slice(out, func(i, j int) bool { return out[i].Path < out[j].Path })
	return out
}

func (e *aEnv) subst(s string) string {
	if !strings.Contains(s, "$") {
		return s
	}
	e.mu.Lock()
	defer e.mu.Unlock()
	for k, v := range e.sids {
		s = strings.ReplaceAll(s, fmt.Sprintf("$SID%d$", k), v)
	}
	for k, v := range e.sts {
		s = strings.ReplaceAll(s, fmt.Sprintf("$STATE%d$", k), v)
	}
	return s
}

func (e *aEnv) doHTTP(st aStep, idx int) (res aRes) {
	t0 := time.Now()
	body, _ := base64.StdEncoding.DecodeString(st.B64)
	u := &url.URL{Path: e.subst(st.Path), RawQuery: e.subst(st.Query)}
	req := &http.Request{
		Method:     st.Method,
		URL:        u,
		Proto:      "HTTP/1.1",
		ProtoMajor: 1,
		ProtoMinor: 1,
		Header:     http.Header{},
		Host:       "registry.test",
		RemoteAddr: st.Remote,
	}
	if req.RemoteAddr == "" {
		req.RemoteAddr = "192.0.2.1:1234"
	}
	for k, vs := range st.Headers {
		for _, v := range vs {
			req.Header.Add(k, e.subst(v))
		}
	}
	if st.Method == "GET" || st.Method == "HEAD" || st.Method == "DELETE" {
		if len(body) == 0 {
			req.Body = http.NoBody
		} else {
			req.Body = io.NopCloser(bytes.NewReader(body))
			req.ContentLength = int64(len(body))
		}
	} else {
		req.Body = io.NopCloser(bytes.NewReader(body))
		if len(st.Mid) > 0 {
			sp := st.Split
			if sp > len(body) {
				sp = len(body)
			}
			req.Body = io.NopCloser(&splitReader{data: body, split: sp, fn: func() {
				mids := []aRes{}
				for _, m := range st.Mid {
					mids = append(mids, e.step(m, -1))
				}
				res.Par = [][]aRes{mids}
			}})
		}
		if st.Unknown {
			req.ContentLength = -1
		} else {
			req.ContentLength = int64(len(body))
		}
	}
	req = req.WithContext(context.Background())
	rec := httptest.NewRecorder()
	func() {
		defer func() {
			if r := recover(); r != nil {
				res.Panic = fmt.Sprintf("%v", r)
				stk := string(debug.Stack())
				if len(stk) > 1500 {
					stk = stk[:1500]
				}
				res.Err = stk
			}
		}()
		if st.TimeoutMS < 0 {
			// the client went away before the request was served
			ctx, cancel := context.WithCancel(context.Background())
			cancel()
			req = req.WithContext(ctx)
		}
		if st.TimeoutMS > 0 {
			ctx, cancel := context.WithTimeout(context.Background(), time.Duration(st.TimeoutMS)*time.Millisecond)
			defer cancel()
			req = req.WithContext(ctx)
		}
		res.T0 = int64(time.Since(e.start))
		e.s.ServeHTTP(rec, req)
		res.T1 = int64(time.Since(e.start))
	}()
	res.MS = float64(time.Since(t0).Microseconds()) / 1000
	if res.Panic != "" {
		return res
	}
	r := rec.Result()
	res.Status = r.StatusCode
	res.Headers = map[string][]string{}
	for _, k := range keepHeaders {
		if v, ok := r.Header[k]; ok {
			res.Headers[k] = v
		}
	}
	b, _ := io.ReadAll(r.Body)
	res.BodyLen = len(b)
	if len(b) <= 1<<20 {
		res.B64 = base64.StdEncoding.EncodeToString(b)
	}
	// learn the session id and state token of an upload location
	if loc := r.Header.Get("Location"); loc != "" && idx >= 0 {
		if lu, err := url.Parse(loc); err == nil {
			parts := strings.Split(strings.Trim(lu.Path, "/"), "/")
			e.mu.Lock()
			e.sids[idx] = parts[len(parts)-1]
			e.sts[idx] = lu.Query().Get("state")
			e.locs[idx] = loc
			e.mu.Unlock()
		}
	}
	return res
}

// runBC drives the store's upload interface directly: what two HTTP handlers working on one session do, in an order the
// scheduler would have to choose
func (e *aEnv) runBC(repoName string, calls []bcCall) []bcOut {
	out := []bcOut{}
	repo, err := e.s.store.RepoGet(context.Background(), repoName)
	if err != nil {
		return []bcOut{{Err: err.Error()}}
	}
	defer repo.Done()
	var handles []store.BlobCreator
	var ids []string
	for _, c := range calls {
		o := bcOut{}
		var bc store.BlobCreator
		if c.Fn != "create" {
			if c.Sess < 0 || c.Sess >= len(handles) || handles[c.Sess] == nil {
				o.Err = "no such session"
				out = append(out, o)
				continue
			}
			bc = handles[c.Sess]
		}
		var err error
		switch c.Fn {
		case "create":
			opts := []store.BlobOpt{}
			if c.Alg != "" {
				opts = append(opts, store.BlobWithAlgorithm(digest.Algorithm(c.Alg)))
			}
			if c.Digest != "" {
				opts = append(opts, store.BlobWithDigest(digest.Digest(c.Digest)))
			}
			var nbc store.BlobCreator
			var id string
			nbc, id, err = repo.BlobCreate(opts...)
			handles = append(handles, nbc)
			ids = append(ids, id)
			bc = nbc
		case "session":
			// a second handle on the same session, as another request gets it
			var nbc store.BlobCreator
			nbc, err = repo.BlobSession(ids[c.Sess])
			if err == nil {
				handles[c.Sess] = nbc
				bc = nbc
			}
		case "write":
			b, _ := base64.StdEncoding.DecodeString(c.B64)
			_, err = bc.Write(b)
		case "verify":
			err = bc.Verify(digest.Digest(c.Digest))
		case "chalg":
			err = bc.ChangeAlgorithm(digest.Algorithm(c.Alg))
		case "info":
		case "close":
			err = bc.Close()
		case "cancel":
			err = bc.Cancel()
		}
		if err != nil {
			o.Err = err.Error()
		} else {
			o.OK = true
		}
		if bc != nil && err == nil && (c.Fn == "write" || c.Fn == "info" || c.Fn == "create" || c.Fn == "verify" || c.Fn == "chalg") {
			func() {
				defer func() { _ = recover() }()
				o.Size = bc.Size()
				o.Digest = bc.Digest().String()
			}()
		}
		out = append(out, o)
	}
	return out
}

func (e *aEnv) withRepo(name string, f func(r store.Repo) error) error {
	r, err := e.s.store.RepoGet(context.Background(), name)
	if err != nil {
		return err
	}
	r.Done()
	return f(r)
}

func (e *aEnv) step(st aStep, idx int) (res aRes) {
	defer func() {
		if r := recover(); r != nil {
			res.Panic = fmt.Sprintf("%v", r)
			res.Err = string(debug.Stack())
		}
	}()
	switch st.Op {
	case "http", "":
		return e.doHTTP(st, idx)
	case "async":
		// start every given request in its own goroutine and go on; "join" collects the answers
		for _, th := range st.Par {
			for _, s2 := range th {
				ch := make(chan aRes, 1)
				e.async = append(e.async, ch)
				go func(s2 aStep) {
					ix := -1
					if s2.Idx > 0 {
						ix = s2.Idx
					}
					ch <- e.step(s2, ix)
				}(s2)
			}
		}
	case "hooked":
		// the request runs with the store wrapped: before its N-th store action (N > 0) the steps in Mid run - reads by other
		// clients while this request stands between two of its store actions; Names lists the actions the request performed
		inner := e.s.store
		h := &hookStore{Store: inner, e: e, at: st.N, mid: st.Mid}
		e.s.store = h
		cur := st
		cur.Op, cur.Mid = "http", nil
		r := e.doHTTP(cur, idx)
		e.s.store = inner
		res = r
		res.Names = h.log
		res.Par = [][]aRes{h.out}
	case "timerrace":
		// N upload sessions of repository Repo, each opened and then cancelled (or completed) at the moment the expiry timer of the
		// session cache fires (Secs = grace period; the cache expires entries after Secs + Secs/10): the end of the only open session
		// races the timer's prune
		grace := time.Duration(st.Secs * float64(time.Second))
		maxAge := grace + grace/10
		for i := 0; i < st.N; i++ {
			repo, err := e.s.store.RepoGet(context.Background(), st.Repo)
			if err != nil {
				res.Err = err.Error()
				break
			}
			start := time.Now()
			bc, _, err := repo.BlobCreate()
			repo.Done()
			if err != nil {
				res.Err = err.Error()
				break
			}
			off := time.Duration(i%40) * time.Microsecond
			for time.Since(start) < maxAge-20*time.Microsecond+off {
			}
			done := make(chan struct{})
			go func() {
				if i%2 == 0 {
					_ = bc.Cancel()
				} else {
					_, _ = bc.Write([]byte("x"))
					_ = bc.Close()
				}
				close(done)
			}()
			select {
			case <-done:
			case <-time.After(3 * time.Second):
				res.Err = fmt.Sprintf("HANG: the end of upload session %d did not return within 3s", i)
			}
			if res.Err != "" {
				res.Err += "\n" + blockedGoroutines()
				break
			}
			res.N = i + 1
		}
	case "refpages":
		// GET st.Path (a referrers listing), then ask for the pages st.Names of exactly that response: cache=<digest of the body>
		cur := st
		cur.Op, cur.Method = "http", "GET"
		first := e.doHTTP(cur, -1)
		out := []aRes{first}
		body, _ := base64.StdEncoding.DecodeString(first.B64)
		dig := digest.Canonical.FromBytes(body)
		for _, pg := range st.Names {
			o := cur
			q := "cache=" + url.QueryEscape(dig.String()) + "&page=" + url.QueryEscape(pg)
			if st.Query != "" {
				q = st.Query + "&" + q
			}
			o.Query = q
			out = append(out, e.doHTTP(o, -1))
		}
		res.Par = [][]aRes{out}
	case "reflock":
		// the steps of Par[0] run while the referrers mutex of the server is held - the situation of a request that arrives while
		// another client's artifact push holds it: an artifact push started with "async" inside gets as far as the mutex
		e.s.referrerMu.Lock()
		out := []aRes{}
		for _, s2 := range st.Par[0] {
			out = append(out, e.step(s2, -1))
		}
		e.s.referrerMu.Unlock()
		res.Par = [][]aRes{out}
	case "join":
		// wait (at most Secs) for the requests started by "async"
		deadline := time.After(time.Duration(st.Secs * float64(time.Second)))
		out := []aRes{}
		for _, ch := range e.async {
			select {
			case r := <-ch:
				out = append(out, r)
			case <-deadline:
				out = append(out, aRes{Err: "HANG: request did not complete"})
				deadline = time.After(time.Millisecond)
			}
		}
		e.async = nil
		res.Par = [][]aRes{out}
	case "defaults":
		res.Cfg = verifDefaults(st.Cfg)
	case "bc":
		res.BC = e.runBC(st.Repo, st.Calls)
	case "crashat":
		// from now on the mutating filesystem calls of the directory store are counted; the N-th one (N > 0) kills the process
		store.VerifFS(e.rootDir(), st.N, st.Partial)
	case "fslog":
		res.Names, res.Flag = store.VerifFSLog(e.rootDir())
		res.N = len(res.Names)
		if an := store.VerifFSAnomalies(e.rootDir()); len(an) > 0 {
			res.Err = "untracked writes: " + strings.Join(an, " ")
		}
	case "reopen":
		// the process is gone: nothing is closed or cleaned up; a new server opens the directory as it is
		store.VerifFSDrop(e.rootDir())
		if st.Conf != nil {
			e.conf = *st.Conf
		}
		e.s = New(e.mkConf())
		e.closing.Store(false)
	case "gc":
		err := e.withRepo(st.Repo, func(r store.Repo) error { return store.VerifGC(r) })
		if err != nil {
			res.Err = err.Error()
		}
	case "gcpass":
		prev := time.Time{}
		if st.Secs > 0 {
			prev = time.Now().Add(-time.Duration(st.Secs * float64(time.Second)))
		}
		pass := store.VerifGCPass
		if st.Partial {
			pass = store.VerifGCPassRaw // (the pass as the ticker runs it, with its own test which repositories to visit)
		}
		if err := pass(e.s.store, time.Now(), prev); err != nil {
			res.Err = err.Error()
		}
	case "restart":
		if e.s != nil && e.s.store != nil {
			if err := e.s.Close(); err != nil {
				res.Err = err.Error()
			}
		}
		if st.Conf != nil {
			e.conf = *st.Conf
		}
		e.s = New(e.mkConf())
		e.closing.Store(false)
	case "close":
		e.closing.Store(true)
		if err := e.s.Close(); err != nil {
			res.Err = err.Error()
		}
	case "age":
		t := time.Now().Add(-time.Duration(st.Secs * float64(time.Second)))
		err := e.withRepo(st.Repo, func(r store.Repo) error { return store.VerifSetBlobTime(r, digest.Digest(st.Digest), t) })
		if err != nil {
			res.Err = err.Error()
		}
	case "uploads":
		err := e.withRepo(st.Repo, func(r store.Repo) error {
			res.N = store.VerifUploads(r, st.Kind, time.Duration(st.Secs*float64(time.Second)))
			return nil
		})
		if err != nil {
			res.Err = err.Error()
		}
	case "bloblist":
		err := e.withRepo(st.Repo, func(r store.Repo) error {
			l, err := store.VerifBlobList(r)
			for _, d := range l {
				res.Names = append(res.Names, d.String())
			}
			sort.Strings(res.Names)
			return err
		})
		if err != nil {
			res.Err = err.Error()
		}
	case "exists":
		err := e.withRepo(st.Repo, func(r store.Repo) error { res.Flag = store.VerifExists(r); return nil })
		if err != nil {
			res.Err = err.Error()
		}
	case "repos":
		res.Names = store.VerifRepoNames(e.s.store)
		sort.Strings(res.Names)
	case "snapshot":
		if st.Kind == "case" {
			res.Files = snapshot(e.dir, st.Full)
		} else {
			res.Files = snapshot(e.rootDir(), st.Full)
		}
	case "regex":
		// the regular expressions of the source, evaluated on the given names: "1"/"0" per name for rePath, RefTagRE
		for _, f := range st.Files {
			a, b := "0", "0"
			if rePath.MatchString(f.Path) {
				a = "1"
			}
			if types.RefTagRE.MatchString(f.Path) {
				b = "1"
			}
			res.Names = append(res.Names, a+b)
		}
	case "refsplit":
		// referrerSplit on a response built from the given descriptors; also the lengths encoding/json gives
		// the empty response and each descriptor (inputs of the model's split)
		idx := types.Index{SchemaVersion: 2, MediaType: types.MediaTypeOCI1ManifestList, Manifests: []types.Descriptor{}}
		b0, _ := json.Marshal(idx)
		res.N = len(b0)
		for _, d := range st.Descs {
			dd := types.Descriptor{MediaType: d.MT, Digest: digest.Digest(d.Dig), Size: d.Size, ArtifactType: d.AT}
			if d.Ann != nil {
				dd.Annotations = *d.Ann
			}
			idx.Manifests = append(idx.Manifests, dd)
			bd, _ := json.Marshal(dd)
			res.Names = append(res.Names, fmt.Sprintf("%d", len(bd)))
		}
		in, _ := json.Marshal(idx)
		pages, err := referrerSplit(in, int64(st.Secs))
		if err != nil {
			res.Err = err.Error()
		}
		for _, p := range pages {
			pi := types.Index{}
			_ = json.Unmarshal(p, &pi)
			ds := []string{}
			for _, m := range pi.Manifests {
				ds = append(ds, string(m.Digest))
			}
			res.Pages = append(res.Pages, ds)
			res.PageLens = append(res.PageLens, len(p))
		}
	case "matchv2":
		// matchV2 on explicit path elements (Files[i].Path = element) with the patterns in Names
		els := []string{}
		for _, f := range st.Files {
			els = append(els, f.Path)
		}
		m, ok := matchV2(els, st.Names...)
		res.Flag = ok
		res.Names = m
	case "write":
		if err := writeFiles(e.rootDir(), st.Files); err != nil {
			res.Err = err.Error()
		}
	case "sleep":
		time.Sleep(time.Duration(st.Secs * float64(time.Second)))
	case "view":
		b, _ := base64.StdEncoding.DecodeString(st.B64)
		res.View = viewOf(b)
	case "follow":
		// GET st.Path?st.Query, then follow `Link: <...>; rel=next` (at most 60 pages)
		cur := st
		cur.Op, cur.Method = "http", "GET"
		pages := []aRes{}
		others := [][]aRes{}
		midRes := []aRes{}
		for n := 0; n < 60; n++ {
			r := e.doHTTP(cur, -1)
			pages = append(pages, r)
			if len(st.Mid) > 0 && n == st.Split {
				// other requests between two pages of the listing (their answers follow the pages in Par)
				for _, m := range st.Mid {
					midRes = append(midRes, e.step(m, -1))
				}
			}
			link := ""
			if v, ok := r.Headers["Link"]; ok && len(v) > 0 {
				link = v[0]
			}
			if r.Panic != "" || link == "" || !strings.HasPrefix(link, "<") || !strings.Contains(link, ">; rel=next") {
				break
			}
			lu, err := url.Parse(link[1:strings.Index(link, ">")])
			if err != nil {
				res.Err = "bad Link: " + link
				break
			}
			cur.Path, cur.Query = lu.Path, lu.RawQuery
			// the same continuation link addressed to other repositories (st.Names): what they answer is in Par[1+i]
			for i, name := range st.Names {
				o := cur
				o.Path = strings.Replace(lu.Path, "/v2/"+st.Repo+"/", "/v2/"+name+"/", 1)
				for len(others) <= i {
					others = append(others, []aRes{})
				}
				others[i] = append(others[i], e.doHTTP(o, -1))
			}
		}
		res.Par = append([][]aRes{pages}, others...)
		if len(st.Mid) > 0 {
			res.Par = append(res.Par, midRes)
		}
	case "par":
		res.Par = make([][]aRes, len(st.Par))
		var wg sync.WaitGroup
		for ti := range st.Par {
			wg.Add(1)
			go func(ti int) {
				defer wg.Done()
				for _, s2 := range st.Par[ti] {
					ix := -1
					if s2.Idx > 0 {
						ix = s2.Idx
					}
					res.Par[ti] = append(res.Par[ti], e.step(s2, ix))
				}
			}(ti)
		}
		wg.Wait()
	default:
		res.Err = "unknown op " + st.Op
	}
	return res
}

// blockedGoroutines returns the stacks of the goroutines that are inside olareg code (for the report of a stall)
func blockedGoroutines() string {
	buf := make([]byte, 1<<20)
	n := runtime.Stack(buf, true)
	var out []string
	for _, g := range strings.Split(string(buf[:n]), "\n\n") {
		if strings.Contains(g, "olareg/internal/") || strings.Contains(g, "olareg.(*Server)") {
			lines := strings.Split(g, "\n")
			if len(lines) > 26 {
				lines = lines[:26]
			}
			out = append(out, strings.Join(lines, "\n"))
		}
		if len(out) >= 40 {
			break
		}
	}
	return strings.Join(out, "\n\n")
}

func stepTimeout() time.Duration {
	if v := os.Getenv("VERIF_STEP_TIMEOUT_MS"); v != "" {
		var n int
		if _, err := fmt.Sscanf(v, "%d", &n); err == nil && n > 0 {
			return time.Duration(n) * time.Millisecond
		}
	}
	return 30 * time.Second
}

func runCase(c aCase, work string) (out aOut) {
	out.ID = c.ID
	dir := filepath.Join(work, fmt.Sprintf("case%d", c.ID))
	_ = os.RemoveAll(dir)
	e := &aEnv{start: time.Now(), dir: dir, conf: c.Conf, sids: map[int]string{}, sts: map[int]string{}, locs: map[int]string{}}
	if err := os.MkdirAll(e.rootDir(), 0o755); err != nil {
		out.Fatal = err.Error()
		return out
	}
	defer os.RemoveAll(dir)
	if err := writeFiles(e.rootDir(), c.Seed); err != nil {
		out.Fatal = err.Error()
		return out
	}
	if c.Conf.TmpInCase {
		// (cases of one process run one after the other)
		if abs, err := filepath.Abs(filepath.Join(dir, "tmpdir")); err == nil && os.MkdirAll(abs, 0o755) == nil {
			old, had := os.LookupEnv("TMPDIR")
			_ = os.Setenv("TMPDIR", abs)
			defer func() {
				if had {
					_ = os.Setenv("TMPDIR", old)
				} else {
					_ = os.Unsetenv("TMPDIR")
				}
			}()
		}
	}
	if c.Conf.Cwd {
		// (cases of one process run one after the other)
		if old, err := os.Getwd(); err == nil {
			if abs, err := filepath.Abs(e.rootDir()); err == nil && os.Chdir(abs) == nil {
				e.dir, _ = filepath.Abs(e.dir)
				dir = e.dir
				defer func() { _ = os.Chdir(old) }()
			}
		}
	}
	e.s = New(e.mkConf())
	defer func() {
		if e.s != nil && e.s.store != nil && !e.closing.Load() {
			done := make(chan struct{})
			go func() { _ = e.s.Close(); close(done) }()
			select {
			case <-done:
			case <-time.After(10 * time.Second):
				out.Fatal = "Close did not return within 10s"
			}
		}
	}()
	for i, st := range c.Steps {
		done := make(chan aRes, 1)
		go func() { done <- e.step(st, i) }()
		select {
		case r := <-done:
			out.Steps = append(out.Steps, r)
		case <-time.After(stepTimeout()):
			out.Steps = append(out.Steps, aRes{Err: "HANG: step did not return within " + stepTimeout().String() + "\n" + blockedGoroutines()})
			out.Fatal = fmt.Sprintf("step %d hung", i)
			e.s = nil
			return out
		}
	}
	return out
}

func TestVerifAPIDriver(t *testing.T) {
	cf, of := os.Getenv("VERIF_CASES"), os.Getenv("VERIF_OUT")
	if cf == "" || of == "" {
		t.Skip("VERIF_CASES / VERIF_OUT not set")
	}
	work := os.Getenv("VERIF_WORKDIR")
	if work == "" {
		work = t.TempDir()
	}
	in, err := os.Open(cf)
	if err != nil {
		t.Fatal(err)
	}
	defer in.Close()
	outF, err := os.Create(of)
	if err != nil {
		t.Fatal(err)
	}
	defer outF.Close()
	w := bufio.NewWriter(outF)
	defer w.Flush()
	// cases: one JSON document per line; run on a pool of workers, results written in input order
	var cases []aCase
	sc := bufio.NewScanner(in)
	sc.Buffer(make([]byte, 1<<20), 1<<28)
	for sc.Scan() {
		if len(bytes.TrimSpace(sc.Bytes())) == 0 {
			continue
		}
		var c aCase
		if err := json.Unmarshal(sc.Bytes(), &c); err != nil {
			t.Fatalf("bad case: %v", err)
		}
		cases = append(cases, c)
	}
	workers := 8
	if os.Getenv("VERIF_WORKERS") != "" {
		fmt.Sscanf(os.Getenv("VERIF_WORKERS"), "%d", &workers)
	}
	outs := make([]aOut, len(cases))
	var wg sync.WaitGroup
	ch := make(chan int)
	for k := 0; k < workers; k++ {
		wg.Add(1)
		go func() {
			defer wg.Done()
			for i := range ch {
				outs[i] = runCase(cases[i], work)
			}
		}()
	}
	for i := range cases {
		ch <- i
	}
	close(ch)
	wg.Wait()
	enc := json.NewEncoder(w)
	for i := range outs {
		if err := enc.Encode(outs[i]); err != nil {
			t.Fatal(err)
		}
	}
}
