package types

// In-package driver for types.Index, injected at check time with
// `go test -c -overlay` (nothing is written into /repo).  It executes
// operation sequences read from $VERIF_CASES and writes what it observed to
// $VERIF_OUT.  It takes no decisions: generation, oracles and the comparison
// with the Coq model live in /verif.

import (
	"encoding/json"
	"fmt"
	"os"
	"sort"
	"testing"

	"github.com/opencontainers/go-digest"
)

type vDesc struct {
	MT   string             `json:"mt"`
	Dig  string             `json:"dig"`
	Size int64              `json:"size"`
	Ann  *map[string]string `json:"ann"` // null = nil map
	AT   string             `json:"at"`
}

type vOp struct {
	Op       string  `json:"op"` // add | rm | addchildren
	D        vDesc   `json:"d"`
	Children []vDesc `json:"children"`
	Copy     bool    `json:"copy"` // run the op on a Copy() and verify the original is untouched
}

type vCase struct {
	ID      int        `json:"id"`
	Ops     []vOp      `json:"ops"`
	Queries []string   `json:"queries"`
	AnnQ    [][]string `json:"annq"`
}

type vState struct {
	Panic  string   `json:"panic,omitempty"`
	Top    []vDesc  `json:"top"`
	Child  []vDesc  `json:"child"`
	Get    []*vDesc `json:"get"` // per query, null = error
	GetAnn []*vDesc `json:"getann"`
	CopyOK bool     `json:"copy_ok"`
}

type vOut struct {
	ID     int      `json:"id"`
	States []vState `json:"states"`
}

func toDesc(v vDesc) Descriptor {
	d := Descriptor{MediaType: v.MT, Digest: digest.Digest(v.Dig), Size: v.Size, ArtifactType: v.AT}
	if v.Ann != nil {
		d.Annotations = map[string]string{}
		for k, x := range *v.Ann {
			d.Annotations[k] = x
		}
	}
	return d
}

func fromDesc(d Descriptor) vDesc {
	v := vDesc{MT: d.MediaType, Dig: string(d.Digest), Size: d.Size, AT: d.ArtifactType}
	if d.Annotations != nil {
		m := map[string]string{}
		for k, x := range d.Annotations {
			m[k] = x
		}
		v.Ann = &m
	}
	return v
}

func fromList(l []Descriptor) []vDesc {
	out := make([]vDesc, 0, len(l))
	for _, d := range l {
		out = append(out, fromDesc(d))
	}
	return out
}

func snapshot(i Index) string {
	b, _ := json.Marshal(struct {
		T []vDesc
		C []vDesc
	}{fromList(i.Manifests), fromList(i.childManifests)})
	return string(b)
}

func runOp(i *Index, op vOp) (perr string) {
	defer func() {
		if r := recover(); r != nil {
			perr = fmt.Sprint(r)
		}
	}()
	switch op.Op {
	case "add":
		ch := []Descriptor{}
		for _, c := range op.Children {
			ch = append(ch, toDesc(c))
		}
		if op.Children != nil {
			i.AddDesc(toDesc(op.D), IndexWithChildren(ch))
		} else {
			i.AddDesc(toDesc(op.D))
		}
	case "rm":
		i.RmDesc(toDesc(op.D))
	case "addchildren":
		ch := []Descriptor{}
		for _, c := range op.Children {
			ch = append(ch, toDesc(c))
		}
		i.AddChildren(ch)
	}
	return ""
}

func TestVerifDriver(t *testing.T) {
	in := os.Getenv("VERIF_CASES")
	out := os.Getenv("VERIF_OUT")
	if in == "" || out == "" {
		t.Skip("VERIF_CASES / VERIF_OUT not set")
	}
	raw, err := os.ReadFile(in)
	if err != nil {
		t.Fatal(err)
	}
	cases := []vCase{}
	if err := json.Unmarshal(raw, &cases); err != nil {
		t.Fatal(err)
	}
	fh, err := os.Create(out)
	if err != nil {
		t.Fatal(err)
	}
	defer fh.Close()
	enc := json.NewEncoder(fh)
	for _, c := range cases {
		res := vOut{ID: c.ID}
		idx := Index{}
		for _, op := range c.Ops {
			st := vState{CopyOK: true}
			if op.Copy {
				// property clause "copies are independent of the original":
				// apply the operation to a copy first and require the original unchanged
				before := snapshot(idx)
				cp := idx.Copy()
				_ = runOp(&cp, op)
				// also scribble over every annotation map reachable from the copy
				for mi := range cp.Manifests {
					if cp.Manifests[mi].Annotations != nil {
						cp.Manifests[mi].Annotations["verif.scribble"] = "x"
						delete(cp.Manifests[mi].Annotations, AnnotRefName)
					}
				}
				for mi := range cp.childManifests {
					if cp.childManifests[mi].Annotations != nil {
						cp.childManifests[mi].Annotations["verif.scribble"] = "x"
					}
				}
				if snapshot(idx) != before {
					st.CopyOK = false
				}
			}
			st.Panic = runOp(&idx, op)
			st.Top = fromList(idx.Manifests)
			st.Child = fromList(idx.childManifests)
			for _, q := range c.Queries {
				func() {
					defer func() {
						if r := recover(); r != nil {
							st.Panic = fmt.Sprint(r)
							st.Get = append(st.Get, nil)
						}
					}()
					d, err := idx.GetDesc(q)
					if err != nil {
						st.Get = append(st.Get, nil)
					} else {
						v := fromDesc(d)
						st.Get = append(st.Get, &v)
					}
				}()
			}
			for _, q := range c.AnnQ {
				d, err := idx.GetByAnnotation(q[0], q[1])
				if err != nil {
					st.GetAnn = append(st.GetAnn, nil)
				} else {
					v := fromDesc(d)
					st.GetAnn = append(st.GetAnn, &v)
				}
			}
			res.States = append(res.States, st)
			if st.Panic != "" {
				break
			}
		}
		if err := enc.Encode(res); err != nil {
			t.Fatal(err)
		}
	}
	_ = sort.Strings
}
