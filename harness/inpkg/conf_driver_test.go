//go:build verif

package olareg

// C19: config.Config.SetDefaults on a whole configuration given field by field.

import (
	"time"

	"github.com/olareg/olareg/config"
)

func cfBool(v interface{}) *bool {
	if b, ok := v.(bool); ok {
		return &b
	}
	return nil
}

func cfNum(v interface{}) int64 {
	if f, ok := v.(float64); ok {
		return int64(f)
	}
	return 0
}

func cfStr(v interface{}) string {
	if s, ok := v.(string); ok {
		return s
	}
	return ""
}

func obool(b *bool) interface{} {
	if b == nil {
		return nil
	}
	return *b
}

// verifDefaults builds a Config from named fields, applies SetDefaults and returns all fields again.
func verifDefaults(in map[string]interface{}) map[string]interface{} {
	c := config.Config{}
	switch cfStr(in["Storage.StoreType"]) {
	case "mem":
		c.Storage.StoreType = config.StoreMem
	case "dir":
		c.Storage.StoreType = config.StoreDir
	}
	c.API.PushEnabled = cfBool(in["API.PushEnabled"])
	c.API.DeleteEnabled = cfBool(in["API.DeleteEnabled"])
	c.API.Blob.DeleteEnabled = cfBool(in["API.Blob.DeleteEnabled"])
	c.API.Referrer.Enabled = cfBool(in["API.Referrer.Enabled"])
	c.API.Manifest.Limit = cfNum(in["API.Manifest.Limit"])
	c.API.Referrer.PageCacheExpire = time.Duration(cfNum(in["API.Referrer.PageCacheExpire"]))
	c.API.Referrer.PageCacheLimit = int(cfNum(in["API.Referrer.PageCacheLimit"]))
	c.API.Referrer.Limit = cfNum(in["API.Referrer.Limit"])
	c.API.RateLimit = int(cfNum(in["API.RateLimit"]))
	c.Storage.ReadOnly = cfBool(in["Storage.ReadOnly"])
	c.Storage.RootDir = cfStr(in["Storage.RootDir"])
	c.Storage.GC.Frequency = time.Duration(cfNum(in["Storage.GC.Frequency"]))
	c.Storage.GC.GracePeriod = time.Duration(cfNum(in["Storage.GC.GracePeriod"]))
	c.Storage.GC.RepoUploadMax = int(cfNum(in["Storage.GC.RepoUploadMax"]))
	c.Storage.GC.Untagged = cfBool(in["Storage.GC.Untagged"])
	c.Storage.GC.EmptyRepo = cfBool(in["Storage.GC.EmptyRepo"])
	c.Storage.GC.ReferrersDangling = cfBool(in["Storage.GC.ReferrersDangling"])
	c.Storage.GC.ReferrersWithSubj = cfBool(in["Storage.GC.ReferrersWithSubj"])
	c.HTTP.Addr = cfStr(in["HTTP.Addr"])
	c.SetDefaults()
	st := ""
	switch c.Storage.StoreType {
	case config.StoreMem:
		st = "mem"
	case config.StoreDir:
		st = "dir"
	}
	return map[string]interface{}{
		"Storage.StoreType":            st,
		"API.PushEnabled":              obool(c.API.PushEnabled),
		"API.DeleteEnabled":            obool(c.API.DeleteEnabled),
		"API.Blob.DeleteEnabled":       obool(c.API.Blob.DeleteEnabled),
		"API.Referrer.Enabled":         obool(c.API.Referrer.Enabled),
		"API.Manifest.Limit":           c.API.Manifest.Limit,
		"API.Referrer.PageCacheExpire": int64(c.API.Referrer.PageCacheExpire),
		"API.Referrer.PageCacheLimit":  c.API.Referrer.PageCacheLimit,
		"API.Referrer.Limit":           c.API.Referrer.Limit,
		"API.RateLimit":                c.API.RateLimit,
		"Storage.ReadOnly":             obool(c.Storage.ReadOnly),
		"Storage.RootDir":              c.Storage.RootDir,
		"Storage.GC.Frequency":         int64(c.Storage.GC.Frequency),
		"Storage.GC.GracePeriod":       int64(c.Storage.GC.GracePeriod),
		"Storage.GC.RepoUploadMax":     c.Storage.GC.RepoUploadMax,
		"Storage.GC.Untagged":          obool(c.Storage.GC.Untagged),
		"Storage.GC.EmptyRepo":         obool(c.Storage.GC.EmptyRepo),
		"Storage.GC.ReferrersDangling": obool(c.Storage.GC.ReferrersDangling),
		"Storage.GC.ReferrersWithSubj": obool(c.Storage.GC.ReferrersWithSubj),
		"HTTP.Addr":                    c.HTTP.Addr,
	}
}
