//go:build verif

package cache

// In-package driver for the bounded cache, injected with `go test -c -overlay`.  It replays event
// sequences with scripted cleanup callbacks and reports, per event, the callback invocations and the keys
// present afterwards.  Last-use times are set through the verif hooks so that runs are deterministic.

import (
	"bufio"
	"encoding/json"
	"fmt"
	"os"
	"runtime"
	"sort"
	"sync"
	"testing"
	"time"
)

type cEv struct {
	Op    string   `json:"op"`
	K     string   `json:"k"`
	V     int      `json:"v"`
	AgeMS int64    `json:"age_ms"`
	OK    bool     `json:"ok"`
	Fails []string `json:"fails"`
}

type cCase struct {
	ID     int   `json:"id"`
	AgeMS  int64 `json:"minage_ms"`
	Count  int   `json:"count"`
	HasFn  bool  `json:"hasfn"`
	Events []cEv `json:"events"`
}

type cCall struct {
	K  string `json:"k"`
	V  int    `json:"v"`
	OK bool   `json:"ok"`
}

type cRes struct {
	Calls []cCall  `json:"calls"`
	Val   *int     `json:"val"`
	Err   bool     `json:"err"`
	Keys  []string `json:"keys"`
	Pre   int      `json:"pre"`
	Post  int      `json:"post"`
	Timer bool     `json:"timer"`
	Panic string   `json:"panic,omitempty"`
	All   []cCall  `json:"all,omitempty"` // every callback invocation of the case so far (reported by "quiesce")
}

func runCacheCase(cs cCase) []cRes {
	var c *Cache[string, int]
	fails := map[string]bool{}
	calls := []cCall{}
	allCalls := []cCall{} // never reset: callbacks of a background prune can fall between two events
	var mu sync.Mutex
	pre, post := 0, 0
	var during func()
	now := time.Now()
	opts := Opts[string, int]{Age: time.Duration(cs.AgeMS) * time.Millisecond, Count: cs.Count}
	if cs.HasFn {
		opts.PruneFn = func(k string, v int) error {
			mu.Lock()
			ok := !fails[k]
			calls = append(calls, cCall{k, v, ok})
			allCalls = append(allCalls, cCall{k, v, ok})
			mu.Unlock()
			if during != nil {
				f := during
				during = nil
				f()
			}
			if !ok {
				return fmt.Errorf("cleanup of %s failed", k)
			}
			return nil
		}
		opts.PrunePreFn = func(string, int) { pre++ }
		opts.PrunePostFn = func(string, int) { post++ }
	}
	c = New[string, int](opts)
	gBase := runtime.NumGoroutine()
	out := []cRes{}
	for _, ev := range cs.Events {
		mu.Lock()
		calls = []cCall{}
		pre, post = 0, 0
		fails = map[string]bool{}
		for _, k := range ev.Fails {
			fails[k] = true
		}
		mu.Unlock()
		r := cRes{}
		g0 := runtime.NumGoroutine()
		func() {
			defer func() {
				if p := recover(); p != nil {
					r.Panic = fmt.Sprintf("%v", p)
				}
			}()
			switch ev.Op {
			case "set_nw":
				// a Set whose count prune is not waited for: the following events race with it
				c.Set(ev.K, ev.V)
			case "quiesce":
				deadline := time.Now().Add(5 * time.Second)
				for runtime.NumGoroutine() > gBase && time.Now().Before(deadline) {
					time.Sleep(200 * time.Microsecond)
				}
			case "set":
				c.Set(ev.K, ev.V)
				if ev.AgeMS != 0 {
					c.VerifSetUsed(ev.K, now.Add(-time.Duration(ev.AgeMS)*time.Millisecond))
				}
			case "get":
				t0 := time.Now()
				v, err := c.Get(ev.K)
				if err == nil {
					r.Val = &v
					// the scripted last-use time replaces the wall-clock one only when Get did record a use
					if u, ok := c.VerifUsed(ev.K); ok && !u.Before(t0) {
						c.VerifSetUsed(ev.K, now.Add(-time.Duration(ev.AgeMS)*time.Millisecond))
					}
				} else {
					r.Err = true
				}
			case "delete":
				mu.Lock()
				fails[ev.K] = !ev.OK
				mu.Unlock()
				r.Err = c.Delete(ev.K) != nil
			case "delete_set":
				// a Set of the same key lands while Delete's cleanup runs (the mutex is released there)
				fails[ev.K] = !ev.OK
				during = func() {
					c.Set(ev.K, ev.V)
					if ev.AgeMS != 0 {
						c.VerifSetUsed(ev.K, now.Add(-time.Duration(ev.AgeMS)*time.Millisecond))
					}
				}
				r.Err = c.Delete(ev.K) != nil
				if during != nil {
					// no callback ran (no entry or no PruneFn): the Set happens after the Delete
					f := during
					during = nil
					f()
				}
			case "delete_all":
				r.Err = c.DeleteAll() != nil
			case "delete_all_set":
				// a Set lands while DeleteAll's first cleanup runs (the mutex is released there)
				during = func() { c.Set(ev.K, ev.V) }
				r.Err = c.DeleteAll() != nil
				if during != nil {
					f := during
					during = nil
					f()
				}
			case "prune_age_get", "prune_count_get":
				// a Get of the key lands while the prune's cleanup of an entry runs; it may have to wait for the prune (the
				// cleanup must not wait for it)
				type gres struct {
					v   int
					err error
				}
				done := make(chan gres, 1)
				during = func() {
					go func() {
						v, err := c.Get(ev.K)
						done <- gres{v, err}
					}()
					select {
					case g := <-done:
						done <- g
					case <-time.After(20 * time.Millisecond):
					}
				}
				if ev.Op == "prune_age_get" {
					c.VerifPruneAge()
				} else {
					c.VerifPruneCount()
				}
				if during != nil {
					during = nil // no callback ran: no Get was sent
				} else {
					select {
					case g := <-done:
						if g.err == nil {
							r.Val = &g.v
						} else {
							r.Err = true
						}
					case <-time.After(3 * time.Second):
						r.Panic = "Get sent during a prune's cleanup did not return"
					}
				}
			case "prune_age":
				c.VerifPruneAge()
			case "prune_count":
				c.VerifPruneCount()
			}
		}()
		// the count prune started by a Set beyond the limit runs asynchronously: let it finish within this event
		if (ev.Op == "set" || ev.Op == "delete_set") && cs.Count > 0 {
			// (the goroutine has ended when the number of goroutines is back to what it was before the event)
			deadline := time.Now().Add(5 * time.Second)
			for runtime.NumGoroutine() > g0 && time.Now().Before(deadline) {
				time.Sleep(200 * time.Microsecond)
			}
		}
		keys, _ := c.List()
		sort.Strings(keys)
		r.Timer = c.VerifTimerSet() // (not under mu: a racing prune holds the cache mutex while its callback takes mu)
		mu.Lock()
		r.Keys, r.Calls, r.Pre, r.Post = keys, calls, pre, post
		if ev.Op == "quiesce" {
			r.All = append([]cCall{}, allCalls...)
		}
		mu.Unlock()
		out = append(out, r)
	}
	return out
}

func TestVerifCacheDriver(t *testing.T) {
	cf, of := os.Getenv("VERIF_CASES"), os.Getenv("VERIF_OUT")
	if cf == "" || of == "" {
		t.Skip("VERIF_CASES / VERIF_OUT not set")
	}
	in, err := os.Open(cf)
	if err != nil {
		t.Fatal(err)
	}
	defer in.Close()
	outF, err := os.Create(of)
	if err != nil {
		t.Fatal(err)
	}
	defer outF.Close()
	w := bufio.NewWriter(outF)
	defer w.Flush()
	sc := bufio.NewScanner(in)
	sc.Buffer(make([]byte, 1<<20), 1<<26)
	enc := json.NewEncoder(w)
	for sc.Scan() {
		var cs cCase
		if err := json.Unmarshal(sc.Bytes(), &cs); err != nil {
			t.Fatal(err)
		}
		_ = enc.Encode(map[string]interface{}{"id": cs.ID, "events": runCacheCase(cs)})
	}
}
