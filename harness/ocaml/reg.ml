(* Reg: run request histories on the extracted L1 model (coq/Reg.v, GC.v). *)
open Model
open Sexp
open Conv
open C18

exception Unknown_view of string

let odesc_of = function Atom "nil" -> None | x -> Some (desc_of x)

let view_of = function
  | List [Atom "view"; okm; oki; okd; okr; mt; at; cfg; List layers; List manifests; subj; ann] ->
      { j_ok_m = bool okm; j_ok_i = bool oki; j_ok_d = bool okd; j_ok_r = bool okr;
        j_mt = cl (str mt); j_at = cl (str at); j_config = odesc_of cfg;
        j_layers = List.map desc_of layers; j_manifests = List.map desc_of manifests;
        j_subject = odesc_of subj; j_ann = ann_of ann }
  | _ -> failwith "view"

let cfg_of = function
  | List (Atom "cfg" :: kind :: ro :: push :: del :: bdel :: refr :: mlimit :: rlimit :: umax :: _) ->
      { c_kind = (match kind with Atom "dir" -> KDir | _ -> KMem);
        c_readonly = bool ro; c_push = bool push; c_delete = bool del; c_blobdelete = bool bdel;
        c_referrer = bool refr; c_mlimit = z_of_int (int mlimit); c_rlimit = z_of_int (int rlimit);
        c_uploadmax = z_of_int (int umax) }
  | _ -> failwith "cfg"

let pol_of = function
  | List [Atom "cfg"; _; _; _; _; _; _; _; _; _; ut; dg; ws; grace] ->
      { gp_untagged = bool ut; gp_dangling = bool dg; gp_withsubj = bool ws; gp_grace = zint grace }
  | _ -> { gp_untagged = false; gp_dangling = false; gp_withsubj = true; gp_grace = z_of_int 3600000 }

let range_of = function
  | Atom "nil" -> None
  | List [a; b] -> Some (z_of_int (int a), z_of_int (int b))
  | _ -> failwith "range"

let oz_of = function Atom "nil" -> None | x -> Some (zint x)

let json_blob (b : blob) : string =
  match b with
  | BRaw s -> Printf.sprintf "{\"kind\":\"blob\",\"data\":%s}" (json_str (lc s))
  | BResp l -> Printf.sprintf "{\"kind\":\"resp\",\"refs\":%s}" (json_list json_desc l)

let json_body = function
  | BoNone -> "{\"kind\":\"none\"}"
  | BoBlob (b, _) -> json_blob b
  | BoTags (n, l) -> Printf.sprintf "{\"kind\":\"tags\",\"name\":%s,\"tags\":%s}" (json_str (lc n)) (json_list (fun t -> json_str (lc t)) l)
  | BoRefs l -> Printf.sprintf "{\"kind\":\"refs\",\"refs\":%s}" (json_list json_desc l)

let json_resp (r : resp) : string =
  Printf.sprintf "{\"status\":%d,\"errs\":%s,\"digest\":%s,\"ctype\":%s,\"body\":%s,\"loc\":%s,\"range\":%s,\"subject\":%s,\"link\":%s,\"filtered\":%b,\"panic\":%b}"
    (int_of_z r.rs_status) (json_list (fun c -> json_str (lc c)) r.rs_errs) (json_str (lc r.rs_digest))
    (json_str (lc r.rs_ctype)) (json_body r.rs_body) (json_str (lc r.rs_loc)) (json_str (lc r.rs_range))
    (json_str (lc r.rs_subject)) (json_str (lc r.rs_link)) r.rs_filtered r.rs_panic

(* replace $SIDk$ by the session id the model returned at step k *)
let subst (locs : (int, string) Hashtbl.t) (s : string) : string =
  if not (String.contains s '$') then s
  else
    Hashtbl.fold (fun k v acc ->
        let pat = Printf.sprintf "$SID%d$" k in
        let pl = String.length pat in
        let b = Buffer.create (String.length acc) in
        let i = ref 0 in
        let n = String.length acc in
        while !i < n do
          if !i + pl <= n && String.sub acc !i pl = pat then (Buffer.add_string b v; i := !i + pl)
          else (Buffer.add_char b acc.[!i]; incr i)
        done;
        Buffer.contents b) locs s

let req_of (locs : (int, string) Hashtbl.t) (x : Sexp.t) : req option =
  let s v = cl (subst locs (str v)) in
  match x with
  | List [Atom "blobget"; r; a; rg] -> Some (QBlobGet (s r, s a, range_of rg))
  | List [Atom "blobdel"; r; a] -> Some (QBlobDelete (s r, s a))
  | List [Atom "upost"; r; m; f; fo; dq; aq; b] -> Some (QUploadPost (s r, s m, s f, bool fo, s dq, s aq, s b))
  | List [Atom "upatch"; r; sid; cr; st; b] -> Some (QUploadPatch (s r, s sid, s cr, oz_of st, s b))
  | List [Atom "uput"; r; sid; cr; dg; st; b] -> Some (QUploadPut (s r, s sid, s cr, s dg, oz_of st, s b))
  | List [Atom "uget"; r; sid] -> Some (QUploadGet (s r, s sid))
  | List [Atom "udel"; r; sid] -> Some (QUploadDelete (s r, s sid))
  | List [Atom "mget"; r; a; List acc; rg] -> Some (QManifestGet (s r, s a, List.map s acc, range_of rg))
  | List [Atom "mput"; r; a; ct; clen; dq; b] -> Some (QManifestPut (s r, s a, s ct, z_of_int (int clen), s dq, s b))
  | List [Atom "mdel"; r; a] -> Some (QManifestDelete (s r, s a))
  | List [Atom "tags"; r; n; l] -> Some (QTagList (s r, s n, s l))
  | List [Atom "refs"; r; a; f] -> Some (QReferrers (s r, s a, s f))
  | List [Atom "tick"; dt] -> Some (QTick (z_of_int (int dt)))
  | List [Atom "expire"; r] -> Some (QExpire (s r))
  | List [Atom "prunecount"; r] -> Some (QPruneCount (s r))
  | List [Atom "restart"] -> Some QRestart
  | List [Atom "skip"] -> None
  | _ -> failwith "req"

(* (raw METHOD path ((k v)...) (accept...) ctype clen cr range state body) *)
let raw_of (locs : (int, string) Hashtbl.t) (x : Sexp.t) : rawreq option =
  let s v = cl (subst locs (str v)) in
  match x with
  | List [Atom "raw"; m; p; List params; List acc; ct; clen; cr; rg; st; b] ->
      Some { q_method = s m; q_path = s p;
             q_params = List.map (function List [k; v] -> (s k, s v) | _ -> failwith "param") params;
             q_accept = List.map s acc; q_ctype = s ct; q_clen = zint clen; q_cr = s cr;
             q_range = range_of rg; q_state = oz_of st; q_body = s b }
  | _ -> None

let json_target = function
  | TStatus z -> Printf.sprintf "{\"status\":%d}" (int_of_z z)
  | THandler (n, args) -> Printf.sprintf "{\"handler\":%s,\"args\":%s}" (json_str (lc n)) (json_list (fun a -> json_str (lc a)) args)

(* grammar / routing probes: one s-expression per line *)
let run_probe (line : string) : string =
  match parse line with
  | List [Atom "repo"; s] -> if repo_ok (cl (str s)) then "true" else "false"
  | List [Atom "tag"; s] -> if is_tag (cl (str s)) then "true" else "false"
  | List [Atom "route"; push; del; bdel; refr; m; p] ->
      json_target (route_request gen_routes gen_default_status
                     { sw_push = bool push; sw_delete = bool del; sw_blobdelete = bool bdel; sw_referrer = bool refr }
                     (cl (str m)) (cl (str p)))
  | List [Atom "split"; limit; base; List lens] ->
      (* descriptors are their positions; lengths as measured on Go's own encoding *)
      let arr = Array.of_list (List.map zint lens) in
      let (pages, dropped) = split (fun i -> arr.(i)) (zint base) (zint limit) (List.init (Array.length arr) (fun i -> i)) in
      Printf.sprintf "{\"pages\":%s,\"dropped\":%s}" (json_list (json_list string_of_int) pages) (json_list string_of_int dropped)
  | _ -> failwith "probe"

let run_case (line : string) : string =
  match parse line with
  | List [Atom "case"; id; cfg; List [Atom "views"; List views]; List [Atom "reqs"; List reqs]] ->
      let pol = ref (pol_of cfg) in
      let cfg = ref (cfg_of cfg) in
      let vt : (string, jview) Hashtbl.t = Hashtbl.create 64 in
      List.iter (function List [b; v] -> Hashtbl.replace vt (str b) (view_of v) | _ -> failwith "views") views;
      let env = {
        e_hash = (fun a b -> cl (Sha2.digest (lc a) (lc b)));
        e_view = (fun b -> let k = lc b in
                   match Hashtbl.find_opt vt k with Some v -> v | None -> raise (Unknown_view k));
        e_len = (fun b -> z_of_int (List.length b));
        e_trunc = (fun n b -> let k = int_of_z n in List.filteri (fun i _ -> i < k) b) } in
      let locs = Hashtbl.create 16 in
      let outs = ref [] in
      let st = ref init_state in
      (try
         List.iteri (fun i x ->
             match x with
             | List [Atom "tagwalk"; r; n] ->
                 (* follow the model's Link chain like the harness follows the implementation's *)
                 let pages = ref [] in
                 let last = ref "" in
                 let continue = ref true in
                 let cnt = ref 0 in
                 while !continue && !cnt < 60 do
                   incr cnt;
                   let (s', rsp) = step !cfg env !st (QTagList (cl (str r), cl (str n), cl !last)) in
                   st := s';
                   pages := json_resp rsp :: !pages;
                   if rsp.rs_link = [] then continue := false else last := lc rsp.rs_link
                 done;
                 outs := Printf.sprintf "{\"pages\":[%s]}" (String.concat "," (List.rev !pages)) :: !outs
             | List [Atom "bc"; r; List calls] ->
                 (* calls on the store's upload interface, sessions numbered in creation order *)
                 let rn = cl (str r) in
                 let ids : (int, char list) Hashtbl.t = Hashtbl.create 8 in
                 let nsess = ref 0 in
                 let one (a : act) : ares = let (s', x) = exec_act !cfg env a !st in st := s'; x in
                 let info sid = match one (ASessInfo (rn, sid)) with
                   | RSess x -> Printf.sprintf ",\"size\":%d,\"digest\":%s" (List.length x.s_data) (json_str (lc (sess_digest env x)))
                   | _ -> "" in
                 let res = List.map (fun c ->
                     let sid k = match Hashtbl.find_opt ids (int k) with Some i -> i | None -> cl "?" in
                     let fmt ok extra = Printf.sprintf "{\"ok\":%b%s}" ok extra in
                     match c with
                     | List [Atom "create"; alg; expect] ->
                         let a = if str alg = "" then "sha256" else str alg in
                         (match one (ABlobCreate (rn, cl a, cl (str expect))) with
                          | RSess x -> Hashtbl.replace ids !nsess x.s_id; incr nsess; fmt true (info x.s_id)
                          | _ -> Hashtbl.replace ids !nsess (cl "?"); incr nsess; fmt false "")
                     | List [Atom "session"; k] -> (match one (ASessGet (rn, sid k)) with RSess _ -> fmt true "" | _ -> fmt false "")
                     | List [Atom "write"; k; data] -> (match one (ASessWrite (rn, sid k, cl (str data))) with RSess _ -> fmt true (info (sid k)) | _ -> fmt false "")
                     | List [Atom "verify"; k; d] -> (match one (ASessVerify (rn, sid k, cl (str d))) with RUnit -> fmt true (info (sid k)) | _ -> fmt false "")
                     | List [Atom "chalg"; k; a] -> (match one (ASessChangeAlg (rn, sid k, cl (str a))) with RUnit -> fmt true (info (sid k)) | _ -> fmt false "")
                     | List [Atom "info"; k] -> (match one (ASessInfo (rn, sid k)) with RSess _ -> fmt true (info (sid k)) | _ -> fmt false "")
                     | List [Atom "close"; k] -> (match one (ASessClose (rn, sid k)) with RUnit -> fmt true "" | _ -> fmt false "")
                     | List [Atom "cancel"; k] -> (match one (ASessCancel (rn, sid k)) with RUnit -> fmt true "" | _ -> fmt false "")
                     | _ -> failwith "bc call") calls in
                 outs := Printf.sprintf "{\"bc\":[%s]}" (String.concat "," res) :: !outs
             | List [Atom "seed"; r; conv; List bl; List entries] ->
                 (* a layout that is on disk before the server starts: its index is ingested when first loaded *)
                 let blobs = List.map (function List [d; raw] -> (cl (str d), { b_data = BRaw (cl (str raw)); b_time = !st.st_now })
                                               | _ -> failwith "seed blob") bl in
                 let rp = { r_blobs = blobs; r_index = { top = List.map desc_of entries; child = [] }; r_conv = bool conv; r_uploads = [] } in
                 let rp' = if !cfg.c_referrer then (match ingest_repo env !st.st_now rp with Ok x -> x | _ -> rp) else rp in
                 st := set_repo (cl (str r)) (reload_repo env rp') !st;
                 outs := json_resp (rsp (z_of_int 0)) :: !outs
             | List [Atom "reseed"; r; conv; List entries] ->
                 (* the index file is put back as it was (a conversion interrupted before index.json was written), blobs stay *)
                 let cur = get_repo !cfg (cl (str r)) !st in
                 let rp = { r_blobs = cur.r_blobs; r_index = { top = List.map desc_of entries; child = [] }; r_conv = bool conv; r_uploads = [] } in
                 let rp' = if !cfg.c_referrer then (match ingest_repo env !st.st_now rp with Ok x -> x | _ -> rp) else rp in
                 st := set_repo (cl (str r)) (reload_repo env rp') !st;
                 outs := json_resp (rsp (z_of_int 0)) :: !outs
             | List [Atom "gc"; r] ->
                 let (s', rs) = gstep !cfg !pol env !st (GGC (cl (str r))) in
                 st := s'; outs := json_resp rs :: !outs
             | List [Atom "age"; r; d; age] ->
                 let (s', rs) = gstep !cfg !pol env !st (GAge (cl (str r), cl (str d), zint age)) in
                 st := s'; outs := json_resp rs :: !outs
             | List [Atom "restart"] ->
                 let (s', rs) = gstep !cfg !pol env !st GRestart in
                 st := s'; outs := json_resp rs :: !outs
             | List [Atom "setcfg"; c] ->
                 (* Close under the old configuration, then a new server with another configuration on the same storage *)
                 let (s', r) = gstep !cfg !pol env !st GRestart in
                 cfg := cfg_of c; pol := pol_of c;
                 st := reopen !cfg s';
                 outs := json_resp r :: !outs
             | List (Atom "group" :: xs) ->
                 (* several requests answered as one step (used for requests whose body delivery is
                    interleaved with other requests on the implementation) *)
                 let rs = List.map (fun y ->
                     match raw_of locs y with
                     | Some rq -> let (s', r) = serve !cfg env !st rq in st := s'; json_resp r
                     | None ->
                     match req_of locs y with
                     | None -> "{\"skip\":true}"
                     | Some q -> let (s', r) = step !cfg env !st q in st := s'; json_resp r) xs in
                 outs := Printf.sprintf "{\"group\":[%s]}" (String.concat "," rs) :: !outs
             | List (Atom "raw" :: _) ->
                 (match raw_of locs x with
                  | Some rq ->
                      let (s', r) = serve !cfg env !st rq in
                      st := s';
                      if r.rs_loc <> [] then Hashtbl.replace locs i (lc r.rs_loc);
                      outs := json_resp r :: !outs
                  | None -> failwith "raw")
             | _ ->
             match req_of locs x with
             | None -> outs := "{\"skip\":true}" :: !outs
             | Some q ->
                 let (s', r) = step !cfg env !st q in
                 st := s';
                 if r.rs_loc <> [] then Hashtbl.replace locs i (lc r.rs_loc);
                 outs := json_resp r :: !outs) reqs
       with Unknown_view k ->
         outs := Printf.sprintf "{\"unknown_view\":%s}" (json_str k) :: !outs);
      Printf.sprintf "{\"id\":%d,\"steps\":[%s]}" (int id) (String.concat "," (List.rev !outs))
  | _ -> failwith "case"
