(* SHA-256 / SHA-384 / SHA-512 for the model's environment oracle e_hash.
   Part of the harness (trusted base), cross-checked against Go's digests on every run:
   any disagreement shows up as a correspondence mismatch. *)

let k256 = [|
  0x428a2f98l; 0x71374491l; 0xb5c0fbcfl; 0xe9b5dba5l; 0x3956c25bl; 0x59f111f1l; 0x923f82a4l; 0xab1c5ed5l;
  0xd807aa98l; 0x12835b01l; 0x243185bel; 0x550c7dc3l; 0x72be5d74l; 0x80deb1fel; 0x9bdc06a7l; 0xc19bf174l;
  0xe49b69c1l; 0xefbe4786l; 0x0fc19dc6l; 0x240ca1ccl; 0x2de92c6fl; 0x4a7484aal; 0x5cb0a9dcl; 0x76f988dal;
  0x983e5152l; 0xa831c66dl; 0xb00327c8l; 0xbf597fc7l; 0xc6e00bf3l; 0xd5a79147l; 0x06ca6351l; 0x14292967l;
  0x27b70a85l; 0x2e1b2138l; 0x4d2c6dfcl; 0x53380d13l; 0x650a7354l; 0x766a0abbl; 0x81c2c92el; 0x92722c85l;
  0xa2bfe8a1l; 0xa81a664bl; 0xc24b8b70l; 0xc76c51a3l; 0xd192e819l; 0xd6990624l; 0xf40e3585l; 0x106aa070l;
  0x19a4c116l; 0x1e376c08l; 0x2748774cl; 0x34b0bcb5l; 0x391c0cb3l; 0x4ed8aa4al; 0x5b9cca4fl; 0x682e6ff3l;
  0x748f82eel; 0x78a5636fl; 0x84c87814l; 0x8cc70208l; 0x90befffal; 0xa4506cebl; 0xbef9a3f7l; 0xc67178f2l |]

let pad (block : int) (lenbytes : int) (s : string) : Bytes.t =
  let n = String.length s in
  let total = ((n + 1 + lenbytes + block - 1) / block) * block in
  let b = Bytes.make total '\000' in
  Bytes.blit_string s 0 b 0 n;
  Bytes.set b n '\x80';
  let bits = n * 8 in
  for i = 0 to 7 do
    Bytes.set b (total - 1 - i) (Char.chr ((bits lsr (8 * i)) land 0xff))
  done;
  b

let sha256 (s : string) : string =
  let open Int32 in
  let rotr x n = logor (shift_right_logical x n) (shift_left x (32 - n)) in
  let h = [| 0x6a09e667l; 0xbb67ae85l; 0x3c6ef372l; 0xa54ff53al; 0x510e527fl; 0x9b05688cl; 0x1f83d9abl; 0x5be0cd19l |] in
  let b = pad 64 8 s in
  let w = Array.make 64 0l in
  for blk = 0 to Bytes.length b / 64 - 1 do
    for t = 0 to 15 do
      let o = blk * 64 + t * 4 in
      w.(t) <- logor (logor (shift_left (of_int (Char.code (Bytes.get b o))) 24)
                            (shift_left (of_int (Char.code (Bytes.get b (o + 1)))) 16))
                 (logor (shift_left (of_int (Char.code (Bytes.get b (o + 2)))) 8)
                        (of_int (Char.code (Bytes.get b (o + 3)))))
    done;
    for t = 16 to 63 do
      let s0 = logxor (logxor (rotr w.(t - 15) 7) (rotr w.(t - 15) 18)) (shift_right_logical w.(t - 15) 3) in
      let s1 = logxor (logxor (rotr w.(t - 2) 17) (rotr w.(t - 2) 19)) (shift_right_logical w.(t - 2) 10) in
      w.(t) <- add (add w.(t - 16) s0) (add w.(t - 7) s1)
    done;
    let a = ref h.(0) and bb = ref h.(1) and c = ref h.(2) and d = ref h.(3)
    and e = ref h.(4) and f = ref h.(5) and g = ref h.(6) and hh = ref h.(7) in
    for t = 0 to 63 do
      let s1 = logxor (logxor (rotr !e 6) (rotr !e 11)) (rotr !e 25) in
      let ch = logxor (logand !e !f) (logand (lognot !e) !g) in
      let t1 = add (add (add !hh s1) (add ch k256.(t))) w.(t) in
      let s0 = logxor (logxor (rotr !a 2) (rotr !a 13)) (rotr !a 22) in
      let mj = logxor (logxor (logand !a !bb) (logand !a !c)) (logand !bb !c) in
      let t2 = add s0 mj in
      hh := !g; g := !f; f := !e; e := add !d t1; d := !c; c := !bb; bb := !a; a := add t1 t2
    done;
    h.(0) <- add h.(0) !a; h.(1) <- add h.(1) !bb; h.(2) <- add h.(2) !c; h.(3) <- add h.(3) !d;
    h.(4) <- add h.(4) !e; h.(5) <- add h.(5) !f; h.(6) <- add h.(6) !g; h.(7) <- add h.(7) !hh
  done;
  String.concat "" (Array.to_list (Array.map (fun x -> Printf.sprintf "%08lx" x) h))

let k512 = [|
  0x428a2f98d728ae22L; 0x7137449123ef65cdL; 0xb5c0fbcfec4d3b2fL; 0xe9b5dba58189dbbcL; 0x3956c25bf348b538L;
  0x59f111f1b605d019L; 0x923f82a4af194f9bL; 0xab1c5ed5da6d8118L; 0xd807aa98a3030242L; 0x12835b0145706fbeL;
  0x243185be4ee4b28cL; 0x550c7dc3d5ffb4e2L; 0x72be5d74f27b896fL; 0x80deb1fe3b1696b1L; 0x9bdc06a725c71235L;
  0xc19bf174cf692694L; 0xe49b69c19ef14ad2L; 0xefbe4786384f25e3L; 0x0fc19dc68b8cd5b5L; 0x240ca1cc77ac9c65L;
  0x2de92c6f592b0275L; 0x4a7484aa6ea6e483L; 0x5cb0a9dcbd41fbd4L; 0x76f988da831153b5L; 0x983e5152ee66dfabL;
  0xa831c66d2db43210L; 0xb00327c898fb213fL; 0xbf597fc7beef0ee4L; 0xc6e00bf33da88fc2L; 0xd5a79147930aa725L;
  0x06ca6351e003826fL; 0x142929670a0e6e70L; 0x27b70a8546d22ffcL; 0x2e1b21385c26c926L; 0x4d2c6dfc5ac42aedL;
  0x53380d139d95b3dfL; 0x650a73548baf63deL; 0x766a0abb3c77b2a8L; 0x81c2c92e47edaee6L; 0x92722c851482353bL;
  0xa2bfe8a14cf10364L; 0xa81a664bbc423001L; 0xc24b8b70d0f89791L; 0xc76c51a30654be30L; 0xd192e819d6ef5218L;
  0xd69906245565a910L; 0xf40e35855771202aL; 0x106aa07032bbd1b8L; 0x19a4c116b8d2d0c8L; 0x1e376c085141ab53L;
  0x2748774cdf8eeb99L; 0x34b0bcb5e19b48a8L; 0x391c0cb3c5c95a63L; 0x4ed8aa4ae3418acbL; 0x5b9cca4f7763e373L;
  0x682e6ff3d6b2b8a3L; 0x748f82ee5defb2fcL; 0x78a5636f43172f60L; 0x84c87814a1f0ab72L; 0x8cc702081a6439ecL;
  0x90befffa23631e28L; 0xa4506cebde82bde9L; 0xbef9a3f7b2c67915L; 0xc67178f2e372532bL; 0xca273eceea26619cL;
  0xd186b8c721c0c207L; 0xeada7dd6cde0eb1eL; 0xf57d4f7fee6ed178L; 0x06f067aa72176fbaL; 0x0a637dc5a2c898a6L;
  0x113f9804bef90daeL; 0x1b710b35131c471bL; 0x28db77f523047d84L; 0x32caab7b40c72493L; 0x3c9ebe0a15c9bebcL;
  0x431d67c49c100d4cL; 0x4cc5d4becb3e42b6L; 0x597f299cfc657e2aL; 0x5fcb6fab3ad6faecL; 0x6c44198c4a475817L |]

let sha512_gen (iv : int64 array) (outwords : int) (s : string) : string =
  let open Int64 in
  let rotr x n = logor (shift_right_logical x n) (shift_left x (64 - n)) in
  let h = Array.copy iv in
  let b = pad 128 16 s in
  let w = Array.make 80 0L in
  for blk = 0 to Bytes.length b / 128 - 1 do
    for t = 0 to 15 do
      let o = blk * 128 + t * 8 in
      let v = ref 0L in
      for i = 0 to 7 do
        v := logor (shift_left !v 8) (of_int (Char.code (Bytes.get b (o + i))))
      done;
      w.(t) <- !v
    done;
    for t = 16 to 79 do
      let s0 = logxor (logxor (rotr w.(t - 15) 1) (rotr w.(t - 15) 8)) (shift_right_logical w.(t - 15) 7) in
      let s1 = logxor (logxor (rotr w.(t - 2) 19) (rotr w.(t - 2) 61)) (shift_right_logical w.(t - 2) 6) in
      w.(t) <- add (add w.(t - 16) s0) (add w.(t - 7) s1)
    done;
    let a = ref h.(0) and bb = ref h.(1) and c = ref h.(2) and d = ref h.(3)
    and e = ref h.(4) and f = ref h.(5) and g = ref h.(6) and hh = ref h.(7) in
    for t = 0 to 79 do
      let s1 = logxor (logxor (rotr !e 14) (rotr !e 18)) (rotr !e 41) in
      let ch = logxor (logand !e !f) (logand (lognot !e) !g) in
      let t1 = add (add (add !hh s1) (add ch k512.(t))) w.(t) in
      let s0 = logxor (logxor (rotr !a 28) (rotr !a 34)) (rotr !a 39) in
      let mj = logxor (logxor (logand !a !bb) (logand !a !c)) (logand !bb !c) in
      let t2 = add s0 mj in
      hh := !g; g := !f; f := !e; e := add !d t1; d := !c; c := !bb; bb := !a; a := add t1 t2
    done;
    h.(0) <- add h.(0) !a; h.(1) <- add h.(1) !bb; h.(2) <- add h.(2) !c; h.(3) <- add h.(3) !d;
    h.(4) <- add h.(4) !e; h.(5) <- add h.(5) !f; h.(6) <- add h.(6) !g; h.(7) <- add h.(7) !hh
  done;
  String.concat "" (List.init outwords (fun i -> Printf.sprintf "%016Lx" h.(i)))

let sha512 = sha512_gen [| 0x6a09e667f3bcc908L; 0xbb67ae8584caa73bL; 0x3c6ef372fe94f82bL; 0xa54ff53a5f1d36f1L;
                           0x510e527fade682d1L; 0x9b05688c2b3e6c1fL; 0x1f83d9abfb41bd6bL; 0x5be0cd19137e2179L |] 8
let sha384 = sha512_gen [| 0xcbbb9d5dc1059ed8L; 0x629a292a367cd507L; 0x9159015a3070dd17L; 0x152fecd8f70e5939L;
                           0x67332667ffc00b31L; 0x8eb44a8768581511L; 0xdb0c2e0d64f98fa7L; 0x47b5481dbefa4fa4L |] 6

(* "alg:hex" as go-digest prints it; unknown algorithms give "" (never equal to a valid digest) *)
let digest (alg : string) (s : string) : string =
  match alg with
  | "sha256" -> "sha256:" ^ sha256 s
  | "sha384" -> "sha384:" ^ sha384 s
  | "sha512" -> "sha512:" ^ sha512 s
  | _ -> ""
