(* modelrun <property> : one case per input line (s-expression), one JSON line out *)
let () =
  let f = match Sys.argv.(1) with
    | "c18" -> C18.run_case
    | "reg" -> Reg.run_case
    | "probe" -> Reg.run_probe
    | "cache" -> Cachedrv.run_case
    | "defaults" -> Confdrv.run_defaults
    | "rl" -> Confdrv.run_rl
    | p -> failwith ("unknown property " ^ p) in
  try
    while true do
      let line = input_line stdin in
      if String.length line > 0 then print_endline (f line)
    done
  with End_of_file -> ()
