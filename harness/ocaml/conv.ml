(* conversions between OCaml values and the extracted Coq datatypes *)
open Model
open Sexp

let cl (s : string) : char list = List.init (String.length s) (String.get s)
let lc (l : char list) : string = String.concat "" (List.map (String.make 1) l)

let rec pos_of_int (n : int) : positive =
  if n = 1 then XH else if n land 1 = 0 then XO (pos_of_int (n lsr 1)) else XI (pos_of_int (n lsr 1))
let z_of_int (n : int) : z = if n = 0 then Z0 else if n > 0 then Zpos (pos_of_int n) else Zneg (pos_of_int (- n))
let rec int_of_pos (p : positive) : int = match p with XH -> 1 | XO q -> 2 * int_of_pos q | XI q -> 2 * int_of_pos q + 1
let int_of_z (x : z) : int = match x with Z0 -> 0 | Zpos p -> int_of_pos p | Zneg p -> - (int_of_pos p)
let rec nat_of_int (n : int) : nat = if n <= 0 then O else S (nat_of_int (n - 1))
let rec int_of_nat (n : nat) : int = match n with O -> 0 | S m -> 1 + int_of_nat m

(* decimal string (optional sign) of any size -> Z *)
let z_of_string (s : string) : z =
  let n = String.length s in
  let neg = n > 0 && s.[0] = '-' in
  let start = if n > 0 && (s.[0] = '-' || s.[0] = '+') then 1 else 0 in
  if start >= n then failwith "z_of_string";
  let acc = ref Z0 in
  for i = start to n - 1 do
    let c = s.[i] in
    if c < '0' || c > '9' then failwith "z_of_string";
    acc := Z.add (Z.mul !acc (z_of_int 10)) (z_of_int (Char.code c - 48))
  done;
  if neg then Z.opp !acc else !acc
let zint = function Atom s -> z_of_string s | _ -> failwith "int expected"

let str = function Str s -> s | Atom s -> s | _ -> failwith "str expected"
let int = function Atom s -> int_of_string s | _ -> failwith "int expected"
let lst = function List l -> l | _ -> failwith "list expected"
let bool = function Atom "true" -> true | Atom "false" -> false | _ -> failwith "bool expected"
