(* minimal s-expression reader: atoms, quoted strings with backslash escapes (n t xHH), lists *)
type t = Atom of string | Str of string | List of t list

exception Parse_error of string

let parse (s : string) : t =
  let n = String.length s in
  let pos = ref 0 in
  let peek () = if !pos < n then Some s.[!pos] else None in
  let rec skip () =
    match peek () with
    | Some (' ' | '\t' | '\n' | '\r') -> incr pos; skip ()
    | _ -> () in
  let hexv c = match c with
    | '0'..'9' -> Char.code c - 48
    | 'a'..'f' -> Char.code c - 87
    | 'A'..'F' -> Char.code c - 55
    | _ -> raise (Parse_error "hex") in
  let rec value () =
    skip ();
    match peek () with
    | None -> raise (Parse_error "eof")
    | Some '(' ->
        incr pos;
        let items = ref [] in
        let rec loop () =
          skip ();
          match peek () with
          | Some ')' -> incr pos
          | None -> raise (Parse_error "unclosed")
          | _ -> items := value () :: !items; loop () in
        loop ();
        List (List.rev !items)
    | Some '"' ->
        incr pos;
        let b = Buffer.create 16 in
        let rec loop () =
          if !pos >= n then raise (Parse_error "unclosed string");
          let c = s.[!pos] in
          incr pos;
          if c = '"' then ()
          else if c = '\\' then begin
            let e = s.[!pos] in
            incr pos;
            (match e with
             | 'n' -> Buffer.add_char b '\n'
             | 't' -> Buffer.add_char b '\t'
             | 'x' ->
                 let v = hexv s.[!pos] * 16 + hexv s.[!pos + 1] in
                 pos := !pos + 2;
                 Buffer.add_char b (Char.chr v)
             | c -> Buffer.add_char b c);
            loop ()
          end else (Buffer.add_char b c; loop ()) in
        loop ();
        Str (Buffer.contents b)
    | Some _ ->
        let st = !pos in
        while !pos < n && (match s.[!pos] with ' ' | '\t' | '\n' | '\r' | '(' | ')' | '"' -> false | _ -> true) do incr pos done;
        Atom (String.sub s st (!pos - st)) in
  value ()

(* JSON output helpers *)
let json_str (s : string) : string =
  let b = Buffer.create (String.length s + 2) in
  Buffer.add_char b '"';
  String.iter (fun c ->
    match c with
    | '"' -> Buffer.add_string b "\\\""
    | '\\' -> Buffer.add_string b "\\\\"
    | '\n' -> Buffer.add_string b "\\n"
    | '\t' -> Buffer.add_string b "\\t"
    | c when Char.code c < 32 || Char.code c > 126 -> Buffer.add_string b (Printf.sprintf "\\u%04x" (Char.code c))
    | c -> Buffer.add_char b c) s;
  Buffer.add_char b '"';
  Buffer.contents b

let json_list (f : 'a -> string) (l : 'a list) : string = "[" ^ String.concat "," (List.map f l) ^ "]"
