(* C19: SetDefaults on a whole configuration and the rate limiter, on the extracted model *)
open Model
open Sexp
open Conv

let json_cval = function
  | CB None -> "null"
  | CB (Some b) -> string_of_bool b
  | CN z -> string_of_int (int_of_z z)
  | CS s -> json_str (lc s)

(* (defcase id gen|spec store ((field b null|true|false) (field n 123) (field s "x") ...)) *)
let run_defaults (line : string) : string =
  match parse line with
  | List [Atom "defcase"; id; Atom which; store; List fields] ->
      let rules = if which = "gen" then gen_defaults else spec_defaults in
      let cfg = List.map (function
          | List [f; Atom "b"; Atom "null"] -> (cl (str f), CB None)
          | List [f; Atom "b"; v] -> (cl (str f), CB (Some (bool v)))
          | List [f; Atom "n"; v] -> (cl (str f), CN (zint v))
          | List [f; Atom "s"; v] -> (cl (str f), CS (cl (str v)))
          | _ -> failwith "field") fields in
      let out = set_defaults rules (cl (str store)) cfg in
      Printf.sprintf "{\"id\":%d,\"cfg\":{%s}}" (int id)
        (String.concat "," (List.map (fun (f, v) -> Printf.sprintf "%s:%s" (json_str (lc f)) (json_cval v)) out))
  | _ -> failwith "defcase"

(* (rlcase id L ((t xff remote) ...)) *)
let run_rl (line : string) : string =
  match parse line with
  | List [Atom "rlcase"; id; l; List reqs] ->
      let rs = List.map (function
          | List [t; xff; remote] -> (zint t, (cl (str xff), cl (str remote)))
          | _ -> failwith "req") reqs in
      let served = rl_serve (zint l) rs in
      let ips = List.map (fun (_, (x, r)) -> json_str (lc (rl_ip x r))) rs in
      Printf.sprintf "{\"id\":%d,\"served\":[%s],\"ips\":[%s]}" (int id)
        (String.concat "," (List.map string_of_bool served)) (String.concat "," ips)
  | _ -> failwith "rlcase"
