(* C18: run operation sequences on the extracted Index model *)
open Model
open Sexp
open Conv

let ann_of = function
  | Atom "nil" -> None
  | List l -> Some (List.map (function List [k; v] -> (cl (str k), cl (str v)) | _ -> failwith "ann") l)
  | _ -> failwith "ann"

let desc_of = function
  | List [Atom "d"; mt; dig; size; ann; at] ->
      { d_mt = cl (str mt); d_dig = cl (str dig); d_size = z_of_int (int size); d_ann = ann_of ann; d_at = cl (str at) }
  | _ -> failwith "desc"

let op_of = function
  | List [Atom "add"; d; List cs] -> OAdd (desc_of d, List.map desc_of cs)
  | List [Atom "rm"; d] -> ORm (desc_of d)
  | List [Atom "addchildren"; List cs] -> OAddChildren (List.map desc_of cs)
  | _ -> failwith "op"

let json_desc (d : desc) : string =
  let ann = match d.d_ann with
    | None -> "null"
    | Some a -> "{" ^ String.concat "," (List.map (fun (k, v) -> json_str (lc k) ^ ":" ^ json_str (lc v)) a) ^ "}" in
  Printf.sprintf "{\"mt\":%s,\"dig\":%s,\"size\":%d,\"ann\":%s,\"at\":%s}"
    (json_str (lc d.d_mt)) (json_str (lc d.d_dig)) (int_of_z d.d_size) ann (json_str (lc d.d_at))

let json_odesc = function None -> "null" | Some d -> json_desc d

let run_case (line : string) : string =
  match parse line with
  | List [Atom "case"; id; List ops; List queries; List annq] ->
      let queries = List.map (fun q -> cl (str q)) queries in
      let annq = List.map (function List [k; v] -> (cl (str k), cl (str v)) | _ -> failwith "annq") annq in
      let states = ref [] in
      let rec go i = function
        | [] -> ()
        | o :: r ->
            (match apply_op (op_of o) i with
             | Ok i' ->
                 let st = Printf.sprintf "{\"top\":%s,\"child\":%s,\"get\":%s,\"getann\":%s}"
                     (json_list json_desc i'.top) (json_list json_desc i'.child)
                     (json_list (fun q -> json_odesc (get_desc q i')) queries)
                     (json_list (fun (k, v) -> json_odesc (get_by_annotation k v i')) annq) in
                 states := st :: !states;
                 go i' r
             | Panic -> states := "{\"panic\":\"model: Panic\"}" :: !states
             | OutOfFuel -> states := "{\"panic\":\"model: OutOfFuel\"}" :: !states) in
      go empty_index ops;
      Printf.sprintf "{\"id\":%d,\"states\":[%s]}" (int id) (String.concat "," (List.rev !states))
  | _ -> failwith "case"
