#!/bin/sh
# builds /verif/bin/modelrun from the extracted model; run after `make -C coq`
set -e
HERE=$(cd "$(dirname "$0")" && pwd)
VERIF=$(cd "$HERE/../.." && pwd)
OUT=$VERIF/bin/ml
mkdir -p "$OUT"
cd "$OUT"
rm -f model.ml model.mli
timeout 600 coqc -Q "$VERIF/coq" Olareg "$VERIF/coq/Extract.v" -o "$OUT/Extract.vo" >/dev/null
cp "$HERE"/*.ml .
MODS="model.mli model.ml sexp.ml conv.ml sha2.ml"
for m in c18 reg cachedrv confdrv ; do MODS="$MODS $m.ml"; done
ocamlfind ocamlopt -O2 -w -a $MODS driver.ml -o "$VERIF/bin/modelrun" 2>/dev/null || ocamlfind ocamlopt -w -a $MODS driver.ml -o "$VERIF/bin/modelrun"
