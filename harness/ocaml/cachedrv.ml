(* Cache: run event sequences on the extracted model (coq/Cache.v) *)
open Model
open Sexp
open Conv

let json_calls l = json_list (fun ((k, v), ok) -> Printf.sprintf "{\"k\":%s,\"v\":%d,\"ok\":%b}" (json_str (lc k)) (int_of_z v) ok) l

let keys c = List.sort compare (List.map (fun e -> lc e.c_key) c.c_entries)

let run_case (line : string) : string =
  match parse line with
  | List [Atom "ccase"; id; minage; count; hasfn; List evs] ->
      let c = ref (new_cache (zint minage) (zint count) (bool hasfn)) in
      let outs = ref [] in
      List.iter (fun ev ->
          let fails_of = function List l -> List.map (fun x -> cl (str x)) l | _ -> [] in
          let emit (o : cout) =
            outs := Printf.sprintf "{\"calls\":%s,\"val\":%s,\"err\":%b,\"keys\":%s,\"timer\":%b}" (json_calls o.co_calls)
                      (match o.co_val with Some v -> string_of_int (int_of_z v) | None -> "null") o.co_err
                      (json_list json_str (keys !c)) !c.c_timer :: !outs in
          let step e = let (c', o) = c_step !c e in c := c'; o in
          match ev with
          | List [Atom "set"; k; v; t; now; fails] -> emit (step (CSetP (cl (str k), zint v, zint t, zint now, fails_of fails)))
          | List [Atom "get"; k; t] -> emit (step (CGet (cl (str k), zint t)))
          | List [Atom "delete"; k; ok] -> emit (step (CDelete (cl (str k), bool ok)))
          | List [Atom "delete_set"; k; v; t; now; ok; fails] ->
              emit (step (CDeleteSetBetweenP (cl (str k), zint v, zint t, bool ok, zint now, fails_of fails)))
          | List [Atom "delete_all"; fails] -> emit (step (CDeleteAll (fails_of fails)))
          | List [Atom "prune_age"; t; fails] -> emit (step (CPruneAge (zint t, fails_of fails)))
          | List [Atom "prune_count"; t; fails] -> emit (step (CPruneCount (zint t, fails_of fails)))
          | _ -> failwith "cache event") evs;
      Printf.sprintf "{\"id\":%d,\"events\":[%s]}" (int id) (String.concat "," (List.rev !outs))
  | _ -> failwith "ccase"
