package main

// genSync: the synchronisation statements of every function of the server, store and cache, in source order
// (Gen_Sync.v).  coq/Sync.v holds the same table with, next to every statement, its abstract meaning (acquire /
// release / wait on a lock class, call); Props_C12 requires the two tables to agree, so the abstraction is always
// the abstraction of the current source.

import (
	"bytes"
	"fmt"
	"go/ast"
	"go/parser"
	"go/printer"
	"go/token"
	"os"
	"path/filepath"
	"sort"
	"strings"
)

var syncFiles = []string{"olareg.go", "referrer.go", "internal/store/dir.go", "internal/store/mem.go", "internal/store/store.go", "internal/cache/cache.go"}

func exprText(fset *token.FileSet, e ast.Node) string {
	var b bytes.Buffer
	_ = printer.Fprint(&b, fset, e)
	return strings.Join(strings.Fields(b.String()), " ")
}

func isSyncSel(name string) bool {
	switch name {
	case "Lock", "Unlock", "RLock", "RUnlock", "TryLock", "Wait", "Done":
		return true
	}
	return false
}

func looksSync(x string) bool {
	l := strings.ToLower(x)
	return strings.HasSuffix(l, "mu") || strings.HasSuffix(l, ".wg") || l == "wg"
}

type syncFn struct {
	file, name string
	ops        []string
}

func funcName(fd *ast.FuncDecl, fset *token.FileSet) string {
	if fd.Recv != nil && len(fd.Recv.List) > 0 {
		t := exprText(fset, fd.Recv.List[0].Type)
		t = strings.TrimPrefix(t, "*")
		if i := strings.Index(t, "["); i >= 0 {
			t = t[:i]
		}
		return t + "." + fd.Name.Name
	}
	return fd.Name.Name
}

func collectSync(fset *token.FileSet, body ast.Node, callees map[string]bool, out *[]string) {
	var walk func(n ast.Node, deferred bool)
	walk = func(n ast.Node, deferred bool) {
		if n == nil {
			return
		}
		switch x := n.(type) {
		case *ast.DeferStmt:
			if fl, ok := x.Call.Fun.(*ast.FuncLit); ok {
				*out = append(*out, "defer func{")
				walk(fl.Body, false)
				*out = append(*out, "}")
				return
			}
			walk(x.Call, true)
			return
		case *ast.GoStmt:
			*out = append(*out, "go{")
			if fl, ok := x.Call.Fun.(*ast.FuncLit); ok {
				walk(fl.Body, false)
			} else {
				walk(x.Call, false)
			}
			*out = append(*out, "}")
			return
		case *ast.FuncLit:
			*out = append(*out, "func{")
			walk(x.Body, false)
			*out = append(*out, "}")
			return
		case *ast.IfStmt:
			walk(x.Init, false)
			walk(x.Cond, false)
			if endsInReturn(x.Body) {
				*out = append(*out, "ifret{")
				walk(x.Body, false)
				*out = append(*out, "}")
			} else {
				walk(x.Body, false)
			}
			if x.Else != nil {
				if eb, ok := x.Else.(*ast.BlockStmt); ok && endsInReturn(eb) {
					*out = append(*out, "ifret{")
					walk(eb, false)
					*out = append(*out, "}")
				} else {
					walk(x.Else, false)
				}
			}
			return
		case *ast.SelectStmt:
			*out = append(*out, "select{")
			for _, c := range x.Body.List {
				cc := c.(*ast.CommClause)
				if cc.Comm == nil {
					*out = append(*out, "default:")
				} else {
					*out = append(*out, "case "+exprText(fset, cc.Comm)+":")
				}
				for _, s := range cc.Body {
					walk(s, false)
				}
			}
			*out = append(*out, "}")
			return
		case *ast.SendStmt:
			*out = append(*out, exprText(fset, x.Chan)+" <-")
			return
		case *ast.UnaryExpr:
			if x.Op == token.ARROW {
				*out = append(*out, "<-"+exprText(fset, x.X))
				return
			}
		case *ast.CallExpr:
			// arguments first (evaluation order)
			for _, a := range x.Args {
				walk(a, false)
			}
			pre := ""
			if deferred {
				pre = "defer "
			}
			if id, ok := x.Fun.(*ast.Ident); ok && id.Name == "close" && len(x.Args) == 1 {
				*out = append(*out, pre+"close("+exprText(fset, x.Args[0])+")")
				return
			}
			if sel, ok := x.Fun.(*ast.SelectorExpr); ok {
				recv := exprText(fset, sel.X)
				if (isSyncSel(sel.Sel.Name) || sel.Sel.Name == "Add") && looksSync(recv) {
					*out = append(*out, pre+recv+"."+sel.Sel.Name+"()")
					return
				}
				walk(sel.X, false)
				if callees[sel.Sel.Name] {
					*out = append(*out, pre+"call "+sel.Sel.Name)
				}
				return
			}
			if id, ok := x.Fun.(*ast.Ident); ok && callees[id.Name] {
				*out = append(*out, pre+"call "+id.Name)
				return
			}
			walk(x.Fun, false)
			return
		}
		// generic traversal in source order
		ast.Inspect(n, func(c ast.Node) bool {
			if c == n || c == nil {
				return true
			}
			walk(c, false)
			return false
		})
	}
	walk(body, false)
}

func genSync(repo, out string) {
	fset := token.NewFileSet()
	type parsed struct {
		file string
		f    *ast.File
	}
	var files []parsed
	for _, fn := range syncFiles {
		f, err := parser.ParseFile(fset, filepath.Join(repo, fn), nil, 0)
		if err != nil {
			fmt.Fprintln(os.Stderr, "sync:", err)
			os.Exit(1)
		}
		files = append(files, parsed{fn, f})
	}
	// pass 1: functions with synchronisation statements of their own; pass 2 adds calls to them (by name), iterated
	callees := map[string]bool{}
	var fns []syncFn
	for iter := 0; iter < 6; iter++ {
		fns = nil
		for _, pf := range files {
			for _, d := range pf.f.Decls {
				fd, ok := d.(*ast.FuncDecl)
				if !ok || fd.Body == nil {
					continue
				}
				ops := []string{}
				collectSync(fset, fd.Body, callees, &ops)
				if len(ops) > 0 {
					fns = append(fns, syncFn{pf.file, funcName(fd, fset), ops})
				}
			}
		}
		changed := false
		for _, f := range fns {
			short := f.name
			if i := strings.LastIndex(short, "."); i >= 0 {
				short = short[i+1:]
			}
			if !callees[short] {
				callees[short] = true
				changed = true
			}
		}
		if !changed {
			break
		}
	}
	sort.SliceStable(fns, func(i, j int) bool {
		if fns[i].file != fns[j].file {
			return fns[i].file < fns[j].file
		}
		return fns[i].name < fns[j].name
	})
	var b strings.Builder
	b.WriteString("(* GENERATED by harness/gofacts - do not edit *)\nFrom Olareg Require Import Base.\nLocal Open Scope list_scope.\n\n")
	b.WriteString("(* per function of the server, store and cache: its synchronisation statements and its calls to functions that\n   have any, in source order *)\n")
	b.WriteString("Definition gen_sync : list (string * list string) := [\n")
	for i, f := range fns {
		ops := make([]string, len(f.ops))
		for k, o := range f.ops {
			ops[k] = cstr(o)
		}
		sep := ";"
		if i == len(fns)-1 {
			sep = ""
		}
		fmt.Fprintf(&b, "  (%s, [%s])%s\n", cstr(f.file+":"+f.name), strings.Join(ops, "; "), sep)
	}
	b.WriteString("].\n")
	write(out, "Gen_Sync.v", b.String())
}
