package main

// fsrewrite: rewrites the filesystem call sites of a source file of internal/store so that every
// mutating call goes through the counting shim (harness/hooks/vfs_verif.go):
//   os.MkdirAll / CreateTemp / Rename / Remove / RemoveAll / WriteFile / Chtimes  ->  vfsMkdirAll / ...
//   io.MultiWriter(f, ...) and json.NewEncoder(f)                                ->  first argument wrapped in vfsW(...)
// The rewritten file replaces the original through `go build -overlay` at check time.
// It also prints the call sites it rewrote (one per line) so that the check can tell when a new
// mutating call site appears that the shim does not know.

import (
	"bytes"
	"fmt"
	"go/ast"
	"go/parser"
	"go/printer"
	"go/token"
	"os"
	"sort"
)

var vfsFuncs = map[string]bool{"MkdirAll": true, "CreateTemp": true, "Rename": true, "Remove": true, "RemoveAll": true,
	"WriteFile": true, "Chtimes": true, "Mkdir": true}

// calls that change the filesystem but are not handled: their presence fails the rewrite
var vfsUnknown = map[string]bool{"Create": true, "OpenFile": true, "Truncate": true, "Symlink": true, "Link": true, "Chmod": true, "Chown": true}

func fsRewrite(src, dst string) error {
	fset := token.NewFileSet()
	f, err := parser.ParseFile(fset, src, nil, parser.ParseComments)
	if err != nil {
		return err
	}
	sites := []string{}
	var bad []string
	ast.Inspect(f, func(n ast.Node) bool {
		call, ok := n.(*ast.CallExpr)
		if !ok {
			return true
		}
		sel, ok := call.Fun.(*ast.SelectorExpr)
		if !ok {
			return true
		}
		pkg, ok := sel.X.(*ast.Ident)
		if !ok {
			return true
		}
		pos := fset.Position(call.Pos())
		switch {
		case pkg.Name == "os" && vfsFuncs[sel.Sel.Name]:
			sites = append(sites, fmt.Sprintf("%d os.%s", pos.Line, sel.Sel.Name))
			call.Fun = &ast.Ident{Name: "vfs" + sel.Sel.Name, NamePos: call.Pos()}
		case pkg.Name == "os" && vfsUnknown[sel.Sel.Name]:
			bad = append(bad, fmt.Sprintf("%s:%d os.%s", src, pos.Line, sel.Sel.Name))
		case (pkg.Name == "io" && sel.Sel.Name == "MultiWriter" || pkg.Name == "json" && sel.Sel.Name == "NewEncoder") && len(call.Args) > 0:
			sites = append(sites, fmt.Sprintf("%d %s.%s", pos.Line, pkg.Name, sel.Sel.Name))
			call.Args[0] = &ast.CallExpr{Fun: &ast.Ident{Name: "vfsW"}, Args: []ast.Expr{call.Args[0]}}
		}
		return true
	})
	if len(bad) > 0 {
		return fmt.Errorf("mutating filesystem calls the shim does not handle: %v", bad)
	}
	var buf bytes.Buffer
	if err := printer.Fprint(&buf, fset, f); err != nil {
		return err
	}
	if err := os.WriteFile(dst, buf.Bytes(), 0o644); err != nil {
		return err
	}
	sort.Strings(sites)
	for _, s := range sites {
		fmt.Println(s)
	}
	return nil
}
