module gofacts

go 1.21
