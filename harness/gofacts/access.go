package main

// genAccess: for the structures shared between goroutines (server, stores, repositories, upload sessions, cache), per
// method: the lock / unlock statements on the receiver's own mutex and the reads / writes of the receiver's fields, in
// source order (Gen_Access.v).  coq/Access.v states the lockset discipline on this table.

import (
	"fmt"
	"go/ast"
	"go/parser"
	"go/token"
	"path/filepath"
	"sort"
	"strings"
)

var accessFiles = []string{"olareg.go", "internal/store/dir.go", "internal/store/mem.go", "internal/cache/cache.go"}
var sharedTypes = map[string]bool{"Server": true, "dir": true, "dirRepo": true, "dirRepoUpload": true, "mem": true, "memRepo": true,
	"memRepoUpload": true, "Cache": true}

func recvInfo(fd *ast.FuncDecl, fset *token.FileSet) (string, string) {
	if fd.Recv == nil || len(fd.Recv.List) == 0 || len(fd.Recv.List[0].Names) == 0 {
		return "", ""
	}
	t := exprText(fset, fd.Recv.List[0].Type)
	t = strings.TrimPrefix(t, "*")
	if i := strings.Index(t, "["); i >= 0 {
		t = t[:i]
	}
	return fd.Recv.List[0].Names[0].Name, t
}

// a block whose last statement leaves the function (or the loop iteration): what it does to the locks does not reach
// the statements after it
func endsInReturn(b *ast.BlockStmt) bool {
	if b == nil || len(b.List) == 0 {
		return false
	}
	return terminates(b.List[len(b.List)-1])
}

func terminates(st ast.Stmt) bool {
	switch x := st.(type) {
	case *ast.ReturnStmt, *ast.BranchStmt:
		return true
	case *ast.BlockStmt:
		return endsInReturn(x)
	case *ast.IfStmt:
		if x.Else == nil {
			return false
		}
		return endsInReturn(x.Body) && terminates(x.Else)
	case *ast.SelectStmt:
		if len(x.Body.List) == 0 {
			return false
		}
		for _, c := range x.Body.List {
			cc := c.(*ast.CommClause)
			if len(cc.Body) == 0 || !terminates(cc.Body[len(cc.Body)-1]) {
				return false
			}
		}
		return true
	}
	return false
}

func hasLockedParam(fd *ast.FuncDecl) bool {
	for _, p := range fd.Type.Params.List {
		for _, n := range p.Names {
			if n.Name == "locked" {
				return true
			}
		}
	}
	return false
}

func collectAccess(fset *token.FileSet, fd *ast.FuncDecl, recv string, out *[]string) {
	// writes: selectors rooted at recv.field that are assigned, incremented, address-taken or deleted from
	writes := map[ast.Node]bool{}
	// recv.field, recv.field[i] and *recv.field are writes of the field; recv.field.x = v writes the object the field
	// points to (another structure, judged where that structure's methods are), not the field
	var rootField func(e ast.Expr) (*ast.SelectorExpr, bool)
	rootField = func(e ast.Expr) (*ast.SelectorExpr, bool) {
		switch x := e.(type) {
		case *ast.SelectorExpr:
			if id, ok := x.X.(*ast.Ident); ok && id.Name == recv {
				return x, true
			}
			return nil, false
		case *ast.IndexExpr:
			return rootField(x.X)
		case *ast.StarExpr:
			return rootField(x.X)
		case *ast.ParenExpr:
			return rootField(x.X)
		}
		return nil, false
	}
	ast.Inspect(fd.Body, func(n ast.Node) bool {
		switch x := n.(type) {
		case *ast.AssignStmt:
			for _, l := range x.Lhs {
				if s, ok := rootField(l); ok {
					// recv.a.b = v writes field a only when the path has no further pointer hop we can see: keep it simple,
					// an assignment through recv.field... counts as a write of field
					writes[s] = true
				}
			}
		case *ast.IncDecStmt:
			if s, ok := rootField(x.X); ok {
				writes[s] = true
			}
		case *ast.UnaryExpr:
			if x.Op == token.AND {
				if s, ok := rootField(x.X); ok {
					writes[s] = true
				}
			}
		case *ast.CallExpr:
			if id, ok := x.Fun.(*ast.Ident); ok && id.Name == "delete" && len(x.Args) > 0 {
				if s, ok := rootField(x.Args[0]); ok {
					writes[s] = true
				}
			}
		}
		return true
	})
	var walk func(n ast.Node, deferred bool)
	walk = func(n ast.Node, deferred bool) {
		if n == nil {
			return
		}
		switch x := n.(type) {
		case *ast.DeferStmt:
			if fl, ok := x.Call.Fun.(*ast.FuncLit); ok {
				*out = append(*out, "defer func{")
				walk(fl.Body, false)
				*out = append(*out, "}")
				return
			}
			walk(x.Call, true)
			return
		case *ast.GoStmt:
			*out = append(*out, "go{")
			if fl, ok := x.Call.Fun.(*ast.FuncLit); ok {
				walk(fl.Body, false)
			} else {
				walk(x.Call, false)
			}
			*out = append(*out, "}")
			return
		case *ast.FuncLit:
			*out = append(*out, "func{")
			walk(x.Body, false)
			*out = append(*out, "}")
			return
		case *ast.IfStmt:
			walk(x.Init, false)
			walk(x.Cond, false)
			if endsInReturn(x.Body) {
				*out = append(*out, "ifret{")
				walk(x.Body, false)
				*out = append(*out, "}")
			} else {
				walk(x.Body, false)
			}
			if x.Else != nil {
				if eb, ok := x.Else.(*ast.BlockStmt); ok && endsInReturn(eb) {
					*out = append(*out, "ifret{")
					walk(eb, false)
					*out = append(*out, "}")
				} else {
					walk(x.Else, false)
				}
			}
			return
		case *ast.CallExpr:
			if sel, ok := x.Fun.(*ast.SelectorExpr); ok {
				rx := exprText(fset, sel.X)
				if rx == recv+".mu" && (sel.Sel.Name == "Lock" || sel.Sel.Name == "Unlock") {
					pre := ""
					if deferred {
						pre = "defer "
					}
					*out = append(*out, pre+strings.ToLower(sel.Sel.Name))
					return
				}
			}
		case *ast.SelectorExpr:
			if id, ok := x.X.(*ast.Ident); ok && id.Name == recv {
				if x.Sel.Name != "mu" {
					k := "r "
					if writes[x] {
						k = "w "
					}
					*out = append(*out, k+x.Sel.Name)
				}
				return
			}
		}
		ast.Inspect(n, func(c ast.Node) bool {
			if c == n || c == nil {
				return true
			}
			walk(c, false)
			return false
		})
	}
	walk(fd.Body, false)
}

func genAccess(repo, out string) {
	fset := token.NewFileSet()
	type fn struct {
		key    string
		locked bool
		ops    []string
	}
	var fns []fn
	for _, f := range accessFiles {
		af, err := parser.ParseFile(fset, filepath.Join(repo, f), nil, 0)
		if err != nil {
			fmt.Println("access:", err)
			continue
		}
		for _, d := range af.Decls {
			fd, ok := d.(*ast.FuncDecl)
			if !ok || fd.Body == nil {
				continue
			}
			recv, typ := recvInfo(fd, fset)
			if recv == "" || !sharedTypes[typ] {
				continue
			}
			ops := []string{}
			collectAccess(fset, fd, recv, &ops)
			// consecutive duplicates carry no information
			ded := []string{}
			for _, o := range ops {
				if len(ded) == 0 || ded[len(ded)-1] != o || o == "}" || strings.HasSuffix(o, "{") {
					ded = append(ded, o)
				}
			}
			fns = append(fns, fn{f + ":" + typ + "." + fd.Name.Name, hasLockedParam(fd), ded})
		}
	}
	sort.SliceStable(fns, func(i, j int) bool { return fns[i].key < fns[j].key })
	var b strings.Builder
	b.WriteString("(* GENERATED by harness/gofacts - do not edit *)\nFrom Olareg Require Import Base.\nLocal Open Scope list_scope.\n\n")
	b.WriteString("(* per method of the shared structures: whether it has a `locked` parameter, and its lock / unlock statements on the\n   receiver's mutex and reads (r) / writes (w) of the receiver's fields, in source order *)\n")
	b.WriteString("Definition gen_access : list (string * (bool * list string)) := [\n")
	for i, f := range fns {
		ops := make([]string, len(f.ops))
		for k, o := range f.ops {
			ops[k] = cstr(o)
		}
		sep := ";"
		if i == len(fns)-1 {
			sep = ""
		}
		fmt.Fprintf(&b, "  (%s, (%v, [%s]))%s\n", cstr(f.key), f.locked, strings.Join(ops, "; "), sep)
	}
	b.WriteString("].\n")
	write(out, "Gen_Access.v", b.String())
}
