package main

// genAccess: for the structures shared between goroutines (server, stores, repositories, upload sessions, cache), per
// method: the lock / unlock statements on the receiver's own mutex and the reads / writes of the receiver's fields, in
// source order (Gen_Access.v).  coq/Access.v states the lockset discipline on this table.

import (
	"fmt"
	"go/ast"
	"go/parser"
	"go/token"
	"path/filepath"
	"sort"
	"strings"
)

var accessFiles = []string{"olareg.go", "internal/store/dir.go", "internal/store/mem.go", "internal/cache/cache.go"}
var sharedTypes = map[string]bool{"Server": true, "dir": true, "dirRepo": true, "dirRepoUpload": true, "mem": true, "memRepo": true,
	"memRepoUpload": true, "Cache": true}

// methods of the standard library's buffers, files, writers and hashes that change the object they are called on
var mutatingMethods = map[string]bool{"Write": true, "WriteString": true, "WriteByte": true, "ReadFrom": true, "Reset": true, "Truncate": true,
	"Grow": true, "Seek": true, "Sync": true, "Read": true}

// constructors of the standard library that return a wrapper over their arguments
var wrapperFuncs = map[string]bool{"MultiWriter": true, "TeeReader": true, "NewWriter": true, "NewReader": true, "NewBuffer": true, "MultiReader": true}

// aliases: recv.F = f(..., recv.G, ...) makes what F holds a wrapper of what G holds (a MultiWriter over a buffer or a file):
// a write through F is a write of G.  Also the composite literal T{F: w, G: b} with w := f(..., b, ...) in the same function.
func collectAliases(fset *token.FileSet, fd *ast.FuncDecl, recv string, typ string, out map[[3]string]bool) {
	fieldOf := func(e ast.Expr) string {
		if s, ok := e.(*ast.SelectorExpr); ok {
			if id, ok := s.X.(*ast.Ident); ok && id.Name == recv && recv != "" {
				return s.Sel.Name
			}
		}
		return ""
	}
	// local variable -> identifiers / receiver fields used in the call that defined it
	defs := map[string][]ast.Expr{}
	ast.Inspect(fd.Body, func(n ast.Node) bool {
		as, ok := n.(*ast.AssignStmt)
		if !ok || len(as.Lhs) != len(as.Rhs) {
			return true
		}
		for i, l := range as.Lhs {
			call, ok := as.Rhs[i].(*ast.CallExpr)
			if !ok {
				continue
			}
			if fs, ok := call.Fun.(*ast.SelectorExpr); !ok || !wrapperFuncs[fs.Sel.Name] {
				continue
			}
			if f := fieldOf(l); f != "" {
				for _, a := range call.Args {
					if g := fieldOf(a); g != "" && g != f {
						out[[3]string{typ, f, g}] = true
					}
				}
			}
			if id, ok := l.(*ast.Ident); ok {
				defs[id.Name] = call.Args
			}
		}
		return true
	})
	ast.Inspect(fd.Body, func(n ast.Node) bool {
		cl, ok := n.(*ast.CompositeLit)
		if !ok {
			return true
		}
		t := strings.TrimPrefix(exprText(fset, cl.Type), "*")
		if !sharedTypes[t] {
			return true
		}
		byVar := map[string]string{}
		for _, el := range cl.Elts {
			if kv, ok := el.(*ast.KeyValueExpr); ok {
				if k, ok := kv.Key.(*ast.Ident); ok {
					if v, ok := kv.Value.(*ast.Ident); ok {
						byVar[v.Name] = k.Name
					}
				}
			}
		}
		for v, f := range byVar {
			for _, a := range defs[v] {
				if id, ok := a.(*ast.Ident); ok {
					if g, ok := byVar[id.Name]; ok && g != f {
						out[[3]string{t, f, g}] = true
					}
				}
			}
		}
		return true
	})
}

func recvInfo(fd *ast.FuncDecl, fset *token.FileSet) (string, string) {
	if fd.Recv == nil || len(fd.Recv.List) == 0 || len(fd.Recv.List[0].Names) == 0 {
		return "", ""
	}
	t := exprText(fset, fd.Recv.List[0].Type)
	t = strings.TrimPrefix(t, "*")
	if i := strings.Index(t, "["); i >= 0 {
		t = t[:i]
	}
	return fd.Recv.List[0].Names[0].Name, t
}

// a block whose last statement leaves the function (or the loop iteration): what it does to the locks does not reach
// the statements after it
func endsInReturn(b *ast.BlockStmt) bool {
	if b == nil || len(b.List) == 0 {
		return false
	}
	return terminates(b.List[len(b.List)-1])
}

func terminates(st ast.Stmt) bool {
	switch x := st.(type) {
	case *ast.ReturnStmt, *ast.BranchStmt:
		return true
	case *ast.BlockStmt:
		return endsInReturn(x)
	case *ast.IfStmt:
		if x.Else == nil {
			return false
		}
		return endsInReturn(x.Body) && terminates(x.Else)
	case *ast.SelectStmt:
		if len(x.Body.List) == 0 {
			return false
		}
		for _, c := range x.Body.List {
			cc := c.(*ast.CommClause)
			if len(cc.Body) == 0 || !terminates(cc.Body[len(cc.Body)-1]) {
				return false
			}
		}
		return true
	}
	return false
}

func hasLockedParam(fd *ast.FuncDecl) bool {
	for _, p := range fd.Type.Params.List {
		for _, n := range p.Names {
			if n.Name == "locked" {
				return true
			}
		}
	}
	return false
}

func collectAccess(fset *token.FileSet, fd *ast.FuncDecl, recv string, out *[]string) {
	// writes: selectors rooted at recv.field that are assigned, incremented, address-taken or deleted from
	writes := map[ast.Node]bool{}
	// recv.field, recv.field[i] and *recv.field are writes of the field; recv.field.x = v writes the object the field
	// points to (another structure, judged where that structure's methods are), not the field
	var rootField func(e ast.Expr) (*ast.SelectorExpr, bool)
	rootField = func(e ast.Expr) (*ast.SelectorExpr, bool) {
		switch x := e.(type) {
		case *ast.SelectorExpr:
			if id, ok := x.X.(*ast.Ident); ok && id.Name == recv {
				return x, true
			}
			return nil, false
		case *ast.IndexExpr:
			return rootField(x.X)
		case *ast.StarExpr:
			return rootField(x.X)
		case *ast.ParenExpr:
			return rootField(x.X)
		}
		return nil, false
	}
	ast.Inspect(fd.Body, func(n ast.Node) bool {
		switch x := n.(type) {
		case *ast.AssignStmt:
			for _, l := range x.Lhs {
				if s, ok := rootField(l); ok {
					// recv.a.b = v writes field a only when the path has no further pointer hop we can see: keep it simple,
					// an assignment through recv.field... counts as a write of field
					writes[s] = true
				}
			}
		case *ast.IncDecStmt:
			if s, ok := rootField(x.X); ok {
				writes[s] = true
			}
		case *ast.UnaryExpr:
			if x.Op == token.AND {
				if s, ok := rootField(x.X); ok {
					writes[s] = true
				}
			}
		case *ast.CallExpr:
			if id, ok := x.Fun.(*ast.Ident); ok && id.Name == "delete" && len(x.Args) > 0 {
				if s, ok := rootField(x.Args[0]); ok {
					writes[s] = true
				}
			}
			// recv.field.Write(...), .Reset(), .Seek(...), ...: the object the field holds (a buffer, a file, a writer) is
			// changed through a method - a write of the field as far as the lockset discipline goes
			if sel, ok := x.Fun.(*ast.SelectorExpr); ok && mutatingMethods[sel.Sel.Name] {
				if s, ok := rootField(sel.X); ok {
					writes[s] = true
				}
			}
		}
		return true
	})
	var walk func(n ast.Node, deferred bool)
	walk = func(n ast.Node, deferred bool) {
		if n == nil {
			return
		}
		switch x := n.(type) {
		case *ast.DeferStmt:
			if fl, ok := x.Call.Fun.(*ast.FuncLit); ok {
				*out = append(*out, "defer func{")
				walk(fl.Body, false)
				*out = append(*out, "}")
				return
			}
			walk(x.Call, true)
			return
		case *ast.GoStmt:
			*out = append(*out, "go{")
			if fl, ok := x.Call.Fun.(*ast.FuncLit); ok {
				walk(fl.Body, false)
			} else {
				walk(x.Call, false)
			}
			*out = append(*out, "}")
			return
		case *ast.FuncLit:
			*out = append(*out, "func{")
			walk(x.Body, false)
			*out = append(*out, "}")
			return
		case *ast.IfStmt:
			walk(x.Init, false)
			walk(x.Cond, false)
			if endsInReturn(x.Body) {
				*out = append(*out, "ifret{")
				walk(x.Body, false)
				*out = append(*out, "}")
			} else {
				walk(x.Body, false)
			}
			if x.Else != nil {
				if eb, ok := x.Else.(*ast.BlockStmt); ok && endsInReturn(eb) {
					*out = append(*out, "ifret{")
					walk(eb, false)
					*out = append(*out, "}")
				} else {
					walk(x.Else, false)
				}
			}
			return
		case *ast.CallExpr:
			if sel, ok := x.Fun.(*ast.SelectorExpr); ok {
				rx := exprText(fset, sel.X)
				if rx == recv+".mu" && (sel.Sel.Name == "Lock" || sel.Sel.Name == "Unlock") {
					pre := ""
					if deferred {
						pre = "defer "
					}
					*out = append(*out, pre+strings.ToLower(sel.Sel.Name))
					return
				}
			}
		case *ast.SelectorExpr:
			if id, ok := x.X.(*ast.Ident); ok && id.Name == recv {
				if x.Sel.Name != "mu" {
					k := "r "
					if writes[x] {
						k = "w "
					}
					*out = append(*out, k+x.Sel.Name)
				}
				return
			}
		}
		ast.Inspect(n, func(c ast.Node) bool {
			if c == n || c == nil {
				return true
			}
			walk(c, false)
			return false
		})
	}
	walk(fd.Body, false)
}

func genAccess(repo, out string) {
	fset := token.NewFileSet()
	type fn struct {
		key    string
		locked bool
		ops    []string
	}
	var fns []fn
	aliases := map[[3]string]bool{}
	for _, f := range accessFiles {
		af, err := parser.ParseFile(fset, filepath.Join(repo, f), nil, 0)
		if err != nil {
			fmt.Println("access:", err)
			continue
		}
		for _, d := range af.Decls {
			fd, ok := d.(*ast.FuncDecl)
			if !ok || fd.Body == nil {
				continue
			}
			recv, typ := recvInfo(fd, fset)
			collectAliases(fset, fd, recv, typ, aliases)
			if recv == "" || !sharedTypes[typ] {
				continue
			}
			ops := []string{}
			collectAccess(fset, fd, recv, &ops)
			// consecutive duplicates carry no information
			ded := []string{}
			for _, o := range ops {
				if len(ded) == 0 || ded[len(ded)-1] != o || o == "}" || strings.HasSuffix(o, "{") {
					ded = append(ded, o)
				}
			}
			fns = append(fns, fn{f + ":" + typ + "." + fd.Name.Name, hasLockedParam(fd), ded})
		}
	}
	sort.SliceStable(fns, func(i, j int) bool { return fns[i].key < fns[j].key })
	var b strings.Builder
	b.WriteString("(* GENERATED by harness/gofacts - do not edit *)\nFrom Olareg Require Import Base.\nLocal Open Scope list_scope.\n\n")
	b.WriteString("(* per method of the shared structures: whether it has a `locked` parameter, and its lock / unlock statements on the\n   receiver's mutex and reads (r) / writes (w) of the receiver's fields, in source order *)\n")
	b.WriteString("Definition gen_access : list (string * (bool * list string)) := [\n")
	for i, f := range fns {
		ops := make([]string, len(f.ops))
		for k, o := range f.ops {
			ops[k] = cstr(o)
		}
		sep := ";"
		if i == len(fns)-1 {
			sep = ""
		}
		fmt.Fprintf(&b, "  (%s, (%v, [%s]))%s\n", cstr(f.key), f.locked, strings.Join(ops, "; "), sep)
	}
	b.WriteString("].\n\n")
	b.WriteString("(* (type, field, wrapped field): the field holds a wrapper built over what the other field holds (recv.F = f(.., recv.G, ..),\n   or T{F: w, G: b} with w := f(.., b, ..)): a write through the first is a write of the second *)\n")
	b.WriteString("Definition gen_aliases : list (string * (string * string)) := [\n")
	var al [][3]string
	for a := range aliases {
		if sharedTypes[a[0]] {
			al = append(al, a)
		}
	}
	sort.Slice(al, func(i, j int) bool { return al[i][0]+al[i][1]+al[i][2] < al[j][0]+al[j][1]+al[j][2] })
	for i, a := range al {
		sep := ";"
		if i == len(al)-1 {
			sep = ""
		}
		fmt.Fprintf(&b, "  (%s, (%s, %s))%s\n", cstr(a[0]), cstr(a[1]), cstr(a[2]), sep)
	}
	b.WriteString("].\n")
	write(out, "Gen_Access.v", b.String())
}
