// gofacts: fact translator.  Reads olareg's Go sources with go/ast and regenerates the
// table-like parts of the code as Coq definitions (coq/gen/Gen_*.v) on every run:
//   - the routing chain of Server.ServeHTTP (olareg.go)            -> Gen_Routes.v
//   - the error constructors (types/errors.go)                      -> Gen_Errors.v
//   - Config.SetDefaults and the default constants (config/config.go) -> Gen_Config.v
//   - the serve flags and their wiring into config.Config (cmd/olareg/serve.go) -> Gen_Flags.v
//   - regular-expression literals, file-name and annotation constants -> Gen_Consts.v
//
// Unrecognised shapes make it fail loudly (exit 2): it never guesses.
package main

import (
	"fmt"
	"go/ast"
	"go/parser"
	"go/token"
	"os"
	"path/filepath"
	"sort"
	"strconv"
	"strings"
)

var fset = token.NewFileSet()

func die(pos token.Pos, f string, a ...interface{}) {
	fmt.Fprintf(os.Stderr, "gofacts: %s: %s\n", fset.Position(pos), fmt.Sprintf(f, a...))
	os.Exit(2)
}

func parse(path string) *ast.File {
	f, err := parser.ParseFile(fset, path, nil, parser.ParseComments)
	if err != nil {
		fmt.Fprintf(os.Stderr, "gofacts: %v\n", err)
		os.Exit(2)
	}
	return f
}

func cstr(s string) string { return "\"" + strings.ReplaceAll(s, "\"", "\"\"") + "\"" }

func strLit(e ast.Expr) (string, bool) {
	if b, ok := e.(*ast.BasicLit); ok && b.Kind == token.STRING {
		s, err := strconv.Unquote(b.Value)
		if err == nil {
			return s, true
		}
	}
	return "", false
}

// selector chain a.b.c -> "a.b.c"
func selStr(e ast.Expr) string {
	switch x := e.(type) {
	case *ast.Ident:
		return x.Name
	case *ast.SelectorExpr:
		return selStr(x.X) + "." + x.Sel.Name
	case *ast.StarExpr:
		return "*" + selStr(x.X)
	case *ast.UnaryExpr:
		if x.Op == token.AND {
			return "&" + selStr(x.X)
		}
	case *ast.ParenExpr:
		return selStr(x.X)
	}
	return "?"
}

var httpStatus = map[string]int{"StatusNotFound": 404, "StatusMethodNotAllowed": 405, "StatusInternalServerError": 500,
	"StatusTooManyRequests": 429, "StatusOK": 200, "StatusBadRequest": 400}
var httpMethod = map[string]string{"MethodGet": "GET", "MethodHead": "HEAD", "MethodPost": "POST", "MethodPut": "PUT",
	"MethodPatch": "PATCH", "MethodDelete": "DELETE", "MethodOptions": "OPTIONS"}

// ---- routes -------------------------------------------------------------------------------------
func cond(e ast.Expr) string {
	switch x := e.(type) {
	case *ast.ParenExpr:
		return cond(x.X)
	case *ast.Ident:
		if x.Name == "ok" {
			return "CTrue"
		}
	case *ast.StarExpr:
		s := selStr(x.X)
		if strings.HasPrefix(s, "s.conf.") {
			return "(CConf " + cstr(strings.TrimPrefix(s, "s.conf.")) + ")"
		}
	case *ast.BinaryExpr:
		switch x.Op {
		case token.LAND:
			return "(CAnd " + cond(x.X) + " " + cond(x.Y) + ")"
		case token.LOR:
			return "(COr " + cond(x.X) + " " + cond(x.Y) + ")"
		case token.EQL:
			l := selStr(x.X)
			if l == "req.Method" {
				r := selStr(x.Y)
				if m, ok := httpMethod[strings.TrimPrefix(r, "http.")]; ok {
					return "(CMethod " + cstr(m) + ")"
				}
			}
			if ix, ok := x.X.(*ast.IndexExpr); ok && selStr(ix.X) == "matches" {
				if n, ok := ix.Index.(*ast.BasicLit); ok {
					if s, ok := strLit(x.Y); ok {
						return "(CMatchEq " + n.Value + "%nat " + cstr(s) + ")"
					}
				}
			}
		}
	}
	die(e.Pos(), "unrecognised route condition")
	return ""
}

// body of a route branch -> action list
func action(stmts []ast.Stmt) string {
	if len(stmts) == 0 {
		die(token.NoPos, "empty route body")
	}
	// skip comments-only / log statements
	var core []ast.Stmt
	for _, s := range stmts {
		if es, ok := s.(*ast.ExprStmt); ok {
			if ce, ok := es.X.(*ast.CallExpr); ok && strings.HasPrefix(selStr(ce.Fun), "s.log.") {
				continue
			}
		}
		core = append(core, s)
	}
	if len(core) != 1 {
		die(stmts[0].Pos(), "route body with %d statements", len(core))
	}
	switch s := core[0].(type) {
	case *ast.ExprStmt:
		ce, ok := s.X.(*ast.CallExpr)
		if !ok {
			die(s.Pos(), "route body is not a call")
		}
		fn := selStr(ce.Fun)
		if fn == "resp.WriteHeader" {
			code, ok := httpStatus[strings.TrimPrefix(selStr(ce.Args[0]), "http.")]
			if !ok {
				die(s.Pos(), "unknown status %s", selStr(ce.Args[0]))
			}
			return fmt.Sprintf("[(CTrue, AStatus %d)]", code)
		}
		if fn == "s.v2Ping" {
			return "[(CTrue, AHandler \"v2Ping\" [])]"
		}
		// s.handler(matches[0], ...).ServeHTTP(resp, req)
		if sel, ok := ce.Fun.(*ast.SelectorExpr); ok && sel.Sel.Name == "ServeHTTP" {
			if inner, ok := sel.X.(*ast.CallExpr); ok {
				name := strings.TrimPrefix(selStr(inner.Fun), "s.")
				args := []string{}
				for _, a := range inner.Args {
					ix, ok := a.(*ast.IndexExpr)
					if !ok || selStr(ix.X) != "matches" {
						die(a.Pos(), "handler argument is not matches[i]")
					}
					args = append(args, ix.Index.(*ast.BasicLit).Value+"%nat")
				}
				return "[(CTrue, AHandler " + cstr(name) + " [" + strings.Join(args, "; ") + "])]"
			}
		}
		die(s.Pos(), "unrecognised route action")
	case *ast.IfStmt:
		parts := []string{}
		var cur ast.Stmt = s
		for cur != nil {
			switch c := cur.(type) {
			case *ast.IfStmt:
				if c.Init != nil {
					die(c.Pos(), "nested route condition with init")
				}
				inner := action(c.Body.List)
				// inner is a single-action list [(CTrue, X)]
				if !strings.HasPrefix(inner, "[(CTrue, ") {
					die(c.Pos(), "doubly nested route dispatch")
				}
				parts = append(parts, "("+cond(c.Cond)+", "+strings.TrimSuffix(strings.TrimPrefix(inner, "[(CTrue, "), ")]")+")")
				cur = c.Else
			case *ast.BlockStmt:
				inner := action(c.List)
				parts = append(parts, strings.TrimSuffix(strings.TrimPrefix(inner, "["), "]"))
				cur = nil
			default:
				die(cur.Pos(), "unrecognised else")
			}
		}
		return "[" + strings.Join(parts, ";\n       ") + "]"
	}
	die(core[0].Pos(), "unrecognised route body")
	return ""
}

func genRoutes(repo, out string) {
	f := parse(filepath.Join(repo, "olareg.go"))
	var fn *ast.FuncDecl
	for _, d := range f.Decls {
		if fd, ok := d.(*ast.FuncDecl); ok && fd.Name.Name == "ServeHTTP" && fd.Recv != nil {
			fn = fd
		}
	}
	if fn == nil {
		die(f.Pos(), "ServeHTTP not found")
	}
	var chain *ast.IfStmt
	for _, s := range fn.Body.List {
		if is, ok := s.(*ast.IfStmt); ok && is.Init != nil {
			if as, ok := is.Init.(*ast.AssignStmt); ok && len(as.Rhs) == 1 {
				if ce, ok := as.Rhs[0].(*ast.CallExpr); ok && selStr(ce.Fun) == "matchV2" {
					chain = is
				}
			}
		}
	}
	if chain == nil {
		die(fn.Pos(), "routing chain not found")
	}
	var b strings.Builder
	b.WriteString("(* GENERATED by harness/gofacts from olareg.go (Server.ServeHTTP) - do not edit *)\nFrom Olareg Require Import Base Route.\nLocal Open Scope list_scope.\n\nDefinition gen_routes : list route := [\n")
	first := true
	def := -1
	var cur ast.Stmt = chain
	for cur != nil {
		switch c := cur.(type) {
		case *ast.IfStmt:
			as, ok := c.Init.(*ast.AssignStmt)
			if !ok {
				die(c.Pos(), "route branch without matchV2 init")
			}
			ce := as.Rhs[0].(*ast.CallExpr)
			if selStr(ce.Fun) != "matchV2" || len(ce.Args) < 1 || selStr(ce.Args[0]) != "pathEl" {
				die(c.Pos(), "route branch init is not matchV2(pathEl, ...)")
			}
			pats := []string{}
			for _, a := range ce.Args[1:] {
				s, ok := strLit(a)
				if !ok {
					die(a.Pos(), "non-literal pattern")
				}
				switch s {
				case "...":
					pats = append(pats, "PRepo")
				case "*":
					pats = append(pats, "PAny")
				default:
					pats = append(pats, "PLit "+cstr(s))
				}
			}
			if !first {
				b.WriteString(";\n")
			}
			first = false
			fmt.Fprintf(&b, "  (* %s *)\n  mkRoute [%s]\n      %s\n      %s", fset.Position(c.Pos()), strings.Join(pats, "; "), cond(c.Cond), action(c.Body.List))
			cur = c.Else
		case *ast.BlockStmt:
			a := action(c.List)
			fmt.Sscanf(a, "[(CTrue, AStatus %d)]", &def)
			cur = nil
		}
	}
	if def < 0 {
		die(chain.Pos(), "no default status")
	}
	fmt.Fprintf(&b, "].\n\nDefinition gen_default_status : Z := %d.\n", def)
	// rate-limit status and repository regexp literal
	write(out, "Gen_Routes.v", b.String())
}

// ---- errors ---------------------------------------------------------------------------------------
func genErrors(repo, out string) {
	f := parse(filepath.Join(repo, "types", "errors.go"))
	var b strings.Builder
	b.WriteString("(* GENERATED by harness/gofacts from types/errors.go - do not edit *)\nFrom Olareg Require Import Base.\nLocal Open Scope list_scope.\n\n(* (constructor, Code, Message) *)\nDefinition gen_errors : list (string * (string * string)) := [\n")
	rows := []string{}
	for _, d := range f.Decls {
		fd, ok := d.(*ast.FuncDecl)
		if !ok || !strings.HasPrefix(fd.Name.Name, "ErrInfo") {
			continue
		}
		code, msg := "", ""
		found := false
		ast.Inspect(fd.Body, func(n ast.Node) bool {
			cl, ok := n.(*ast.CompositeLit)
			if !ok || selStr(cl.Type) != "ErrorInfo" {
				return true
			}
			found = true
			for _, e := range cl.Elts {
				kv := e.(*ast.KeyValueExpr)
				if s, ok := strLit(kv.Value); ok {
					switch selStr(kv.Key) {
					case "Code":
						code = s
					case "Message":
						msg = s
					}
				}
			}
			return false
		})
		if !found {
			die(fd.Pos(), "constructor without ErrorInfo literal")
		}
		rows = append(rows, fmt.Sprintf("  (%s, (%s, %s))", cstr(fd.Name.Name), cstr(code), cstr(msg)))
	}
	b.WriteString(strings.Join(rows, ";\n") + "].\n")
	write(out, "Gen_Errors.v", b.String())
}

// ---- constant evaluation --------------------------------------------------------------------------
var timeUnits = map[string]int64{"time.Nanosecond": 1, "time.Microsecond": 1e3, "time.Millisecond": 1e6, "time.Second": 1e9,
	"time.Minute": 60e9, "time.Hour": 3600e9}

func evalInt(e ast.Expr, consts map[string]int64) int64 {
	switch x := e.(type) {
	case *ast.BasicLit:
		if x.Kind == token.INT {
			v, err := strconv.ParseInt(x.Value, 0, 64)
			if err == nil {
				return v
			}
		}
	case *ast.ParenExpr:
		return evalInt(x.X, consts)
	case *ast.Ident:
		if v, ok := consts[x.Name]; ok {
			return v
		}
	case *ast.SelectorExpr:
		if v, ok := timeUnits[selStr(x)]; ok {
			return v
		}
	case *ast.UnaryExpr:
		if x.Op == token.SUB {
			return -evalInt(x.X, consts)
		}
	case *ast.BinaryExpr:
		l, r := evalInt(x.X, consts), evalInt(x.Y, consts)
		switch x.Op {
		case token.MUL:
			return l * r
		case token.ADD:
			return l + r
		case token.SUB:
			return l - r
		}
	}
	die(e.Pos(), "cannot evaluate constant expression")
	return 0
}

func genConfig(repo, out string) {
	f := parse(filepath.Join(repo, "config", "config.go"))
	consts := map[string]int64{}
	for _, d := range f.Decls {
		gd, ok := d.(*ast.GenDecl)
		if !ok || gd.Tok != token.CONST {
			continue
		}
		for _, sp := range gd.Specs {
			vs := sp.(*ast.ValueSpec)
			if len(vs.Values) == 1 && len(vs.Names) == 1 {
				if _, isIota := vs.Values[0].(*ast.Ident); isIota {
					continue
				}
				consts[vs.Names[0].Name] = evalInt(vs.Values[0], consts)
			}
		}
	}
	var fn *ast.FuncDecl
	for _, d := range f.Decls {
		if fd, ok := d.(*ast.FuncDecl); ok && fd.Name.Name == "SetDefaults" {
			fn = fd
		}
	}
	if fn == nil {
		die(f.Pos(), "SetDefaults not found")
	}
	rows := []string{}
	for _, s := range fn.Body.List {
		switch st := s.(type) {
		case *ast.AssignStmt:
			// c.X = boolDefault(c.X, v)
			ce, ok := st.Rhs[0].(*ast.CallExpr)
			if !ok || selStr(ce.Fun) != "boolDefault" || selStr(st.Lhs[0]) != selStr(ce.Args[0]) {
				die(st.Pos(), "unrecognised default assignment")
			}
			rows = append(rows, fmt.Sprintf("  (%s, DBool %s)", cstr(strings.TrimPrefix(selStr(st.Lhs[0]), "c.")), selStr(ce.Args[1])))
		case *ast.IfStmt:
			be, ok := st.Cond.(*ast.BinaryExpr)
			if !ok || len(st.Body.List) != 1 {
				die(st.Pos(), "unrecognised default condition")
			}
			as, ok := st.Body.List[0].(*ast.AssignStmt)
			if !ok || selStr(as.Lhs[0]) != selStr(be.X) {
				die(st.Pos(), "default assigns another field than it tests")
			}
			op := map[token.Token]string{token.EQL: "DWhenZero", token.LEQ: "DWhenNonPositive"}[be.Op]
			if op == "" || evalIntOrStr(be.Y) != "0" {
				die(st.Pos(), "unrecognised default test")
			}
			if sv, ok := strLit(as.Rhs[0]); ok {
				rows = append(rows, fmt.Sprintf("  (%s, DStr %s)", cstr(strings.TrimPrefix(selStr(as.Lhs[0]), "c.")), cstr(sv)))
			} else {
				rows = append(rows, fmt.Sprintf("  (%s, %s (%d))", cstr(strings.TrimPrefix(selStr(as.Lhs[0]), "c.")), op, evalInt(as.Rhs[0], consts)))
			}
		case *ast.SwitchStmt:
			// switch c.Storage.StoreType { case StoreDir: if c.Storage.RootDir == "" { c.Storage.RootDir = "." } }
			for _, cc := range st.Body.List {
				for _, bs := range cc.(*ast.CaseClause).Body {
					is, ok := bs.(*ast.IfStmt)
					if !ok {
						die(bs.Pos(), "unrecognised statement in StoreType switch")
					}
					as := is.Body.List[0].(*ast.AssignStmt)
					sv, _ := strLit(as.Rhs[0])
					rows = append(rows, fmt.Sprintf("  (%s, DStrWhen %s %s)", cstr(strings.TrimPrefix(selStr(as.Lhs[0]), "c.")),
						cstr(selStr(cc.(*ast.CaseClause).List[0])), cstr(sv)))
				}
			}
		default:
			die(s.Pos(), "unrecognised statement in SetDefaults")
		}
	}
	var b strings.Builder
	b.WriteString("(* GENERATED by harness/gofacts from config/config.go (SetDefaults) - do not edit *)\nFrom Olareg Require Import Base Config.\nLocal Open Scope list_scope.\n\nDefinition gen_defaults : list (string * default_rule) := [\n")
	b.WriteString(strings.Join(rows, ";\n") + "].\n")
	write(out, "Gen_Config.v", b.String())
}

func evalIntOrStr(e ast.Expr) string {
	if b, ok := e.(*ast.BasicLit); ok {
		if b.Kind == token.INT {
			return b.Value
		}
		if s, ok := strLit(e); ok && s == "" {
			return "0"
		}
	}
	return "?"
}

// ---- flags -------------------------------------------------------------------------------------------
func genFlags(repo, out string) {
	f := parse(filepath.Join(repo, "cmd", "olareg", "serve.go"))
	flags := []string{}
	wiring := []string{}
	ast.Inspect(f, func(n ast.Node) bool {
		switch x := n.(type) {
		case *ast.CallExpr:
			sel, ok := x.Fun.(*ast.SelectorExpr)
			if !ok || !strings.HasSuffix(sel.Sel.Name, "Var") {
				return true
			}
			inner, ok := sel.X.(*ast.CallExpr)
			if !ok || !strings.HasSuffix(selStr(inner.Fun), ".Flags") || len(x.Args) < 3 {
				return true
			}
			name, _ := strLit(x.Args[1])
			kind := sel.Sel.Name
			def := "expr"
			switch d := x.Args[2].(type) {
			case *ast.Ident:
				def = d.Name
			case *ast.BasicLit:
				def = strings.Trim(d.Value, "\"")
			}
			if kind == "DurationVar" {
				def = fmt.Sprintf("%d", evalInt(x.Args[2], nil))
			}
			flags = append(flags, fmt.Sprintf("  (%s, (%s, (%s, %s)))", cstr(name), cstr(strings.TrimPrefix(selStr(x.Args[0]), "&opts.")), cstr(kind), cstr(def)))
		case *ast.CompositeLit:
			if selStr(x.Type) == "config.Config" {
				var walk func(prefix string, cl *ast.CompositeLit)
				walk = func(prefix string, cl *ast.CompositeLit) {
					for _, e := range cl.Elts {
						kv, ok := e.(*ast.KeyValueExpr)
						if !ok {
							die(e.Pos(), "positional field in config literal")
						}
						k := prefix + selStr(kv.Key)
						switch v := kv.Value.(type) {
						case *ast.CompositeLit:
							walk(k+".", v)
						case *ast.CallExpr:
							// fmt.Sprintf("%s:%d", opts.addr, opts.port)
							vars := []string{}
							for _, a := range v.Args {
								if sv := selStr(a); strings.HasPrefix(sv, "opts.") {
									vars = append(vars, strings.TrimPrefix(sv, "opts."))
								}
							}
							wiring = append(wiring, fmt.Sprintf("  (%s, %s)", cstr(k), cstr(strings.Join(vars, "+"))))
						default:
							sv := selStr(kv.Value)
							sv = strings.TrimPrefix(strings.TrimPrefix(sv, "&"), "opts.")
							wiring = append(wiring, fmt.Sprintf("  (%s, %s)", cstr(k), cstr(sv)))
						}
					}
				}
				walk("", x)
				return false
			}
		}
		return true
	})
	if len(flags) == 0 || len(wiring) == 0 {
		die(f.Pos(), "no flags / wiring found")
	}
	var b strings.Builder
	b.WriteString("(* GENERATED by harness/gofacts from cmd/olareg/serve.go - do not edit *)\nFrom Olareg Require Import Base.\nLocal Open Scope list_scope.\n\n(* (flag, (option variable, (kind, default))) *)\nDefinition gen_flags : list (string * (string * (string * string))) := [\n")
	b.WriteString(strings.Join(flags, ";\n") + "].\n\n(* (config field, option variable) *)\nDefinition gen_wiring : list (string * string) := [\n")
	b.WriteString(strings.Join(wiring, ";\n") + "].\n")
	write(out, "Gen_Flags.v", b.String())
}

// ---- constants / regular expressions ------------------------------------------------------------------
func genConsts(repo, out string) {
	vals := map[string]string{}
	grab := func(path string, names ...string) {
		f := parse(filepath.Join(repo, path))
		ast.Inspect(f, func(n ast.Node) bool {
			vs, ok := n.(*ast.ValueSpec)
			if !ok {
				return true
			}
			for i, nm := range vs.Names {
				for _, want := range names {
					if nm.Name == want && i < len(vs.Values) {
						var lits []string
						ast.Inspect(vs.Values[i], func(m ast.Node) bool {
							if s, ok := m.(*ast.BasicLit); ok && s.Kind == token.STRING {
								v, _ := strconv.Unquote(s.Value)
								lits = append(lits, v)
							}
							if id, ok := m.(*ast.Ident); ok {
								if v, ok := vals[id.Name]; ok {
									lits = append(lits, v)
								}
							}
							return true
						})
						vals[want] = strings.Join(lits, "")
					}
				}
			}
			return true
		})
	}
	grab("olareg.go", "pathPart")
	grab("olareg.go", "rePath")
	grab("types/ref.go", "RefTagRE")
	grab("internal/store/store.go", "referrerTagRe", "indexFile", "layoutFile", "blobsDir", "uploadDir")
	grab("types/annotations.go", "AnnotRefName", "AnnotReferrerSubject", "AnnotReferrerConvert")
	grab("types/layout.go", "LayoutVersion")
	keys := make([]string, 0, len(vals))
	for k := range vals {
		keys = append(keys, k)
	}
	sort.Strings(keys)
	var b strings.Builder
	b.WriteString("(* GENERATED by harness/gofacts - do not edit *)\nFrom Olareg Require Import Base.\nLocal Open Scope list_scope.\n\nDefinition gen_consts : list (string * string) := [\n")
	rows := []string{}
	for _, k := range keys {
		rows = append(rows, fmt.Sprintf("  (%s, %s)", cstr(k), cstr(vals[k])))
	}
	b.WriteString(strings.Join(rows, ";\n") + "].\n")
	write(out, "Gen_Consts.v", b.String())
}

// write only when the content changes (keeps make incremental)
func write(dir, name, content string) {
	p := filepath.Join(dir, name)
	old, err := os.ReadFile(p)
	if err == nil && string(old) == content {
		return
	}
	if err := os.WriteFile(p, []byte(content), 0o644); err != nil {
		fmt.Fprintf(os.Stderr, "gofacts: %v\n", err)
		os.Exit(2)
	}
	fmt.Printf("gofacts: wrote %s\n", p)
}

func main() {
	if len(os.Args) == 4 && os.Args[1] == "-fsrewrite" {
		if err := fsRewrite(os.Args[2], os.Args[3]); err != nil {
			fmt.Fprintln(os.Stderr, err)
			os.Exit(1)
		}
		return
	}
	if len(os.Args) != 3 {
		fmt.Fprintln(os.Stderr, "usage: gofacts <repo> <outdir>")
		os.Exit(2)
	}
	repo, out := os.Args[1], os.Args[2]
	if a, err := filepath.Abs(repo); err == nil {
		repo = a
	}
	if a, err := filepath.Abs(out); err == nil {
		out = a
	}
	_ = os.MkdirAll(out, 0o755)
	genRoutes(repo, out)
	genErrors(repo, out)
	genConfig(repo, out)
	genFlags(repo, out)
	genConsts(repo, out)
	genSync(repo, out)
	genAccess(repo, out)
	genLocks(repo, out)
	genGate(repo, out)
}
