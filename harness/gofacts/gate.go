package main

// genGate: the collection gate of a repository (Gen_Gate.v).
// A repository carries a one-slot channel holding a token (`wgBlock`) and a WaitGroup counting the requests that use it.
// RepoGet takes the token, counts the request and puts the token back; the collection takes the token, waits for the
// count to drop to zero, collects and puts the token back; a handler that obtained a repository calls Done exactly once.
// A path that leaves a function with the token in its pocket, with a counted reference nobody can release, or with a
// handle it never released makes the next collection - and with it every later request and Close - wait forever.
//
// For every function of the store and server packages that touches the gate, obtains a repository or releases one, the
// control-flow tree of exactly those statements is generated here; coq/Gate.v walks every path of the tree.
//
// Gate channels are the struct fields of channel type of the store package on which a send statement occurs; the gate
// counters are the sync.WaitGroup fields of the same structs.

import (
	"fmt"
	"go/ast"
	"go/token"
	"go/types"
	"sort"
	"strings"
)

type gnode struct {
	op   string // Take Give Add Done Wait New Get Rel Lock Unlock SetVar Ret Brk Panic Unknown | If IfVar GetIf Alt Loop Closure Inline Defer
	arg  string
	arg2 string
	kids [][]*gnode
}

func (g *gnode) coq() string {
	list := func(l []*gnode) string {
		s := make([]string, len(l))
		for i, k := range l {
			s[i] = k.coq()
		}
		return "[" + strings.Join(s, "; ") + "]"
	}
	switch g.op {
	case "Take", "Give", "Add", "Done", "Wait", "New", "Ret", "Unknown", "Lock", "Unlock":
		return "G" + g.op + " " + cstr(g.arg)
	case "SetVar":
		return "GSetVar " + cstr(g.arg) + " " + g.arg2
	case "IfVar":
		return "GIfVar " + cstr(g.arg) + " " + g.arg2 + " " + list(g.kids[0]) + " " + list(g.kids[1])
	case "Defer":
		return "GDefer " + g.arg + " " + list(g.kids[0])
	case "Get", "Rel", "Panic":
		return "G" + g.op
	case "Brk":
		return "GBrk " + g.arg
	case "If", "GetIf":
		return "G" + g.op + " " + list(g.kids[0]) + " " + list(g.kids[1])
	case "Alt":
		s := make([]string, len(g.kids))
		for i, k := range g.kids {
			s[i] = list(k)
		}
		return "GAlt [" + strings.Join(s, "; ") + "]"
	case "Loop", "Closure", "Inline":
		return "G" + g.op + " " + list(g.kids[0])
	}
	return "GUnknown " + cstr(g.op)
}

// relevant: does the list contain anything but structure
func gRelevant(l []*gnode) bool { return gRelevantV(l, false) }

func gRelevantV(l []*gnode, vars bool) bool {
	for _, g := range l {
		if vars && g.op == "SetVar" {
			return true
		}
		switch g.op {
		case "If", "IfVar", "GetIf", "Alt", "Loop", "Closure", "Defer", "Inline":
			if g.op == "GetIf" {
				return true
			}
			for _, k := range g.kids {
				if gRelevantV(k, vars) {
					return true
				}
			}
		case "Ret", "Brk", "Panic", "SetVar":
		default:
			return true
		}
	}
	return false
}

// hasExit: a return / break / panic somewhere in the list (not inside closures)
func gHasExit(l []*gnode) bool {
	for _, g := range l {
		switch g.op {
		case "Ret", "Brk", "Panic":
			return true
		case "If", "IfVar", "GetIf", "Alt", "Loop":
			for _, k := range g.kids {
				if gHasExit(k) {
					return true
				}
			}
		}
	}
	return false
}

func isIdentNamed(e ast.Expr, name string) bool {
	id, ok := e.(*ast.Ident)
	return ok && id.Name == name
}

func genGate(repo, out string) {
	pkgs, fset := loadLockPkgs(repo)
	var storeP *lockPkg
	for _, p := range pkgs {
		if p.short == "store" {
			storeP = p
		}
	}
	// gate channels: struct fields of channel type with a send statement somewhere in the store package
	gateCh := map[*types.Var]bool{}
	for _, f := range storeP.files {
		ast.Inspect(f, func(n ast.Node) bool {
			if s, ok := n.(*ast.SendStmt); ok {
				if sel, ok := s.Chan.(*ast.SelectorExpr); ok {
					if se := storeP.info.Selections[sel]; se != nil {
						if v, ok := se.Obj().(*types.Var); ok && v.IsField() {
							gateCh[v] = true
						}
					}
				}
			}
			return true
		})
	}
	// the structs that own them, and their WaitGroup fields
	gateWg := map[*types.Var]bool{}
	gated := map[*types.Named]*types.Var{} // struct -> its gate channel
	sc := storeP.pkg.Scope()
	for _, n := range sc.Names() {
		tn, ok := sc.Lookup(n).(*types.TypeName)
		if !ok {
			continue
		}
		nt, ok := tn.Type().(*types.Named)
		if !ok {
			continue
		}
		st, ok := nt.Underlying().(*types.Struct)
		if !ok {
			continue
		}
		for i := 0; i < st.NumFields(); i++ {
			if gateCh[st.Field(i)] {
				gated[nt] = st.Field(i)
			}
		}
		if gated[nt] != nil {
			for i := 0; i < st.NumFields(); i++ {
				if w := namedOf(st.Field(i).Type()); w != nil && w.Obj().Pkg() != nil && w.Obj().Pkg().Path() == "sync" && w.Obj().Name() == "WaitGroup" {
					gateWg[st.Field(i)] = true
				}
			}
		}
	}
	isRepoIface := func(n *types.Named) bool {
		if n == nil || n.Obj().Pkg() == nil || n.Obj().Pkg().Path() != storeP.path || n.Obj().Name() != "Repo" {
			return false
		}
		_, ok := n.Underlying().(*types.Interface)
		return ok
	}
	// the server package sees its own instance of the store package: match named types by name
	isGated := func(n *types.Named) *types.Var {
		if n == nil || n.Obj().Pkg() == nil || n.Obj().Pkg().Path() != storeP.path {
			return nil
		}
		for g, v := range gated {
			if g.Obj().Name() == n.Obj().Name() {
				return v
			}
		}
		return nil
	}

	type gfn struct {
		key, kind string
		body      []*gnode
	}
	var fns []gfn
	for _, p := range pkgs {
		info := p.info
		fieldOf := func(e ast.Expr) *types.Var {
			if sel, ok := e.(*ast.SelectorExpr); ok {
				if se := info.Selections[sel]; se != nil {
					if v, ok := se.Obj().(*types.Var); ok && v.IsField() {
						return v
					}
				}
			}
			return nil
		}
		label := func(e ast.Expr) string {
			if sel, ok := e.(*ast.SelectorExpr); ok {
				if se := info.Selections[sel]; se != nil {
					if n := namedOf(se.Recv()); n != nil {
						return n.Obj().Name() + "." + sel.Sel.Name
					}
				}
			}
			return "?"
		}
		calleeOf := func(c *ast.CallExpr) *types.Func {
			switch fx := c.Fun.(type) {
			case *ast.SelectorExpr:
				if se := info.Selections[fx]; se != nil {
					if f, ok := se.Obj().(*types.Func); ok {
						return f
					}
				}
				if f, ok := info.Uses[fx.Sel].(*types.Func); ok {
					return f
				}
			case *ast.Ident:
				if f, ok := info.Uses[fx].(*types.Func); ok {
					return f
				}
			}
			return nil
		}
		isRepoGet := func(c *ast.CallExpr) bool {
			f := calleeOf(c)
			if f == nil || f.Name() != "RepoGet" || f.Pkg() == nil || f.Pkg().Path() != storeP.path {
				return false
			}
			return true
		}
		isRepoDone := func(c *ast.CallExpr) bool {
			sel, ok := c.Fun.(*ast.SelectorExpr)
			if !ok || sel.Sel.Name != "Done" {
				return false
			}
			se := info.Selections[sel]
			if se == nil {
				return false
			}
			n := namedOf(se.Recv())
			if n == nil {
				return false
			}
			if isRepoIface(n) {
				return true
			}
			return isGated(n) != nil
		}
		isErrNotNil := func(e ast.Expr) bool {
			b, ok := e.(*ast.BinaryExpr)
			if !ok || b.Op != token.NEQ {
				return false
			}
			x, ok1 := b.X.(*ast.Ident)
			y, ok2 := b.Y.(*ast.Ident)
			return ok1 && ok2 && x.Name == "err" && y.Name == "nil"
		}
		repoGetAssign := func(s ast.Stmt) *ast.CallExpr {
			as, ok := s.(*ast.AssignStmt)
			if !ok || len(as.Rhs) != 1 || len(as.Lhs) != 2 {
				return nil
			}
			c, ok := as.Rhs[0].(*ast.CallExpr)
			if !ok || !isRepoGet(c) {
				return nil
			}
			if id, ok := as.Lhs[1].(*ast.Ident); !ok || id.Name != "err" {
				return nil
			}
			return c
		}

		nDefer := 0
		newDefer := func(body []*gnode) *gnode {
			nDefer++
			return &gnode{op: "Defer", arg: fmt.Sprint(nDefer), kids: [][]*gnode{body}}
		}
		mutexClass := func(x ast.Expr) (string, bool) {
			tv, ok := info.Types[x]
			if !ok || !isMutex(tv.Type) {
				return "", false
			}
			if sel, ok := x.(*ast.SelectorExpr); ok {
				if se := info.Selections[sel]; se != nil {
					if n := namedOf(se.Recv()); n != nil {
						return n.Obj().Name() + "." + sel.Sel.Name, true
					}
				}
				return "?." + sel.Sel.Name, true
			}
			if id, ok := x.(*ast.Ident); ok {
				return "local." + id.Name, true
			}
			return "?", true
		}
		// the `locked` flags: bool variables / parameters of that name
		lockedVar := func(e ast.Expr) (string, bool) {
			id, ok := e.(*ast.Ident)
			if !ok || id.Name != "locked" {
				return "", false
			}
			if tv, ok := info.Types[e]; ok {
				if b, ok := tv.Type.Underlying().(*types.Basic); ok && b.Kind() == types.Bool {
					return id.Name, true
				}
			}
			return "", false
		}
		lockedCond := func(e ast.Expr) (string, bool, bool) {
			if v, ok := lockedVar(e); ok {
				return v, false, true
			}
			if u, ok := e.(*ast.UnaryExpr); ok && u.Op == token.NOT {
				if v, ok := lockedVar(u.X); ok {
					return v, true, true
				}
			}
			return "", false, false
		}
		// breakable: stack of "alt" / "loop"
		var walkStmts func(l []ast.Stmt, brk []string) []*gnode
		var walkNode func(n ast.Node, brk []string) []*gnode
		walkExprs := func(es []ast.Expr, brk []string) []*gnode {
			var o []*gnode
			for _, e := range es {
				o = append(o, walkNode(e, brk)...)
			}
			return o
		}
		walkNode = func(n ast.Node, brk []string) []*gnode {
			if n == nil {
				return nil
			}
			switch x := n.(type) {
			case *ast.BlockStmt:
				return walkStmts(x.List, brk)
			case *ast.ReturnStmt:
				o := walkExprs(x.Results, brk)
				kind := "none"
				if len(x.Results) > 0 {
					kind = "val"
					if id, ok := x.Results[0].(*ast.Ident); ok && id.Name == "nil" {
						kind = "nil"
					}
				}
				return append(o, &gnode{op: "Ret", arg: kind})
			case *ast.BranchStmt:
				if x.Label != nil || x.Tok == token.GOTO || x.Tok == token.FALLTHROUGH {
					return []*gnode{{op: "Unknown", arg: "labelled branch / goto / fallthrough"}}
				}
				if x.Tok == token.CONTINUE {
					for i := len(brk) - 1; i >= 0; i-- {
						if brk[i] == "loop" {
							return []*gnode{{op: "Brk", arg: "1"}}
						}
					}
					return []*gnode{{op: "Unknown", arg: "continue outside a loop"}}
				}
				if len(brk) == 0 {
					return []*gnode{{op: "Unknown", arg: "break outside a loop"}}
				}
				if brk[len(brk)-1] == "alt" {
					return []*gnode{{op: "Brk", arg: "0"}}
				}
				return []*gnode{{op: "Brk", arg: "1"}}
			case *ast.DeferStmt:
				if fl, ok := x.Call.Fun.(*ast.FuncLit); ok {
					o := walkExprs(x.Call.Args, brk)
					return append(o, newDefer(walkStmts(fl.Body.List, nil)))
				}
				return []*gnode{newDefer(walkNode(x.Call, brk))}
			case *ast.GoStmt:
				o := walkExprs(x.Call.Args, brk)
				if fl, ok := x.Call.Fun.(*ast.FuncLit); ok {
					return append(o, &gnode{op: "Closure", kids: [][]*gnode{walkStmts(fl.Body.List, nil)}})
				}
				return append(o, &gnode{op: "Closure", kids: [][]*gnode{walkNode(&ast.CallExpr{Fun: x.Call.Fun}, nil)}})
			case *ast.FuncLit:
				return []*gnode{{op: "Closure", kids: [][]*gnode{walkStmts(x.Body.List, nil)}}}
			case *ast.IfStmt:
				var o []*gnode
				isGet := false
				if x.Init != nil {
					if c := repoGetAssign(x.Init); c != nil && isErrNotNil(x.Cond) {
						o = append(o, walkExprs(c.Args, brk)...)
						isGet = true
					} else {
						o = append(o, walkNode(x.Init, brk)...)
					}
				}
				if !isGet {
					o = append(o, walkNode(x.Cond, brk)...)
				}
				th := walkStmts(x.Body.List, brk)
				var el []*gnode
				if x.Else != nil {
					el = walkNode(x.Else, brk)
				}
				op := "If"
				if isGet {
					op = "GetIf"
				} else if v, neg, ok := lockedCond(x.Cond); ok {
					n2 := "false"
					if neg {
						n2 = "true"
					}
					return append(o, &gnode{op: "IfVar", arg: v, arg2: n2, kids: [][]*gnode{th, el}})
				}
				return append(o, &gnode{op: op, kids: [][]*gnode{th, el}})
			case *ast.SwitchStmt, *ast.TypeSwitchStmt, *ast.SelectStmt:
				var o []*gnode
				var body *ast.BlockStmt
				switch y := x.(type) {
				case *ast.SwitchStmt:
					o = append(o, walkNode(y.Init, brk)...)
					o = append(o, walkNode(y.Tag, brk)...)
					body = y.Body
				case *ast.TypeSwitchStmt:
					o = append(o, walkNode(y.Init, brk)...)
					o = append(o, walkNode(y.Assign, brk)...)
					body = y.Body
				case *ast.SelectStmt:
					body = y.Body
				}
				nb := append(append([]string{}, brk...), "alt")
				alt := &gnode{op: "Alt"}
				hasDefault := false
				for _, c := range body.List {
					switch cc := c.(type) {
					case *ast.CaseClause:
						if cc.List == nil {
							hasDefault = true
						}
						k := walkExprs(cc.List, nb)
						k = append(k, walkStmts(cc.Body, nb)...)
						alt.kids = append(alt.kids, k)
					case *ast.CommClause:
						if cc.Comm == nil {
							hasDefault = true
						}
						k := walkNode(cc.Comm, nb)
						k = append(k, walkStmts(cc.Body, nb)...)
						alt.kids = append(alt.kids, k)
					}
				}
				if _, isSel := x.(*ast.SelectStmt); !isSel && !hasDefault {
					alt.kids = append(alt.kids, nil)
				}
				return append(o, alt)
			case *ast.ForStmt:
				o := walkNode(x.Init, brk)
				nb := append(append([]string{}, brk...), "loop")
				body := walkNode(x.Cond, nb)
				body = append(body, walkStmts(x.Body.List, nb)...)
				body = append(body, walkNode(x.Post, nb)...)
				return append(o, &gnode{op: "Loop", kids: [][]*gnode{body}})
			case *ast.RangeStmt:
				o := walkNode(x.X, brk)
				nb := append(append([]string{}, brk...), "loop")
				return append(o, &gnode{op: "Loop", kids: [][]*gnode{walkStmts(x.Body.List, nb)}})
			case *ast.LabeledStmt:
				return append([]*gnode{{op: "Unknown", arg: "label"}}, walkNode(x.Stmt, brk)...)
			case *ast.SendStmt:
				o := walkNode(x.Value, brk)
				if v := fieldOf(x.Chan); v != nil && gateCh[v] {
					return append(o, &gnode{op: "Give", arg: label(x.Chan)})
				}
				return append(o, walkNode(x.Chan, brk)...)
			case *ast.UnaryExpr:
				if x.Op == token.ARROW {
					if v := fieldOf(x.X); v != nil && gateCh[v] {
						return []*gnode{{op: "Take", arg: label(x.X)}}
					}
				}
				return walkNode(x.X, brk)
			case *ast.CompositeLit:
				var o []*gnode
				// the callbacks handed to a cache run in sequence on one goroutine of the cache: PrunePreFn, PruneFn, PrunePostFn
				cb := map[string]*ast.FuncLit{}
				if tv, ok := info.Types[x]; ok {
					if n := namedOf(tv.Type); n != nil && n.Obj().Name() == "Opts" && n.Obj().Pkg() != nil && strings.HasSuffix(n.Obj().Pkg().Path(), "internal/cache") {
						for _, e := range x.Elts {
							if kv, ok := e.(*ast.KeyValueExpr); ok {
								if id, ok := kv.Key.(*ast.Ident); ok {
									if fl, ok := kv.Value.(*ast.FuncLit); ok && (id.Name == "PrunePreFn" || id.Name == "PruneFn" || id.Name == "PrunePostFn") {
										cb[id.Name] = fl
									}
								}
							}
						}
					}
				}
				if cb["PrunePreFn"] != nil || cb["PrunePostFn"] != nil {
					var seq []*gnode
					for _, k := range []string{"PrunePreFn", "PruneFn", "PrunePostFn"} {
						if cb[k] != nil {
							seq = append(seq, &gnode{op: "Inline", kids: [][]*gnode{walkStmts(cb[k].Body.List, nil)}})
						}
					}
					o = append(o, &gnode{op: "Closure", kids: [][]*gnode{seq}})
				}
				for _, e := range x.Elts {
					if kv, ok := e.(*ast.KeyValueExpr); ok && (cb["PrunePreFn"] != nil || cb["PrunePostFn"] != nil) {
						if id, ok := kv.Key.(*ast.Ident); ok && cb[id.Name] != nil {
							continue
						}
					}
					o = append(o, walkNode(e, brk)...)
				}
				if tv, ok := info.Types[x]; ok {
					if n := namedOf(tv.Type); n != nil && isGated(n) != nil {
						made := false
						for _, e := range x.Elts {
							if kv, ok := e.(*ast.KeyValueExpr); ok {
								if id, ok := kv.Key.(*ast.Ident); ok && id.Name == isGated(n).Name() {
									if c, ok := kv.Value.(*ast.CallExpr); ok {
										if f, ok := c.Fun.(*ast.Ident); ok && f.Name == "make" && len(c.Args) == 2 {
											if bl, ok := c.Args[1].(*ast.BasicLit); ok && bl.Value == "1" {
												made = true
											}
										}
									}
								}
							}
						}
						if made {
							o = append(o, &gnode{op: "New", arg: n.Obj().Name()})
						} else {
							o = append(o, &gnode{op: "Unknown", arg: n.Obj().Name() + " created without a one-slot gate channel"})
						}
					}
				}
				return o
			case *ast.AssignStmt:
				// an assignment to a gate channel field outside a composite literal is not understood
				var o []*gnode
				for _, l := range x.Lhs {
					if v := fieldOf(l); v != nil && (gateCh[v] || gateWg[v]) {
						o = append(o, &gnode{op: "Unknown", arg: "assignment to " + label(l)})
					}
				}
				o = append(o, walkExprs(x.Rhs, brk)...)
				for i, l := range x.Lhs {
					if v, ok := lockedVar(l); ok || (x.Tok == token.DEFINE && isIdentNamed(l, "locked")) {
						if !ok {
							v = "locked"
						}
						if len(x.Rhs) == len(x.Lhs) {
							if id, ok := x.Rhs[i].(*ast.Ident); ok && (id.Name == "true" || id.Name == "false") {
								o = append(o, &gnode{op: "SetVar", arg: v, arg2: id.Name})
								continue
							}
						}
						o = append(o, &gnode{op: "Unknown", arg: "`locked` assigned something else than a literal"})
					}
				}
				return o
			case *ast.CallExpr:
				var o []*gnode
				if id, ok := x.Fun.(*ast.Ident); ok && id.Name == "panic" {
					o = walkExprs(x.Args, brk)
					return append(o, &gnode{op: "Panic"})
				}
				if id, ok := x.Fun.(*ast.Ident); ok && id.Name == "close" && len(x.Args) == 1 {
					if v := fieldOf(x.Args[0]); v != nil && gateCh[v] {
						return []*gnode{{op: "Unknown", arg: "close of " + label(x.Args[0])}}
					}
				}
				if sel, ok := x.Fun.(*ast.SelectorExpr); ok {
					if c, ok := mutexClass(sel.X); ok {
						switch sel.Sel.Name {
						case "Lock":
							return []*gnode{{op: "Lock", arg: c}}
						case "Unlock":
							return []*gnode{{op: "Unlock", arg: c}}
						}
						return []*gnode{{op: "Unknown", arg: sel.Sel.Name + " on mutex " + c}}
					}
					if v := fieldOf(sel.X); v != nil && gateWg[v] {
						switch sel.Sel.Name {
						case "Add":
							if len(x.Args) == 1 {
								if bl, ok := x.Args[0].(*ast.BasicLit); ok && bl.Value == "1" {
									return []*gnode{{op: "Add", arg: label(sel.X)}}
								}
							}
							return []*gnode{{op: "Unknown", arg: "Add of something else than 1 on " + label(sel.X)}}
						case "Done":
							return []*gnode{{op: "Done", arg: label(sel.X)}}
						case "Wait":
							return []*gnode{{op: "Wait", arg: label(sel.X)}}
						}
						return []*gnode{{op: "Unknown", arg: sel.Sel.Name + " on " + label(sel.X)}}
					}
					o = append(o, walkNode(sel.X, brk)...)
				} else if _, ok := x.Fun.(*ast.FuncLit); ok {
					// immediately invoked literal: part of this frame
					o = append(o, walkExprs(x.Args, brk)...)
					return append(o, &gnode{op: "Inline", kids: [][]*gnode{walkStmts(x.Fun.(*ast.FuncLit).Body.List, nil)}})
				}
				o = append(o, walkExprs(x.Args, brk)...)
				if isRepoGet(x) {
					o = append(o, &gnode{op: "Get"})
				} else if isRepoDone(x) {
					o = append(o, &gnode{op: "Rel"})
				} else if f := calleeOf(x); f != nil && f.Pkg() != nil && ((f.Pkg().Path() == "os" && f.Name() == "Exit") || (f.Pkg().Path() == "log" && strings.HasPrefix(f.Name(), "Fatal"))) {
					o = append(o, &gnode{op: "Panic"})
				}
				return o
			}
			// generic traversal in source order
			var o []*gnode
			ast.Inspect(n, func(c ast.Node) bool {
				if c == n || c == nil {
					return true
				}
				o = append(o, walkNode(c, brk)...)
				return false
			})
			return o
		}
		walkStmts = func(l []ast.Stmt, brk []string) []*gnode {
			var o []*gnode
			for i := 0; i < len(l); i++ {
				if c := repoGetAssign(l[i]); c != nil && i+1 < len(l) {
					if ifs, ok := l[i+1].(*ast.IfStmt); ok && ifs.Init == nil && isErrNotNil(ifs.Cond) {
						o = append(o, walkExprs(c.Args, brk)...)
						th := walkStmts(ifs.Body.List, brk)
						var el []*gnode
						if ifs.Else != nil {
							el = walkNode(ifs.Else, brk)
						}
						o = append(o, &gnode{op: "GetIf", kids: [][]*gnode{th, el}})
						i++
						continue
					}
				}
				o = append(o, walkNode(l[i], brk)...)
			}
			return o
		}
		var prune func(l []*gnode) []*gnode
		prune = func(l []*gnode) []*gnode {
			var o []*gnode
			for _, g := range l {
				for i := range g.kids {
					g.kids[i] = prune(g.kids[i])
				}
				switch g.op {
				case "If", "IfVar", "Alt", "Loop":
					keep := false
					for _, k := range g.kids {
						if gRelevantV(k, true) || gHasExit(k) {
							keep = true
						}
					}
					if !keep {
						continue
					}
				case "Closure", "Defer", "Inline":
					if !gRelevant(g.kids[0]) {
						continue
					}
				}
				o = append(o, g)
			}
			return o
		}
		for fi, f := range p.files {
			_ = fi
			for _, d := range f.Decls {
				fd, ok := d.(*ast.FuncDecl)
				if !ok || fd.Body == nil {
					continue
				}
				nDefer = 0
				body := prune(walkStmts(fd.Body.List, nil))
				if !gRelevant(body) {
					continue
				}
				kind := "plain"
				if fd.Recv != nil && len(fd.Recv.List) > 0 {
					if tv, ok := info.Types[fd.Recv.List[0].Type]; ok {
						if n := namedOf(tv.Type); n != nil && isGated(n) != nil && fd.Name.Name == "Done" {
							kind = "done"
						}
					}
				}
				if fd.Name.Name == "RepoGet" && fd.Type.Results != nil && len(fd.Type.Results.List) > 0 {
					if tv, ok := info.Types[fd.Type.Results.List[0].Type]; ok {
						if n := namedOf(tv.Type); isRepoIface(n) {
							kind = "get"
						}
					}
				}
				fns = append(fns, gfn{p.short + "." + funcName(fd, fset), kind, body})
			}
		}
	}
	sort.SliceStable(fns, func(i, j int) bool { return fns[i].key < fns[j].key })
	var b strings.Builder
	b.WriteString("(* GENERATED by harness/gofacts - do not edit *)\nFrom Olareg Require Import Base Gate.\nLocal Open Scope list_scope.\n\n")
	b.WriteString("(* per function of the store and the server that touches the collection gate of a repository, obtains a repository or\n   releases one: the control-flow tree of those statements; kind = get (RepoGet) / done (Repo.Done) / plain *)\n")
	b.WriteString("Definition gen_gate : list (string * string * list gst) := [\n")
	for i, f := range fns {
		sep := ";"
		if i == len(fns)-1 {
			sep = ""
		}
		s := make([]string, len(f.body))
		for k, g := range f.body {
			s[k] = g.coq()
		}
		fmt.Fprintf(&b, "  (%s, %s, [%s])%s\n", cstr(f.key), cstr(f.kind), strings.Join(s, "; "), sep)
	}
	b.WriteString("].\n\n")
	var tys []string
	for n := range gated {
		tys = append(tys, n.Obj().Name())
	}
	sort.Strings(tys)
	q := func(l []string) string {
		s := make([]string, len(l))
		for i, x := range l {
			s[i] = cstr(x)
		}
		return "[" + strings.Join(s, "; ") + "]"
	}
	fmt.Fprintf(&b, "(* the structs that carry a gate *)\nDefinition gen_gated : list string := %s.\n", q(tys))
	write(out, "Gen_Gate.v", b.String())
}
