package main

// genLocks: per function of the server, the stores and the cache, the mutex acquisitions / releases and the calls to other
// functions of these packages, in source order, with the callee resolved by the type checker (Gen_Locks.v).
// coq/LockOrder.v closes the acquisitions over the call graph and checks that a mutex is only ever acquired - directly or
// through any chain of calls - while mutexes of strictly lower rank are held.
//
// Events:
//   L <class> / U <class> / DU <class>      Lock, Unlock, deferred Unlock of a mutex; class = <struct type>.<field>
//   cL / cU / cDU <class>                   the same inside `if !locked { ... }` (the caller holds the lock when locked is true)
//   C <callee> <flag>                       call; flag = T / F (literal passed for the callee's parameter `locked`),
//                                           P (the caller's own `locked` is passed on), - (the callee has no such parameter)
//   go{ func{ defer func{ ifret{ }          as in Gen_Sync.v
// Calls through an interface of these packages are resolved to every method of a type of these packages that implements it
// (gen_impls).  Calls through function values are not resolved (the callbacks of the cache are treated in LockOrder.v the way
// Sync.v treats them).

import (
	"fmt"
	"go/ast"
	"go/importer"
	"go/parser"
	"go/token"
	"go/types"
	"os"
	"path/filepath"
	"sort"
	"strings"
)

type lockPkg struct {
	dir, path, short string
	files            []*ast.File
	names            []string
	info             *types.Info
	pkg              *types.Package
}

func namedOf(t types.Type) *types.Named {
	for {
		switch x := t.(type) {
		case *types.Pointer:
			t = x.Elem()
			continue
		case *types.Named:
			return x
		}
		return nil
	}
}

func isMutex(t types.Type) bool {
	n := namedOf(t)
	if n == nil || n.Obj().Pkg() == nil {
		return false
	}
	return n.Obj().Pkg().Path() == "sync" && (n.Obj().Name() == "Mutex" || n.Obj().Name() == "RWMutex")
}

var lockPkgsMemo []*lockPkg
var lockFsetMemo *token.FileSet

// loadLockPkgs parses and type-checks the cache, store and server packages of the repository (once per run)
func loadLockPkgs(repo string) ([]*lockPkg, *token.FileSet) {
	if lockPkgsMemo != nil {
		return lockPkgsMemo, lockFsetMemo
	}
	cwd, _ := os.Getwd()
	_ = os.Chdir(repo)
	defer func() { _ = os.Chdir(cwd) }()
	fset := token.NewFileSet()
	imp := importer.ForCompiler(fset, "source", nil)
	pkgs := []*lockPkg{
		{dir: "internal/cache", path: "github.com/olareg/olareg/internal/cache", short: "cache"},
		{dir: "internal/store", path: "github.com/olareg/olareg/internal/store", short: "store"},
		{dir: ".", path: "github.com/olareg/olareg", short: "olareg"},
	}
	ours := map[string]string{}
	for _, p := range pkgs {
		ours[p.path] = p.short
		parsed, err := parser.ParseDir(fset, filepath.Join(repo, p.dir), func(fi os.FileInfo) bool { return !strings.HasSuffix(fi.Name(), "_test.go") }, 0)
		if err != nil {
			fmt.Fprintln(os.Stderr, "locks:", err)
			os.Exit(1)
		}
		for _, pp := range parsed {
			var names []string
			for n := range pp.Files {
				names = append(names, n)
			}
			sort.Strings(names)
			for _, n := range names {
				p.files = append(p.files, pp.Files[n])
				p.names = append(p.names, n)
			}
		}
		p.info = &types.Info{Uses: map[*ast.Ident]types.Object{}, Defs: map[*ast.Ident]types.Object{}, Selections: map[*ast.SelectorExpr]*types.Selection{}, Types: map[ast.Expr]types.TypeAndValue{}}
		conf := types.Config{Importer: imp, Error: func(err error) {}}
		pkg, err := conf.Check(p.path, fset, p.files, p.info)
		if err != nil && pkg == nil {
			fmt.Fprintln(os.Stderr, "locks: type check:", err)
			os.Exit(1)
		}
		p.pkg = pkg
	}
	lockPkgsMemo, lockFsetMemo = pkgs, fset
	return pkgs, fset
}

func genLocks(repo, out string) {
	pkgs, _ := loadLockPkgs(repo)
	ours := map[string]string{}
	for _, p := range pkgs {
		ours[p.path] = p.short
	}
	// concrete named types of our packages (for interface resolution)
	var concrete []*types.Named
	for _, p := range pkgs {
		sc := p.pkg.Scope()
		for _, n := range sc.Names() {
			if tn, ok := sc.Lookup(n).(*types.TypeName); ok {
				if nt, ok := tn.Type().(*types.Named); ok {
					if _, isI := nt.Underlying().(*types.Interface); !isI {
						concrete = append(concrete, nt)
					}
				}
			}
		}
	}
	fnKey := func(f *types.Func) string {
		short := ours[f.Pkg().Path()]
		sig := f.Type().(*types.Signature)
		if sig.Recv() != nil {
			if n := namedOf(sig.Recv().Type()); n != nil {
				return short + "." + n.Obj().Name() + "." + f.Name()
			}
		}
		return short + "." + f.Name()
	}
	impls := map[string][]string{}
	type fnEv struct {
		key string
		ev  []string
	}
	var all []fnEv
	for _, p := range pkgs {
		info := p.info
		className := func(x ast.Expr) string {
			if sel, ok := x.(*ast.SelectorExpr); ok {
				if s := info.Selections[sel]; s != nil {
					if n := namedOf(s.Recv()); n != nil {
						return n.Obj().Name() + "." + sel.Sel.Name
					}
				}
				return "?." + sel.Sel.Name
			}
			if id, ok := x.(*ast.Ident); ok {
				return "local." + id.Name
			}
			return "?"
		}
		for _, f := range p.files {
			for _, d := range f.Decls {
				fd, ok := d.(*ast.FuncDecl)
				if !ok || fd.Body == nil {
					continue
				}
				obj, _ := info.Defs[fd.Name].(*types.Func)
				if obj == nil {
					continue
				}
				var ev []string
				// instance labels of the caches created in this function: cache.New(...) assigned to x.f or used as the value of
				// field f of a composite literal of type T gives "<owner type>.f" / "T.f"
				newLabel := map[*ast.CallExpr]string{}
				isCacheNew := func(c *ast.CallExpr) bool {
					var id *ast.Ident
					switch fx := c.Fun.(type) {
					case *ast.IndexListExpr:
						if se, ok := fx.X.(*ast.SelectorExpr); ok {
							id = se.Sel
						}
					case *ast.IndexExpr:
						if se, ok := fx.X.(*ast.SelectorExpr); ok {
							id = se.Sel
						}
					case *ast.SelectorExpr:
						id = fx.Sel
					}
					if id == nil {
						return false
					}
					f, _ := info.Uses[id].(*types.Func)
					return f != nil && f.Pkg() != nil && f.Pkg().Path() == "github.com/olareg/olareg/internal/cache" && f.Name() == "New"
				}
				ast.Inspect(fd.Body, func(n ast.Node) bool {
					switch x := n.(type) {
					case *ast.AssignStmt:
						for i, r := range x.Rhs {
							if c, ok := r.(*ast.CallExpr); ok && isCacheNew(c) && i < len(x.Lhs) {
								if sel, ok := x.Lhs[i].(*ast.SelectorExpr); ok {
									newLabel[c] = className(sel)
								}
							}
						}
					case *ast.CompositeLit:
						tn := ""
						if tv, ok := info.Types[x]; ok {
							if n := namedOf(tv.Type); n != nil {
								tn = n.Obj().Name()
							}
						}
						for _, el := range x.Elts {
							if kv, ok := el.(*ast.KeyValueExpr); ok {
								if c, ok := kv.Value.(*ast.CallExpr); ok && isCacheNew(c) {
									if k, ok := kv.Key.(*ast.Ident); ok {
										newLabel[c] = tn + "." + k.Name
									}
								}
							}
						}
					}
					return true
				})
				lockedSet := false // `locked = true` was assigned (after the function took the lock itself): passing `locked` on passes true
				var walk func(n ast.Node, deferred bool, cond bool)
				lockedParam := func(sig *types.Signature) int {
					for i := 0; i < sig.Params().Len(); i++ {
						if sig.Params().At(i).Name() == "locked" {
							return i
						}
					}
					return -1
				}
				walk = func(n ast.Node, deferred bool, cond bool) {
					if n == nil {
						return
					}
					switch x := n.(type) {
					case *ast.AssignStmt:
						if len(x.Lhs) == 1 && len(x.Rhs) == 1 {
							if l, ok := x.Lhs[0].(*ast.Ident); ok && l.Name == "locked" {
								if r, ok := x.Rhs[0].(*ast.Ident); ok && r.Name == "true" {
									lockedSet = true
								}
							}
						}
					case *ast.DeferStmt:
						if fl, ok := x.Call.Fun.(*ast.FuncLit); ok {
							ev = append(ev, "defer func{")
							walk(fl.Body, false, cond)
							ev = append(ev, "}")
							return
						}
						walk(x.Call, true, cond)
						return
					case *ast.GoStmt:
						ev = append(ev, "go{")
						if fl, ok := x.Call.Fun.(*ast.FuncLit); ok {
							walk(fl.Body, false, false)
						} else {
							walk(x.Call, false, false)
						}
						ev = append(ev, "}")
						return
					case *ast.FuncLit:
						ev = append(ev, "func{")
						walk(x.Body, false, false)
						ev = append(ev, "}")
						return
					case *ast.IfStmt:
						walk(x.Init, false, cond)
						walk(x.Cond, false, cond)
						isNotLocked := false
						if u, ok := x.Cond.(*ast.UnaryExpr); ok && u.Op == token.NOT {
							if id, ok := u.X.(*ast.Ident); ok && id.Name == "locked" {
								isNotLocked = true
							}
						}
						if isNotLocked {
							walk(x.Body, false, true)
						} else if endsInReturn(x.Body) {
							ev = append(ev, "ifret{")
							walk(x.Body, false, cond)
							ev = append(ev, "}")
						} else {
							walk(x.Body, false, cond)
						}
						if x.Else != nil {
							if eb, ok := x.Else.(*ast.BlockStmt); ok && endsInReturn(eb) {
								ev = append(ev, "ifret{")
								walk(eb, false, cond)
								ev = append(ev, "}")
							} else {
								walk(x.Else, false, cond)
							}
						}
						return
					case *ast.CallExpr:
						for _, a := range x.Args {
							walk(a, false, cond)
						}
						if sel, ok := x.Fun.(*ast.SelectorExpr); ok {
							if tv, ok := info.Types[sel.X]; ok && isMutex(tv.Type) {
								c := ""
								if cond {
									c = "c"
								}
								switch sel.Sel.Name {
								case "Lock", "RLock":
									ev = append(ev, c+"L "+className(sel.X))
								case "Unlock", "RUnlock":
									if deferred {
										ev = append(ev, c+"DU "+className(sel.X))
									} else {
										ev = append(ev, c+"U "+className(sel.X))
									}
								}
								return
							}
							walk(sel.X, false, cond)
						}
						// the callee
						var callee *types.Func
						switch fx := x.Fun.(type) {
						case *ast.Ident:
							callee, _ = info.Uses[fx].(*types.Func)
						case *ast.SelectorExpr:
							if s := info.Selections[fx]; s != nil {
								callee, _ = s.Obj().(*types.Func)
							} else {
								callee, _ = info.Uses[fx.Sel].(*types.Func)
							}
						case *ast.IndexListExpr: // generic instantiation f[T, U](...)
							if id, ok := fx.X.(*ast.Ident); ok {
								callee, _ = info.Uses[id].(*types.Func)
							} else if se, ok := fx.X.(*ast.SelectorExpr); ok {
								callee, _ = info.Uses[se.Sel].(*types.Func)
							}
						case *ast.IndexExpr: // generic instantiation f[T](...)
							if id, ok := fx.X.(*ast.Ident); ok {
								callee, _ = info.Uses[id].(*types.Func)
							} else if se, ok := fx.X.(*ast.SelectorExpr); ok {
								callee, _ = info.Uses[se.Sel].(*types.Func)
							}
						}
						if callee == nil || callee.Pkg() == nil || ours[callee.Pkg().Path()] == "" {
							if _, ok := x.Fun.(*ast.FuncLit); ok {
								walk(x.Fun, false, cond)
							}
							return
						}
						callee = callee.Origin()
						sig := callee.Type().(*types.Signature)
						flag := "-"
						if i := lockedParam(sig); i >= 0 && i < len(x.Args) {
							switch a := x.Args[i].(type) {
							case *ast.Ident:
								switch a.Name {
								case "true":
									flag = "T"
								case "false":
									flag = "F"
								case "locked":
									flag = "P"
									if lockedSet {
										flag = "T"
									}
								default:
									flag = "F"
								}
							default:
								flag = "F"
							}
						}
						key := fnKey(callee)
						if sig.Recv() != nil {
							if n := namedOf(sig.Recv().Type()); n != nil {
								if it, ok := n.Underlying().(*types.Interface); ok {
									key = "iface:" + n.Obj().Name() + "." + callee.Name()
									if _, done := impls[key]; !done {
										lst := []string{}
										// (by method names: the interface may come from the importer's own copy of the package)
										for _, ct := range concrete {
											ms := types.NewMethodSet(types.NewPointer(ct))
											have := map[string]bool{}
											for i := 0; i < ms.Len(); i++ {
												have[ms.At(i).Obj().Name()] = true
											}
											all := it.NumMethods() > 0
											for i := 0; i < it.NumMethods(); i++ {
												if !have[it.Method(i).Name()] {
													all = false
												}
											}
											if all {
												lst = append(lst, ours[ct.Obj().Pkg().Path()]+"."+ct.Obj().Name()+"."+callee.Name())
											}
										}
										sort.Strings(lst)
										impls[key] = lst
									}
								}
							}
						}
						// calls on a cache carry the instance: the field through which the cache is reached
						if strings.HasPrefix(key, "cache.Cache.") {
							if sel, ok := x.Fun.(*ast.SelectorExpr); ok {
								if inner, ok := sel.X.(*ast.SelectorExpr); ok {
									key += "@" + className(inner)
								} else {
									key += "@?"
								}
							}
						}
						if key == "cache.New" {
							if l, ok := newLabel[x]; ok {
								key += "@" + l
							} else {
								key += "@?"
							}
						}
						pre := ""
						if deferred {
							pre = "D"
						}
						ev = append(ev, pre+"C "+key+" "+flag)
						return
					}
					ast.Inspect(n, func(c ast.Node) bool {
						if c == n || c == nil {
							return true
						}
						walk(c, false, cond)
						return false
					})
				}
				walk(fd.Body, false, false)
				// keep functions that lock or call something of ours
				keep := false
				for _, e := range ev {
					if !strings.HasSuffix(e, "{") && e != "}" {
						keep = true
					}
				}
				if keep {
					all = append(all, fnEv{fnKey(obj.Origin()), ev})
				}
			}
		}
	}
	sort.SliceStable(all, func(i, j int) bool { return all[i].key < all[j].key })
	var b strings.Builder
	b.WriteString("(* GENERATED by harness/gofacts - do not edit *)\nFrom Olareg Require Import Base.\nLocal Open Scope list_scope.\n\n")
	b.WriteString("(* per function: mutex acquisitions / releases and calls (callee resolved by the type checker), in source order *)\n")
	b.WriteString("Definition gen_locks : list (string * list string) := [\n")
	for i, f := range all {
		evs := make([]string, len(f.ev))
		for k, e := range f.ev {
			evs[k] = cstr(e)
		}
		sep := ";"
		if i == len(all)-1 {
			sep = ""
		}
		fmt.Fprintf(&b, "  (%s, [%s])%s\n", cstr(f.key), strings.Join(evs, "; "), sep)
	}
	b.WriteString("].\n\n(* interface methods of these packages and the methods that implement them *)\nDefinition gen_impls : list (string * list string) := [\n")
	var ik []string
	for k := range impls {
		ik = append(ik, k)
	}
	sort.Strings(ik)
	for i, k := range ik {
		l := make([]string, len(impls[k]))
		for j, e := range impls[k] {
			l[j] = cstr(e)
		}
		sep := ";"
		if i == len(ik)-1 {
			sep = ""
		}
		fmt.Fprintf(&b, "  (%s, [%s])%s\n", cstr(k), strings.Join(l, "; "), sep)
	}
	b.WriteString("].\n")
	write(out, "Gen_Locks.v", b.String())
}
