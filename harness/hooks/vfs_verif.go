//go:build verif

package store

// Counting filesystem shim for crash-point exploration (C09).  The mutating filesystem calls of
// dir.go are redirected here by an automatic source rewrite (harness/gofacts -fsrewrite) applied
// with `go build -overlay`.  Per root directory: every mutating call is counted and logged; when the
// count reaches the configured crash point the "process is dead": that call (or, for a write, all
// but a prefix of it) and every later mutating call is not performed and returns an error, so
// nothing - including deferred cleanup - changes the directory any more.

import (
	"errors"
	"io"
	"os"
	"strings"
	"sync"
	"time"
)

type vfsState struct {
	count   int
	crashAt int  // 0 = never
	partial bool // a write at the crash point is performed for the first half of its bytes
	dead    bool
	log     []string
	tracked map[string]int64 // files created through the shim: bytes written through the shim
	anomaly []string         // files whose size is not what the shim wrote: a write path the rewrite does not cover
}

var (
	vfsMu     sync.Mutex
	vfsStates = map[string]*vfsState{}
	errVfsDead = errors.New("verif: process crashed")
)

// VerifFS configures the shim for every path under root.
func VerifFS(root string, crashAt int, partial bool) {
	vfsMu.Lock()
	defer vfsMu.Unlock()
	vfsStates[root] = &vfsState{crashAt: crashAt, partial: partial, tracked: map[string]int64{}}
}

// vfsAudit compares the size of every file created through the shim with the bytes written through it.
func (st *vfsState) vfsAudit() {
	for p, n := range st.tracked {
		fi, err := os.Stat(p)
		if err != nil {
			delete(st.tracked, p)
			continue
		}
		if fi.Size() != n {
			st.anomaly = append(st.anomaly, p)
			st.tracked[p] = fi.Size()
		}
	}
}

// VerifFSAnomalies lists files that were written by calls the shim does not see.
func VerifFSAnomalies(root string) []string {
	vfsMu.Lock()
	defer vfsMu.Unlock()
	if st, ok := vfsStates[root]; ok {
		if !st.dead {
			st.vfsAudit()
		}
		return append([]string{}, st.anomaly...)
	}
	return nil
}

// VerifFSLog returns the operations logged for root, and whether the crash point was reached.
func VerifFSLog(root string) ([]string, bool) {
	vfsMu.Lock()
	defer vfsMu.Unlock()
	if st, ok := vfsStates[root]; ok {
		return append([]string{}, st.log...), st.dead
	}
	return nil, false
}

// VerifFSDrop forgets the state for root.
func VerifFSDrop(root string) {
	vfsMu.Lock()
	defer vfsMu.Unlock()
	delete(vfsStates, root)
}

func vfsFind(path string) (*vfsState, string) {
	for root, st := range vfsStates {
		if path == root || strings.HasPrefix(path, root+string(os.PathSeparator)) {
			return st, strings.TrimPrefix(strings.TrimPrefix(path, root), string(os.PathSeparator))
		}
	}
	return nil, path
}

// vfsStep accounts one mutating operation; it returns (perform, crashNow).
func vfsStep(kind, path string) (bool, bool) {
	vfsMu.Lock()
	defer vfsMu.Unlock()
	st, rel := vfsFind(path)
	if st == nil {
		return true, false
	}
	if st.dead {
		return false, false
	}
	st.vfsAudit()
	st.count++
	st.log = append(st.log, kind+" "+rel)
	if st.crashAt > 0 && st.count == st.crashAt {
		st.dead = true
		return false, true
	}
	return true, false
}

func vfsPartial(path string) bool {
	vfsMu.Lock()
	defer vfsMu.Unlock()
	st, _ := vfsFind(path)
	return st != nil && st.partial
}

func vfsMkdirAll(path string, perm os.FileMode) error {
	if _, err := os.Stat(path); err == nil {
		return os.MkdirAll(path, perm) // nothing to create: not a mutation
	}
	if ok, _ := vfsStep("mkdir", path); !ok {
		return errVfsDead
	}
	return os.MkdirAll(path, perm)
}

func vfsMkdir(path string, perm os.FileMode) error {
	if ok, _ := vfsStep("mkdir", path); !ok {
		return errVfsDead
	}
	return os.Mkdir(path, perm)
}

func vfsTrack(path string, f func(st *vfsState)) {
	vfsMu.Lock()
	defer vfsMu.Unlock()
	if st, _ := vfsFind(path); st != nil {
		f(st)
	}
}

func vfsCreateTemp(dir, pattern string) (*os.File, error) {
	if ok, _ := vfsStep("create", dir+string(os.PathSeparator)+pattern); !ok {
		return nil, errVfsDead
	}
	fh, err := os.CreateTemp(dir, pattern)
	if err == nil {
		vfsTrack(fh.Name(), func(st *vfsState) { st.tracked[fh.Name()] = 0 })
	}
	return fh, err
}

func vfsRename(oldpath, newpath string) error {
	if ok, _ := vfsStep("rename", newpath); !ok {
		return errVfsDead
	}
	err := os.Rename(oldpath, newpath)
	if err == nil {
		vfsTrack(newpath, func(st *vfsState) {
			if n, ok := st.tracked[oldpath]; ok {
				delete(st.tracked, oldpath)
				st.tracked[newpath] = n
			}
		})
	}
	return err
}

func vfsRemove(name string) error {
	if _, err := os.Lstat(name); err != nil {
		return os.Remove(name) // nothing to remove: not a mutation
	}
	if ok, _ := vfsStep("remove", name); !ok {
		return errVfsDead
	}
	return os.Remove(name)
}

func vfsRemoveAll(name string) error {
	if ok, _ := vfsStep("removeall", name); !ok {
		return errVfsDead
	}
	return os.RemoveAll(name)
}

func vfsWriteFile(name string, data []byte, perm os.FileMode) error {
	ok, crash := vfsStep("writefile", name)
	if !ok {
		if crash && vfsPartial(name) {
			_ = os.WriteFile(name, data[:len(data)/2], perm)
		}
		return errVfsDead
	}
	return os.WriteFile(name, data, perm)
}

func vfsChtimes(name string, atime, mtime time.Time) error {
	if ok, _ := vfsStep("chtimes", name); !ok {
		return errVfsDead
	}
	return os.Chtimes(name, atime, mtime)
}

type vfsWriter struct {
	f *os.File
}

func (w vfsWriter) Write(p []byte) (int, error) {
	ok, crash := vfsStep("write", w.f.Name())
	if !ok {
		if crash && vfsPartial(w.f.Name()) && len(p) > 1 {
			_, _ = w.f.Write(p[:len(p)/2])
		}
		return 0, errVfsDead
	}
	n, err := w.f.Write(p)
	vfsTrack(w.f.Name(), func(st *vfsState) {
		if _, ok := st.tracked[w.f.Name()]; ok {
			st.tracked[w.f.Name()] += int64(n)
		}
	})
	return n, err
}

// vfsW wraps file handles; any other writer is passed through.
func vfsW(w io.Writer) io.Writer {
	if f, ok := w.(*os.File); ok && f != nil {
		return vfsWriter{f: f}
	}
	return w
}
