//go:build verif

package store

// Verification hooks, injected at check time with `go build -overlay` under the
// build tag `verif` (nothing is written into /repo).  They only expose
// existing unexported entry points; they add no behaviour.

import (
	"fmt"
	"os"
	"path/filepath"
	"time"

	"github.com/opencontainers/go-digest"
)

// VerifGC runs the per-repository garbage collection synchronously.  On the directory store the
// cached modification time is cleared first so that the collection re-reads index.json, which the real
// code does whenever the file changed since the last load (e.g. after any upload session was opened).
func VerifGC(r Repo) error {
	if dr, ok := r.(*dirRepo); ok {
		dr.mu.Lock()
		dr.timeMod = time.Time{}
		dr.mu.Unlock()
	}
	return r.gc()
}

// VerifGCPass runs the store-wide pass the ticker would run.
func VerifGCPass(s Store, cur, prev time.Time) error {
	switch x := s.(type) {
	case *dir:
		// as in VerifGC: every collection of the pass re-reads index.json.  The cached modification time is
		// what the pass uses to skip idle repositories, so it is set to a recent time different from the file's.
		names, _ := x.repos.List()
		for _, n := range names {
			if dr, err := x.repos.Get(n); err == nil {
				dr.mu.Lock()
				dr.timeMod = time.Now().Add(-time.Nanosecond)
				dr.mu.Unlock()
			}
		}
		return x.gc(cur, prev)
	case *mem:
		return x.gc(cur, prev)
	}
	return fmt.Errorf("unknown store")
}

// VerifGCPassRaw is the ticker's pass as it is, including its test which repositories were modified recently enough to be visited.
func VerifGCPassRaw(s Store, cur, prev time.Time) error {
	switch x := s.(type) {
	case *dir:
		return x.gc(cur, prev)
	case *mem:
		return x.gc(cur, prev)
	}
	return fmt.Errorf("unknown store")
}

// VerifRepoNames lists the repositories the store currently tracks.
func VerifRepoNames(s Store) []string {
	switch x := s.(type) {
	case *dir:
		l, _ := x.repos.List()
		return l
	case *mem:
		x.mu.Lock()
		defer x.mu.Unlock()
		l := []string{}
		for k := range x.repos {
			l = append(l, k)
		}
		return l
	}
	return nil
}

// VerifSetBlobTime sets the modification time GC compares with the grace period.
// An empty digest means every blob of the repository.
func VerifSetBlobTime(r Repo, d digest.Digest, t time.Time) error {
	var ds []digest.Digest
	if d != "" {
		ds = []digest.Digest{d}
	} else {
		l, err := r.blobList(false)
		if err != nil {
			return err
		}
		ds = l
	}
	for _, d := range ds {
		switch x := r.(type) {
		case *dirRepo:
			fn := filepath.Join(x.path, blobsDir, d.Algorithm().String(), d.Encoded())
			if err := os.Chtimes(fn, t, t); err != nil {
				return err
			}
		case *memRepo:
			x.mu.Lock()
			b, ok := x.blobs[d]
			if ok && b != nil {
				b.m.mod = t
			} else if x.path != "" {
				fn := filepath.Join(x.path, blobsDir, d.Algorithm().String(), d.Encoded())
				_ = os.Chtimes(fn, t, t)
			}
			x.mu.Unlock()
		}
	}
	return nil
}

// VerifBlobList lists the blobs of a repository as the GC sees them.
func VerifBlobList(r Repo) ([]digest.Digest, error) { return r.blobList(false) }

// VerifUploads applies op to the upload-session cache of a repository:
// "len", "prune_age", "prune_count", "age" (make every session d older).
func VerifUploads(r Repo, op string, d time.Duration) int {
	switch x := r.(type) {
	case *dirRepo:
		switch op {
		case "prune_age":
			x.uploads.VerifPruneAge()
		case "prune_count":
			x.uploads.VerifPruneCount()
		case "age":
			x.uploads.VerifAge(d)
		}
		return x.uploads.VerifLen()
	case *memRepo:
		switch op {
		case "prune_age":
			x.uploads.VerifPruneAge()
		case "prune_count":
			x.uploads.VerifPruneCount()
		case "age":
			x.uploads.VerifAge(d)
		}
		return x.uploads.VerifLen()
	}
	return -1
}

// VerifExists reports the directory store's `exists` flag (true for other stores).
func VerifExists(r Repo) bool {
	if x, ok := r.(*dirRepo); ok {
		x.mu.Lock()
		defer x.mu.Unlock()
		return x.exists
	}
	return true
}
