//go:build verif

package cache

// Verification hooks (overlay-injected under build tag `verif`): synchronous
// access to the two prune routines the runtime otherwise starts from a timer
// or a spawned goroutine, and to the entry count / ages.

import "time"

// VerifPruneAge runs the age-based prune synchronously.
func (c *Cache[k, v]) VerifPruneAge() { c.pruneAge() }

// VerifPruneCount runs the count-based prune synchronously.
func (c *Cache[k, v]) VerifPruneCount() { c.pruneCount() }

// VerifLen returns the number of entries.
func (c *Cache[k, v]) VerifLen() int {
	if c == nil {
		return 0
	}
	c.mu.Lock()
	defer c.mu.Unlock()
	return len(c.entries)
}

// VerifAge makes every entry look d older (last use moved into the past).
func (c *Cache[k, v]) VerifAge(d time.Duration) {
	if c == nil {
		return
	}
	c.mu.Lock()
	defer c.mu.Unlock()
	for _, e := range c.entries {
		e.used = e.used.Add(-d)
	}
}

// VerifSetUsed sets the last-use time of one entry (no-op when absent).
func (c *Cache[k, v]) VerifSetUsed(key k, t time.Time) {
	c.mu.Lock()
	defer c.mu.Unlock()
	if e, ok := c.entries[key]; ok {
		e.used = t
	}
}

// VerifUsed returns the last-use time of one entry.
func (c *Cache[k, v]) VerifUsed(key k) (time.Time, bool) {
	c.mu.Lock()
	defer c.mu.Unlock()
	if e, ok := c.entries[key]; ok {
		return e.used, true
	}
	return time.Time{}, false
}

// VerifParams returns (minAge, maxAge, minCount, maxCount).
func (c *Cache[k, v]) VerifParams() (time.Duration, time.Duration, int, int) {
	return c.minAge, c.maxAge, c.minCount, c.maxCount
}

// VerifTimerSet reports whether the prune timer is armed.
func (c *Cache[k, v]) VerifTimerSet() bool {
	c.mu.Lock()
	defer c.mu.Unlock()
	return c.timer != nil
}
