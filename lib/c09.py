"""C09 - a crash at any filesystem step loses nothing acknowledged and tears nothing.
Theorems: coq/Props_C09.v over coq/FS.v (the write protocols of the directory store as sequences of filesystem calls:
temporary file + writes + rename for blobs and index.json, single removals): whatever call the process dies in, and
however much of an interrupted write reached the disk, the directory - temporary files aside - is exactly the directory
after some number of complete protocol steps of the request.
Tie: the mutating filesystem calls of internal/store/dir.go are redirected to a counting shim by an automatic source
rewrite (harness/gofacts -fsrewrite, applied with go build -overlay; the rewrite fails when it meets a mutating call it
does not know).  For every request of a scenario the calls are logged, parsed into the protocol steps of FS.v, and the
request is re-run once per crash point (before each call; inside each write with half of its bytes written).  After each
crash a new server is opened on the directory as it is:
  correspondence - the directory (temporary files aside) equals the directory at one of the step boundaries (FS.v's theorem);
  direct oracle  - every repository loads, every blob file hashes to its name, every tag resolves to an intact manifest,
                   everything acknowledged before the crash reads back as before, and the interrupted request is
                   either absent or present as a whole."""
import base64
import hashlib
import json
import re

import oracles
from api import *
import gen
import layouts

LEVEL = "proof"
TEMP_RE = re.compile(r"(^|/)(_uploads/upload\.[^/]+|index\.json\.[^/]+)$")


def norm_log(log):
    return [re.sub(r"upload\.\d+", "upload.*", re.sub(r"index\.json\.\d+", "index.json.*", x)) for x in log]


def parse_steps(log):
    """the logged calls as protocol steps of FS.v: returns [(kind, first_call_index, last_call_index, path)] or None"""
    steps, i, n = [], 0, len(log)
    while i < n:
        op, _, path = log[i].partition(" ")
        if op == "mkdir":
            # directory creation belongs to the commit that follows (or stands alone)
            steps.append(("mkdir", i, i, path))
            i += 1
        elif op == "create":
            j = i + 1
            while j < n and log[j].startswith("write "):
                j += 1
            while j < n and log[j].startswith("mkdir "):
                j += 1
            if j < n and log[j].startswith("rename "):
                steps.append(("commit", i, j, log[j].partition(" ")[2]))
                i = j + 1
            elif j < n and log[j].startswith("remove ") and TEMP_RE.search(log[j].partition(" ")[2] or ""):
                steps.append(("abandon", i, j, log[j].partition(" ")[2]))
                i = j + 1
            else:
                return None
        elif op in ("write", "rename"):
            # the continuation of a commit whose temporary file an earlier request created (chunked upload)
            j = i
            while j < n and log[j].startswith("write "):
                j += 1
            while j < n and log[j].startswith("mkdir "):
                j += 1
            if j < n and log[j].startswith("rename "):
                steps.append(("commit", i, j, log[j].partition(" ")[2]))
                i = j + 1
            elif j > i:
                steps.append(("append", i, j - 1, path))
                i = j
            else:
                return None
        elif op in ("remove", "removeall"):
            steps.append(("remove", i, i, path))
            i += 1
        elif op == "writefile":
            steps.append(("overwrite", i, i, path))
            i += 1
        elif op == "chtimes":
            steps.append(("chtimes", i, i, path))
            i += 1
        else:
            return None
    return steps


def published(files):
    """the directory as FS.v sees it: regular files by path with their content hash, temporary files aside"""
    return {f["path"]: f.get("sha") for f in files if not f["dir"] and not TEMP_RE.search(f["path"])}


class Scenario:
    def __init__(self, name, conf, history, request, probes, seed=None, new_blobs=(), artifact=None):
        self.name, self.conf, self.history, self.request, self.probes = name, conf, history, request, probes
        self.seed = seed or []
        self.new_blobs = set(new_blobs)      # blob digests the interrupted request itself stores
        self.artifact = artifact             # (subject, digest) when the request pushes a manifest with a subject


def img(n, layers=(b"layer-one",), subject=None, at=None):
    cfg = b"{}"
    sd = None
    if subject:
        sd = {"mediaType": MT_OCI_M, "digest": dg("sha256", subject), "size": len(subject)}
    return image_manifest(desc(MT_CFG if not subject else MT_EMPTY, cfg), [desc(MT_LAYER, l) for l in layers], subject=sd,
                          artifact_type=at, annotations={"n": str(n)})


def scenarios(rng):
    out = []
    cfg, l1, l2 = b"{}", b"layer-one", b"layer-two-%d" % rng.randrange(100)
    conf = mkconf(store="dir", withsubj=False)
    repo = rng.choice(["a", "a/b"])
    m1, m2 = img(1), img(2, layers=(l1, l2))
    d1, d2 = dg("sha256", m1), dg("sha256", m2)
    base = [upload_post(repo, digest=dg("sha256", cfg), body=cfg), upload_post(repo, digest=dg("sha256", l1), body=l1),
            manifest_put(repo, "v1", m1, ctype=MT_OCI_M)]
    probes = lambda extra_tags=(), extra_digests=(), subjects=(): (
        [tag_list(repo)] + [manifest_get(repo, t) for t in ["v1", "v2", "sig"] + list(extra_tags)]
        + [manifest_get(repo, d) for d in [d1, d2] + list(extra_digests)]
        + [blob_get(repo, dg("sha256", b)) for b in (cfg, l1, l2)]
        + [referrers(repo, s) for s in [d1] + list(subjects)])
    # first push to a new repository: the repository directory, oci-layout and index.json are created on the way
    out.append(Scenario("first-blob-new-repo", conf, [], upload_post(repo, digest=dg("sha256", cfg), body=cfg), probes(), new_blobs=[dg("sha256", cfg)]))
    out.append(Scenario("blob-monolithic", conf, base, upload_post(repo, digest=dg("sha256", l2), body=l2), probes(), new_blobs=[dg("sha256", l2)]))
    # chunked upload: the crash hits the PUT that completes it
    k = len(base)
    big = bytes(rng.randrange(256) for _ in range(3000))
    out.append(Scenario("blob-chunked-put", conf, base + [upload_post(repo), upload_patch(repo, "$SID%d$" % k, "0-999", state_token(0), big[:1000])],
                        upload_put(repo, "$SID%d$" % k, None, dg("sha256", big), state_token(1000), big[1000:]),
                        probes() + [blob_get(repo, dg("sha256", big))], new_blobs=[dg("sha256", big)]))
    # content that is already stored (and referenced by the tagged image) is uploaded again through a session
    out.append(Scenario("blob-reupload-session", conf, base + [upload_post(repo)],
                        upload_put(repo, "$SID%d$" % k, None, dg("sha256", l1), state_token(0), l1), probes()))
    out.append(Scenario("blob-chunked-patch", conf, base + [upload_post(repo)],
                        upload_patch(repo, "$SID%d$" % k, "0-999", state_token(0), big[:1000]), probes()))
    out.append(Scenario("manifest-new-tag", conf, base + [upload_post(repo, digest=dg("sha256", l2), body=l2)], manifest_put(repo, "v2", m2, ctype=MT_OCI_M), probes(), new_blobs=[d2]))
    out.append(Scenario("manifest-by-digest", conf, base + [upload_post(repo, digest=dg("sha256", l2), body=l2)], manifest_put(repo, d2, m2, ctype=MT_OCI_M), probes(), new_blobs=[d2]))
    out.append(Scenario("tag-move", conf, base + [upload_post(repo, digest=dg("sha256", l2), body=l2), manifest_put(repo, "v2", m2, ctype=MT_OCI_M)],
                        manifest_put(repo, "v1", m2, ctype=MT_OCI_M), probes()))
    art = img(3, layers=(), subject=m1, at="application/vnd.example.sig")
    da = dg("sha256", art)
    out.append(Scenario("artifact-push", conf, base, manifest_put(repo, "sig", art, ctype=MT_OCI_M), probes(extra_digests=[da]), new_blobs=[da], artifact=(d1, da)))
    art2 = img(4, layers=(), subject=m1, at="application/vnd.example.sbom")
    out.append(Scenario("second-artifact-push", conf, base + [manifest_put(repo, "sig", art, ctype=MT_OCI_M)],
                        manifest_put(repo, dg("sha256", art2), art2, ctype=MT_OCI_M), probes(extra_digests=[da, dg("sha256", art2)]),
                        new_blobs=[dg("sha256", art2)], artifact=(d1, dg("sha256", art2))))
    idx = index_manifest([desc(MT_OCI_M, m1)], annotations={"i": "1"})
    out.append(Scenario("index-push", conf, base, manifest_put(repo, "v2", idx, ctype=MT_OCI_I), probes(extra_digests=[dg("sha256", idx)]), new_blobs=[dg("sha256", idx)]))
    # manifests that index.json reaches only through two levels of indexes (an index listing an index listing an image; an index
    # artifact listing images): acknowledged and served by digest, they are found again by whoever opens the directory next
    idx1 = index_manifest([desc(MT_OCI_M, m2)], annotations={"level": "1"})
    idx2 = index_manifest([desc(MT_OCI_I, idx1)], annotations={"level": "2"})
    nest_hist = base + [upload_post(repo, digest=dg("sha256", l2), body=l2), manifest_put(repo, d2, m2, ctype=MT_OCI_M), manifest_put(repo, dg("sha256", idx1), idx1, ctype=MT_OCI_I)]
    out.append(Scenario("nested-index-push", conf, nest_hist, manifest_put(repo, "v2", idx2, ctype=MT_OCI_I),
                        probes(extra_digests=[dg("sha256", idx1), dg("sha256", idx2)]), new_blobs=[dg("sha256", idx2)]))
    sd1 = {"mediaType": MT_OCI_M, "digest": d1, "size": len(m1)}
    aidx = index_manifest([desc(MT_OCI_M, m2)], subject=sd1, artifact_type="application/vnd.example.bundle", annotations={"bundle": "1"})
    out.append(Scenario("index-artifact-push", conf, base + [upload_post(repo, digest=dg("sha256", l2), body=l2), manifest_put(repo, d2, m2, ctype=MT_OCI_M)],
                        manifest_put(repo, dg("sha256", aidx), aidx, ctype=MT_OCI_I), probes(extra_digests=[dg("sha256", aidx)]), new_blobs=[dg("sha256", aidx)],
                        artifact=(d1, dg("sha256", aidx))))
    out.append(Scenario("tag-delete", conf, base + [upload_post(repo, digest=dg("sha256", l2), body=l2), manifest_put(repo, "v2", m2, ctype=MT_OCI_M)],
                        manifest_delete(repo, "v2"), probes()))
    out.append(Scenario("manifest-delete", conf, base + [upload_post(repo, digest=dg("sha256", l2), body=l2), manifest_put(repo, "v2", m2, ctype=MT_OCI_M)],
                        manifest_delete(repo, d2), probes()))
    out.append(Scenario("artifact-delete", conf, base + [manifest_put(repo, "sig", art, ctype=MT_OCI_M)], manifest_delete(repo, da), probes(extra_digests=[da]), artifact=(d1, da)))
    out.append(Scenario("blob-delete", conf, base + [upload_post(repo, digest=dg("sha256", l2), body=l2)], blob_delete(repo, dg("sha256", l2)), probes()))
    # a collection that removes an untagged manifest and its blobs
    gconf = mkconf(store="dir", withsubj=False, untagged=True, grace_ms=-1)
    gc = dict(kind="gc", repo=repo, impl=dict(op="gc", repo=repo), model="(skip)")
    out.append(Scenario("collection", gconf, base + [upload_post(repo, digest=dg("sha256", l2), body=l2), manifest_put(repo, d2, m2, ctype=MT_OCI_M)], gc, probes()))
    out.append(Scenario("collection-empties-repo", gconf, [upload_post(repo, digest=dg("sha256", cfg), body=cfg), manifest_put(repo, d1, img(1, layers=()), ctype=MT_OCI_M)], gc, probes()))
    # the conversion of a legacy layout, triggered by the first request that loads the index
    for kind in ("stale", "mixed", "accurate"):
        L, expect, tags = layouts.legacy_layout(rng, "legacy", kind)
        pr = [tag_list("legacy")] + [manifest_get("legacy", t) for t in sorted(tags)] + [referrers("legacy", s) for s in sorted(expect)] \
            + [blob_get("legacy", d, head=True) for d in sorted(L.blobs)]
        sc = Scenario("conversion-" + kind, conf, [], tag_list("legacy"), pr, seed=L.files())
        sc.no_pre = True          # any read would already run the conversion
        sc.expect = {k: sorted(v) for k, v in expect.items()}
        sc.legacy_tags = tags
        out.append(sc)
    return out


def skip(st):
    st = dict(st)
    st["model"] = "(skip)"
    return st


def canon(st, r):
    c = canon_impl(dict(st, model=None), r, SidMap())
    c.pop("loc", None)
    return c


def follow_up(sc):
    """life goes on after the crash: a push to the repository of the interrupted request, another restart, and the push is read back"""
    repo = sc.request.get("repo") or "a"
    if sc.conf.get("ro") or not REPO_RE.match(repo):
        return []
    data = b"pushed-after-the-crash"
    m = image_manifest(desc(MT_CFG, b"{}"), [desc(MT_LAYER, data)], annotations={"after": "crash"})
    return [upload_post(repo, digest=dg("sha256", b"{}"), body=b"{}"), upload_post(repo, digest=dg("sha256", data), body=data),
            manifest_put(repo, "after-crash", m, ctype=MT_OCI_M), special("reopen"),
            blob_get(repo, dg("sha256", data)), manifest_get(repo, "after-crash"), manifest_get(repo, dg("sha256", m))]


def run(ctx):
    ok_build, blog = ctx.coq_build()
    ok_props, plog = ctx.coq_props() if ok_build else (False, blog)
    binp = api_binary(ctx, vfs=True)
    rng = ctx.rng
    rounds = 1 if ctx.tier == "quick" else 12
    scs = []
    for _ in range(rounds):
        scs += scenarios(rng)
    only = None
    if ctx.replay:
        # the scenarios are a function of the seed (taken from the replay's file name): re-run the one crash point recorded
        r = json.load(open(ctx.replay))
        r = r.get("replay", r)
        m = re.search(r"-(\d+)-\d+\.json$", ctx.replay)
        import random
        scs = scenarios(random.Random(int(m.group(1)) if m else ctx.seed))
        scs = [sc for sc in scs if sc.name == r.get("scenario")] or scs
        only = (r.get("crash_before_call"), r.get("inside_write"))
    # phase 1: every scenario without a crash, logging the calls of the request under test
    dry = []
    for i, sc in enumerate(scs):
        pre_probes = [] if getattr(sc, "no_pre", False) else sc.probes
        steps = [skip(s) for s in sc.history] + [skip(p) for p in pre_probes] + [special("crashat", n=0), skip(sc.request), special("fslog")] \
            + [special("snapshot", full=False)] + [skip(p) for p in sc.probes]
        dry.append(dict(id=i + 1, conf=sc.conf, steps=steps, seed=sc.seed))
    douts = run_api(ctx, binp, dry, name="crash-dry")
    crash_cases, meta = [], {}
    nlogs_unparsed = 0
    for i, sc in enumerate(scs):
        io = douts[i + 1]
        nh, npb = len(sc.history), (0 if getattr(sc, "no_pre", False) else len(sc.probes))
        if io.get("fatal"):
            ctx.violation("scenario %s: %s" % (sc.name, io["fatal"]), dict(case=replayable(dry[i])), "C09:dry-hang")
            continue
        res = io["steps"]
        sc.pre = [canon(p, r) for p, r in zip(sc.probes, res[nh:nh + npb])] if npb else None
        sc.dry_status = res[nh + npb + 1].get("status")
        sc.log = res[nh + npb + 2].get("names") or []
        sc.final_files = published(res[nh + npb + 3].get("files") or [])
        sc.post = [canon(p, r) for p, r in zip(sc.probes, res[nh + npb + 4:])]
        sc.steps_fs = parse_steps(norm_log(sc.log))
        sc.unparsed = None
        anomalies = res[nh + npb + 2].get("err") or ""
        if anomalies:
            sc.unparsed = "files were written by calls the shim does not redirect (%s): the write protocol is not the one of coq/FS.v" % anomalies
        elif sc.steps_fs is None:
            sc.unparsed = "the filesystem calls are not a sequence of the protocol steps of coq/FS.v: %s" % norm_log(sc.log)
        if sc.unparsed:
            nlogs_unparsed += 1
            sc.steps_fs = sc.steps_fs or []
        # phase 2: one case per crash point (before call k; inside call k when it is a write)
        # (k = len + 1: the process dies right after the request was answered - nothing is refused, the new server must show the
        #  request's effect)
        for k in range(1, len(sc.log) + 2):
            variants = [False] + ([True] if k <= len(sc.log) and sc.log[k - 1].split(" ")[0] in ("write", "writefile") else [])
            for partial in variants:
                if only and only[0] is not None and (k, partial) != tuple(only):
                    continue
                cid = 100000 + len(crash_cases)
                steps = [skip(s) for s in sc.history] + [special("crashat", n=k, partial=partial), skip(sc.request), special("fslog"), special("reopen"),
                                                         special("snapshot", full=True)] + [skip(p) for p in sc.probes] + [skip(x) for x in follow_up(sc)]
                crash_cases.append(dict(id=cid, conf=sc.conf, steps=steps, seed=sc.seed))
                meta[cid] = (sc, k, partial)
    couts = run_api(ctx, binp, crash_cases, name="crash-points") if crash_cases else {}
    # boundaries: the directory when the crash falls exactly between two protocol steps
    nbad = 0
    nreordered = 0
    per = {}
    for c in crash_cases:
        sc, k, partial = meta[c["id"]]
        per.setdefault(id(sc), []).append((k, partial, c))
    for sc in scs:
        lst = per.get(id(sc))
        if not lst:
            continue
        starts = {s[1] + 1 for s in sc.steps_fs}          # call numbers (1-based) that start a protocol step
        bounds = []
        bounds_complete = True
        for k, partial, c in lst:
            io = couts[c["id"]]
            if partial or io.get("fatal"):
                continue
            nh = len(sc.history)
            if k in starts:
                if norm_log(io["steps"][nh + 2].get("names") or [])[:k] == norm_log(sc.log)[:k]:
                    bounds.append(published(io["steps"][nh + 4].get("files") or []))
                else:
                    bounds_complete = False
        bounds.append(sc.final_files)
        for k, partial, c in lst:
            io = couts[c["id"]]
            nh = len(sc.history)
            rep = dict(scenario=sc.name, crash_before_call=k, inside_write=partial, calls=norm_log(sc.log), case=replayable(c))
            if io.get("fatal"):
                ctx.violation("%s: after a crash at call %d the new server hangs: %s" % (sc.name, k, io["fatal"]), rep, "C09:hang")
                nbad += 1
                continue
            res = io["steps"]
            if res[nh + 1].get("panic"):
                pass        # the dying request may end any way it likes
            files = res[nh + 4].get("files") or []
            pub = published(files)
            # correspondence with FS.v: the directory is a boundary directory
            after_all = k > len(sc.log)
            call = norm_log(sc.log)[k - 1] if not after_all else "(after the last call: the request was answered)"
            torn_overwrite = partial and call.startswith("writefile ")
            # (Go map iteration makes the order of the responses a conversion generates vary from run to run: the boundary
            #  directories of the dry run are only comparable when this run made the same calls up to the crash)
            same_calls = norm_log(res[nh + 2].get("names") or [])[:k] == norm_log(sc.log)[:k]
            if not same_calls:
                nreordered += 1
            if same_calls and bounds_complete and not after_all and pub not in bounds and not torn_overwrite and not sc.unparsed:
                near = min(bounds, key=lambda b: len(set(b.items()) ^ set(pub.items())))
                diff = sorted(set(near.items()) ^ set(pub.items()))[:6]
                ctx.violation("correspondence: after a crash %s call %d (%s) of %s the directory is not the directory at any protocol step boundary (coq/FS.v request_crash_is_boundary): differs from the nearest boundary in %s"
                              % ("inside" if partial else "before", k, call, sc.name, diff), dict(rep, note="correspondence FS.v vs dir.go"), "C09:corr-boundary", nofail=not ctx.violations)
                nbad += 1
            # direct oracle
            bad = False
            for f in files:
                if f["dir"] or TEMP_RE.search(f["path"]):
                    continue
                m = re.search(r"(^|/)blobs/(sha256|sha384|sha512)/([0-9a-f]+)$", f["path"])
                if m:
                    data = base64.b64decode(f.get("b64") or "")
                    if hashlib.new(m.group(2), data).hexdigest() != m.group(3):
                        ctx.violation("%s: after a crash %s call %d (%s) blob file %s does not hash to its name (half written)" % (sc.name, "inside" if partial else "before", k, call, f["path"]), rep, "C09:torn-blob")
                        bad = True
                elif f["path"].endswith("/index.json"):
                    try:
                        json.loads(base64.b64decode(f.get("b64") or ""))
                    except Exception:
                        ctx.violation("%s: after a crash %s call %d (%s) %s does not parse" % (sc.name, "inside" if partial else "before", k, call, f["path"]), rep, "C09:torn-index")
                        bad = True
            if bad:
                nbad += 1
                continue
            got = [canon(p, r) for p, r in zip(sc.probes, res[nh + 5:])]
            pre = sc.pre if sc.pre is not None else sc.post
            for p, r, g, a, b in zip(sc.probes, res[nh + 5:], got, pre, sc.post):
                what = "%s %s/%s" % (p["kind"], p.get("repo"), str(p.get("arg", ""))[:19])
                if r.get("status", 0) >= 500 or r.get("panic"):
                    ctx.violation("%s: after a crash %s call %d (%s) %s answers %s" % (sc.name, "inside" if partial else "before", k, call, what, r.get("status")), dict(rep, response=str(r)[:600]), "C09:load-error")
                    bad = True
                    break
                if after_all and sc.dry_status is not None and 200 <= sc.dry_status < 300:
                    ok = g == b           # the request was acknowledged: its effect is there
                elif p["kind"] == "blobget" and p.get("arg") in sc.new_blobs:
                    ok = g == a or g == b
                elif p["kind"] == "mget" and p.get("arg") in sc.new_blobs:
                    ok = g == a or g == b
                else:
                    ok = g == a or g == b
                if p["kind"] == "mget" and g.get("status") == 200 and not p.get("head"):
                    d = g.get("digest") or ""
                    alg = d.split(":")[0]
                    if alg in ("sha256", "sha384", "sha512") and hashlib.new(alg, g.get("body") or b"").hexdigest() != d.split(":")[1]:
                        ctx.violation("%s: after a crash %s resolves to a manifest whose bytes do not match %s" % (sc.name, what, d[:19]), rep, "C09:tag-to-torn-manifest")
                        bad = True
                        break
                if not ok:
                    ctx.violation("%s: after a crash %s call %d (%s) %s is neither as before the request nor as after it: %s (before %s, after %s)"
                                  % (sc.name, "inside" if partial else "before", k, call, what, str(g)[:200], str(a)[:200], str(b)[:200]), rep, "C09:neither-before-nor-after-%s" % p["kind"])
                    bad = True
                    break
            if not bad:
                # present as a whole: the reads together are those before the request or those after it, blob reads of the
                # request's own new blobs aside (an unreferenced blob is not yet a push)
                # (likewise a blob the interrupted collection was about to delete, once nothing references it, is garbage either way)
                keep = [j for j, p in enumerate(sc.probes) if not (p["kind"] == "blobget" and (p.get("arg") in sc.new_blobs or sc.name.startswith("collection")))]
                ga, gb = [got[j] == pre[j] for j in keep], [got[j] == sc.post[j] for j in keep]
                if not all(ga) and not all(gb):
                    mixed = [("%s %s" % (sc.probes[j]["kind"], str(sc.probes[j].get("arg", ""))[:19]), "after" if got[j] == sc.post[j] else "before") for j in keep if pre[j] != sc.post[j]]
                    sig = "C09:partially-applied"
                    if sc.artifact:
                        sig = "C09:artifact-without-referrers-entry"
                    ctx.violation("%s: after a crash %s call %d (%s) the interrupted request is partly in effect: %s" % (sc.name, "inside" if partial else "before", k, call, mixed), rep, sig)
                    bad = True
            fu = follow_up(sc)
            if not bad and fu:
                fr = res[nh + 5 + len(sc.probes):]
                if len(fr) == len(fu) and all(r.get("status") == 201 for r in fr[:3]):
                    want = [(200, base64.b64decode(fu[1]["impl"]["b64"])), (200, fu[2]["body"]), (200, fu[2]["body"])]
                    for st_, r_, (ws, wb) in zip(fu[4:], fr[4:], want):
                        if r_.get("status") != ws or base64.b64decode(r_.get("b64") or "") != wb:
                            ctx.violation("%s: after a crash %s call %d (%s) and a restart, a push to %s was acknowledged, but after another restart %s %s answers %s"
                                          % (sc.name, "inside" if partial else "before", k, call, fu[0]["repo"], st_["kind"], str(st_.get("arg"))[:19], r_.get("status")),
                                          dict(rep, response=str(r_)[:400]), "C09:push-after-crash-lost")
                            bad = True
                            break
            if bad:
                nbad += 1
    for i, sc in enumerate(scs):
        if getattr(sc, "unparsed", None):
            ctx.violation("correspondence: %s: %s" % (sc.name, sc.unparsed), dict(scenario=sc.name, log=getattr(sc, "log", None), case=replayable(dry[i]),
                          note="correspondence FS.v protocol steps vs dir.go"), "C09:corr-protocol", nofail=not ctx.violations)
    if not ok_props:
        ctx.violation("proof obligations of Props_C09.v no longer check", dict(theorem_file="coq/Props_C09.v", log=plog[-1500:]), "C09:proof", nofail=not ctx.violations)
    ctx.coverage.update(dict(evaluations=len(crash_cases), distinct_nontrivial=len({(meta[c["id"]][0].name, meta[c["id"]][1], meta[c["id"]][2]) for c in crash_cases}),
                             rule="one case per (scenario, crash point): the request's filesystem calls are logged in a dry run, then the scenario is re-run with the process killed before call k (and inside call k for writes), a new server opened, the directory scanned and every read endpoint compared with the dry run's reads before and after the request; non-trivial = a crash point inside the request",
                             scenarios=sorted({sc.name for sc in scs}), crash_points={sc.name: len(sc.log) for sc in scs if hasattr(sc, "log")},
                             protocol_steps={sc.name: [s[0] for s in (sc.steps_fs or [])] for sc in scs if hasattr(sc, "steps_fs")},
                             rewritten_call_sites=getattr(ctx, "fs_sites", []), crash_runs_with_reordered_calls=nreordered,
                             traces_validated_against_impl=len(crash_cases) - nbad, correspondence_mismatches=nbad + nlogs_unparsed, exhaustive=False))
    ctx.samples = [norm_log(scs[4].log)] if len(scs) > 4 and hasattr(scs[4], "log") else []
    ctx.assumptions = ["process-crash model: what a completed write call wrote stays written; loss of un-synced pages on power failure is outside the claim",
                       "crash = the shim refuses the k-th mutating call (or performs half of a write) and every later one; the dying process's deferred cleanup therefore changes nothing",
                       "os.WriteFile of oci-layout is not atomic: a crash inside it leaves a truncated file, which repoInit rewrites on the next push (judged by the direct oracle only)",
                       "crash points inside the collection and the conversion are explored for the scenarios listed; concurrency between a crash and other requests is outside this check"]
