"""Shared machinery of the /verif checks: Go builds against /repo's working tree,
Coq builds, evaluation of harness-written case files inside Coq, evidence,
known findings, violation reports."""
import hashlib
import json
import os
import random
import re
import shutil
import subprocess
import sys
import time

VERIF = os.path.dirname(os.path.dirname(os.path.abspath(__file__)))
REPO = os.environ.get("VERIF_REPO", "/repo")
COQ = os.path.join(VERIF, "coq")
WORK = os.environ.get("VERIF_TMP", os.path.join(VERIF, ".work"))
EVID = os.path.join(VERIF, "evidence")
REPLAYS = os.path.join(VERIF, "replays")
GOENV = dict(os.environ, GOFLAGS="-mod=mod", GOPROXY="off", GOSUMDB="off",
             GOTOOLCHAIN="local", CGO_ENABLED=os.environ.get("CGO_ENABLED", "0"))


def log(*a):
    print(*a, flush=True)


def sh(cmd, cwd=None, env=None, timeout=1200, check=False, input=None):
    p = subprocess.run(cmd, cwd=cwd, env=env, timeout=timeout, input=input,
                       stdout=subprocess.PIPE, stderr=subprocess.STDOUT, text=True,
                       shell=isinstance(cmd, str))
    if check and p.returncode != 0:
        raise RuntimeError("command failed (%d): %s\n%s" % (p.returncode, cmd, p.stdout[-4000:]))
    return p.returncode, p.stdout


class Ctx:
    """One run of one check."""

    def __init__(self, pid, tier, seed, replay=None):
        self.pid = pid
        self.tier = tier
        self.seed = seed
        self.replay = replay
        self.rng = random.Random(seed)
        self.t0 = time.time()
        self.work = os.path.join(WORK, pid)
        shutil.rmtree(self.work, ignore_errors=True)
        os.makedirs(self.work, exist_ok=True)
        os.makedirs(EVID, exist_ok=True)
        os.makedirs(REPLAYS, exist_ok=True)
        self.violations = []      # dicts: what, replay(obj), signature, nofail(bool)
        self.known_hits = {}      # finding id -> count
        self.coverage = {}
        self.assumptions = []
        self.trusted = []
        self.obligations = []     # (theorem, ok)
        self.samples = []
        self.notes = []
        self.findings = load_known(pid)

    # ---- violations / known findings ---------------------------------------
    def violation(self, what, replay, signature=None, nofail=False):
        """Record a violation unless its signature is an open known finding."""
        if signature:
            for f in self.findings:
                if f.get("status") == "open" and f.get("signature") == signature:
                    self.known_hits[f["id"]] = self.known_hits.get(f["id"], 0) + 1
                    return False
        for v in self.violations:
            if v["signature"] == signature and signature is not None:
                v["count"] += 1
                return True
        self.violations.append(dict(what=what, replay=replay, signature=signature,
                                    nofail=nofail, count=1))
        return True

    def finish(self, level="proof"):
        wall = time.time() - self.t0
        for f in self.findings:
            if f.get("status") == "open":
                n = self.known_hits.get(f["id"], 0)
                if n > 0:
                    log("KNOWN-FINDING: property=%s %s [%s] (%d occurrence(s) this run)"
                        % (self.pid, f["what"], f["id"], n))
                else:
                    self.notes.append("known finding %s did not reproduce in this run" % f["id"])
        nviol = 0
        for k, v in enumerate(self.violations):
            nviol += 1
            path = os.path.join(REPLAYS, "%s-%d-%d.json" % (self.pid, self.seed, k))
            with open(path, "w") as fh:
                json.dump(dict(property=self.pid, what=v["what"], signature=v["signature"],
                               occurrences=v["count"], replay=v["replay"]), fh, indent=1, default=str)
            tail = " no-failing-input-found" if v["nofail"] else ""
            log("# %s" % v["what"])
            log("VIOLATION property=%s replay=%s%s" % (self.pid, path, tail))
        cov = dict(self.coverage)
        obl = len(self.obligations)
        dis = sum(1 for _, ok in self.obligations if ok)
        cov.setdefault("obligations", obl)
        cov.setdefault("discharged", dis)
        cov.setdefault("checker_cmd", "coqc 8.16.1: make -C /verif/coq (full .vo build) + coqc Props_%s.v" % self.pid)
        cov.setdefault("trusted_base", self.trusted)
        cov.setdefault("samples", self.samples[:6])
        cov["theorems"] = [t for t, ok in self.obligations if ok]
        cov["theorems_failed"] = [t for t, ok in self.obligations if not ok]
        cov["known_findings_reproduced"] = self.known_hits
        cov["notes"] = self.notes
        ev = dict(property_id=self.pid, tier=self.tier, seed=self.seed, level=level,
                  coverage=cov, assumptions=self.assumptions, wall_s=round(wall, 2),
                  violations=nviol)
        with open(os.path.join(EVID, self.pid + ".json"), "w") as fh:
            json.dump(ev, fh, indent=1, default=str)
        log("%s %s: %d violation(s), %d/%d obligations, %.1fs" % (self.pid, self.tier, nviol, dis, obl, wall))
        return 1 if nviol else 0

    # ---- Coq ------------------------------------------------------------------
    def coq_build(self):
        """Regenerate the fact files from /repo's current source, then a full .vo build of the
        development (incremental). Returns (ok, log)."""
        ok, out = run_gofacts()
        if not ok:
            return False, "gofacts (fact translator) failed on the current source:\n" + out
        ensure_makefile()
        rc, out = sh("timeout 1500 make -j16 2>&1", cwd=COQ, timeout=1600)
        return rc == 0, out

    def coq_props(self, name=None):
        """Compile Props_<ID>.v on its own, recording theorems and Print Assumptions."""
        name = name or ("Props_%s" % self.pid)
        src = os.path.join(COQ, name + ".v")
        text = open(src).read()
        thms = re.findall(r"^\s*(?:Theorem|Lemma|Example|Corollary)\s+([A-Za-z0-9_']+)", text, re.M)
        rc, out = sh(["timeout", "600", "coqc", "-Q", ".", "Olareg", name + ".v"], cwd=COQ, timeout=700)
        ok = rc == 0
        failed = None
        if not ok:
            m = re.search(r'line (\d+)', out)
            failed = out[-1500:]
        for t in thms:
            self.obligations.append((t, ok))
        # Print Assumptions output
        axioms = set()
        closed = out.count("Closed under the global context")
        for m in re.finditer(r"Axioms:\n((?:.+\n)+?)(?:\n|$)", out):
            for line in m.group(1).splitlines():
                mm = re.match(r"^([A-Za-z0-9_.']+)\s*:", line)
                if mm:
                    axioms.add(mm.group(1))
        chk = ""
        if ok and self.tier == "thorough":
            # independent re-check of the compiled theorems and everything they depend on
            rc2, out2 = sh(["timeout", "3000", "coqchk", "-silent", "-o", "-Q", ".", "Olareg", "Olareg." + name], cwd=COQ, timeout=3100)
            m2 = re.search(r"\* Axioms:\s*(.*?)\n\s*\n", out2, re.S)
            chk = "coqchk (independent checker) on %s: %s; axioms: %s" % (name, "ok" if rc2 == 0 else "FAILED", (m2.group(1).strip() if m2 else "?"))
            if rc2 != 0:
                ok = False
                out += "\ncoqchk failed:\n" + out2[-1500:]
                self.obligations = [(t, False) for t, _ in self.obligations]
        self.trusted = ([chk] if chk else []) + [
            "Coq 8.16.1 kernel (coqc); vm_compute used for case evaluation and _refuted witnesses; no native_compute",
            "Print Assumptions: %d theorem(s) closed under the global context; axioms: %s"
            % (closed, ", ".join(sorted(axioms)) if axioms else "none"),
            "hand-written Gallina model tied to /repo by the differential correspondence run of this check",
        ]
        return ok, out

    def coq_eval(self, name, body, timeout=900):
        """Write cases/<name>.v with [body], compile it, return (rc, stdout)."""
        d = os.path.join(COQ, "cases")
        os.makedirs(d, exist_ok=True)
        path = os.path.join(d, name + ".v")
        with open(path, "w") as fh:
            fh.write(body)
        rc, out = sh(["timeout", str(timeout), "coqc", "-Q", COQ, "Olareg", path], cwd=d, timeout=timeout + 60)
        return rc, out


def run_gofacts():
    """(re)build the translator and regenerate coq/Gen_*.v from REPO (files are rewritten only when they change)"""
    binp = os.path.join(VERIF, "bin", "gofacts")
    src = os.path.join(VERIF, "harness", "gofacts")
    if not os.path.exists(binp) or any(os.path.getmtime(os.path.join(src, f)) > os.path.getmtime(binp) for f in os.listdir(src) if f.endswith(".go") or f == "go.mod"):
        os.makedirs(os.path.dirname(binp), exist_ok=True)
        rc, out = sh(["go", "build", "-o", binp, "."], cwd=src, env=GOENV, timeout=600)
        if rc != 0:
            return False, out
    rc, out = sh([binp, REPO, COQ], timeout=120)
    return rc == 0, out


def ensure_model():
    """(Re)build bin/modelrun (extracted model + OCaml driver) when sources are newer."""
    binp = os.path.join(VERIF, "bin", "modelrun")
    srcs = [os.path.join(COQ, f) for f in os.listdir(COQ) if f.endswith(".v")]
    od = os.path.join(VERIF, "harness", "ocaml")
    srcs += [os.path.join(od, f) for f in os.listdir(od)]
    if os.path.exists(binp) and all(os.path.getmtime(x) <= os.path.getmtime(binp) for x in srcs):
        return binp
    rc, out = sh([os.path.join(od, "build.sh")], timeout=900)
    if rc != 0:
        raise BuildError("building the extracted model failed:\n" + out[-3000:])
    return binp


def model_run(ctx, prop, lines, name="model"):
    """Run the extracted model on s-expression case lines; returns parsed JSON lines."""
    binp = ensure_model()
    inp = os.path.join(ctx.work, name + ".sexp")
    with open(inp, "w") as fh:
        fh.write("\n".join(lines) + "\n")
    outp = os.path.join(ctx.work, name + ".model.jsonl")
    with open(inp) as fi, open(outp, "w") as fo:
        p = subprocess.run([binp, prop], stdin=fi, stdout=fo, stderr=subprocess.PIPE, text=True, timeout=3600)
    if p.returncode != 0:
        raise BuildError("modelrun %s failed: %s" % (prop, p.stderr[-2000:]))
    return [json.loads(l) for l in open(outp) if l.strip()]


# ---- s-expression printing (input of modelrun) ----------------------------------------
def sx(s):
    out = ['"']
    for c in s:
        o = ord(c)
        if c == '"' or c == "\\":
            out.append("\\" + c)
        elif c == "\n":
            out.append("\\n")
        elif c == "\t":
            out.append("\\t")
        elif o < 32 or (126 < o < 256):
            out.append("\\x%02x" % o)      # one char = one byte (latin-1 view of binary data)
        elif o >= 256:
            for b in c.encode("utf-8"):
                out.append("\\x%02x" % b)
        else:
            out.append(c)
    out.append('"')
    return "".join(out)


def sl(*xs):
    return "(" + " ".join(xs) + ")"


def ensure_makefile():
    mk = os.path.join(COQ, "Makefile")
    cp = os.path.join(COQ, "_CoqProject")
    if not os.path.exists(mk) or os.path.getmtime(mk) < os.path.getmtime(cp):
        sh("coq_makefile -f _CoqProject -o Makefile", cwd=COQ, check=True)


def load_known(pid):
    p = os.path.join(VERIF, "known_findings.json")
    if not os.path.exists(p):
        return []
    return [f for f in json.load(open(p)) if f.get("property") == pid]


# ---- Go builds -------------------------------------------------------------------
def go_test_binary(ctx, pkg, driver_files, out_name, tags="verif", race=False):
    """Build an in-package test binary of /repo/<pkg> with driver files overlaid.
    driver_files: {name_in_pkg: path_in_verif}.  Nothing is written into /repo."""
    ov = {"Replace": {os.path.join(REPO, pkg, n): p for n, p in driver_files.items()}}
    ovp = os.path.join(ctx.work, out_name + ".overlay.json")
    json.dump(ov, open(ovp, "w"))
    binp = os.path.join(ctx.work, out_name)
    cmd = ["go", "test", "-c", "-vet=off", "-tags", tags, "-overlay", ovp, "-o", binp]
    env = dict(GOENV)
    if race:
        cmd.insert(3, "-race")
        env["CGO_ENABLED"] = "1"
    cmd.append("./" + pkg)
    rc, out = sh(cmd, cwd=REPO, env=env, timeout=900)
    if rc != 0:
        raise BuildError("go test -c %s failed:\n%s" % (pkg, out[-3000:]))
    return binp


class BuildError(Exception):
    pass


# ---- Coq term printing -------------------------------------------------------------
def cstr(s):
    assert all(32 <= ord(c) < 127 or c in "\n\t" for c in s), repr(s)
    return '"' + s.replace('"', '""') + '"'


def cz(n):
    return "(%d)%%Z" % n


def cnat(n):
    return "%d%%nat" % n


def clist(xs):
    return "[" + "; ".join(xs) + "]"


def copt(x):
    return "None" if x is None else "(Some %s)" % x


def cbool(b):
    return "true" if b else "false"


def parse_coq_natlist(out, marker):
    """Parse `marker = [1; 2]%nat`-like output of Print / Eval for a list of nat."""
    m = re.search(marker + r"\s*=\s*(\[[^\]]*\]|nil)", out.replace("\n", " "))
    if not m:
        return None
    body = m.group(1)
    if body == "nil" or body == "[]":
        return []
    return [int(x) for x in re.findall(r"\d+", body)]
