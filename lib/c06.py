"""C06 - collection removes exactly the garbage, converges, and is not starved.
Theorems: coq/Props_C06.v over coq/GC.v.  Tie: differential histories as for C05 + the direct oracle: under the
policy whose documented meaning is unambiguous (untagged collection on, grace period disabled, referrers removed with
their subject, dangling referrers kept) the survivors are exactly the closure of the tagged manifests and the referrers of
retained subjects; no index entry is left without content; a second pass changes nothing; an emptied repository
directory is removed when so configured; a failing or removed repository does not stop the store-wide pass."""
import json

import apicheck
from api import *
import gcgen
import gen
import oracles
import c05

LEVEL = "proof"
EXACT = dict(untagged=True, dangling=False, withsubj=True, grace_ms=-1)


def expected_survivors(gg, pre, tags):
    """closure of the tagged manifests; artifacts are retained when their subject is retained, or when the subject does
    not exist at all (dangling referrers are kept under this policy)"""
    R, RM = set(), set()
    W = set()       # digests listed by a retained index under a media type that is not a manifest type: kept as blobs, and
                    # (being entries of the walk) subjects that remain as far as the referrers policy goes
    for t, d in tags.items():
        r1, r2 = c05.retained(gg, dict(pre, refs={}), [d], W)
        R |= r1
        RM |= r2
    changed = True
    while changed:
        changed = False
        for a, m in gg["man"].items():
            s = m.get("subject")
            if not s or a in RM or pre["blob"].get(a) != 200:
                continue
            # the artifact must still be recorded (listed under its subject) to be found at all
            if a not in pre["refs"].get(s, []):
                continue
            if ((s in RM or s in W) and pre["blob"].get(s) == 200) or pre["blob"].get(s) != 200:
                r1, r2 = c05.retained(gg, dict(pre, refs={}), [a], W)
                R |= r1
                RM |= r2
                changed = True
    return R


def oracle(ctx, case, io):
    obs = gcgen.observe(case, io)
    rstate = gcgen.replay_state(case, io)
    g = case["graph"]
    pol = case["conf"]
    exact = all(pol.get(k) == v for k, v in EXACT.items())
    prev_post = {}
    blob_deleted = set()       # (repo, digest) removed by an explicit blob DELETE
    for k, (st, res) in enumerate(zip(case["steps"], io["steps"])):
        if st["kind"] == "blobdel" and res.get("status") == 202:
            blob_deleted.add((st["repo"], st["arg"]))
        if st["kind"] == "snapshot" and st.get("expect_gone") is not None:
            paths = [f["path"] for f in res.get("files") or []]
            r = st["expect_gone"]
            there = any(p == r or p.startswith(r + "/") for p in paths)
            nested = any(p.startswith(r + "/") and not any(p == r + "/" + x or p.startswith(r + "/" + x + "/") for x in ("blobs", "_uploads", "index.json", "oci-layout")) for p in paths)
            lp = prev_post.get(r)
            really_empty = lp is not None and not any(v == 200 for v in lp["blob"].values()) and not (lp["tags"] or [])
            if st["want_gone"] and really_empty and there and not nested:
                ctx.violation("repository %r is empty after the collection but its directory was not removed: %s" % (r, [p for p in paths if p.startswith(r)][:6]),
                              oracles.hist(case, k, None), "C06:empty-not-removed")
            if there:
                # whatever remains must still be a layout
                if (r + "/blobs") in paths and not ((r + "/index.json") in paths and (r + "/oci-layout") in paths):
                    ctx.violation("repository %r keeps blobs but lost index.json / oci-layout" % r, oracles.hist(case, k, None, paths=[p for p in paths if p.startswith(r)][:8]), "C06:layout-torn")
            continue
        if st["kind"] == "gcpass":
            continue
        if st["kind"] != "gc" or "gcid" not in st:
            continue
        o = obs.get(st["gcid"])
        if not o:
            continue
        pre, post = o["pre"], o["post"]
        gg = g[st["repo"]]
        # (the replay carries the probes after the collection: the oracle judges the collection by them)
        kend = max([j for j, s_ in enumerate(case["steps"]) if tuple(s_.get("gcprobe") or ()) == ("post", st["gcid"])] + [k])
        hist = lambda **kw: oracles.hist(case, kend, None, policy={x: pol.get(x) for x in ("untagged", "dangling", "withsubj", "grace_ms", "emptyrepo")}, **kw)
        if res.get("err") and not st.get("may_fail"):
            ctx.violation("collection failed: %s" % res["err"][:200], hist(), "C06:gc-error")
            continue
        # referrers whose subject this pass removed go with it (ReferrersWithSubj): the response kept for the subject is not
        # spared by the grace period - it is an index entry, not an upload
        if dflt(pol.get("withsubj"), True):
            for s_, lst in (post.get("refs") or {}).items():
                if pre["blob"].get(s_) == 200 and post["blob"].get(s_) != 200 and lst:
                    ctx.violation("the collection removed %s but kept the referrers response recorded for it (still listing %s)" % (s_[:19], [x[:19] for x in lst]),
                                  hist(subject=s_), "C06:response-of-removed-subject-kept")
        # exactly the garbage, the other way round (every policy): the referrers of a tagged manifest that stays are not garbage
        roots_ = [d_ for t_, (s_, d_) in pre["tag"].items() if s_ == 200]
        R_, RM_ = c05.retained(gg, pre, roots_)
        for s_, lst in pre["refs"].items():
            if s_ in roots_ and pre["blob"].get(s_) == 200 and post["blob"].get(s_) == 200:
                gone = set(lst) - set(post["refs"].get(s_, []))
                if gone:
                    ctx.violation("the collection removed the referrers %s of the tagged manifest %s, which stays" % (sorted(x[:19] for x in gone), s_[:19]), hist(subject=s_), "C06:referrers-of-retained-removed")
        # no index entry without content
        for d, (s, errs) in post["man"].items():
            if s != 200 and "MANIFEST_BLOB_UNKNOWN" in (errs or []):
                # entries of the in-memory child list (children of an index or of a referrers response) are not pruned
                childish = any(m["kind"] == "index" and d in m["refs"] for m in gg["man"].values()) or bool(gg["man"].get(d, {}).get("subject"))
                # (a tag the collection pruned together with its entry answers MANIFEST_UNKNOWN afterwards: what is left is
                #  the record in the child list)
                tagged_now = any(dd == d and "MANIFEST_UNKNOWN" not in ((post.get("tagerrs") or {}).get(t) or []) for t, dd in rstate[k][0].items())
                # known (F38) only when the content was already missing before this collection; an entry whose content
                # this very collection removed must have been pruned with it
                sig = "C06:child-entry-without-blob" if childish and not tagged_now and pre["blob"].get(d) != 200 else "C06:entry-without-blob"
                ctx.violation("after the collection manifest %s is still recorded in the index but its content is gone" % d[:19], hist(digest=d), sig)
        for t, (s, d) in post["tag"].items():
            if s not in (200, 404):
                ctx.violation("after the collection tag %s answers %s" % (t, s), hist(tag=t), "C06:tag-without-blob")
        for t in post["tags"] or []:
            if post["tag"].get(t, (200,))[0] != 200:
                ctx.violation("after the collection tag %s is listed but does not resolve" % t, hist(tag=t), "C06:tag-without-blob")
        # a second pass changes nothing
        if st.get("second") and st["repo"] in prev_post:
            if prev_post[st["repo"]] != post:
                diff = {x: (prev_post[st["repo"]][x], post[x]) for x in post if prev_post[st["repo"]][x] != post[x]}
                # known: a child entry whose blob was deleted explicitly is only dropped when index.json is re-read
                pm, qm = prev_post[st["repo"]]["man"], post["man"]
                def childish(d):
                    return any(m["kind"] == "index" and d in m["refs"] for m in gg["man"].values()) or bool(gg["man"].get(d, {}).get("subject"))
                def stale(d):
                    a, b = pm.get(d) or (0, []), qm.get(d) or (0, [])
                    return childish(d) and ("MANIFEST_BLOB_UNKNOWN" in (a[1] or []) + (b[1] or []) or (a[0] == 200 and b[0] == 404))
                only_stale = set(diff) == {"man"} and all(stale(d) for d in qm if pm.get(d) != qm.get(d))
                dd = {x: {d: (prev_post[st["repo"]][x].get(d), post[x].get(d)) for d in set(post[x]) | set(prev_post[st["repo"]][x]) if prev_post[st["repo"]][x].get(d) != post[x].get(d)}
                      if isinstance(post[x], dict) else (prev_post[st["repo"]][x], post[x]) for x in diff}
                ctx.violation("a second collection changed the repository: %s" % str(dd)[:300], hist(diff=dd),
                              "C06:child-entry-without-blob" if only_stale else "C06:not-idempotent")
        prev_post[st["repo"]] = post
        # exactness
        if exact and st.get("all_old"):
            E = expected_survivors(gg, pre, rstate[k][0])
            for d in sorted(pre["blob"]):
                if pre["blob"][d] != 200:
                    continue
                kept = post["blob"].get(d) == 200
                if kept and d not in E:
                    ctx.violation("collection left %s, which no tagged manifest or retained referrer references" % d[:19], hist(digest=d), "C06:garbage-left")
                if not kept and d in E:
                    ctx.violation("collection removed %s, which the policy retains" % d[:19], hist(digest=d), "C06:retained-removed")
            for d, (s, errs) in pre["man"].items():
                if s == 200 and d not in E and post["man"].get(d, (0,))[0] == 200:
                    ctx.violation("collection left manifest %s addressable although nothing retained references it" % d[:19], hist(digest=d), "C06:garbage-manifest-left")


def make_cases(ctx, first):
    n = 240 if ctx.tier == "quick" else 6000
    rng = ctx.rng
    pols = gcgen.policies()
    cases = []
    for i in range(n):
        variant = i % 4
        pol = dict(EXACT) if variant in (0, 3) else pols[(i // 4) % len(pols)]
        quiet = variant == 3 and (i // 4) % 3 == 2          # memory store: a store-wide pass after a quiet period and a re-tag
        store = ("mem", "dir")[(i // 2) % 2] if variant != 3 else ("mem" if quiet else "dir")
        emptyrepo = variant == 3 and not quiet and rng.random() < 0.8
        memdir = variant == 0 and (i // 4) % 4 == 1        # built on the directory store, collected by a memory store over that directory
        if memdir:
            store = "dir"
        conf = mkconf(store=store, emptyrepo=emptyrepo, **pol)
        repos = ["a"] if variant != 3 else ["a", "a/b", "c"]
        w = gcgen.GCWorld(rng, conf, repos)
        gcn = 0
        for repo in w.repos:
            w.build(repo)
        if memdir:
            repo = "a"
            w.add(dict(kind="freeze", impl=dict(op="restart", conf=dict(conf, store="memdir")), model="(restart)"))
            freeze_at = len(w.steps)
            g = w.g[repo]
            imgs = [d for d in sorted(g.man) if g.man[d]["kind"] == "image" and not g.man[d].get("subject")]
            if imgs:
                # content that came from the directory is deleted and collected, pushed again, deleted and collected again
                d0 = rng.choice(imgs)
                body, refs, mt0 = g.bytes[d0], list(g.man[d0]["refs"]), g.man[d0]["mt"]
                for rnd in range(2):
                    for t in [t for t, x in list(g.tags.items()) if x == d0]:
                        w.add(manifest_delete(repo, t))
                        g.tags.pop(t, None)
                    w.add(manifest_delete(repo, d0))
                    if rng.random() < 0.5:
                        for r_ in rng.sample(refs, min(len(refs), 1)):
                            w.add(blob_delete(repo, r_))
                            if rng.random() < 0.5:
                                w.add(blob_delete(repo, r_))
                    w.age(repo, "all")
                    gcn += 1
                    w.collect(repo, gcn)
                    if rnd == 0:
                        for r_ in refs:
                            w.blob(repo, g.bytes[r_])
                        kids0 = g.man[d0].get("kids")
                        dn_ = w.push(repo, body, mt0, refs, tag=rng.choice(["t1", "t2"]), kind="image")
                        if kids0:
                            g.man[dn_]["kids"] = list(kids0)
                gcn += 1
                w.collect(repo, gcn)
                gk = [k for k, s_ in enumerate(w.steps) if s_.get("gcid") == gcn][0]
                w.steps[gk]["second"] = True
                w.steps[gk]["all_old"] = True
        if variant != 3:
            for rnd in range(rng.randrange(1, 4)):
                repo = w.repo()
                for _ in range(rng.randrange(0, 4)):
                    w.mutate(repo)
                if rng.random() < 0.3 and w.g[repo].tags:
                    # a pass that has an entry to prune but no blob to delete: the garbage is collected first, then a tagged
                    # image loses its own blob while a twin under another tag still references its config and layers
                    w.age(repo, "all")
                    gcn += 1
                    w.collect(repo, gcn)
                    tagged = [d for d in sorted(set(w.g[repo].tags.values())) if w.g[repo].man.get(d, {}).get("kind") == "image" and not w.g[repo].man[d].get("subject")]
                    if tagged:
                        d0 = rng.choice(tagged)
                        j = json.loads(w.g[repo].bytes[d0].decode())
                        j["annotations"] = dict(j.get("annotations") or {}, twin=str(len(w.steps)))
                        twin = json.dumps(j).encode()
                        dt_ = w.push(repo, twin, MT_OCI_M, list(w.g[repo].man[d0]["refs"]), tag="t2" if w.g[repo].tags.get("t2") != d0 else "t1", kind="image")
                        if w.g[repo].man[d0].get("kids"):
                            w.g[repo].man[dt_]["kids"] = list(w.g[repo].man[d0]["kids"])
                        w.add(blob_delete(repo, d0))
                if rng.random() < 0.3:
                    # an upload session is open (between two chunks, or abandoned) while the collections run: it is none of their business
                    ks_ = w.add(upload_post(repo))
                    if rng.random() < 0.6:
                        w.add(upload_patch(repo, "$SID%d$" % ks_, None, state_token(0), b"half-an-upload"))
                w.age(repo, "all")
                tg_ = w.g[repo].tags
                imgs_ = [d for d in sorted(set(tg_.values())) if w.g[repo].man.get(d, {}).get("kind") == "image" and not w.g[repo].man[d].get("subject")]
                if imgs_ and rng.random() < 0.3:
                    # an old image gets a referrer (young), then the image is deleted and a collection runs inside the referrer's
                    # grace period; later everything is old
                    s0 = rng.choice(imgs_)
                    w.image(repo, tag=None, subject=s0, artifact_type=rng.choice(gen.ATYPES))
                    for t_ in [t_ for t_, x_ in list(tg_.items()) if x_ == s0]:
                        w.add(manifest_delete(repo, t_))
                        tg_.pop(t_, None)
                    w.add(manifest_delete(repo, s0))
                    gcn += 1
                    w.collect(repo, gcn)
                    w.age(repo, "all")
                gcn += 1
                w.collect(repo, gcn)
                w.steps[-1 - len([s for s in w.steps if s.get("gcprobe") == ("post", gcn)])]["all_old"] = True
                gcn += 1
                w.collect(repo, gcn)
                gk = [k for k, s in enumerate(w.steps) if s.get("gcid") == gcn][0]
                w.steps[gk]["second"] = True
                w.steps[gk]["all_old"] = True
        elif quiet:
            # the ticker's pass skips repositories that were not modified since the previous pass: moving a tag to a manifest that
            # is already stored modifies the repository (the manifest it pointed to becomes garbage)
            for repo in w.repos:
                w.age(repo, "all")
            w.add(dict(kind="gcpass", impl=dict(op="gcpass", secs=0), model="(skip)"))
            w.add(special("sleep", secs=0.3))
            target = "a"
            gt = w.g[target]
            imgs = [d for d in sorted(gt.man) if not gt.man[d].get("subject")]
            if not gt.tags or len(imgs) < 2:
                w.image(target, tag="t1")
                w.image(target, tag="t2")
                imgs = [d for d in sorted(gt.man) if not gt.man[d].get("subject")]
                w.age(target, "all")
                w.add(dict(kind="gcpass", impl=dict(op="gcpass", secs=0), model="(skip)"))
                w.add(special("sleep", secs=0.3))
            tg = rng.choice(sorted(gt.tags))
            others = [d for d in imgs if d != gt.tags[tg]] or imgs
            d2 = rng.choice(others)
            w.add(manifest_put(target, tg, gt.bytes[d2], ctype=gt.man[d2]["mt"]))
            gt.tags[tg] = d2
            w.age(target, "all")
            for repo in w.repos:
                w.probe_gc(repo, ("pre", 100 + w.repos.index(repo)))
            w.add(dict(kind="gcpass", impl=dict(op="gcpass", secs=0.1), model="(skip)"))
            for repo in w.repos:
                w.probe_gc(repo, ("post", 100 + w.repos.index(repo)))
                w.add(dict(gcgen.gc_step(repo), gcid=100 + w.repos.index(repo), tags=dict(w.g[repo].tags), all_old=True, may_fail=True))
                gcn += 1
                w.probe_gc(repo, ("pre", 200 + gcn))
                w.add(dict(gcgen.gc_step(repo), gcid=200 + gcn, tags=dict(w.g[repo].tags), second=True, may_fail=True))
                w.probe_gc(repo, ("post", 200 + gcn))
        else:
            # store-wide pass over healthy, emptied, corrupt and never-created repositories (directory store)
            target = "a"
            if rng.random() < 0.6:
                # content addressed with the other digest algorithms (left without a manifest: a collection removes it)
                for alg in rng.sample(["sha512", "sha384", "sha512"], rng.randrange(1, 3)):
                    data = b"other-alg-%s-%d" % (alg.encode(), i)
                    w.contents.add(data)
                    w.add(upload_post(target, digest=dg(alg, data), body=data))
            for t in sorted(w.g[target].tags):
                w.add(manifest_delete(target, t))
            w.g[target].tags.clear()
            for repo in w.repos:
                w.age(repo, "all")
            broken = rng.choice([None, "c", "c"])
            if broken:
                w.add(dict(kind="write", impl=dict(op="write", files=[dict(path=broken + "/index.json", b64=b64(b'{"schemaVersion":2,"manifests":['))]), model="(skip)"))
            w.add(tag_list("ghost/repo"))          # a name that was only probed: tracked by the store, nothing on disk
            for repo in w.repos:
                w.probe_gc(repo, ("pre", 100 + w.repos.index(repo)))
            w.add(dict(kind="gcpass", impl=dict(op="gcpass", secs=0), model="(skip)"))
            for repo in w.repos:
                if repo != broken:
                    # the pass must have collected this repository although another one failed: same observations as
                    # after an explicit collection, which therefore finds nothing left to do
                    w.probe_gc(repo, ("post", 100 + w.repos.index(repo)))
                    gcn += 1
                    k = w.add(dict(gcgen.gc_step(repo), gcid=100 + w.repos.index(repo), tags=dict(w.g[repo].tags), all_old=True, may_fail=True))
                    w.probe_gc(repo, ("pre", 200 + gcn))
                    k2 = w.add(dict(gcgen.gc_step(repo), gcid=200 + gcn, tags=dict(w.g[repo].tags), second=True, may_fail=True))
                    w.probe_gc(repo, ("post", 200 + gcn))
            nothing_left = not w.g[target].tags
            w.add(dict(special("snapshot"), expect_gone=target, want_gone=bool(emptyrepo and nothing_left and broken != target)))
            for s in w.steps:
                s["model"] = "(skip)" if s["kind"] not in ("freeze",) and False else s["model"]
        case = dict(id=first + i, conf=conf, steps=w.steps, contents=sorted(w.contents), graph=c05.graph_json(w))
        if variant == 3:
            for s in case["steps"]:
                s["model"] = "(skip)"
        if memdir:
            # the memory store over a directory is outside the model
            for s in case["steps"][freeze_at - 1:]:
                s["model"] = "(skip)" if s["kind"] != "freeze" else s["model"]
        cases.append(case)
    return cases


def late_blob_check(ctx):
    """the ticker's store-wide pass as it is (with its own test which repositories were modified recently enough to be visited):
    a blob that arrives long after the last index write and is never referenced is gone after the first pass that runs once its
    grace period is over - the repository stays in the range of the passes because of that blob"""
    binp = api_binary(ctx)
    cases = []
    n = 4 if ctx.tier == "quick" else 12
    for i in range(n):
        for store in ("mem", "dir"):
            cfg = b"{}"
            m = image_manifest(desc(MT_CFG, cfg), [], annotations={"late": str(i)})
            X = b"late-unreferenced-blob-%d" % i
            gp = lambda secs: dict(kind="gcpass", impl=dict(op="gcpass", secs=secs, partial=True), model="(skip)")
            steps = [upload_post("a", digest=dg("sha256", cfg), body=cfg), manifest_put("a", "t1", m, ctype=MT_OCI_M),
                     special("sleep", secs=1.1)]
            if i % 4 == 3:
                # pushed, and pushed again (acknowledged: the content counts as uploaded then) just before its grace period ends:
                # the passes have to keep visiting the repository until the second grace period is over
                steps += [upload_post("a", digest=dg("sha256", X), body=X), special("sleep", secs=0.27), upload_post("a", digest=dg("sha256", X), body=X),
                          special("sleep", secs=0.27), upload_post("a", digest=dg("sha256", X), body=X)]
            elif i % 4 == 0:
                steps.append(upload_post("a", digest=dg("sha256", X), body=X))
            elif i % 4 == 1:
                steps += [upload_post("a"), upload_put("a", "$SID%d$" % len(steps), None, dg("sha256", X), state_token(0), X)]
            else:
                # a slow upload: the session is opened, the content completed more than a pass and a grace period later, and the
                # index is read (and found changed on disk? no: re-read) before the next pass
                ks_ = len(steps)
                steps.append(upload_post("a"))
                off = 0
                for q in range(6):
                    # (a chunk now and then keeps the session from expiring: its lifetime is the grace period)
                    part = X[off:off + 4]
                    steps += [special("sleep", secs=0.2), upload_patch("a", "$SID%d$" % ks_, None, state_token(off), part)]
                    off += len(part)
                steps += [upload_put("a", "$SID%d$" % ks_, None, dg("sha256", X), state_token(off), X[off:]), manifest_get("a", "t1"), tag_list("a")]
            for j in range(9):
                steps += [gp(0.1), dict(blob_get("a", dg("sha256", X), head=True), passno=j + 1), special("sleep", secs=0.1)]
            steps += [manifest_get("a", "t1")]
            for st in steps:
                st["model"] = "(skip)"
            cases.append(dict(id=940000 + len(cases), conf=mkconf(store=store, grace_ms=300), steps=steps))
    iouts = run_api(ctx, binp, cases, name="lateblob")
    nbad = 0
    for c in cases:
        io = iouts[c["id"]]["steps"]
        seen = [(st["passno"], r.get("status")) for st, r in zip(c["steps"], io) if st.get("passno")]
        if io[-1].get("status") != 200:
            ctx.violation("the tagged manifest is gone after the store-wide passes (%s store)" % c["conf"]["store"], dict(case=replayable(c)), "C06:pass-removed-tagged")
            nbad += 1
        # passes run every 0.2 s; the grace period (0.3 s) is over from the third pass on: two more passes for scheduling slack
        if not any(s_ == 404 for p_, s_ in seen if p_ >= 3):
            nbad += 1
            ctx.violation("%s store: an unreferenced blob uploaded (in one request, through a session, or through a slow session kept open for 1.2 s) more than a second after the last index write is still there after %d store-wide passes, 1.5 s past its grace period (answers per pass: %s): "
                          "the pass no longer visits the repository" % (c["conf"]["store"], len(seen), [s_ for _, s_ in seen]), dict(case=replayable(c), answers=seen), "C06:pass-skips-repository-with-late-blob")
    return len(cases), nbad


def nested_empty_check(ctx):
    """a repository and the repositories nested in its directory, all emptied (removal of empty repositories on): one store-wide
    pass removes them all, in whatever order the store lists them, and a second pass finds nothing to do"""
    binp = api_binary(ctx)
    rng = ctx.rng
    cases = []
    n = 3 if ctx.tier == "quick" else 12
    for i in range(n):
        names = [["a", "a/b"], ["a", "a/b", "a/b/c"], ["x/y", "x", "a"]][i % 3]
        keep = "a" if i % 3 == 2 else None
        steps = []
        cfg = b"{}"
        for r_ in names:
            m = image_manifest(desc(MT_CFG, cfg), [], annotations={"nested": "%d-%s" % (i, r_)})
            steps += [upload_post(r_, digest=dg("sha256", cfg), body=cfg), manifest_put(r_, "t1", m, ctype=MT_OCI_M)]
            if r_ != keep:
                steps += [manifest_delete(r_, "t1"), manifest_delete(r_, dg("sha256", m))]
        for r_ in names:
            steps.append(gcgen.age_step(r_, "", 7200))
        steps.append(dict(kind="gcpass", impl=dict(op="gcpass", secs=0, partial=bool(i % 2)), model="(skip)"))
        steps.append(dict(special("snapshot"), after_pass=1))
        steps.append(dict(kind="gcpass", impl=dict(op="gcpass", secs=0, partial=bool(i % 2)), model="(skip)"))
        steps.append(dict(special("snapshot"), after_pass=2))
        for st in steps:
            st["model"] = "(skip)"
        cases.append(dict(id=945000 + i, conf=mkconf(store="dir", emptyrepo=True, untagged=True, grace_ms=-1), steps=steps, names=names, keep=keep))
    iouts = run_api(ctx, binp, cases, name="nested")
    nbad = 0
    for c in cases:
        io = iouts[c["id"]]["steps"]
        snaps = {st["after_pass"]: sorted(f["path"] for f in (r.get("files") or [])) for st, r in zip(c["steps"], io) if st.get("after_pass")}
        left = [r_ for r_ in c["names"] if r_ != c["keep"] and any(p == r_ + "/index.json" or p == r_ + "/oci-layout" or p.startswith(r_ + "/blobs") for p in snaps.get(1, []))]
        if left or snaps.get(1) != snaps.get(2):
            nbad += 1
            ctx.violation("repositories %s, all emptied (one nested in the directory of the other): after one store-wide pass %s still %s there; %s"
                          % ([r_ for r_ in c["names"] if r_ != c["keep"]], left or "none", "are" if len(left) != 1 else "is",
                             "a second pass changed the directory: %s -> %s" % (snaps.get(1), snaps.get(2)) if snaps.get(1) != snaps.get(2) else "a second pass changed nothing"),
                          dict(case=replayable(c), after_first=snaps.get(1), after_second=snaps.get(2)), "C06:nested-empty-repositories-need-two-passes")
    return len(cases), nbad


def run(ctx):
    res = {}

    def extra(cases, iouts):
        res["late"] = late_blob_check(ctx)
        res["nested"] = nested_empty_check(ctx)
    _run(ctx, extra)
    if res:
        ctx.coverage["store_wide_pass_late_blob_cases"], ctx.coverage["late_blobs_never_collected"] = res["late"]
        ctx.coverage["nested_empty_repository_cases"], ctx.coverage["nested_empty_left_after_one_pass"] = res["nested"]


def _run(ctx, extra):
    apicheck.run(ctx, "C06", make_cases, oracle, extra=extra,
                 assumptions=["exactness is asserted by the oracle for the policy (untagged on, grace disabled, referrers with subject, dangling kept) only; for the other policy "
                              "combinations the code's result is compared with the model (coq/GC.v) and checked for convergence and for entries without content",
                              "the store-wide pass and the removal of emptied repository directories are checked on the directory store by the oracle (the API-level model has no file system)"])
