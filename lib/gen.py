"""History generator for the API-level checks.  One random.Random drives every choice.
The generator keeps a *belief* about the registry (what it pushed where) only to make
most requests meaningful; nothing depends on the belief being right: whatever it
emits is sent verbatim to both the implementation and the model."""
import base64
import json

from api import *

REPOS = ["a", "a/b", "proj/app"]
TAGS = ["t1", "t2", "v1.0", "latest", "T_x-9"]
BLOBS = [b"", b"{}", b"hello", b"layer-one-data", b"\x00\x01\x02\xff binary", b"L" * 300]
ATYPES = ["application/vnd.example.sbom", "application/vnd.example.sig"]
# artifact types are opaque strings, compared as they are: letter case, parameters and blanks are part of them
ODD_ATYPES = ["application/vnd.example.SBOM.v1+json", "application/vnd.example.sig; v=1", " application/vnd.example.sig", "Application/Vnd.Example.Sbom"]
FOREIGN = "application/vnd.oci.image.layer.nondistributable.v1.tar"

DEFAULT_PROFILE = dict(blob=3, chunked=3, mount=1, image=4, index=2, artifact=2, mread=3, bread=2, tags=2,
                       refs=2, mdel=1, bdel=0.5, sess=2, bad=1.5)


def pick(rng, weights):
    tot = sum(weights.values())
    x = rng.random() * tot
    for k, w in weights.items():
        x -= w
        if x <= 0:
            return k
    return k


class World:
    def __init__(self, rng, conf, repos=None, profile=None):
        self.rng = rng
        self.conf = conf
        self.repos = repos or REPOS[:2]
        self.profile = dict(DEFAULT_PROFILE)
        if profile:
            self.profile.update(profile)
        self.steps = []
        self.contents = set()
        self.blobs = {r: [] for r in self.repos}       # contents believed pushed
        self.manifests = {r: [] for r in self.repos}   # (body, mediatype) believed pushed
        self.tags = {r: set() for r in self.repos}
        self.subjects = {r: set() for r in self.repos}
        self.sessions = []                             # dict(repo, k (step index), size, alg, chunks)

    # -- helpers
    def add(self, step):
        self.steps.append(step)
        if step.get("body"):
            self.contents.add(step["body"])
        k = len(self.steps) - 1
        if step["kind"] == "upost" and (self.conf.get("uploadmax") or 1000) < 50:
            # the count prune is started asynchronously by the insertion that exceeds the limit: run it
            # synchronously right away so that the history is deterministic
            self.steps.append(prune_count(step["repo"]))
        return k

    def repo(self):
        return self.rng.choice(self.repos)

    def alg(self):
        r = self.rng.random()
        return "sha256" if r < 0.6 else ("sha512" if r < 0.85 else "sha384")

    def content(self):
        rng = self.rng
        if rng.random() < 0.7:
            return rng.choice(BLOBS)
        return bytes(rng.randrange(256) for _ in range(rng.randrange(1, 40)))

    def wrong_digest(self, alg, data):
        r = self.rng.random()
        if r < 0.35:
            return dg(alg, data + b"x")                       # valid form, other content
        if r < 0.55:
            other = self.rng.choice([a for a in ALGS if a != alg])
            return other + ":" + hashlib.new(alg, data).hexdigest()   # wrong algorithm name for this hex
        if r < 0.7:
            return dg(alg, data).upper()
        if r < 0.85:
            return dg(alg, data)[:-2]
        return self.rng.choice(["sha256:", "md5:" + "0" * 32, "sha256:" + "g" * 64, "not:a:digest"])

    # -- blob pushes
    def push_blob(self, repo=None, data=None, how=None):
        rng = self.rng
        repo = repo or self.repo()
        data = self.content() if data is None else data
        self.contents.add(data)
        alg = self.alg()
        d = dg(alg, data)
        bad = rng.random() < 0.12 * self.profile["bad"]
        dsend = self.wrong_digest(alg, data) if bad else d
        if bad and self.blobs[repo] and rng.random() < 0.25:
            other = rng.choice(self.blobs[repo])
            if other != data:
                dsend = dg("sha256", other)      # a digest that is present, with a body that is not its content
        how = how or pick(rng, dict(mono=self.profile["blob"] * self.profile.get("mono", 1), postput=self.profile["blob"], chunked=self.profile["chunked"]))
        if how == "mono":
            aq = rng.choice([None, None, alg, rng.choice(ALGS), "md5"]) if rng.random() < 0.3 else None
            self.add(upload_post(repo, digest=dsend, alg=aq, body=data, unknown=rng.random() < 0.2))
        else:
            # session algorithm at creation may differ from the one of the final digest
            aq = rng.choice([None, None, alg, rng.choice(ALGS)])
            k = self.add(upload_post(repo, alg=aq))
            sid = "$SID%d$" % k
            size = 0
            if how == "chunked":
                n = rng.randrange(0, 4)
                cuts = sorted(rng.randrange(0, len(data) + 1) for _ in range(n))
                parts = [data[a:b] for a, b in zip([0] + cuts, cuts + [len(data)])]
                last = parts.pop() if rng.random() < 0.6 else b""
                for p in parts:
                    # occasional out-of-order / stale / malformed attempts that must be refused
                    if rng.random() < 0.15 * self.profile["bad"]:
                        self.bad_chunk(repo, sid, size, p)
                    cr = rng.choice([None, "%d-%d" % (size, size + len(p) - 1), "%d-" % size])
                    self.add(upload_patch(repo, sid, cr, state_token(size), p, unknown=rng.random() < 0.2))
                    size += len(p)
                    if rng.random() < 0.2:
                        self.add(upload_get(repo, sid))
                final = last
            else:
                final = data
            if rng.random() < 0.1 * self.profile["bad"]:
                self.bad_chunk(repo, sid, size, final, put_digest=d)
            cr = rng.choice([None, None, "%d-%d" % (size, size + len(final) - 1)])
            self.add(upload_put(repo, sid, cr, dsend, state_token(size), final))
            if bad and rng.random() < 0.5:
                # the session must be gone after a failed verification
                self.add(upload_get(repo, sid))
                self.add(upload_put(repo, sid, None, d, state_token(size + len(final)), b""))
        if not bad:
            self.blobs[repo].append(data)
        self.add(blob_get(repo, d, head=rng.random() < 0.2))
        if bad and dvalid_py(dsend):
            self.add(blob_get(repo, dsend))
        return data

    def bad_chunk(self, repo, sid, size, p, put_digest=None):
        rng = self.rng
        kind = rng.choice(["stale", "future", "badstate", "badrange", "otherrepo", "nostate", "neg"])
        cr, st, rp = None, state_token(size), repo
        if kind == "stale":
            off = max(0, size - rng.randrange(1, 3)) if size > 0 else 1
            cr, st = rng.choice([("%d-%d" % (off, off + len(p)), state_token(size)), (None, state_token(off))])
        elif kind == "future":
            off = size + rng.randrange(1, 4)
            cr, st = rng.choice([("%d-%d" % (off, off + len(p)), state_token(size)), (None, state_token(off))])
        elif kind == "badstate":
            st = rng.choice(["!!!", raw_token("{}") if size else "%%%", raw_token('{"offset":"x"}'), raw_token("[1]"),
                             raw_token('{"offset":1.5}'), "A", raw_token('{"offset":%d}' % (size + 2 ** 40))])
        elif kind == "badrange":
            cr = rng.choice(["-5", "x-y", "bytes=0-1", "%d" % size, "-", " %d-9" % size, "%d-9" % (size + 2 ** 63)])
        elif kind == "otherrepo":
            rp = rng.choice([r for r in self.repos if r != repo] or [repo])
        elif kind == "nostate":
            st = None
        elif kind == "neg":
            st = state_token(-1 - size)
        if put_digest and rng.random() < 0.5:
            self.add(upload_put(rp, sid, cr, put_digest, st, p))
        else:
            self.add(upload_patch(rp, sid, cr, st, p))
        self.add(upload_get(repo, sid))

    def mount(self):
        rng = self.rng
        tgt = self.repo()
        src = rng.choice([r for r in self.repos if r != tgt] or [tgt])
        pool = self.blobs[src] or [self.content()]
        data = rng.choice(pool) if rng.random() < 0.7 else self.content()
        alg = self.alg()
        d = dg("sha256", data) if rng.random() < 0.6 else dg(alg, data)
        frm = src
        r = rng.random()
        if r < 0.12:
            frm = rng.choice(["../" + src, src + "/../" + src, "UPPER", "a//b", "", "nosuchrepo", tgt])
        elif r < 0.2:
            frm = None
        k = self.add(upload_post(tgt, mount=d, frm=frm))
        self.add(blob_get(tgt, d))
        if rng.random() < 0.4:
            # finish the fallback session if one was opened (refused otherwise)
            sid = "$SID%d$" % k
            x = rng.random()
            body = data
            dput = d
            if x < 0.2:
                dput = dg(alg, data + b"!")             # a digest the body does not hash to
            elif x < 0.45:
                # other content than the session was opened for, with its own (correct) digest
                body = data + b"-other"
                self.contents.add(body)
                dput = dg(d.split(":")[0], body)
            self.add(upload_put(tgt, sid, None, dput, state_token(0), body))
            self.add(blob_get(tgt, d))
            self.add(upload_get(tgt, sid))
        self.contents.add(data)
        if rng.random() < 0.25:
            self.mount_twice()

    def mount_twice(self):
        """two fallback sessions opened for the same digest (mounts from a repository that does not hold it), completed in
        an interleaved way - one with the content, one with something else: each session has its own staging"""
        rng = self.rng
        tgt = self.repo()
        data = b"twice-" + self.content() + bytes([65 + rng.randrange(26)]) * rng.randrange(1, 20)
        self.contents.add(data)
        alg = rng.choice(["sha256", "sha256", "sha512"])
        d = dg(alg, data)
        k1 = self.add(upload_post(tgt, mount=d, frm="nosuch/source"))
        k2 = self.add(upload_post(tgt, mount=d, frm="nosuch/source"))
        s1, s2 = "$SID%d$" % k1, "$SID%d$" % k2
        junk = b"GARBAGE-" * rng.randrange(1, 4)
        order = rng.choice(["12", "21", "1x2", "2x1"])
        if "x" in order:
            # one of them sends a first chunk before the other one completes
            first, other = (s1, s2) if order[0] == "1" else (s2, s1)
            h = len(data) // 2
            self.add(upload_patch(tgt, first, None, state_token(0), data[:h]))
            self.add(upload_put(tgt, other, None, d, state_token(0), junk))
            self.add(blob_get(tgt, d))
            self.add(upload_put(tgt, first, None, d, state_token(h), data[h:]))
        else:
            good, bad_ = (s1, s2) if order == "12" else (s2, s1)
            self.add(upload_put(tgt, good, None, d, state_token(0), data))
            self.add(blob_get(tgt, d))
            self.add(upload_put(tgt, bad_, None, d, state_token(0), junk))
        self.add(blob_get(tgt, d))
        self.add(blob_get(tgt, d, head=True))

    # -- manifests
    def ensure_blob(self, repo, data):
        if data not in self.blobs[repo]:
            self.contents.add(data)
            self.add(upload_post(repo, digest=dg("sha256", data), body=data))
            self.blobs[repo].append(data)

    def make_image(self, repo, artifact=False, missing=False):
        rng = self.rng
        cfg = rng.choice([b"{}", b'{"architecture":"amd64"}', b""])
        nl = rng.randrange(0, 3)
        layers = [rng.choice(BLOBS[2:]) for _ in range(nl)]
        elsewhere = None
        for c in [cfg] + layers:
            if missing and rng.random() < 0.6:
                if rng.random() < 0.5 and len(self.repos) > 1:
                    # present only in another repository
                    other = rng.choice([r for r in self.repos if r != repo])
                    c2 = c + b"-only-in-" + other.encode()
                    self.ensure_blob(other, c2)
                    elsewhere = c2
                continue
            self.ensure_blob(repo, c)
        if elsewhere is not None:
            layers.append(elsewhere)
        elif missing:
            layers.append(b"never-pushed-" + bytes([65 + rng.randrange(26)]))
        ldescs = []
        for l in layers:
            mt = MT_LAYER if rng.random() < 0.85 else FOREIGN
            ldescs.append(desc(mt, l, alg=rng.choice(["sha256", "sha256", "sha512"]) if l in self.blobs[repo] and False else "sha256"))
        cmt = MT_CFG
        at = None
        subject = None
        ann = None
        if artifact:
            cmt = rng.choice([MT_EMPTY, ATYPES[0], MT_CFG])
            at = rng.choice([None, ATYPES[0], ATYPES[1]]) if rng.random() < 0.8 else rng.choice(ODD_ATYPES)
            subject = self.pick_subject(repo)
            ann = rng.choice([None, {"k": "v"}, {"org.example.a": "1", "z": ""}, {}])
        mt_field = rng.choice([MT_OCI_M, MT_OCI_M, MT_OCI_M, None, MT_DOCK_M])
        if mt_field == MT_DOCK_M:
            cmt = "application/vnd.docker.container.image.v1+json"
        body = image_manifest(desc(cmt, cfg), ldescs, subject=subject, artifact_type=at, annotations=ann,
                              media_type=mt_field, pad=rng.choice([0, 0, 0, 3]))
        return body, (mt_field or (MT_DOCK_M if cmt.startswith("application/vnd.docker.") else MT_OCI_M))

    def pick_subject(self, repo):
        rng = self.rng
        r = rng.random()
        ms = self.manifests[repo]
        if ms and r < 0.7:
            b, mt = rng.choice(ms)
            d = desc(mt, b, alg="sha256")
        elif r < 0.85:
            d = desc(MT_OCI_M, b"dangling-subject-%d" % rng.randrange(3))
        else:
            d = desc(MT_OCI_M, b"sha512-subject", alg="sha512")
        self.subjects[repo].add(d["digest"])
        return d

    def make_index(self, repo, artifact=False, missing=False):
        rng = self.rng
        ms = self.manifests[repo]
        kids = []
        for _ in range(rng.randrange(0, 3)):
            if ms:
                b, mt = rng.choice(ms)
                extra = {}
                if rng.random() < 0.4:
                    extra["platform"] = {"architecture": rng.choice(["amd64", "arm64"]), "os": "linux"}
                if rng.random() < 0.3:
                    # annotations of a child descriptor belong to the index that lists it: a name there is not a tag of the repository
                    extra["annotations"] = rng.choice([{"org.opencontainers.image.ref.name": rng.choice(TAGS)}, {"note": "child"},
                                                       {"org.opencontainers.image.ref.name": rng.choice(TAGS[:3]), "k": "v"}])
                kd = desc(mt, b, **extra)
                if rng.random() < 0.15:
                    kd["size"] = rng.choice([0, max(0, len(b) - 1), len(b) // 2, len(b) + 9])      # (the client's word, not checked)
                kids.append(kd)
        if missing:
            kids.append(desc(MT_OCI_M, b"missing-child-%d" % rng.randrange(5)))
        subject = self.pick_subject(repo) if artifact else None
        at = rng.choice([None, ATYPES[0]]) if artifact else None
        mt_field = rng.choice([MT_OCI_I, MT_OCI_I, None, MT_DOCK_I])
        ann = rng.choice([None, None, {"idx": "1"}])
        if (not kids or mt_field == MT_OCI_I) and subject is None and ann is None:
            # the bytes of an un-annotated OCI index can equal those of a referrers response generated by the server
            # (an emptied one, or one listing exactly the same descriptors), whose digest the model keeps symbolic:
            # keep client bodies distinguishable
            ann = {"idx": "0"}
        body = index_manifest(kids, subject=subject, artifact_type=at, media_type=mt_field, annotations=ann)
        return body, (mt_field or MT_OCI_I)

    def push_manifest(self, kind="image", repo=None):
        rng = self.rng
        repo = repo or self.repo()
        missing = rng.random() < 0.1 * self.profile["bad"]
        artifact = kind == "artifact"
        if kind == "index" or (artifact and rng.random() < 0.25):
            body, mt = self.make_index(repo, artifact=artifact, missing=missing)
        else:
            body, mt = self.make_image(repo, artifact=artifact, missing=missing)
        self.contents.add(body)
        alg = "sha256" if rng.random() < 0.75 else rng.choice(["sha384", "sha512"])
        d = dg(alg, body)
        r = rng.random()
        dq = None
        if r < 0.55:
            ref = rng.choice(TAGS[:3] if rng.random() < 0.8 else TAGS)
            if rng.random() < 0.2:
                dq = d if rng.random() < 0.7 else self.wrong_digest(alg, body)
        else:
            ref = d
        bad = False
        ctype = mt
        x = rng.random()
        if x < 0.12:
            ctype = None
        elif x < 0.2:
            ctype = mt + "; charset=utf-8" if rng.random() < 0.5 else mt.upper()
        if rng.random() < 0.12 * self.profile["bad"]:
            bad = True
            y = rng.choice(["wrongdigest", "badctype", "othertype", "truncated", "trailing", "badref", "notjson",
                            "toolarge", "typemismatch", "bodytype", "baddigestref", "wrongtype", "wrongtype", "schemaversion", "badheader"])
            if y == "wrongdigest":
                ref = self.wrong_digest(alg, body)
            elif y == "badctype":
                ctype = rng.choice(["application/json", "text/plain", "application/vnd.oci.image.config.v1+json"])
            elif y == "othertype":
                ctype = MT_OCI_I if mt in (MT_OCI_M, MT_DOCK_M) else MT_OCI_M
            elif y == "schemaversion":
                # a schemaVersion other than 2 (or none): what kind of manifest the body is does not depend on it
                try:
                    j = json.loads(body)
                    v_ = rng.choice([1, 3, None, 0])
                    if v_ is None:
                        j.pop("schemaVersion", None)
                    else:
                        j["schemaVersion"] = v_
                    body = jdump(j)
                    self.contents.add(body)
                    ref = rng.choice([TAGS[0], dg(alg, body)])
                    if rng.random() < 0.7:
                        ctype = rng.choice([MT_OCI_I, MT_DOCK_I]) if mt in (MT_OCI_M, MT_DOCK_M) else rng.choice([MT_OCI_M, MT_DOCK_M])
                    else:
                        bad = False          # (a control: the right kind of Content-Type)
                except Exception:
                    pass
            elif y == "badheader":
                # Content-Type values that are not a media type at all (the body is fine)
                ctype = rng.choice(["text html", "application/json, text/plain", "application/", "/", mt + "/extra", "=utf-8", mt + " ; ; x", "a/b/c"])
            elif y == "truncated":
                body = body[:max(1, len(body) // 2)]
                ref = rng.choice([TAGS[0], dg(alg, body)])
            elif y == "trailing":
                body = body + rng.choice([b"}", b"{}", b" x", b"\n[]"])
                ref = rng.choice([TAGS[0], dg(alg, body)])
            elif y == "badref":
                ref = rng.choice(["-bad", "a" * 129, "sha256:xyz", "tag!", ".dot", "sha256:" + "A" * 64])
            elif y == "notjson":
                body = rng.choice([b"", b"[]", b"null", b'"str"', b"{", b'{"schemaVersion":"2","config":{}}',
                                   b'{"layers":"x","config":{"mediaType":"m"}}', b'{"manifests":5}',
                                   b'{"config":"c","manifests":[]}'])
                ref = rng.choice([TAGS[0], dg(alg, body)])
            elif y == "toolarge":
                body = body + b" " * (self.conf["mlimit"] + rng.choice([-len(body), 1 - len(body), 1, 50]))
                ref = rng.choice([TAGS[0], dg(alg, body)])
            elif y == "typemismatch":
                ctype = rng.choice([MT_DOCK_M, MT_DOCK_I, MT_OCI_I, MT_OCI_M])
            elif y == "baddigestref" and not missing:
                # a referenced digest that is not a digest (truncated, unknown algorithm, upper-case hex, empty)
                j = json.loads(body)
                pool = [x for x in [j.get("config")] + list(j.get("layers") or []) + list(j.get("manifests") or []) if isinstance(x, dict) and x.get("digest")]
                if pool:
                    x = rng.choice(pool)
                    d0 = x["digest"]
                    x["digest"] = rng.choice([d0[:-3], "md5:" + d0.split(":")[1][:32], d0.split(":")[0] + ":" + d0.split(":")[1].upper(), d0.split(":")[1], "sha256:", d0 + "00"])
                    body = json.dumps(j).encode()
                    ref = rng.choice([TAGS[0], TAGS[1], dg(alg, body)])
                else:
                    bad = False
            elif y == "wrongtype" and not missing:
                # valid JSON with a member of the wrong type: encoding/json reports an error but has filled in what it could
                j = json.loads(body)
                z = rng.choice(["schema", "size", "ann", "layersobj"])
                if z == "schema":
                    j["schemaVersion"] = "2"
                elif z == "size" and (j.get("layers") or j.get("manifests") or j.get("config")):
                    tgt = rng.choice([x for x in [j.get("config")] + list(j.get("layers") or []) + list(j.get("manifests") or []) if isinstance(x, dict)])
                    tgt["size"] = str(tgt.get("size", 0))
                elif z == "ann":
                    j["annotations"] = dict(j.get("annotations") or {}, n=7)
                else:
                    j["schemaVersion"] = [2]
                body = json.dumps(j).encode()
                ref = rng.choice([TAGS[0], TAGS[1], TAGS[2], dg(alg, body)])
            elif y == "bodytype":
                # the body declares a media type that is not a manifest type (or the other kind) whatever the header says
                j = json.loads(body)
                j["mediaType"] = rng.choice(["application/vnd.oci.image.config.v1+json", "application/vnd.docker.distribution.manifest.v1+json",
                                             "application/vnd.example.unknown+json", "application/json", MT_OCI_I if "config" in j else MT_OCI_M])
                body = json.dumps(j).encode()
                ref = rng.choice([TAGS[0], TAGS[1], dg(alg, body)])
                ctype = rng.choice([ctype, ctype, None, MT_OCI_M, MT_DOCK_M, MT_OCI_I])
            self.contents.add(body)
        unknown = rng.random() < 0.25
        gid = None
        if (bad or missing) and rng.random() < 0.7 or rng.random() < 0.08:
            gid = len(self.steps)
            self.probe_repo(repo, ("pre", gid))
        k = self.add(manifest_put(repo, ref, body, ctype=ctype, dq=dq, unknown=unknown))
        if gid is not None:
            self.steps[k]["probed"] = gid
            self.probe_repo(repo, ("post", gid))
        self.refcheck(repo, body, k)
        if not bad and not missing:
            self.manifests[repo].append((body, mt))
            if is_tag_py(ref):
                self.tags[repo].add(ref)
        # read back
        if rng.random() < 0.6:
            self.add(manifest_get(repo, ref, head=rng.random() < 0.3))
        if rng.random() < 0.3 and dvalid_py(dg(alg, body)):
            self.add(manifest_get(repo, dg(alg, body)))
        return body

    # -- reads
    def read_manifest(self):
        rng = self.rng
        repo = self.repo()
        ms = self.manifests[repo]
        r = rng.random()
        b = None
        if r < 0.45 and self.tags[repo]:
            ref = rng.choice(sorted(self.tags[repo]))
        elif r < 0.85 and ms:
            b, _ = rng.choice(ms)
            ref = dg(rng.choice(["sha256", "sha256", "sha512"]), b)
        else:
            ref = rng.choice(["nosuchtag", dg("sha256", b"nothing"), "sha256:zz", "UPPER", TAGS[4]])
        acc = rng.choice([None, (MT_OCI_M,), (MT_OCI_I,), (MT_OCI_M + ", " + MT_OCI_I,), (MT_DOCK_M, MT_OCI_M),
                          ("*/*",), (), ("Application/VND.oci.image.manifest.v1+json; q=0.5",),
                          (MT_OCI_M, MT_OCI_I, MT_DOCK_M, MT_DOCK_I),
                          # one header line, separators without a space, parameters, stray white space
                          (MT_OCI_M + "," + MT_OCI_I,), (MT_OCI_I + ";q=0.9," + MT_OCI_M + ";q=0.8",), ("text/plain," + MT_DOCK_M + "," + MT_OCI_M,),
                          (" " + MT_OCI_I + " ,\t" + MT_OCI_M,), (MT_DOCK_I + "," + MT_DOCK_M + "," + MT_OCI_I + "," + MT_OCI_M,)])
        kw = {}
        if acc is not None:
            kw["accept"] = acc
        rngv = None
        if rng.random() < 0.15 and b is not None:
            L = len(b)
            if L > 1:
                a = rng.randrange(0, L)
                rngv = (a, rng.randrange(a, L))
        self.add(manifest_get(repo, ref, head=rng.random() < 0.25, rng=rngv, **kw))

    def read_blob(self):
        rng = self.rng
        repo = self.repo()
        pool = self.blobs[repo] + [b for b, _ in self.manifests[repo]]
        if pool and rng.random() < 0.8:
            data = rng.choice(pool)
            d = dg(rng.choice(["sha256", "sha256", "sha512", "sha384"]), data)
            rngv = None
            if len(data) > 1 and rng.random() < 0.3:
                a = rng.randrange(0, len(data))
                rngv = (a, rng.randrange(a, len(data)))
            self.add(blob_get(repo, d, head=rng.random() < 0.3, rng=rngv))
        else:
            self.add(blob_get(repo, rng.choice([dg("sha256", b"nope"), "sha256:short", "uploads", "sha256:" + "F" * 64])))

    def list_tags(self):
        rng = self.rng
        repo = self.repo() if rng.random() < 0.9 else "never/used"
        tags = sorted(self.tags.get(repo, []))
        n = rng.choice([None, None, "0", "1", "2", "-1", "-7", "3", "100", str(len(tags)), str(max(0, len(tags) - 1)),
                        "x", "", "1.5", "9223372036854775808", "+1", " 1", "007"])
        last = rng.choice([None, None] + tags + ["", "t", "zzz", "T", "t1x", "0"])
        self.add(tag_list(repo, n, last, head=rng.random() < 0.1))

    def walk_tags(self, repo=None):
        repo = repo or self.repo()
        self.add(tag_list(repo, None, None))
        self.add(tag_walk(repo, self.rng.choice([1, 1, 2, 3, 7])))

    def list_referrers(self):
        rng = self.rng
        repo = self.repo()
        subs = sorted(self.subjects[repo])
        if subs and rng.random() < 0.85:
            s = rng.choice(subs)
        else:
            s = rng.choice([dg("sha256", b"no-referrers"), "sha256:bad", "tag"])
        flt = rng.choice([None, None, ATYPES[0], ATYPES[1], MT_EMPTY, MT_CFG, "nomatch"] + ODD_ATYPES[:2] + [rng.choice(ODD_ATYPES)])
        if rng.random() < 0.1:
            repo = "never/used"
        self.add(referrers(repo, s, flt))
        if flt and rng.random() < 0.5:
            self.add(referrers(repo, s, flt))     # second identical request: served from the page cache

    def delete_manifest(self):
        rng = self.rng
        repo = self.repo()
        ms = self.manifests[repo]
        r = rng.random()
        if r < 0.4 and self.tags[repo]:
            ref = rng.choice(sorted(self.tags[repo]))
            self.tags[repo].discard(ref)
        elif r < 0.9 and ms:
            b, _ = rng.choice(ms)
            ref = dg("sha256", b)
        else:
            ref = rng.choice(["nosuchtag", dg("sha256", b"nothing"), "sha256:zz"])
        self.add(manifest_delete(repo, ref))
        self.add(manifest_get(repo, ref))

    def retag(self):
        """one manifest under several tags, tag deletes in a random order, the manifest pushed again under one of them"""
        rng = self.rng
        repo = self.repo()
        if not self.manifests[repo] or rng.random() < 0.3:
            self.push_manifest("image", repo=repo)
        if not self.manifests[repo]:
            return
        body, mt = rng.choice(self.manifests[repo])
        tags = rng.sample(TAGS, rng.randrange(2, 5))
        for t in tags:
            self.add(manifest_put(repo, t, body, ctype=mt))
            self.tags[repo].add(t)
        order = rng.sample(tags, rng.randrange(1, len(tags) + 1))
        for t in order:
            self.add(manifest_delete(repo, t))
            self.tags[repo].discard(t)
        others = [(b, m_) for b, m_ in self.manifests[repo] if b != body]
        if others and rng.random() < 0.5:
            # another manifest, stored before, goes away by digest in between (removals reorder the entries of index.json: an
            # entry of this manifest that lost its tag can end up in front of the one that still has one)
            ob, om = others[0] if rng.random() < 0.7 else rng.choice(others)
            self.add(manifest_delete(repo, dg("sha256", ob)))
            self.manifests[repo] = [(b, m_) for b, m_ in self.manifests[repo] if b != ob]
        for t in rng.sample(tags, rng.randrange(1, 3)):
            self.add(manifest_put(repo, t, body, ctype=mt))
            self.tags[repo].add(t)
        self.add(tag_list(repo, None, None))
        for t in tags:
            self.add(manifest_get(repo, t, head=rng.random() < 0.5))
        if rng.random() < 0.4:
            self.add(manifest_delete(repo, dg("sha256", body)))
            self.add(tag_list(repo, None, None))

    def negotiate(self):
        """an index with children under a tag, read by tag and by digest with Accept lists that leave out the index's own type
        (content negotiation down to a child applies to tag requests only)"""
        rng = self.rng
        repo = self.repo()
        imgs = [(b, mt) for b, mt in self.manifests[repo] if mt in (MT_OCI_M, MT_DOCK_M)]
        if not imgs:
            self.push_manifest("image", repo=repo)
            imgs = [(b, mt) for b, mt in self.manifests[repo] if mt in (MT_OCI_M, MT_DOCK_M)]
            if not imgs:
                return
        kids = rng.sample(imgs, min(len(imgs), rng.randrange(1, 3)))
        imt = rng.choice([MT_OCI_I, MT_DOCK_I])
        # (a descriptor may embed the content it names - `data` - or something else: what is served is the stored manifest)
        def kid_desc(b, mt):
            kd = kid_desc0(b, mt)
            if rng.random() < 0.35:
                kd["size"] = rng.choice([0, max(0, len(b) - 1), len(b) // 2, len(b) + 9])      # (the client's word, not checked)
            return kd

        def kid_desc0(b, mt):
            r = rng.random()
            if r < 0.25:
                return dict(desc(mt, b), data=base64.b64encode(b'{"schemaVersion":2,"embedded":"not the child"}').decode())
            if r < 0.4:
                return dict(desc(mt, b), data=base64.b64encode(b).decode())
            return desc(mt, b)
        body = index_manifest([kid_desc(b, mt) for b, mt in kids], media_type=imt, annotations={"neg": str(len(self.steps))} if imt == MT_OCI_I else None)
        self.contents.add(body)
        tag = rng.choice(TAGS[:3])
        self.add(manifest_put(repo, tag, body, ctype=imt))
        self.manifests[repo].append((body, imt))
        self.tags[repo].add(tag)
        for acc in ((kids[0][1],), (MT_OCI_M, MT_DOCK_M), (MT_DOCK_M,), (imt,), (kids[-1][1], "text/plain")):
            if rng.random() < 0.7:
                self.add(manifest_get(repo, tag, accept=acc))
            if rng.random() < 0.5:
                self.add(manifest_get(repo, dg("sha256", body), accept=acc))

    def repush(self):
        """a manifest whose bytes are already stored (pushed and deleted by digest, or uploaded through the blob API first)
        is pushed by digest again and read back"""
        rng = self.rng
        repo = self.repo()
        if rng.random() < 0.5 and self.manifests[repo]:
            body, mt = rng.choice(self.manifests[repo])
            d = dg("sha256", body)
            if rng.random() < 0.7:
                self.add(manifest_delete(repo, d))
                if rng.random() < 0.3:
                    self.add(manifest_get(repo, d))
        else:
            cfg = b"{}"
            self.ensure_blob(repo, cfg)
            body = image_manifest(desc(MT_CFG, cfg), [], annotations={"repush": str(len(self.steps))})
            mt = MT_OCI_M
            d = dg("sha256", body)
            self.contents.add(body)
            self.add(upload_post(repo, digest=d, body=body))
        self.add(manifest_put(repo, d if rng.random() < 0.8 else rng.choice(TAGS[:3]), body, ctype=mt))
        self.add(manifest_get(repo, d))
        self.add(manifest_get(repo, d, head=True))
        if (body, mt) not in self.manifests[repo]:
            self.manifests[repo].append((body, mt))

    def incomplete_known(self):
        """a manifest whose bytes are in the repository already but whose references are not all there: its bytes uploaded through
        the blob API with a layer that never was, or a complete image one of whose layers is deleted before it is pushed again"""
        rng = self.rng
        repo = self.repo()
        cfg = b"{}"
        self.ensure_blob(repo, cfg)
        ref = rng.choice(TAGS[:4])
        if rng.random() < 0.3:
            # an index naming a child manifest whose blob was deleted through the blob API (its index entry is still there)
            child = image_manifest(desc(MT_CFG, cfg), [], annotations={"incchild": str(len(self.steps))})
            self.contents.add(child)
            self.add(manifest_put(repo, dg("sha256", child), child, ctype=MT_OCI_M))
            self.add(blob_delete(repo, dg("sha256", child)))
            body = index_manifest([desc(MT_OCI_M, child)], annotations={"inc": str(len(self.steps))})
            self.contents.add(body)
            gid = len(self.steps)
            self.probe_repo(repo, ("pre", gid))
            k = self.add(manifest_put(repo, ref, body, ctype=MT_OCI_I))
            self.steps[k]["probed"] = gid
            self.probe_repo(repo, ("post", gid))
            self.refcheck(repo, body, k)
            self.add(manifest_get(repo, ref))
            return
        if rng.random() < 0.5:
            gone = b"never-uploaded-%d" % len(self.steps)
            body = image_manifest(desc(MT_CFG, cfg), [desc(MT_LAYER, gone)], annotations={"inc": str(len(self.steps))})
            self.contents.add(body)
            self.add(upload_post(repo, digest=dg("sha256", body), body=body))
            if rng.random() < 0.3:
                ref = dg("sha256", body)
        else:
            layer = b"layer-to-go-%d" % len(self.steps)
            self.contents.add(layer)
            self.ensure_blob(repo, layer)
            body = image_manifest(desc(MT_CFG, cfg), [desc(MT_LAYER, layer)], annotations={"inc": str(len(self.steps))})
            self.contents.add(body)
            first = rng.choice(TAGS[4:7])
            self.add(manifest_put(repo, first, body, ctype=MT_OCI_M))
            self.manifests[repo].append((body, MT_OCI_M))
            self.tags[repo].add(first)
            self.add(blob_delete(repo, dg("sha256", layer)))
            if layer in self.blobs[repo]:
                self.blobs[repo].remove(layer)
        gid = len(self.steps)
        self.probe_repo(repo, ("pre", gid))
        k = self.add(manifest_put(repo, ref, body, ctype=MT_OCI_M))
        self.steps[k]["probed"] = gid
        self.probe_repo(repo, ("post", gid))
        self.refcheck(repo, body, k)
        self.add(manifest_get(repo, ref))

    def delete_blob(self):
        rng = self.rng
        repo = self.repo()
        pool = self.blobs[repo]
        if pool and rng.random() < 0.8:
            data = rng.choice(pool)
            self.add(blob_delete(repo, dg("sha256", data)))
            self.add(blob_get(repo, dg("sha256", data)))
        else:
            self.add(blob_delete(repo, rng.choice([dg("sha256", b"nope"), "sha256:short"])))

    def session_misc(self):
        rng = self.rng
        repo = self.repo()
        k = self.add(upload_post(repo, alg=rng.choice([None, "sha512"])))
        sid = "$SID%d$" % k
        ops = rng.randrange(1, 4)
        size = 0
        for _ in range(ops):
            r = rng.random()
            if r < 0.3:
                self.add(upload_get(repo, sid))
            elif r < 0.6:
                p = self.content()[:10]
                self.add(upload_patch(repo, sid, None, state_token(size), p))
                size += len(p)
            elif r < 0.8:
                self.bad_chunk(repo, sid, size, b"zz")
            else:
                self.add(upload_delete(repo, sid))
                self.add(upload_get(repo, sid))
                self.add(upload_patch(repo, sid, None, state_token(size), b"after-cancel"))
                return
        if rng.random() < 0.3:
            self.add(upload_get(rng.choice(self.repos), rng.choice(["nosuchsession", sid, "x"])))

    def interrupted_upload(self):
        """a session that is cancelled or expires while the body of a PATCH/PUT on it is still arriving"""
        rng = self.rng
        repo = self.repo()
        data = self.content() + b"-streamed-" + bytes([65 + rng.randrange(26)]) * rng.randrange(1, 30)
        self.contents.add(data)
        k = self.add(upload_post(repo))
        sid = "$SID%d$" % k
        size = 0
        if rng.random() < 0.5:
            p = data[:rng.randrange(0, len(data))]
            self.add(upload_patch(repo, sid, None, state_token(0), p))
            size = len(p)
        rest = data[size:]
        d = dg(self.alg(), data)
        if rng.random() < 0.7:
            outer = upload_put(repo, sid, None, d, state_token(size), rest, unknown=rng.random() < 0.5)
        else:
            outer = upload_patch(repo, sid, None, state_token(size), rest, unknown=rng.random() < 0.5)
        mids = [upload_delete(repo, sid)] if rng.random() < 0.6 else expire_sessions(repo)
        # the interruption happens strictly before the last byte of the body has been delivered
        self.add(split(outer, rng.randrange(0, max(1, len(rest))), mids))
        self.add(upload_get(repo, sid))
        self.add(blob_get(repo, d))
        for a in ALGS:
            if rng.random() < 0.3:
                self.add(blob_get(repo, dg(a, data[:size])))

    def probe_repo(self, repo, mark):
        """a fixed set of reads of one repository, used to compare the observable state around a request"""
        st = [tag_list(repo)]
        for t in TAGS[:3]:
            st.append(manifest_get(repo, t))
        seen = set()
        for b, mt in self.manifests[repo][-6:]:
            d = dg("sha256", b)
            if d not in seen:
                seen.add(d)
                st.append(manifest_get(repo, d, head=True))
        for b in self.blobs[repo][-6:]:
            d = dg("sha256", b)
            if d not in seen:
                seen.add(d)
                st.append(blob_get(repo, d, head=True))
        for sj in sorted(self.subjects[repo])[:4]:
            st.append(referrers(repo, sj))
        for x in st:
            x["probe"] = mark
            self.add(x)

    def refcheck(self, repo, body, k):
        """HEAD every digest the pushed body references (the oracle requires them present when the push was accepted)"""
        try:
            j = json.loads(body.decode("utf-8"))
        except Exception:
            return
        if not isinstance(j, dict):
            return
        ds = []
        for key in ("config",):
            if isinstance(j.get(key), dict):
                ds.append(("config", j[key].get("digest")))
        for key in ("layers", "manifests"):
            if isinstance(j.get(key), list):
                for x in j[key]:
                    if isinstance(x, dict):
                        ds.append((key, x.get("digest")))
        for role, d in ds:
            if isinstance(d, str) and dvalid_py(d):
                st = blob_get(repo, d, head=True)
                st["refcheck"] = (k, role)
                self.add(st)

    def probe(self):
        """read everything the belief knows about: used by oracles and by the correspondence"""
        for repo in self.repos:
            self.add(tag_list(repo))
            for t in sorted(self.tags[repo] | set(TAGS[:3])):
                self.add(manifest_get(repo, t))
            seen = set()
            for b, mt in self.manifests[repo]:
                d = dg("sha256", b)
                if d not in seen:
                    seen.add(d)
                    self.add(manifest_get(repo, d))
                    self.add(blob_get(repo, d))
            for b in self.blobs[repo]:
                d = dg("sha256", b)
                if d not in seen:
                    seen.add(d)
                    self.add(blob_get(repo, d))
            for s in sorted(self.subjects[repo]):
                self.add(referrers(repo, s))

    def run(self, nsteps):
        p = self.profile
        weights = dict(blob=p["blob"] + p["chunked"], mount=p["mount"], image=p["image"], index=p["index"],
                       artifact=p["artifact"], mread=p["mread"], bread=p["bread"], tags=p["tags"], refs=p["refs"],
                       mdel=p["mdel"], bdel=p["bdel"], sess=p["sess"], retag=p.get("retag", 0.3 if p["image"] > 0 else 0),
                       repush=p.get("repush", 0.4 if p["image"] > 0 else 0),
                       negotiate=p.get("negotiate", 0.4 if p["index"] > 0 and p["mread"] > 0 else 0),
                       incomplete=p.get("incomplete", 0.3 if p["image"] > 0 and p.get("bad", 0) > 0 else 0))
        while len(self.steps) < nsteps:
            k = pick(self.rng, weights)
            if k == "blob":
                self.push_blob()
            elif k == "mount":
                self.mount()
            elif k in ("image", "index", "artifact"):
                self.push_manifest(k)
            elif k == "mread":
                self.read_manifest()
            elif k == "bread":
                self.read_blob()
            elif k == "tags":
                if self.rng.random() < 0.3:
                    self.walk_tags()
                else:
                    self.list_tags()
            elif k == "refs":
                self.list_referrers()
            elif k == "mdel":
                self.delete_manifest()
            elif k == "bdel":
                self.delete_blob()
            elif k == "retag":
                self.retag()
            elif k == "repush":
                self.repush()
            elif k == "negotiate":
                self.negotiate()
            elif k == "incomplete":
                self.incomplete_known()
            elif k == "sess":
                if self.rng.random() < self.profile.get("interrupt", 0.15):
                    self.interrupted_upload()
                else:
                    self.session_misc()
        return self


TAG_RE = re.compile(r"^[a-zA-Z0-9_][a-zA-Z0-9._-]{0,127}$")
DIG_RE = {"sha256": 64, "sha384": 96, "sha512": 128}


def is_tag_py(s):
    return TAG_RE.match(s) is not None and "\n" not in s


def dvalid_py(s):
    a, _, h = s.partition(":")
    return a in DIG_RE and len(h) == DIG_RE[a] and re.match(r"^[0-9a-f]+$", h) is not None


def gen_case(rng, cid, conf, nsteps=40, profile=None, repos=None, probe=True):
    w = World(rng, conf, repos=repos, profile=profile).run(nsteps)
    if probe:
        w.probe()
    return dict(id=cid, conf=conf, steps=w.steps, contents=sorted(w.contents))
