"""C07 - referrers responses list exactly the manifests that have the subject.
Theorems: coq/Props_C07.v (Referrer.v: pages within the limit, order-preserving partition, only oversize entries dropped,
the Link chain visits every page once; Reg.v: response maintenance through AddDesc/RmDesc).
Tie: (1) referrerSplit itself against the extracted split on generated descriptor lists, with the JSON lengths measured on
Go's own encoding; (2) differential API histories with small response limits, Link chains followed; direct oracle =
the set of artifacts the harness pushed and did not delete, per subject, with the descriptor each must be listed with."""
import json
import subprocess

import apicheck
from api import *
from api import _q
import gen
import oracles

LEVEL = "proof"
ATS = ["application/vnd.example.sbom", "application/vnd.example.sig", ""]
# (artifact types are opaque strings compared as they are: letter case, parameters and blanks belong to them; config media types too)
ODD = ["application/vnd.example.SBOM.v1+json", "application/vnd.example.sig; v=1", " application/vnd.example.sig", "Application/Vnd.Example.Config"]


def ref_walk(repo, subject, flt=None):
    """GET the referrers of [subject] and follow the Link chain; the model answers with the whole list"""
    q = _q([("artifactType", flt)])
    impl = dict(op="follow", path="/v2/%s/referrers/%s" % (repo, subject), query=q)
    return dict(kind="refwalk", repo=repo, arg=subject, filter=flt or "", impl=impl,
                model=raw_model(dict(method="GET", path=impl["path"], query=q, headers={}, b64="")))


def walk_obs(st, res):
    pages = (res.get("par") or [[]])[0]
    refs, filt, stat, lens, ctype = [], [], [], [], []
    for p in pages:
        stat.append(p.get("status"))
        body = oracles.body_of(p)
        lens.append(len(body))
        filt.append(oracles.hdr(p, "Oci-Filters-Applied"))
        ctype.append(oracles.hdr(p, "Content-Type"))
        try:
            j = json.loads(body.decode())
            refs.append([dkey(d) for d in (j.get("manifests") or [])])
        except Exception:
            refs.append(None)
    return dict(status=stat, refs=refs, filtered=filt, lens=lens, ctype=ctype)


def canon_walk_impl(st, res):
    o = walk_obs(st, res)
    flat = sorted(x for p in o["refs"] if p for x in p)
    return dict(panic=False, status=200 if all(s == 200 for s in o["status"]) else o["status"], errs=[], digest="",
                refs=flat, filtered=all(bool(f) for f in o["filtered"]) if o["filtered"] else False, ctype=o["ctype"][0] if o["ctype"] else "")


class W7(gen.World):
    def __init__(self, rng, conf, repos):
        super().__init__(rng, conf, repos=repos, profile=dict(bad=0))
        self.images = {r: [] for r in repos}       # (digest, size, mt)
        self.arts = {r: [] for r in repos}         # bodies of artifacts pushed

    def base(self, repo):
        rng = self.rng
        cfg = rng.choice([b"{}", b'{"architecture":"amd64"}'])
        self.ensure_blob(repo, cfg)
        body = image_manifest(desc(MT_CFG, cfg), [], annotations={"base": str(len(self.steps))})
        alg = rng.choice(["sha256", "sha256", "sha512"])
        d = dg(alg, body)
        self.add(manifest_put(repo, rng.choice([d, "base%d" % rng.randrange(3)]) if alg == "sha256" else d, body, ctype=MT_OCI_M))
        self.images[repo].append((d, len(body), MT_OCI_M))
        return d

    def subject(self, repo):
        rng = self.rng
        r = rng.random()
        pool = self.images[repo]
        if pool and r < 0.7:
            d, size, mt = rng.choice(pool)
            return {"mediaType": mt, "digest": d, "size": size}
        if r < 0.85:
            return desc(MT_OCI_M, b"missing-subject-%d" % rng.randrange(3))
        return desc(MT_OCI_M, b"missing-512", alg="sha512")

    def artifact(self, repo, subject=None):
        rng = self.rng
        subject = subject or self.subject(repo)
        at = rng.choice(ATS) if rng.random() < 0.75 else rng.choice(ODD)
        ann = rng.choice([None, {"k": "v"}, {"org.example.note": "x" * rng.randrange(0, 120)}, {}])
        if rng.random() < 0.75:
            cfg = b"{}"
            self.ensure_blob(repo, cfg)
            cmt = rng.choice([MT_EMPTY, MT_CFG, "application/vnd.example.config", ODD[3]])
            # (the body's own mediaType field may be absent, or name the docker type while the push says OCI: the listing
            #  carries the media type the manifest was pushed with)
            body = image_manifest(desc(cmt, cfg), [], subject=subject, artifact_type=at or None, annotations=ann,
                                  media_type=rng.choice([MT_OCI_M, MT_OCI_M, MT_OCI_M, None, MT_DOCK_M]))
            body = body[:-1] + b',"x-n":%d}' % len(self.steps)      # make every artifact distinct
            mt = MT_OCI_M
        else:
            body = index_manifest([], subject=subject, artifact_type=at or None, annotations=dict(ann or {}, n=str(len(self.steps))))
            mt = MT_OCI_I
        d = dg("sha256", body)
        ref = d if rng.random() < 0.6 else rng.choice(["sig", "sbom", "att%d" % rng.randrange(2)])
        if rng.random() < 0.2:
            # pushed (and later deleted) under another algorithm's digest: that digest is the one the response lists
            d = ref = dg(rng.choice(["sha512", "sha384"]), body)
        self.add(manifest_put(repo, ref, body, ctype=mt))
        self.arts[repo].append((d, len(body), mt))
        # artifacts can be subjects themselves
        if rng.random() < 0.3:
            self.images[repo].append((d, len(body), mt))
        return subject["digest"]

    def probe_refs(self, repo):
        subs = sorted({json.loads(s["body"].decode("latin-1"))["subject"]["digest"] for s in self.steps
                       if s["kind"] == "mput" and s["repo"] == repo and b'"subject"' in s["body"]})
        for s in subs + [dg("sha256", b"no-referrers-at-all")]:
            if self.rng.random() < 0.8:
                self.add(ref_walk(repo, s))
            if self.rng.random() < 0.5:
                flt = self.rng.choice(ATS[:2] + [MT_EMPTY, MT_CFG, "nomatch"] + ODD)
                self.add(ref_walk(repo, s, flt))
                if self.rng.random() < 0.5:
                    self.add(ref_walk(repo, s, flt))       # served from the page cache


def expected_desc(body, views, ctype):
    v = views[body]
    mt = ctype
    at = v["at"]
    if mt in (MT_OCI_M, MT_DOCK_M) and not at:
        at = v["config"]["mt"] if v["config"] else ""
    return dkey(dict(mt=mt, dig=None, size=len(body), at=at, ann=v["ann"]))


def oracle(ctx, case, io):
    views = ctx.views
    arts = {}        # repo -> digest -> (subject, descriptor key)
    limit = case["conf"]["rlimit"]
    for k, (st, res) in enumerate(zip(case["steps"], io["steps"])):
        if res.get("panic"):
            continue
        repo = st.get("repo")
        a = arts.setdefault(repo, {})
        kind, status = st["kind"], res.get("status")
        hist = lambda **kw: oracles.hist(case, k, res if "status" in res else None, **kw)
        if kind == "mput" and status == 201 and st["body"] in views:
            v = views[st["body"]]
            d = oracles.hdr(res, "Docker-Content-Digest")
            if v["subject"] and v["subject"]["dig"]:
                mt = st["ctype"] or oracles.detect_py(v)
                at = v["at"]
                if mt in (MT_OCI_M, MT_DOCK_M) and not at:
                    at = v["config"]["mt"] if v["config"] else ""
                a[d] = (v["subject"]["dig"], dkey(dict(mt=mt, dig=d, size=len(st["body"]), at=at, ann=v["ann"])))
                if oracles.hdr(res, "Oci-Subject") != v["subject"]["dig"]:
                    ctx.violation("push of an artifact does not announce its subject in OCI-Subject", hist(), "C07:oci-subject")
        elif kind == "mdel" and status == 202 and not gen.is_tag_py(st["arg"]):
            a.pop(st["arg"], None)
        elif kind == "blobdel" and status == 202:
            a.pop(st["arg"], None)
        elif kind == "restart" and case["conf"]["store"] == "mem":
            arts.clear()
        elif kind == "refwalk":
            o = walk_obs(st, res)
            if any(s != 200 for s in o["status"]) or any(r is None for r in o["refs"]):
                ctx.violation("referrers request answered %s" % o["status"], hist(), "C07:status")
                continue
            if any(c != MT_OCI_I for c in o["ctype"]):
                ctx.violation("referrers response with content type %s" % o["ctype"], hist(), "C07:content-type")
            got = [x for p in o["refs"] for x in p]
            want = sorted(dk for (s, dk) in a.values() if s == st["arg"] and (not st["filter"] or json.loads(dk)["at"] == st["filter"]))
            too_big = [dk for dk in want if len(jdump(json.loads(dk))) + 120 > limit]
            if sorted(got) != want and not (set(want) - set(got) <= set(too_big) and set(got) <= set(want) and len(got) == len(set(got))):
                missing = [json.loads(x)["dig"][:19] for x in set(want) - set(got)]
                extra = [json.loads(x)["dig"][:19] for x in set(got) - set(want)]
                dup = len(got) != len(set(got))
                reserved = any(s == st["arg"] and any(x in (json.loads(dk)["ann"] or {}) for x in (REFNAME, SUBJ)) for (s, dk) in a.values())
                ctx.violation("referrers of %s%s: missing %s, unexpected %s%s" % (st["arg"][:19], " filtered by " + st["filter"] if st["filter"] else "", missing, extra,
                                                                                   ", duplicates" if dup else ""),
                              hist(pages=[len(p) for p in o["refs"]]),
                              "C07:reserved-annotation-keys" if reserved else ("C07:exact" if not dup else "C07:duplicate"))
            has_any = any(s == st["arg"] for (s, dk) in a.values())
            # (for a subject without any referrers the code answers the empty index early, without the header: a client
            #  that filters itself loses nothing; the header is required whenever there was something to filter)
            if st["filter"] and has_any and not all(o["filtered"]):
                ctx.violation("filtered referrers response without OCI-Filters-Applied (pages: %s)" % o["filtered"], hist(), "C07:filters-applied")
            if not st["filter"] and any(o["filtered"]):
                ctx.violation("unfiltered referrers response announces a filter", hist(), "C07:filters-applied")
            if len(o["lens"]) > 1 and any(l > limit for l in o["lens"]):
                ctx.violation("a referrers page of %s bytes exceeds the limit %d" % (max(o["lens"]), limit), hist(), "C07:page-size")
            if len(o["status"]) >= 60:
                ctx.violation("the Link chain of the referrers response does not end", hist(), "C07:chain")


def split_differential(ctx, binp, n):
    rng = ctx.rng
    cases, steps = [], []
    for i in range(n):
        k = rng.randrange(0, 9)
        descs = []
        for j in range(k):
            ann = rng.choice([None, {"k": "v"}, {"note": "y" * rng.randrange(0, 300)}, {"a": "1", "b": "2"}])
            descs.append(dict(mt=MT_OCI_M, dig=dg("sha256", b"d%d-%d" % (i, j)), size=rng.randrange(0, 10 ** rng.randrange(1, 7)), ann=ann, at=rng.choice(ATS)))
        limit = rng.choice([1, 90, 200, 260, 300, 400, 520, 700, 1000, 5000, rng.randrange(80, 1500)])
        steps.append(dict(impl=dict(op="refsplit", descs=descs, secs=float(limit)), descs=descs, limit=limit))
    out = run_api(ctx, binp, [dict(id=1, conf=mkconf(), steps=steps)], "split")[1]["steps"]
    # second batch: the same descriptor lists with limits at, just below and just above the size of a page of exactly one
    # descriptor and of exactly two neighbours (sizes as Go encodes them, learned from the first batch)
    steps2 = []
    for st, o in zip(steps, out):
        lens = [int(x) for x in (o.get("names") or [])]
        if len(lens) < 2 or rng.random() < 0.4:
            continue
        j = rng.randrange(len(lens))
        cands = [o["n"] + lens[j] + dlt for dlt in (-1, 0, 1)]
        if j + 1 < len(lens):
            cands += [o["n"] + lens[j] + lens[j + 1] + 1 + dlt for dlt in (-1, 0, 1)]
        for limit in rng.sample(cands, min(len(cands), 3)):
            steps2.append(dict(impl=dict(op="refsplit", descs=st["descs"], secs=float(limit)), descs=st["descs"], limit=limit))
    if steps2:
        out += run_api(ctx, binp, [dict(id=1, conf=mkconf(), steps=steps2)], "split2")[1]["steps"]
        steps += steps2
    lines = [sl("split", str(st["limit"]), str(o["n"]), sl(*[x for x in (o.get("names") or [])])) for st, o in zip(steps, out)]
    binm = ensure_model()
    p = subprocess.run([binm, "probe"], input="\n".join(lines) + "\n", stdout=subprocess.PIPE, stderr=subprocess.PIPE, text=True, timeout=600)
    if p.returncode != 0:
        raise BuildError("modelrun probe failed: " + p.stderr[-1000:])
    bad = 0
    for st, o, ml in zip(steps, out, p.stdout.strip().split("\n")):
        m = json.loads(ml)
        digs = [d["dig"] for d in st["descs"]]
        ipages = o.get("pages") or []
        mpages = [[digs[i] for i in pg] for pg in m["pages"]]
        rep = dict(descs=st["descs"], limit=st["limit"], impl_pages=ipages, model_pages=mpages)
        # direct oracle on the implementation's pages
        flat = [x for pg in ipages for x in pg]
        lens = [int(x) for x in (o.get("names") or [])]
        dropped_ok = all(o["n"] + lens[digs.index(x)] > st["limit"] for x in digs if x not in flat)
        if any(l > st["limit"] for l in (o.get("pagelens") or [])):
            ctx.violation("referrerSplit produced a page of %d bytes with limit %d" % (max(o["pagelens"]), st["limit"]), rep, "C07:split-page-size")
        elif len(flat) != len(set(flat)) or [x for x in digs if x in flat] != flat:
            ctx.violation("referrerSplit duplicated or reordered descriptors: %s" % [[x[7:13] for x in pg] for pg in ipages], rep, "C07:split-duplicate")
        elif not dropped_ok:
            ctx.violation("referrerSplit dropped a descriptor that fits a page on its own", rep, "C07:split-dropped")
        if ipages != mpages:
            bad += 1
            if bad <= 2:
                ctx.violation("correspondence: referrerSplit and coq/Referrer.v split disagree (limit %d, %d descriptors)" % (st["limit"], len(digs)),
                              dict(rep, note="correspondence Referrer.split vs referrerSplit"), "C07:corr-split", nofail=not ctx.violations)
    return len(steps), bad


def make_cases(ctx, first):
    n = 200 if ctx.tier == "quick" else 5000
    rng = ctx.rng
    cases = []
    for i in range(n):
        store = ("mem", "dir")[i % 2]
        rlimit = rng.choice([4 * 1024 * 1024, 4 * 1024 * 1024, 1500, 1100, 900, 2500])
        conf = mkconf(store=store, rlimit=rlimit, withsubj=False, dangling=False)
        w = W7(rng, conf, ["a"] if i % 3 else ["a", "a/b"])
        for repo in w.repos:
            for _ in range(rng.randrange(1, 3)):
                w.base(repo)
        heavy = i % 4 == 3
        hsubj = w.subject(w.repos[0]) if heavy else None
        for rnd in range(rng.randrange(3, 7)):
            repo = w.repo()
            r = rng.random()
            if heavy and r < 0.7:
                # many referrers of one subject: the filtered lists are split into pages as well as the whole list
                repo = w.repos[0]
                for _ in range(rng.randrange(3, 8)):
                    w.artifact(repo, subject=hsubj)
            elif r < 0.6:
                s = None
                for _ in range(rng.randrange(1, 5)):
                    s = w.artifact(repo, subject=None if rng.random() < 0.4 else None)
            elif r < 0.8 and w.arts[repo]:
                d, _, _ = rng.choice(w.arts[repo])
                w.add(manifest_delete(repo, d))
            elif r < 0.9:
                w.add(manifest_delete(repo, rng.choice(["sig", "sbom", "att0", "att1"])))
            elif w.arts[repo]:
                # re-push an artifact that is already there (by digest)
                d, _, mt = rng.choice(w.arts[repo])
                for s2 in list(w.steps):
                    if s2["kind"] == "mput" and dg("sha256", s2["body"]) == d:
                        if rng.random() < 0.5:
                            # deleted first: its bytes are still stored when it is pushed again
                            w.add(manifest_delete(repo, d))
                            w.probe_refs(repo)
                        w.add(manifest_put(repo, d, s2["body"], ctype=mt))
                        break
            w.probe_refs(repo)
            if store == "dir" and rng.random() < 0.25:
                w.add(restart_step())
                w.probe_refs(repo)
        cases.append(dict(id=first + i, conf=conf, steps=w.steps, contents=sorted(w.contents)))
    return cases


def paged_delete_check(ctx):
    """a paged listing during which one referrer of the subject is deleted (and the cached pages expire; in half of the
    cases another client lists the subject in between): every artifact that was there before the listing began and is still
    there when it ends is on one of the pages the Link chain leads through"""
    rng = ctx.rng
    cases = []
    for i in range(24 if ctx.tier == "quick" else 400):
        conf = mkconf(store=("mem", "dir")[i % 2], rlimit=rng.choice([900, 1100, 1500]), withsubj=False, dangling=False, pageexp_ms=rng.choice([30, 60]))
        w = W7(rng, conf, ["a"])
        w.base("a")
        subj = w.subject("a")
        n0 = len(w.steps)
        for _ in range(rng.randrange(5, 10)):
            w.artifact("a", subject=subj)
        arts = [dg("sha256", s_["body"]) if gen.is_tag_py(s_["arg"]) else s_["arg"] for s_ in w.steps[n0:] if s_["kind"] == "mput" and b'"subject"' in s_["body"]]
        victim = arts[0] if rng.random() < 0.6 else rng.choice(arts)         # (mostly one the client has already been shown)
        flt = None
        walk = ref_walk("a", subj["digest"], flt)
        mids = [manifest_delete("a", victim), special("sleep", secs=rng.choice([0.0, 0.2, 0.2, 0.2]))]
        if rng.random() < 0.5:
            mids.append(referrers("a", subj["digest"], None))          # another client lists the subject: the new response is cached
        walk["impl"] = dict(walk["impl"], mid=[m["impl"] for m in mids], split=rng.choice([0, 0, 1]))
        walk.update(model="(skip)", victim=victim, arts=arts, paged_delete=True)
        w.add(walk)
        w.add(ref_walk("a", subj["digest"], flt))
        for st in w.steps:
            if st.get("paged_delete"):
                st["model"] = "(skip)"
        cases.append(dict(id=960000 + i, conf=conf, steps=w.steps, contents=sorted(w.contents)))
    import glob, os
    for fn in sorted(glob.glob(os.path.join(VERIF, "corpus", "C07.paged", "*.json"))):
        cc = unreplay(json.load(open(fn)))
        cc["id"] = 959000 + len(cases)
        cases.insert(0, cc)
    iouts = run_api(ctx, api_binary(ctx), cases, name="pagedel")
    nbad = 0
    for c in cases:
        io = iouts[c["id"]]
        for k, (st, r) in enumerate(zip(c["steps"], io["steps"])):
            if not st.get("paged_delete"):
                continue
            pages = (r.get("par") or [[]])[0]
            mres = (r.get("par") or [[], []])[-1]
            deleted = bool(mres) and mres[0].get("status") == 202
            seen = set()
            ok = True
            for pg in pages:
                try:
                    j = json.loads(oracles.body_of(pg).decode())
                    seen |= {d.get("digest") for d in (j.get("manifests") or [])}
                except Exception:
                    ok = False
            live = [a for a in st["arts"] if not (deleted and a == st["victim"])]
            missing = [a for a in live if a not in seen]
            if ok and len(pages) > 1 and missing:
                nbad += 1
                ctx.violation("a paged referrers listing (%d pages) during which %s was deleted never shows %s, present before the listing began and never deleted"
                              % (len(pages), st["victim"][:19], [m[:19] for m in missing]),
                              oracles.hist(c, k, None, pages=[p.get("status") for p in pages], links=[oracles.hdr(p, "Link") for p in pages]), "C07:paged-listing-across-delete")
    return len(cases), nbad


def run(ctx):
    res = {}
    run_main(ctx)
    if not ctx.replay:
        res = paged_delete_check(ctx)
        ctx.coverage["paged_listings_across_a_delete"], ctx.coverage["paged_listings_incomplete"] = res
        # "regardless of push order" also when two artifact requests for one subject overlap: one of them stands still before each
        # of its store actions while the other runs; afterwards the listing is that of one of the two orders (shared with C11)
        import c11
        res = c11.hooked_pairs_check(ctx, only=["delete-artifact/push-artifact", "push-artifact/push-artifact", "push-artifact/delete-artifact",
                                                "list-referrers/delete-sibling-artifact", "list-referrers/push-artifact"], pid="C07")
        ctx.coverage["overlapping_artifact_request_pairs"], ctx.coverage["pairs_not_serializable"] = res


def run_main(ctx):
    apicheck.run(ctx, "C07", make_cases, oracle,
                 assumptions=["artifact annotations in these histories do not use the reserved keys org.opencontainers.image.ref.name / org.olareg.referrer.subject",
                              "JSON lengths are not modelled: the split model takes them as inputs measured on Go's own encoding; API responses are compared as the set of descriptors along the whole Link chain",
                              "restart histories run with a policy under which the collection at Close removes no referrers response (what a collection may remove is C05/C06)"])
    binp = api_binary(ctx)
    ns, nb = split_differential(ctx, binp, 400 if ctx.tier == "quick" else 20000)
    ctx.coverage["split_cases"] = ns
    ctx.coverage["split_mismatches"] = nb
