"""C19 - every setting has its documented effect, for every combination.
Theorems: coq/Props_C19.v over tables regenerated from the source on every run (routing chain per switch combination,
SetDefaults rules, flag table and flag -> field wiring) and over the rate-limit window model (RateLimit.v).
Tie, four differentials against the code as built now:
  1. switch pairs: the same request list under two configurations that differ in exactly one setting; every response not
     governed by that setting must be identical (direct oracle), every response must be the model's (correspondence);
  2. config.Config.SetDefaults on whole configurations against the generated and the documented rule table;
  3. bursts from several client addresses (RemoteAddr / X-Forwarded-For shapes) against RateLimit.rl_serve with the times
     the driver measured around each request;
  4. the built `olareg serve` binary on loopback per flag combination against the in-process server configured with the
     fields the flags are documented to feed; SIGTERM at a random point: exit status 0, everything acknowledged is still
     served by a second start on the same directory."""
import base64
import hashlib
import http.client
import json
import os
import signal
import socket
import subprocess
import time

import apicheck
import oracles
from api import *
from api import _fin, _http
import gen

LEVEL = "proof"
SEC = 1000000000

# documented defaults (config/config.go comments, serve flag help, README)
DOC = dict(push=True, delete=False, blobdelete=False, referrer=True, ro=False)
# which settings gate which request kinds (README / flag help: api-push "enable push APIs", api-delete "enable delete APIs",
# api-blob-delete "enable blob delete API", api-referrer "enable referrer API", store-ro "restrict storage as read-only")
GATES = dict(mput={"push"}, upost={"push"}, upatch={"push"}, uput={"push"}, uget={"push"}, udel={"push"},
             mdel={"delete"}, blobdel={"delete", "blobdelete"}, refs={"referrer"})
MUTATING = {"mput", "upost", "upatch", "uput", "udel", "mdel", "blobdel"}


def resolved(conf):
    return dict(conf, **{k: dflt(conf.get(k), v) for k, v in DOC.items()})


class Probe:
    """request lists where every request governed by setting X goes to the repository reserved for X"""

    def __init__(self, rng, x):
        self.rng = rng
        self.x = x
        self.steps = []
        self.contents = set()
        self.n = 0
        self.known = {}          # repo -> dict(blobs=[(digest, data)], mans=[(digest, body, mt)], tags=[...])

    def add(self, st):
        self.steps.append(st)
        if st.get("body"):
            self.contents.add(st["body"])
        return len(self.steps) - 1

    def k(self, repo):
        return self.known.setdefault(repo, dict(blobs=[], mans=[], tags=[]))

    def fresh(self):
        self.n += 1
        return b"content-%d-%d" % (self.n, self.rng.randrange(1000))

    def push_blob(self, repo, data=None, chunked=False):
        data = data or self.fresh()
        d = dg("sha256", data)
        if chunked:
            k = self.add(upload_post(repo))
            sid = "$SID%d$" % k
            h = len(data) // 2
            self.add(upload_patch(repo, sid, "0-%d" % (h - 1), state_token(0), data[:h]))
            self.add(upload_get(repo, sid))
            self.add(upload_put(repo, sid, None, d, state_token(h), data[h:]))
        else:
            self.add(upload_post(repo, digest=d, body=data))
        self.contents.add(data)
        self.k(repo)["blobs"].append((d, data))
        return d, data

    def push_image(self, repo, tag=None, subject=None):
        cfg = b"{}"
        layer = self.fresh()
        self.push_blob(repo, cfg)
        self.push_blob(repo, layer)
        sd = None
        if subject:
            sd = {"mediaType": MT_OCI_M, "digest": subject[0], "size": len(subject[1])}
        body = image_manifest(desc(MT_CFG if not subject else MT_EMPTY, cfg), [desc(MT_LAYER, layer)], subject=sd,
                              artifact_type="application/vnd.example.sig" if subject else None, annotations={"n": str(self.n)})
        d = dg("sha256", body)
        self.add(manifest_put(repo, tag or d, body, ctype=MT_OCI_M))
        self.contents.add(body)
        self.k(repo)["mans"].append((d, body, MT_OCI_M))
        if tag:
            self.k(repo)["tags"].append(tag)
        return d, body

    def push_index_artifact(self, repo, subject):
        """an index (manifest list) that carries a subject"""
        sd = {"mediaType": MT_OCI_M, "digest": subject[0], "size": len(subject[1])}
        self.n += 1
        body = index_manifest([], subject=sd, artifact_type="application/vnd.example.sbom", annotations={"n": str(self.n)})
        d = dg("sha256", body)
        self.add(manifest_put(repo, d, body, ctype=MT_OCI_I))
        self.contents.add(body)
        self.k(repo)["mans"].append((d, body, MT_OCI_I))
        return d, body

    def populate(self, repo):
        img = self.push_image(repo, tag="v1")
        self.push_image(repo, tag=None)
        self.push_image(repo, tag="sig", subject=img)
        self.push_blob(repo, chunked=True)

    def target(self, kind, base):
        """requests governed by X go to the repository reserved for them"""
        return "gx" if self.x in GATES.get(kind, set()) or (self.x == "ro" and kind in MUTATING) else base

    def reads(self, repo):
        kn = self.k(repo)
        rng = self.rng
        self.add(_fin(dict(kind="ping", repo="", impl=_http(rng.choice(["GET", "HEAD"]), "/v2/"), model=None)))
        self.add(tag_list(repo))
        for t in ["v1", "sig", "new", "nope"]:
            self.add(manifest_get(repo, t, head=rng.random() < 0.3))
        for d, _, _ in kn["mans"][:4]:
            self.add(manifest_get(repo, d))
        for d, _ in kn["blobs"][:5]:
            self.add(blob_get(repo, d, head=rng.random() < 0.3))
        self.add(blob_get(repo, dg("sha256", b"absent")))

    def gated_round(self, base):
        """one request of every governed kind, in random order"""
        rng = self.rng
        ops = ["mput", "mono", "chunked", "mdel-tag", "mdel-digest", "blobdel", "refs", "sessdel", "badmethod", "artifact"]
        rng.shuffle(ops)
        for op in ops:
            if op == "mput":
                r = self.target("mput", base)
                # the blobs it references are pushed to the same repository first (push-governed as well)
                self.push_image(r, tag=rng.choice(["new", "v1", None]))
            elif op == "artifact":
                # pushes with a subject are governed by the push switch and by the referrers switch (OCI-Subject, the response kept
                # for the subject): they go to the repository reserved for either
                r = "gx" if self.x in ("push", "referrer", "ro") else base
                kn = self.k(r)
                subj = (kn["mans"][0][0], kn["mans"][0][1]) if kn["mans"] else (dg("sha256", b"no-such-subject"), b"x" * 10)
                if rng.random() < 0.5:
                    self.push_index_artifact(r, subj)
                else:
                    self.push_image(r, tag=None, subject=subj)
                self.add(referrers(r, subj[0]))
            elif op == "mono":
                self.push_blob(self.target("upost", base))
            elif op == "chunked":
                self.push_blob(self.target("upost", base), chunked=True)
            elif op == "sessdel":
                r = self.target("upost", base)
                k = self.add(upload_post(r))
                self.add(upload_delete(r, "$SID%d$" % k))
                self.add(upload_get(r, "$SID%d$" % k))
            elif op == "mdel-tag":
                r = self.target("mdel", base)
                self.add(manifest_delete(r, rng.choice(["v1", "new", "nope"])))
            elif op == "mdel-digest":
                r = self.target("mdel", base)
                kn = self.k(r)
                if kn["mans"]:
                    self.add(manifest_delete(r, rng.choice(kn["mans"])[0]))
            elif op == "blobdel":
                r = self.target("blobdel", base)
                kn = self.k(r)
                if kn["blobs"]:
                    self.add(blob_delete(r, rng.choice(kn["blobs"])[0]))
                self.add(blob_delete(r, dg("sha256", b"absent")))
            elif op == "refs":
                r = self.target("refs", base)
                kn = self.k(r)
                if kn["mans"]:
                    self.add(referrers(r, kn["mans"][0][0]))
                self.add(referrers(r, dg("sha256", b"absent")))
            elif op == "badmethod":
                self.add(_fin(dict(kind="other", repo=base, impl=_http(rng.choice(["PATCH", "POST", "OPTIONS"]), "/v2/%s/tags/list" % base), model=None)))
                r = self.target("refs", base)
                self.add(_fin(dict(kind="other", repo=r, impl=_http("PUT", "/v2/%s/referrers/%s" % (r, dg("sha256", b"x"))), model=None)))


SETTINGS = ["push", "delete", "blobdelete", "referrer", "ro", "warnings", "ratelimit", "store", "unset"]


def make_cases(ctx, first):
    rng = ctx.rng
    npairs = 45 if ctx.tier == "quick" else 900
    cases = []
    for i in range(npairs):
        x = SETTINGS[i % len(SETTINGS)]
        base = dict(store="dir", ro=False, push=rng.random() < 0.7, delete=rng.random() < 0.6, blobdelete=rng.random() < 0.6,
                    referrer=rng.random() < 0.7, mlimit=4096, rlimit=4 * 1024 * 1024, withsubj=False)
        if i < 16 * len(SETTINGS):
            # the first rounds enumerate the 16 switch combinations
            j = i // len(SETTINGS)
            base.update(push=bool(j & 1), delete=bool(j & 2), blobdelete=bool(j & 4), referrer=bool(j & 8))
        if rng.random() < 0.25 and x != "ro":
            base["ro"] = True
        a, b = dict(base), dict(base)
        if x in ("push", "delete", "blobdelete", "referrer", "ro"):
            a[x], b[x] = False, True
        elif x == "warnings":
            a["warnings"], b["warnings"] = [], rng.choice([["be careful"], ["one", "two \"quoted\""]])
        elif x == "ratelimit":
            a["ratelimit"], b["ratelimit"] = 0, 100000
        elif x == "store":
            a["store"], b["store"] = "dir", "mem"
        elif x == "unset":
            # unset switches mean the documented defaults
            a = dict(base, **DOC)
            b = dict(a, push=None, delete=None, blobdelete=None, referrer=None)
        p = Probe(rng, x)
        # (a repository whose referrers were converted with the API on refuses to load with the API off -- a deliberate guard in
        #  indexIngest -- so the content is pushed with the API off whenever one of the two configurations has it off)
        full = mkconf(store="dir", withsubj=False, referrer=bool(resolved(a)["referrer"] and resolved(b)["referrer"]))
        if x != "store":
            # content pushed with everything enabled, then the store is re-opened with the configuration under test
            for r in ("a", "gx"):
                p.populate(r)
        else:
            if resolved(a)["push"] and not a["ro"]:
                for r in ("a", "gx"):
                    p.populate(r)
        marks = len(p.steps)
        p.reads("a")
        p.reads("gx")
        for _ in range(2):
            p.gated_round("a")
            p.reads("a")
        p.reads("gx")
        pair = []
        for which, conf in (("A", a), ("B", b)):
            steps = [dict(s) for s in p.steps]
            if x != "store":
                fz = dict(kind="freeze", impl=dict(op="restart", conf=conf), model=sl("setcfg", s_cfg(conf)))
                steps = steps[:marks] + [fz] + steps[marks:]
                cconf = full
            else:
                cconf = conf
            for s in steps[(marks + 1 if x != "store" else 0):]:
                s["conf_now"] = conf
            c = dict(id=first + len(cases), conf=cconf, steps=steps, contents=sorted(p.contents), pair=(x, which, i), start=marks)
            cases.append(c)
    return cases


def norm_headers(h, drop=()):
    out = {}
    for k, v in (h or {}).items():
        if k in drop:
            continue
        if k == "Location":
            v = [x.rsplit("/", 1)[0] + "/<id>" + ("?" + x.split("?", 1)[1] if "?" in x else "") if "/blobs/uploads/" in x else x for x in v]
        out[k] = v
    return out


def gate_oracle(ctx, case, io):
    """documented gates on single responses"""
    for k, (st, res) in enumerate(zip(case["steps"], io["steps"])):
        conf = st.get("conf_now")
        if conf is None or "status" not in res or st["impl"].get("op") not in ("http", None, ""):
            continue
        rc = resolved(conf)
        kind, status = st["kind"], res["status"]
        body = base64.b64decode(res.get("b64") or "")
        need = GATES.get(kind, set())
        off = [g for g in sorted(need) if not rc[g]]
        if off:
            if status not in (404, 405) or body:
                ctx.violation("%s %s answered %s with %s disabled (documented: the API is off)" % (st["impl"]["method"], st["impl"]["path"], status, "/".join(off)),
                              oracles.hist(case, k, res), "C19:served-while-%s-off" % off[0])
        else:
            if kind not in ("other", "ping") and (status == 405 or (status == 404 and not body and not st["impl"]["method"] == "HEAD")):
                ctx.violation("%s %s refused by routing (%s) although %s is enabled" % (st["impl"]["method"], st["impl"]["path"], status, "/".join(sorted(need)) or "nothing it needs is disabled"),
                              oracles.hist(case, k, res), "C19:refused-while-enabled-%s" % kind)
        if rc["ro"] and kind in MUTATING and 200 <= status < 300 and kind != "udel":
            ctx.violation("%s %s accepted (%s) by read-only storage" % (st["impl"]["method"], st["impl"]["path"], status), oracles.hist(case, k, res), "C19:ro-accepted")
        if not rc["referrer"] and (res.get("headers") or {}).get("Oci-Subject"):
            ctx.violation("%s %s is answered with OCI-Subject although the referrers API is disabled (the header tells the client that the registry keeps the referrers)"
                          % (st["impl"]["method"], st["impl"]["path"]), oracles.hist(case, k, res), "C19:oci-subject-while-referrer-off")
        w = (res.get("headers") or {}).get("Warning") or []
        want = ['299 - "%s"' % m for m in (conf.get("warnings") or [])]
        if w != want:
            ctx.violation("Warning headers %s, configured warnings %s" % (w, conf.get("warnings")), oracles.hist(case, k, res), "C19:warnings")
        if (res.get("headers") or {}).get("Docker-Distribution-Api-Version") != ["registry/2.0"]:
            ctx.violation("API version header missing on %s %s" % (st["impl"]["method"], st["impl"]["path"]), oracles.hist(case, k, res), "C19:version-header")


def pair_oracle(ctx, cases, iouts):
    """the same requests under two configurations differing in one setting: everything that setting does not govern is identical"""
    pairs = {}
    for c in cases:
        if c.get("pair"):
            pairs.setdefault(c["pair"][2], {})[c["pair"][1]] = c
    npairs = ncmp = 0
    for i, ab in sorted(pairs.items()):
        if set(ab) != {"A", "B"}:
            continue
        a, b = ab["A"], ab["B"]
        x = a["pair"][0]
        ia, ib = iouts[a["id"]], iouts[b["id"]]
        if ia.get("fatal") or ib.get("fatal"):
            continue
        npairs += 1
        for k, (st, ra, rb) in enumerate(zip(a["steps"], ia["steps"], ib["steps"])):
            if "status" not in ra or "status" not in rb or st.get("conf_now") is None:
                continue
            if st.get("repo") == "gx" and x not in ("warnings", "ratelimit", "store", "unset"):
                continue          # the repository reserved for the requests this setting governs
            drop = ("Warning",) if x == "warnings" else ()
            oa = (ra["status"], norm_headers(ra.get("headers"), drop), ra.get("b64") if "/blobs/uploads/" not in (ra.get("headers") or {}).get("Location", [""])[0] else "")
            ob = (rb["status"], norm_headers(rb.get("headers"), drop), rb.get("b64") if "/blobs/uploads/" not in (rb.get("headers") or {}).get("Location", [""])[0] else "")
            ncmp += 1
            if oa != ob:
                ctx.violation("toggling %s changed the answer to %s %s, which it does not govern: %s vs %s" % (x, st["impl"]["method"], st["impl"]["path"], str(oa)[:200], str(ob)[:200]),
                              dict(setting=x, case=replayable(dict(a, steps=a["steps"][:k + 1])), case_b_conf=b["steps"][b["start"]]["impl"].get("conf") if x != "store" else b["conf"],
                                   answer_a=str(oa)[:1500], answer_b=str(ob)[:1500]), "C19:toggle-%s-leaks" % x)
                break
    return npairs, ncmp


# ---- 2. SetDefaults ------------------------------------------------------------------------------------------
FIELDS = [("API.PushEnabled", "b"), ("API.DeleteEnabled", "b"), ("API.Blob.DeleteEnabled", "b"), ("API.Referrer.Enabled", "b"),
          ("API.Manifest.Limit", "n"), ("API.Referrer.PageCacheExpire", "n"), ("API.Referrer.PageCacheLimit", "n"),
          ("API.Referrer.Limit", "n"), ("API.RateLimit", "n"), ("Storage.ReadOnly", "b"), ("Storage.RootDir", "s"),
          ("Storage.GC.Frequency", "n"), ("Storage.GC.GracePeriod", "n"), ("Storage.GC.RepoUploadMax", "n"),
          ("Storage.GC.Untagged", "b"), ("Storage.GC.EmptyRepo", "b"), ("Storage.GC.ReferrersDangling", "b"),
          ("Storage.GC.ReferrersWithSubj", "b"), ("HTTP.Addr", "s")]
# the documented defaults (comments in config/config.go, flag help of cmd/olareg/serve.go, README)
DOCDEF = {"API.PushEnabled": True, "API.DeleteEnabled": False, "API.Blob.DeleteEnabled": False, "API.Referrer.Enabled": True,
          "API.Manifest.Limit": 8 * 1024 * 1024, "API.Referrer.PageCacheExpire": 300 * SEC, "API.Referrer.PageCacheLimit": 1000,
          "API.Referrer.Limit": 4 * 1024 * 1024, "Storage.ReadOnly": False, "Storage.GC.Frequency": 900 * SEC,
          "Storage.GC.GracePeriod": 3600 * SEC, "Storage.GC.RepoUploadMax": 1000, "Storage.GC.Untagged": False,
          "Storage.GC.EmptyRepo": True, "Storage.GC.ReferrersDangling": False, "Storage.GC.ReferrersWithSubj": True}


def gen_cfg(rng):
    cfg = {"Storage.StoreType": rng.choice(["mem", "dir", "dir", ""])}
    for f, k in FIELDS:
        r = rng.random()
        if k == "b":
            cfg[f] = None if r < 0.4 else (r < 0.7)
        elif k == "n":
            d = DOCDEF.get(f, 0)
            cfg[f] = 0 if r < 0.35 else rng.choice([1, 2, 7, d, d + 1, max(d - 1, 1), -1, -5, 1000, 123456789, 10 * SEC])
        else:
            cfg[f] = "" if r < 0.4 else rng.choice([".", "/data", "x", "127.0.0.1:5000", ":0"])
    return cfg


def s_defcase(cid, which, cfg):
    fs = []
    for f, k in FIELDS:
        v = cfg[f]
        if k == "b":
            fs.append(sl(sx(f), "b", "null" if v is None else ("true" if v else "false")))
        elif k == "n":
            fs.append(sl(sx(f), "n", str(v)))
        else:
            fs.append(sl(sx(f), "s", sx(v)))
    return sl("defcase", str(cid), which, sx({"dir": "StoreDir", "mem": "StoreMem"}.get(cfg["Storage.StoreType"], "")), sl(*fs))


def defaults_check(ctx, binp):
    rng = ctx.rng
    n = 600 if ctx.tier == "quick" else 20000
    cfgs = [gen_cfg(rng) for _ in range(n)]
    cfgs[0] = {"Storage.StoreType": "dir", **{f: (None if k == "b" else (0 if k == "n" else "")) for f, k in FIELDS}}   # nothing set
    per = 50
    cases = [dict(id=900000 + i, conf=mkconf(), steps=[dict(kind="defaults", impl=dict(op="defaults", cfg=c), model="(skip)") for c in cfgs[i * per:(i + 1) * per]])
             for i in range((n + per - 1) // per)]
    iouts = run_api(ctx, binp, cases, name="defaults")
    got = []
    for c in cases:
        for r in iouts[c["id"]]["steps"]:
            got.append(r.get("cfg"))
    binm = ensure_model()
    outs = {}
    for which in ("gen", "spec"):
        p = subprocess.run([binm, "defaults"], input="\n".join(s_defcase(i, which, c) for i, c in enumerate(cfgs)) + "\n",
                           stdout=subprocess.PIPE, stderr=subprocess.PIPE, text=True, timeout=600)
        if p.returncode != 0:
            raise BuildError("modelrun defaults failed: " + p.stderr[-800:])
        outs[which] = {json.loads(l)["id"]: json.loads(l)["cfg"] for l in p.stdout.strip().split("\n") if l}
    nbad = 0
    for i, (c, g) in enumerate(zip(cfgs, got)):
        rep = dict(config=c, set_defaults_result=g)
        if g is None:
            ctx.violation("SetDefaults driver returned nothing", rep, "C19:defaults-driver")
            break
        # direct oracle: explicitly set values stay, unset ones take the documented default
        for f, k in FIELDS:
            v, w = c[f], g.get(f)
            isset = (v is not None) if k == "b" else ((v != 0) if k == "n" else (v != ""))
            if f == "API.Manifest.Limit":
                isset = v > 0           # documented: a limit must be positive
            if isset and w != v:
                ctx.violation("explicitly set %s = %r was overridden by defaulting: %r" % (f, v, w), rep, "C19:default-overrides-%s" % f)
                nbad += 1
            elif not isset:
                want = DOCDEF.get(f, v)
                if f == "Storage.RootDir":
                    want = "." if c["Storage.StoreType"] == "dir" else ""
                if w != want:
                    ctx.violation("unset %s became %r, documented default %r" % (f, w, want), rep, "C19:default-wrong-%s" % f)
                    nbad += 1
        # correspondence: generated rule table (translator) and documented table (Config.spec_defaults) against the real function
        for which in ("gen", "spec"):
            m = outs[which][i]
            diff = [(f, g.get(f), m.get(f)) for f, _ in FIELDS if g.get(f) != m.get(f)]
            if diff:
                nbad += 1
                ctx.violation("correspondence: set_defaults with the %s rule table and config.Config.SetDefaults disagree on %s" % ("generated" if which == "gen" else "documented", diff[:3]),
                              dict(rep, model=m, note="correspondence Config.set_defaults (%s_defaults) vs config.SetDefaults" % which), "C19:corr-defaults", nofail=not ctx.violations)
        if nbad > 3:
            break
    return n, nbad


# ---- 3. rate limit ------------------------------------------------------------------------------------------
ADDRS = [("", "10.0.0.1:4000"), ("", "10.0.0.1:4001"), ("", "10.0.0.2:4000"), ("", "[2001:db8::1]:555"), ("", "[2001:db8::1]:556"),
         ("", "10.0.0.3"), ("198.51.100.7", "10.0.0.9:1"), ("198.51.100.7, 10.0.0.1", "10.0.0.8:1"), ("198.51.100.8,10.0.0.1", "10.0.0.8:1"),
         ("10.0.0.1", "10.0.0.2:77"), ("", ":8080"), ("", "localhost:1"),
         ("", "[2001:db8::2]:555"), ("", "[2001:db9::1]:555"), ("", "[::1]:80"), ("", "[fe80::1%eth0]:9"), ("", "[::ffff:10.0.0.1]:4000")]


def rate_cases(ctx, first):
    rng = ctx.rng
    n = 24 if ctx.tier == "quick" else 400
    cases = []
    for i in range(n):
        L = rng.choice([1, 2, 3, 5, 8])
        addrs = rng.sample(ADDRS, rng.randrange(2, 6))
        if i % 4 == 0:
            addrs = rng.sample([a for a in ADDRS if a[1].startswith("[")], 3)         # clients that differ only inside an IPv6 address
        steps = []
        for _ in range(rng.randrange(2, 5)):
            # a burst, then a pause that either stays well inside the window or leaves it for sure
            for _ in range(rng.randrange(1, 3 * L + 3)):
                xff, remote = rng.choice(addrs)
                h = {"X-Forwarded-For": [xff]} if xff else {}
                path = rng.choice(["/v2/", "/v2/", "/v2/a/tags/list", "/v2/a/manifests/v1", "/nothing"])
                steps.append(dict(kind="rl", xff=xff, remote=remote, impl=_http(rng.choice(["GET", "HEAD", "POST"]), path, headers=h, remote=remote), model="(skip)"))
            steps.append(dict(kind="sleep", impl=dict(op="sleep", secs=rng.choice([0.05, 0.2, 1.25, 1.4])), model="(skip)"))
        cases.append(dict(id=first + i, conf=mkconf(ratelimit=L, warnings=rng.choice([[], ["w"]])), steps=steps, limit=L))
    for j in range(3 if ctx.tier == "quick" else 24):
        # one address uses up its budget, then many other addresses send a request each (more than any cache in the server
        # is configured to hold: the page cache of the referrers API is made small, or left at its default of 1000), then the first
        # address again - all within the same second
        L = rng.choice([1, 2, 3])
        pl = [2, 3, 0][j % 3]
        crowd = (pl or 1000) + rng.randrange(2, 6)
        rl = lambda remote: dict(kind="rl", xff="", remote=remote, impl=_http("GET", "/v2/", headers={}, remote=remote), model="(skip)")
        steps = [rl("10.9.9.9:1") for _ in range(L + 1)]
        steps += [rl("10.%d.%d.%d:1" % (1 + q // 60000, (q // 250) % 250, q % 250 + 1)) for q in range(crowd)]
        steps += [rl("10.9.9.9:2") for _ in range(2)]
        steps.append(dict(kind="sleep", impl=dict(op="sleep", secs=1.25), model="(skip)"))
        steps += [rl("10.9.9.9:3") for _ in range(L + 1)]
        cases.append(dict(id=first + n + j, conf=mkconf(ratelimit=L, warnings=[], pagelimit=pl), steps=steps, limit=L))
    return cases


def rate_check(ctx, binp):
    cases = rate_cases(ctx, 800000)
    iouts = run_api(ctx, binp, cases, name="rate", workers=24)
    binm = ensure_model()
    lines, idx = [], []
    for c in cases:
        io = iouts[c["id"]]
        reqs = [(st, r) for st, r in zip(c["steps"], io["steps"]) if st["kind"] == "rl"]
        for tag, key in (("t0", "t0"), ("t1", "t1")):
            lines.append(sl("rlcase", str(len(lines)), str(c["limit"]), sl(*[sl(str(r.get(key, 0)), sx(st["xff"]), sx(st["remote"])) for st, r in reqs])))
            idx.append((c["id"], tag))
    p = subprocess.run([binm, "rl"], input="\n".join(lines) + "\n", stdout=subprocess.PIPE, stderr=subprocess.PIPE, text=True, timeout=600)
    if p.returncode != 0:
        raise BuildError("modelrun rl failed: " + p.stderr[-800:])
    mo = {}
    for l in p.stdout.strip().split("\n"):
        j = json.loads(l)
        mo[idx[j["id"]]] = j
    nreq = nskip = nbad = 0
    for c in cases:
        io = iouts[c["id"]]
        L = c["limit"]
        reqs = [(st, r) for st, r in zip(c["steps"], io["steps"]) if st["kind"] == "rl"]
        m0, m1 = mo[(c["id"], "t0")], mo[(c["id"], "t1")]
        rep = dict(limit=L, requests=[dict(xff=st["xff"], remote=st["remote"], t0=r.get("t0"), t1=r.get("t1"), status=r.get("status"), retry=(r.get("headers") or {}).get("Retry-After")) for st, r in reqs],
                   case=replayable(c))
        if m0["served"] != m1["served"]:
            nskip += 1          # a request fell too close to a window boundary to tell which side the server saw it on
            continue
        nreq += len(reqs)
        # direct oracle on the implementation's own timeline: per address (as documented: first X-Forwarded-For element, else the
        # peer address without port) no more than L requests are served per accounting second, and an address below its limit is never refused
        windows = {}
        for (st, r), ip, served in zip(reqs, m0["ips"], m0["served"]):
            ok = r.get("status") != 429
            w = windows.get(ip)
            if w is None or r["t0"] - w[0] > SEC + 50000000:
                w = windows[ip] = [r["t0"], 0, 0]
            elif r["t0"] - w[0] > SEC - 50000000:
                w = None            # boundary: not judged by the direct oracle
            if w is not None:
                w[1] += 1
                if ok:
                    w[2] += 1
                if w[2] > L:
                    ctx.violation("address %s was served %d requests within one second with a limit of %d" % (ip, w[2], L), rep, "C19:rate-exceeded")
                    nbad += 1
                    break
                if not ok and w[1] <= L:
                    ctx.violation("address %s was refused at its request number %d of the second (limit %d): other addresses' traffic was counted against it" % (ip, w[1], L), rep, "C19:rate-other-address")
                    nbad += 1
                    break
            wants = ['299 - "%s"' % w for w in (c["conf"].get("warnings") or [])]
            if wants and (r.get("headers") or {}).get("Warning") != wants:
                ctx.violation("warnings %s configured together with a rate limit: the response with status %s carries Warning %s (documented: included with all responses)"
                              % (c["conf"]["warnings"], r.get("status"), (r.get("headers") or {}).get("Warning")), rep, "C19:warning-with-ratelimit")
                nbad += 1
                break
            if not ok and (r.get("headers") or {}).get("Retry-After") != ["1"]:
                ctx.violation("429 without Retry-After: 1", rep, "C19:retry-after")
                nbad += 1
                break
            if ok != served:
                ctx.violation("correspondence: RateLimit.rl_serve and the server disagree on request %d of case %d (model %s, status %s)" % (reqs.index((st, r)), c["id"], served, r.get("status")),
                              dict(rep, model=m0, note="correspondence RateLimit.rl_serve vs Server.ServeHTTP rate limiting"), "C19:corr-rate", nofail=not ctx.violations)
                nbad += 1
                break
    return len(cases), nreq, nskip, nbad


# ---- 4. the built binary -------------------------------------------------------------------------------------
def free_port():
    s = socket.socket()
    s.bind(("127.0.0.1", 0))
    p = s.getsockname()[1]
    s.close()
    return p


def build_binary(ctx):
    out = os.path.join(ctx.work, "olareg-bin")
    env = dict(os.environ, GOFLAGS="-mod=mod", GOPROXY="off", GOSUMDB="off", GOTOOLCHAIN="local", CGO_ENABLED="0")
    rc, log = sh(["go", "build", "-o", out, "./cmd/olareg"], cwd=REPO, env=env, timeout=600)
    if rc != 0:
        raise BuildError("go build ./cmd/olareg failed:\n" + log[-1500:])
    return out


class Proc:
    def __init__(self, binp, args, cwd):
        self.port = free_port()
        self.args = ["serve", "--addr", "127.0.0.1", "--port", str(self.port)] + args
        self.p = subprocess.Popen([binp] + self.args, cwd=cwd, stdout=subprocess.PIPE, stderr=subprocess.STDOUT)
        t0 = time.time()
        self.up = False
        while time.time() - t0 < 10:
            if self.p.poll() is not None:
                break
            try:
                socket.create_connection(("127.0.0.1", self.port), timeout=0.2).close()
                self.up = True
                break
            except OSError:
                time.sleep(0.02)

    def req(self, method, path, body=b"", headers=None):
        c = http.client.HTTPConnection("127.0.0.1", self.port, timeout=10)
        try:
            c.request(method, path, body=body if body else None, headers=headers or {})
            r = c.getresponse()
            data = r.read()
            return dict(status=r.status, headers={k.title(): v for k, v in r.getheaders()}, body=data,
                        warnings=[v for k, v in r.getheaders() if k.lower() == "warning"])
        except Exception as e:       # connection refused / reset: the server is gone
            return dict(status=-1, headers={}, body=b"", err=str(e))
        finally:
            c.close()

    def term(self, sig=signal.SIGTERM):
        if self.p.poll() is None:
            self.p.send_signal(sig)
        try:
            out, _ = self.p.communicate(timeout=15)
            return self.p.returncode, (out or b"").decode(errors="replace")[-1500:]
        except subprocess.TimeoutExpired:
            self.p.kill()
            out, _ = self.p.communicate()
            return "timeout", (out or b"").decode(errors="replace")[-1500:]


def flag_args(conf, root):
    """the documented flag for each setting"""
    a = ["--store-type", conf["store"]]
    if conf["store"] == "dir":
        a += ["--dir", root]
    for k, f in (("ro", "--store-ro"), ("push", "--api-push"), ("delete", "--api-delete"), ("blobdelete", "--api-blob-delete"), ("referrer", "--api-referrer")):
        if conf.get(k) is not None:
            a.append("%s=%s" % (f, "true" if conf[k] else "false"))
    if conf.get("ratelimit"):
        a += ["--rate-limit", str(conf["ratelimit"])]
    for w in conf.get("warnings") or []:
        a += ["--warning", w]
    a += ["--gc-frequency", "-1s"]
    return a


def wire_requests(rng):
    """a request script; session requests take the session from the last accepted upload POST/PATCH"""
    cfg, layer = b"{}", b"layer-%d" % rng.randrange(1000)
    man = image_manifest(desc(MT_CFG, cfg), [desc(MT_LAYER, layer)], annotations={"k": str(rng.randrange(1000))})
    dm = dg("sha256", man)
    art = image_manifest(desc(MT_EMPTY, cfg), [], subject={"mediaType": MT_OCI_M, "digest": dm, "size": len(man)}, artifact_type="application/vnd.example.sig")
    da = dg("sha256", art)
    big = b"x" * 70000
    dc, dl, db = dg("sha256", cfg), dg("sha256", layer), dg("sha256", big)
    R = lambda kind, m, path, h=None, body=b"", **kw: dict(kind=kind, method=m, path=path, headers=h or {}, body=body, **kw)
    oct_ = {"Content-Type": "application/octet-stream"}
    return [R("ping", "GET", "/v2/"),
            R("upost", "POST", "/v2/r/blobs/uploads/?digest=" + dc, oct_, cfg, get="/v2/r/blobs/" + dc, want=cfg),
            R("upost", "POST", "/v2/r/blobs/uploads/", opens=True),
            R("upatch", "PATCH", None, dict(oct_, **{"Content-Range": "0-%d" % (len(layer) - 1)}), layer, sess="patch", q="state=" + state_token(0)),
            R("uget", "GET", None, sess="get", q=""),
            R("uput", "PUT", None, {}, b"", sess="put", q="state=" + state_token(len(layer)) + "&digest=" + dl, suffix="&digest=" + dl, get="/v2/r/blobs/" + dl, want=layer),
            R("blobget", "GET", "/v2/r/blobs/" + dl),
            R("mput", "PUT", "/v2/r/manifests/v1", {"Content-Type": MT_OCI_M}, man, get="/v2/r/manifests/" + dm, want=man),
            R("mput", "PUT", "/v2/r/manifests/" + da, {"Content-Type": MT_OCI_M}, art, get="/v2/r/manifests/" + da, want=art),
            R("upost", "POST", "/v2/r/blobs/uploads/?digest=" + db, {}, big, get="/v2/r/blobs/" + db, want=big),
            R("mget", "GET", "/v2/r/manifests/v1", {"Accept": MT_OCI_M}),
            R("mget", "HEAD", "/v2/r/manifests/" + dm, {"Accept": MT_OCI_M}),
            R("tags", "GET", "/v2/r/tags/list"),
            R("refs", "GET", "/v2/r/referrers/" + dm),
            R("blobdel", "DELETE", "/v2/r/blobs/" + db),
            R("mdel", "DELETE", "/v2/r/manifests/" + da),
            R("mdel", "DELETE", "/v2/r/manifests/v1"),
            R("mget", "GET", "/v2/r/manifests/v1", {"Accept": MT_OCI_M}),
            R("blobget", "GET", "/v2/r/blobs/" + dc),
            R("other", "GET", "/v2/r/unknown/x")]


def inproc_script(script):
    """the same script as steps for the in-process driver (session placeholder of the api module)"""
    steps, opened = [], None
    for r in script:
        path, q = r["path"], ""
        if r.get("sess"):
            path = "/v2/r/blobs/uploads/$SID%d$" % opened
            q = r["q"]
        elif "?" in path:
            path, q = path.split("?", 1)
        steps.append(dict(kind=r["kind"], impl=_http(r["method"], path, q, {k: [v] for k, v in r["headers"].items()}, r["body"]), model="(skip)"))
        if r.get("opens"):
            opened = len(steps) - 1
    return steps


def binary_check(ctx, binp):
    rng = ctx.rng
    n = 12 if ctx.tier == "quick" else 120
    exe = build_binary(ctx)
    nreq = nbad = 0
    confs = []
    for i in range(n):
        conf = dict(store=rng.choice(["dir", "dir", "mem"]), ro=(rng.random() < 0.15), push=bool(i & 1), delete=bool(i & 2), blobdelete=bool(i & 4),
                    referrer=bool(i & 8), ratelimit=0,
                    warnings=rng.choice([[], [], ["careful"], ["careful, this registry is for tests"], ["one", "two, with a comma", "three"]]))
        if i % 5 == 4:
            # unset flags: the documented defaults
            for k in ("ro", "push", "delete", "blobdelete", "referrer"):
                if rng.random() < 0.6:
                    conf[k] = None
        confs.append(conf)
    scripts = [wire_requests(rng) for _ in confs]
    # expected answers: the in-process server configured with the fields the flags are documented to feed
    cases = [dict(id=700000 + i, conf=mkconf(**dict(conf, mlimit=0, rlimit=0)), steps=inproc_script(script)) for i, (conf, script) in enumerate(zip(confs, scripts))]
    iouts = run_api(ctx, binp, cases, name="binexp")
    for i, (conf, script) in enumerate(zip(confs, scripts)):
        root = os.path.join(ctx.work, "bin-root-%d" % i)
        shutil_rmtree(root)
        os.makedirs(root)
        pr = Proc(exe, flag_args(conf, root), cwd=ctx.work)
        rep = dict(flags=pr.args, conf=conf)
        if not pr.up:
            rc, out = pr.term()
            ctx.violation("olareg serve %s did not start listening (exit %s): %s" % (" ".join(pr.args), rc, out[-300:]), rep, "C19:binary-start")
            nbad += 1
            continue
        stop_at = rng.randrange(3, len(script) + 1) if rng.random() < 0.6 else len(script)
        loc, acked, trace, failed = None, [], [], False
        exp = iouts[cases[i]["id"]]["steps"]
        for k, r in enumerate(script[:stop_at]):
            judged = True
            if r.get("sess"):
                if loc is None:
                    p, judged = "/v2/r/blobs/uploads/none" + ("?" + r["q"] if r["q"] else ""), False
                elif r["sess"] == "get":
                    p = loc.partition("?")[0]
                else:
                    p = loc + r.get("suffix", "")
            else:
                p = r["path"]
            res = pr.req(r["method"], p, r["body"], r["headers"])
            nreq += 1
            if r["kind"] in ("upost", "upatch") and res["status"] == 202:
                loc = res["headers"].get("Location")
            trace.append(dict(k=k, kind=r["kind"], method=r["method"], path=p, status=res["status"]))
            if res["status"] == 201 and r.get("get"):
                acked.append(r)
            want = exp[k].get("status")
            if judged and res["status"] != want:
                ctx.violation("olareg serve %s answered %s to %s %s; the server configured with the fields those flags are documented to feed answers %s" % (" ".join(flag_args(conf, "<dir>")), res["status"], r["method"], p, want),
                              dict(rep, trace=trace, expected=want), "C19:binary-flags-%s" % r["kind"])
                nbad += 1
                failed = True
                break
            if (conf.get("warnings") or []) and "Warning" not in res["headers"]:
                ctx.violation("--warning given but no Warning header on %s %s" % (r["method"], p), dict(rep, trace=trace), "C19:binary-warning")
                nbad += 1
                failed = True
                break
            wantw = ['299 - "%s"' % w_ for w_ in (conf.get("warnings") or [])]
            if res.get("warnings") is not None and res["status"] > 0 and sorted(res["warnings"]) != sorted(wantw):
                ctx.violation("--warning %s: the Warning headers on %s %s are %s, the configured texts give %s" % (conf.get("warnings"), r["method"], p, res["warnings"], wantw),
                              dict(rep, trace=trace), "C19:binary-warning-text")
                nbad += 1
                failed = True
                break
        # a termination signal: clean exit, storage intact
        rc, out = pr.term()
        if rc != 0:
            ctx.violation("olareg serve exited with %s after SIGTERM (after %d requests): %s" % (rc, stop_at, out[-400:]), dict(rep, trace=trace, output=out), "C19:sigterm-exit")
            nbad += 1
            continue
        if conf["store"] == "dir" and not failed:
            bad = storage_intact(root)
            if bad:
                ctx.violation("after SIGTERM the storage directory is damaged: %s" % bad, dict(rep, trace=trace), "C19:sigterm-storage")
                nbad += 1
                continue
            # what was acknowledged and not deleted afterwards is served by a second start on the same directory
            deleted = {x["path"] for x in trace if x["kind"] in ("mdel", "blobdel") and x["status"] == 202}
            # (the read-only start also finds an emptied repository and an idle upload directory: reading them and stopping
            #  must leave every file and directory where it is)
            os.makedirs(os.path.join(root, "emptied", "blobs", "sha256"), exist_ok=True)
            with open(os.path.join(root, "emptied", "oci-layout"), "w") as fh:
                fh.write('{"imageLayoutVersion":"1.0.0"}')
            with open(os.path.join(root, "emptied", "index.json"), "w") as fh:
                fh.write('{"schemaVersion":2,"mediaType":"application/vnd.oci.image.index.v1+json","manifests":[]}')
            if os.path.isdir(os.path.join(root, "r")):
                os.makedirs(os.path.join(root, "r", "_uploads"), exist_ok=True)
            tree = lambda: sorted((os.path.relpath(os.path.join(dp, x), root), os.path.getsize(os.path.join(dp, x)) if x in fs else -1)
                                  for dp, ds, fs in os.walk(root) for x in ds + fs)
            before = tree()
            pr2 = Proc(exe, flag_args(dict(conf, ro=True), root), cwd=ctx.work)
            if not pr2.up:
                rc2, out2 = pr2.term()
                ctx.violation("second start on the same directory failed (exit %s): %s" % (rc2, out2[-300:]), rep, "C19:binary-restart")
                nbad += 1
                continue
            for r in acked:
                if r["get"] in deleted:
                    continue
                res = pr2.req("GET", r["get"], b"", {"Accept": MT_OCI_M})
                if res["status"] != 200 or res["body"] != r["want"]:
                    ctx.violation("acknowledged %s is not served after SIGTERM and restart: GET %s -> %s" % (r["kind"], r["get"], res["status"]), dict(rep, trace=trace), "C19:sigterm-lost")
                    nbad += 1
                    break
            for rp_ in ("emptied", "r"):
                pr2.req("GET", "/v2/%s/tags/list" % rp_, b"", {})
            rc2, out2 = pr2.term()
            if rc2 != 0:
                ctx.violation("read-only olareg serve exited with %s after SIGTERM: %s" % (rc2, out2[-300:]), rep, "C19:sigterm-exit")
                nbad += 1
            after = tree()
            if after != before:
                ctx.violation("olareg serve --store-ro changed its storage directory (reads, then SIGTERM): removed %s, added or resized %s"
                              % ([x[0] for x in before if x not in after][:4], [x[0] for x in after if x not in before][:4]), dict(rep, trace=trace), "C19:ro-storage-changed")
                nbad += 1
        shutil_rmtree(root)
    ni, ibad = inflight_check(ctx, exe)
    try:
        os.remove(exe)
    except OSError:
        pass
    return n + ni, nreq + 3 * ni, nbad + ibad


def inflight_check(ctx, exe):
    """SIGTERM while a request body is still arriving and an upload session is half written: the server drains the request,
    exits 0, leaves no partial upload file behind, and what it acknowledged is served by a second start"""
    rng = ctx.rng
    n = 3 if ctx.tier == "quick" else 40
    nbad = 0
    for i in range(n):
        root = os.path.join(ctx.work, "sig-root-%d" % i)
        shutil_rmtree(root)
        os.makedirs(root)
        conf = dict(store="dir", push=True, delete=None, blobdelete=None, referrer=None, ro=None, ratelimit=0, warnings=[])
        pr = Proc(exe, flag_args(conf, root), cwd=ctx.work)
        rep = dict(flags=pr.args, scenario="sigterm-inflight")
        if not pr.up:
            rc, out = pr.term()
            ctx.violation("olareg serve %s did not start listening (exit %s): %s" % (" ".join(pr.args), rc, out[-300:]), rep, "C19:binary-start")
            nbad += 1
            continue
        first = b"first-%d" % rng.randrange(10 ** 6)
        r1 = pr.req("POST", "/v2/r/blobs/uploads/?digest=" + dg("sha256", first), first, {"Content-Type": "application/octet-stream"})
        # a session with half of its content written
        r2 = pr.req("POST", "/v2/r/blobs/uploads/")
        part = b"p" * rng.randrange(1, 5000)
        loc = r2["headers"].get("Location", "")
        if rng.random() < 0.7 and loc:
            pr.req("PATCH", loc, part, {"Content-Type": "application/octet-stream", "Content-Range": "0-%d" % (len(part) - 1)})
        # a monolithic upload whose body is still arriving when the signal comes
        data = bytes(rng.randrange(256) for _ in range(rng.randrange(2000, 200000)))
        d = dg("sha256", data)
        h = rng.randrange(1, len(data))
        sk = socket.create_connection(("127.0.0.1", pr.port), timeout=10)
        sk.sendall(("POST /v2/r/blobs/uploads/?digest=%s HTTP/1.1\r\nHost: localhost\r\nContent-Type: application/octet-stream\r\nContent-Length: %d\r\nConnection: close\r\n\r\n" % (d, len(data))).encode() + data[:h])
        time.sleep(rng.choice([0.0, 0.02, 0.1]))
        pr.p.send_signal(signal.SIGTERM)
        time.sleep(rng.choice([0.05, 0.2, 0.4]))
        status = None
        try:
            sk.sendall(data[h:])
            buf = b""
            while b"\r\n" not in buf:
                x = sk.recv(4096)
                if not x:
                    break
                buf += x
            if buf.startswith(b"HTTP/1.1 "):
                status = int(buf[9:12])
        except OSError as e:
            rep["io_error"] = str(e)
        finally:
            sk.close()
        rc, out = pr.term()
        rep.update(first=r1["status"], session=r2["status"], inflight_status=status, sent_before_signal=h, size=len(data))
        if rc != 0:
            ctx.violation("olareg serve exited with %s after SIGTERM during a request: %s" % (rc, out[-400:]), dict(rep, output=out), "C19:sigterm-exit")
            nbad += 1
            continue
        if status is None:
            ctx.violation("SIGTERM while a request body was arriving: the request was dropped without an answer (the server did not drain it before exiting)", dict(rep, output=out), "C19:sigterm-inflight-dropped")
            nbad += 1
            continue
        left = [os.path.relpath(os.path.join(dp, f), root) for dp, dn, fn in os.walk(root) for f in fn if os.path.basename(dp) == "_uploads"]
        if left:
            ctx.violation("after SIGTERM the storage was not closed: partial upload file(s) left behind: %s" % left[:3], dict(rep, output=out), "C19:sigterm-uploads-left")
            nbad += 1
            continue
        bad = storage_intact(root)
        if bad:
            ctx.violation("after SIGTERM during a request the storage directory is damaged: %s" % bad, rep, "C19:sigterm-storage")
            nbad += 1
            continue
        pr2 = Proc(exe, flag_args(dict(conf, ro=True), root), cwd=ctx.work)
        for path, want, st in (("/v2/r/blobs/" + dg("sha256", first), first, r1["status"]), ("/v2/r/blobs/" + d, data, status)):
            if st == 201:
                res = pr2.req("GET", path)
                if res["status"] != 200 or res["body"] != want:
                    ctx.violation("acknowledged blob is not served after SIGTERM and restart: GET %s -> %s" % (path, res["status"]), rep, "C19:sigterm-lost")
                    nbad += 1
                    break
        pr2.term()
        shutil_rmtree(root)
    return n, nbad


def shutil_rmtree(p):
    import shutil
    shutil.rmtree(p, ignore_errors=True)


def storage_intact(root):
    """every repository under root: index.json parses, every blob file hashes to its name, every index entry has its blob"""
    for dp, dn, fn in os.walk(root):
        if "index.json" in fn and "oci-layout" in fn:
            try:
                idx = json.load(open(os.path.join(dp, "index.json")))
            except Exception as e:
                return "index.json of %s does not parse: %s" % (os.path.relpath(dp, root), e)
            for alg in ("sha256", "sha512"):
                bd = os.path.join(dp, "blobs", alg)
                if os.path.isdir(bd):
                    for f in os.listdir(bd):
                        data = open(os.path.join(bd, f), "rb").read()
                        if hashlib.new(alg, data).hexdigest() != f:
                            return "blob file %s/%s does not hash to its name" % (alg, f)
            for d in idx.get("manifests") or []:
                alg, _, hexd = d["digest"].partition(":")
                if not os.path.exists(os.path.join(dp, "blobs", alg, hexd)):
                    return "index entry %s has no blob" % d["digest"]
    return None


def run(ctx):
    res = {}

    def extra(cases, iouts):
        binp = api_binary(ctx)
        res["pairs"] = pair_oracle(ctx, cases, iouts)
        res["defaults"] = defaults_check(ctx, binp)
        res["rate"] = rate_check(ctx, binp)
        res["binary"] = binary_check(ctx, binp)

    apicheck.run(ctx, "C19", make_cases, gate_oracle, extra=extra,
                 assumptions=["exactness of a toggle is judged on request lists where every request governed by the toggled setting addresses a repository reserved for it; "
                              "independence of repositories is C16",
                              "a repository whose referrers were converted with the API enabled refuses to load with the API disabled (deliberate guard in indexIngest): content is pushed with the API off whenever a configuration under test has it off",
                              "rate-limit cases whose requests fall within 50 ms of a window boundary (by the driver's clock around the handler) are not judged",
                              "the binary is exercised on loopback with GC switched off by flag; SIGTERM is sent between requests and, in the in-flight scenario, while a request body is arriving and a session is half written"])
    if ctx.replay or not res:
        return
    npairs, ncmp = res["pairs"]
    ndef, dbad = res["defaults"]
    ncase, nreq, nskip, rbad = res["rate"]
    nbin, nbreq, bbad = res["binary"]
    ctx.coverage.update(dict(toggle_pairs=npairs, toggle_comparisons=ncmp, settings_toggled=SETTINGS,
                             defaults_configurations=ndef, defaults_mismatches=dbad,
                             rate_cases=ncase, rate_requests_judged=nreq, rate_cases_skipped_boundary=nskip, rate_mismatches=rbad,
                             binary_flag_combinations=nbin, binary_requests=nbreq, binary_mismatches=bbad))
    ctx.coverage["correspondence_mismatches"] = ctx.coverage.get("correspondence_mismatches", 0) + dbad + rbad + bbad
