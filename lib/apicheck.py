"""Generic runner of an API-level property check:
   Coq build + Props file, implementation driver, corpus + generated histories,
   correspondence (extracted model vs implementation) and the property's direct oracle."""
import collections
import glob
import json
import os
import random

from api import *
import gen


def load_corpus(pid):
    out = []
    for fn in sorted(glob.glob(os.path.join(VERIF, "corpus", pid, "*.json"))):
        c = unreplay(json.load(open(fn)))
        c["corpus"] = os.path.basename(fn)
        out.append(c)
    return out


def distribution(cases, iouts):
    kinds = collections.Counter()
    status = collections.Counter()
    for c in cases:
        o = iouts.get(c["id"])
        for k, s in enumerate(c["steps"]):
            kinds[s["kind"]] += 1
            if o and k < len(o["steps"]) and "status" in o["steps"][k]:
                st = o["steps"][k]["status"]
                status["%s:%s" % (s["kind"], "2xx" if 200 <= st < 300 else ("4xx" if 400 <= st < 500 else str(st)))] += 1
    return dict(kinds), dict(status)


def run(ctx, pid, make_cases, oracle, props=None, model=True, assumptions=(), rule="", extra=None):
    """make_cases(ctx, first_id) -> list of cases;  oracle(ctx, case, iout) records violations."""
    ok_build, blog = ctx.coq_build()
    ok_props, plog = ctx.coq_props(props) if ok_build else (False, blog)
    binp = api_binary(ctx)
    cases = []
    if ctx.replay:
        r = json.load(open(ctx.replay))
        c = unreplay(r["replay"]["case"] if "replay" in r and "case" in r["replay"] else r)
        c["id"] = 1
        cases = [c]
        ncorpus = 0
    else:
        for c in load_corpus(pid):
            c["id"] = len(cases) + 1
            cases.append(c)
        ncorpus = len(cases)
        cases += make_cases(ctx, len(cases) + 1)
    bodies = set()
    for c in cases:
        bodies |= case_bodies(c)
    views = get_views(ctx, binp, bodies) if model else {}
    ctx.views = views
    iouts = run_api(ctx, binp, cases)
    for c in cases:
        io = iouts[c["id"]]
        if io.get("fatal"):
            ctx.violation("implementation driver: %s" % io["fatal"], dict(case=replayable(c)), "%s:hang" % pid)
            continue
        for k, r in enumerate(io["steps"]):
            if r.get("panic"):
                ctx.violation("handler panicked: %s" % r["panic"], dict(case=replayable(dict(c, steps=c["steps"][:k + 1])), stack=r.get("err")),
                              "%s:panic" % pid)
                break
        oracle(ctx, c, io)
    nbad = 0
    if model:
        mouts = run_model(ctx, cases, views)
        firstbad = []
        for c in cases:
            r = compare_case(c, iouts[c["id"]], mouts[c["id"]])
            if r:
                nbad += 1
                if len(firstbad) < 3:
                    firstbad.append((c, r))
        for c, (k, a, b) in firstbad:
            ctx.violation("correspondence: model coq/Reg.v (extracted) and the implementation disagree at step %d (%s) of case %d; %d case(s) in total"
                          % (k, c["steps"][k]["kind"], c["id"], nbad),
                          dict(case=replayable(dict(c, steps=c["steps"][:k + 1])), impl=str(a)[:2000], model=str(b)[:2000],
                               note="correspondence between coq/Reg.v (extracted to OCaml) and the Go handlers"),
                          "%s:corr" % pid, nofail=not ctx.violations)
    if extra and not ctx.replay:
        extra(cases, iouts)          # further differentials of the property (they search for a failing input as well)
    if not ok_props:
        ctx.violation("proof obligations of %s no longer check" % (props or "Props_%s.v" % pid),
                      dict(theorem_file="coq/%s.v" % (props or "Props_" + pid), log=plog[-1500:]),
                      "%s:proof" % pid, nofail=not ctx.violations)
    kinds, status = distribution(cases, iouts)
    nontriv = set()
    for c in cases:
        if len(c["steps"]) >= 3:
            nontriv.add(hash(json.dumps([s["model"] for s in c["steps"]])))
    ctx.coverage.update(dict(
        evaluations=len(cases), distinct_nontrivial=len(nontriv),
        rule=rule or "request histories replayed on the real Server (ServeHTTP in-process) and on the extracted model; non-trivial = at least 3 requests, distinct by request list",
        traces_validated_against_impl=len(cases) - nbad, correspondence_mismatches=nbad, corpus_cases=ncorpus,
        requests=sum(len(c["steps"]) for c in cases), request_kinds=kinds, response_classes=status,
        stores=sorted({c["conf"]["store"] for c in cases}), exhaustive=False))
    if len(cases) > ncorpus:
        ctx.samples = [[s["model"][:160] for s in cases[ncorpus]["steps"][:5]]]
    ctx.assumptions = list(assumptions) + [
        "model = coq/Reg.v (+Index.v): hand-written Gallina mirror of blob.go/manifest.go/tag.go/referrer.go over atomic store actions; tie = differential run of every generated history (projected observables compared)",
        "hash functions and JSON decoding are environment oracles of the model (theorems are for all environments); the OCaml driver instantiates them with SHA-2 and with views computed by Go's encoding/json",
    ]
    return cases, iouts


def std_cases(ctx, first_id, n, nsteps, confs, profile=None, repos=None):
    out = []
    for i in range(n):
        conf = confs[i % len(confs)]
        out.append(gen.gen_case(ctx.rng, first_id + i, conf, nsteps=nsteps, profile=profile, repos=repos))
    return out
