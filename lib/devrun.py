import sys, os, json, random, time
sys.path.insert(0, os.path.dirname(os.path.abspath(__file__)))
from api import *
import gen
def main():
    n = int(sys.argv[1]) if len(sys.argv) > 1 else 100
    seed = int(sys.argv[2]) if len(sys.argv) > 2 else 1
    nsteps = int(sys.argv[3]) if len(sys.argv) > 3 else 40
    ctx = Ctx("DEV", "quick", seed)
    t0=time.time()
    binp = api_binary(ctx)
    ensure_model()
    print("build %.1fs" % (time.time()-t0)); t0=time.time()
    rng = random.Random(seed)
    cases = []
    for i in range(n):
        conf = mkconf(store=("mem","dir")[i%2], referrer=(i%7!=6))
        cases.append(gen.gen_case(rng, i+1, conf, nsteps=nsteps))
    print("gen %.1fs steps=%d" % (time.time()-t0, sum(len(c['steps']) for c in cases))); t0=time.time()
    bodies=set()
    for c in cases: bodies |= case_bodies(c)
    views = get_views(ctx, binp, bodies)
    print("views %d %.1fs" % (len(views), time.time()-t0)); t0=time.time()
    iouts = run_api(ctx, binp, cases)
    print("impl %.1fs" % (time.time()-t0)); t0=time.time()
    mouts = run_model(ctx, cases, views)
    print("model %.1fs" % (time.time()-t0)); t0=time.time()
    bad=0
    kinds={}
    for c in cases:
        if iouts[c['id']].get('fatal'): print("FATAL", c['id'], iouts[c['id']]['fatal'])
        r = compare_case(c, iouts[c['id']], mouts[c['id']])
        if r:
            bad+=1
            k, a, b = r
            st=c['steps'][k]
            key=(st['kind'], json.dumps(sorted(a.keys())) if isinstance(a,dict) else str(a))
            kinds.setdefault(key,[]).append((c['id'],k))
            if len(kinds[key])<=2:
                print("MISMATCH case %d (%s) step %d kind %s" % (c['id'], c['conf']['store'], k, st['kind']))
                print("   req :", st['model'][:300])
                print("   impl:", str(a)[:400])
                print("   modl:", str(b)[:400])
    print("cases %d mismatching %d" % (len(cases), bad))
    for k,v in kinds.items(): print(len(v), k)
main()
