"""C11 - concurrent requests on a repository never lose or tear updates.
Theorems: coq/Props_C11.v (index updates are single atomic store actions; an insertion keeps every other tag, a removal
keeps every other entry; requests addressed to different repositories commute; the read-modify-write of a referrers
response is one critical section in the model as in the code).
Tie: concurrent client threads on the real server (both stores); the recorded history - which thread issued what and
what it was answered, with call/return times - is checked for linearizability against the SEQUENTIAL extracted model:
some interleaving of the threads' requests that respects each thread's order and the real-time order of the calls must,
run on the model after the same sequential prefix, produce exactly the answers the clients got and the same answers to
the reads issued afterwards.  Direct oracle on the quiescent state: everything pushed concurrently and not deleted is
present, a tag pushed by several clients resolves to one of the manifests pushed under it, the referrers list of a
shared subject holds every acknowledged, undeleted artifact."""
import itertools
import os
import hashlib
import json

import apicheck
import oracles
from api import *
import gen
import gcgen

LEVEL = "proof"
REPOS = ["a", "b/c"]
TAGS = ["t1", "t2", "t3"]


def mk_image(n, subject=None, at=None, layers=()):
    cfg = b"{}"
    sd = None
    if subject is not None:
        sd = {"mediaType": MT_OCI_M, "digest": dg("sha256", subject), "size": len(subject)}
    return image_manifest(desc(MT_CFG if subject is None else MT_EMPTY, cfg), [desc(MT_LAYER, l) for l in layers], subject=sd,
                          artifact_type=at, annotations={"n": str(n)})


def gen_case(rng, cid, store):
    conf = mkconf(store=store, withsubj=False)
    repo = rng.choice(REPOS)
    other = [r for r in REPOS if r != repo][0]
    cfg, layer = b"{}", b"layer-shared"
    prefix = []
    seed = []
    subj = mk_image(0, layers=(layer,))
    if store == "memdir":
        # the repositories exist on disk only: the concurrent requests are the first to touch them
        import layouts
        for r in REPOS:
            L = layouts.Layout(r)
            L.add_blob(cfg)
            L.add_blob(layer)
            if r == repo:
                d = L.add_blob(subj)
                L.entries.append({"mediaType": MT_OCI_M, "digest": d, "size": len(subj), "annotations": {REFNAME: "base"}})
            L.annotations = {"org.olareg.referrer.convert": "true"}
            seed += L.files()
            prefix.append(dict(kind="seed", repo=r, impl=dict(op="sleep", secs=0),
                               model=sl("seed", sx(r), "true", sl(*[sl(sx(dd), sx(lat(b))) for dd, b in sorted(L.blobs.items())]),
                                        sl(*[s_vdesc(dict(mt=e["mediaType"], dig=e["digest"], size=e["size"], ann=e.get("annotations"), at="")) for e in L.entries]))))
    else:
        for r in REPOS:
            prefix += [upload_post(r, digest=dg("sha256", cfg), body=cfg), upload_post(r, digest=dg("sha256", layer), body=layer)]
        prefix.append(manifest_put(repo, "base", subj, ctype=MT_OCI_M))
    n = [0]
    pool = []           # manifests that exist before the concurrent part
    for _ in range(rng.randrange(0, 3) if store != "memdir" else 0):
        n[0] += 1
        m = mk_image(n[0], layers=(layer,))
        prefix.append(manifest_put(repo, rng.choice(TAGS + [dg("sha256", m)]), m, ctype=MT_OCI_M))
        pool.append(m)
    for _ in range(rng.randrange(0, 2) if store != "memdir" else 0):
        n[0] += 1
        a = mk_image(n[0], subject=subj, at="application/vnd.example.sig")
        prefix.append(manifest_put(repo, dg("sha256", a), a, ctype=MT_OCI_M))
        pool.append(a)
    shape = rng.choice([(2, 2), (3, 2), (2, 2, 1), (2, 1, 1), (3, 3), (2, 2, 2), (1, 1, 1)])
    threads, pushed, artifacts = [], [], []
    if store != "memdir" and rng.random() < 0.4:
        # pushes and deletes of referrers of one shared subject from two clients (read-modify-write of its response)
        pre = []
        for _ in range(2):
            n[0] += 1
            a = mk_image(n[0], subject=subj, at="application/vnd.example.sig")
            prefix.append(manifest_put(repo, dg("sha256", a), a, ctype=MT_OCI_M))
            pre.append(a)
            pool.append(a)
        for t in range(2):
            th = []
            for k2 in range(3):
                n[0] += 1
                if k2 == 1:
                    th.append(manifest_delete(repo, dg("sha256", pre[t])))
                else:
                    a = mk_image(n[0], subject=subj, at="application/vnd.example.sbom")
                    th.append(manifest_put(repo, dg("sha256", a), a, ctype=MT_OCI_M))
                    artifacts.append(a)
            threads.append(th)
        shape = ()
    if store != "memdir" and shape and rng.random() < 0.45:
        # the same new artifact pushed by several clients at once, each reading the referrers of the subject right after its
        # own push was acknowledged
        n[0] += 1
        a = mk_image(n[0], subject=subj, at="application/vnd.example.sig")
        artifacts.append(a)
        for t in range(rng.randrange(2, 4)):
            threads.append([manifest_put(repo, rng.choice([dg("sha256", a), "same"]), a, ctype=MT_OCI_M), referrers(repo, dg("sha256", subj))])
        shape = ()
    if store == "dir" and shape and rng.random() < 0.2:
        # a tag delete next to blob uploads to the same repository, nothing else writing its index; the collection below re-reads it
        n[0] += 1
        m = mk_image(n[0], layers=(layer,))
        prefix.append(manifest_put(repo, "gone", m, ctype=MT_OCI_M))
        pool.append(m)
        d1, d2 = b"late-blob-%d" % n[0], b"late-blob2-%d" % n[0]
        threads.append([manifest_delete(repo, "gone"), upload_post(repo, digest=dg("sha256", d1), body=d1)])
        threads.append([upload_post(repo, digest=dg("sha256", d2), body=d2), tag_list(repo)])
        shape = ()
    for tlen in shape:
        th = []
        for _ in range(tlen):
            r = rng.random()
            n[0] += 1
            if r < 0.25:
                m = mk_image(n[0], layers=(layer,))
                tag = rng.choice(TAGS)
                th.append(manifest_put(repo, tag, m, ctype=MT_OCI_M))
                pushed.append((tag, m))
            elif r < 0.45:
                a = mk_image(n[0], subject=subj, at=rng.choice(["application/vnd.example.sig", "application/vnd.example.sbom"]))
                th.append(manifest_put(repo, rng.choice([dg("sha256", a), "sig%d" % n[0]]), a, ctype=MT_OCI_M))
                artifacts.append(a)
            elif r < 0.55 and pool:
                th.append(manifest_delete(repo, dg("sha256", rng.choice(pool))))
            elif r < 0.62:
                th.append(manifest_delete(repo, rng.choice(TAGS)))
            elif r < 0.70:
                data = b"blob-%d" % n[0]
                th.append(upload_post(rng.choice([repo, other]), digest=dg("sha256", data), body=data))
            elif r < 0.78:
                th.append(tag_list(repo))
            elif r < 0.86:
                th.append(referrers(repo, dg("sha256", subj)))
            elif r < 0.93:
                th.append(manifest_get(repo, rng.choice(TAGS)))
            elif r < 0.97:
                th.append(dict(kind="gc", repo=repo, impl=dict(op="gc", repo=repo), model=sl("gc", sx(repo))))
            else:
                m = mk_image(n[0], layers=(layer,))
                th.append(manifest_put(other, rng.choice(TAGS), m, ctype=MT_OCI_M))
        threads.append(th)
    par = dict(kind="par", impl=dict(op="par", par=[[s["impl"] for s in th] for th in threads]), model="(skip)", threads=threads)
    probes = [tag_list(repo), tag_list(other), referrers(repo, dg("sha256", subj))]
    for t in TAGS + ["base", "gone"]:
        probes.append(manifest_get(repo, t))
        probes.append(manifest_get(other, t))
    seen = set()
    for m in pool + [m for _, m in pushed] + artifacts:
        d = dg("sha256", m)
        if d not in seen:
            seen.add(d)
            probes.append(manifest_get(repo, d))
    # a collection of both repositories when everything is done (young content: it removes nothing, but re-reads the index), then
    # the same reads again
    again = [dict(kind="gc", repo=r_, impl=dict(op="gc", repo=r_), model=sl("gc", sx(r_))) for r_ in (repo, other)] + [dict(x) for x in probes]
    steps = prefix + [par] + probes + again
    contents = {s["body"] for th in threads for s in th if s.get("body")} | {s["body"] for s in prefix if s.get("body")}
    contents |= {cfg, layer, subj}
    return dict(id=cid, conf=conf, steps=steps, contents=sorted(contents), npre=len(prefix), seed=seed, repo=repo, subject=dg("sha256", subj),
                pushed=[(t, dg("sha256", m)) for t, m in pushed], artifacts=[dg("sha256", a) for a in artifacts])


def interleavings(lens, before):
    """all merges of the threads' sequences; [before] = set of ((t1,k1),(t2,k2)) real-time constraints op1 returned before op2 was called"""
    out = []
    capped = []

    def rec(pos, acc):
        if len(out) >= 400:
            capped.append(1)
            return
        if all(p == l for p, l in zip(pos, lens)):
            out.append(list(acc))
            return
        for t in range(len(lens)):
            if pos[t] < lens[t]:
                cand = (t, pos[t])
                # every op that must come before cand is already placed
                if any(b == cand and a[1] >= pos[a[0]] for a, b in before):
                    continue
                pos[t] += 1
                acc.append(cand)
                rec(pos, acc)
                acc.pop()
                pos[t] -= 1
    rec([0] * len(lens), [])
    return out, not capped


def make_cases(ctx, first):
    n = 240 if ctx.tier == "quick" else 6000
    return [gen_case(ctx.rng, first + i, ("mem", "dir", "memdir")[i % 3]) for i in range(n)]


def oracle(ctx, case, io):
    """quiescent state after the concurrent part"""
    k = case["npre"]
    par = io["steps"][k].get("par") or []
    threads = case["steps"][k]["threads"]
    acked_art, deleted = set(), set()
    tagpush = {}
    for th, rs in zip(threads, par):
        for st, r in zip(th, rs):
            if r.get("panic"):
                ctx.violation("handler panicked under concurrency: %s" % r["panic"], dict(case=replayable(case)), "C11:panic")
                return
            if st["kind"] == "mput" and r.get("status") == 201 and st.get("repo") == case["repo"]:
                d = (r.get("headers") or {}).get("Docker-Content-Digest", [""])[0]
                if d in case["artifacts"]:
                    acked_art.add(d)
                if gen.is_tag_py(st["arg"]):
                    tagpush.setdefault(st["arg"], set()).add(d)
            if st["kind"] == "mdel" and r.get("status") == 202:
                deleted.add(st["arg"])
    post = list(zip(case["steps"][k + 1:], io["steps"][k + 1:]))
    any_delete = bool(deleted) or any(st["kind"] in ("mdel", "gc") for th in threads for st in th)
    for st, r in post:
        if st["kind"] == "refs" and st.get("repo") == case["repo"] and r.get("status") == 200 and not any_delete:
            got = {d["digest"] for d in (json.loads(base64.b64decode(r.get("b64") or "")).get("manifests") or [])}
            missing = acked_art - got
            if missing:
                ctx.violation("the referrers list of the shared subject lacks %d acknowledged artifact(s) pushed concurrently: %s" % (len(missing), sorted(x[:19] for x in missing)),
                              dict(case=replayable(case), listed=sorted(got)), "C11:referrer-lost")
                return
        if st["kind"] == "mget" and st.get("repo") == case["repo"] and st["arg"] in tagpush and not any_delete and r.get("status") == 200:
            d = (r.get("headers") or {}).get("Docker-Content-Digest", [""])[0]
            cands = set(tagpush[st["arg"]])
            if d not in cands and st["arg"] not in [t for t, _ in []]:
                # the tag may also still point at what it pointed to before only if no concurrent push to it was acknowledged
                ctx.violation("tag %s resolves to %s, which no client pushed under it concurrently (%s)" % (st["arg"], d[:19], sorted(x[:19] for x in cands)),
                              dict(case=replayable(case)), "C11:tag-foreign")
                return
        if st["kind"] == "mget" and st.get("repo") == case["repo"] and st["arg"] in tagpush and not any_delete and r.get("status") != 200:
            ctx.violation("tag %s pushed concurrently (acknowledged) does not resolve afterwards (%s)" % (st["arg"], r.get("status")), dict(case=replayable(case)), "C11:tag-lost")
            return


def linearize(ctx, cases, iouts, views):
    """search, per case, an interleaving of the threads on which the sequential model answers what the clients were answered"""
    jobs, meta = [], {}
    incomplete = {}       # case id -> the enumeration of interleavings was cut off (no verdict from a failed search)
    for c in cases:
        io = iouts[c["id"]]
        if io.get("fatal"):
            continue
        k = c["npre"]
        threads = c["steps"][k]["threads"]
        par = io["steps"][k].get("par") or []
        if len(par) != len(threads) or any(len(a) != len(b) for a, b in zip(par, threads)):
            continue
        # real-time order from the driver's clock around each handler call
        before = set()
        for t1, rs1 in enumerate(par):
            for k1, r1 in enumerate(rs1):
                for t2, rs2 in enumerate(par):
                    if t1 == t2:
                        continue
                    for k2, r2 in enumerate(rs2):
                        if r1.get("t1") and r2.get("t0") and r1["t1"] < r2["t0"]:
                            before.add(((t1, k1), (t2, k2)))
        orders, complete = interleavings([len(t) for t in threads], before)
        incomplete[c["id"]] = not complete
        for oi, order in enumerate(orders):
            seq = [threads[t][j] for t, j in order]
            jid = len(jobs) + 1
            jobs.append(dict(id=jid, conf=c["conf"], steps=c["steps"][:k] + seq + c["steps"][k + 1:], contents=c["contents"]))
            meta[jid] = (c["id"], order)
    mouts = run_model(ctx, jobs, views, name="lin") if jobs else {}
    byc = {}
    for j in jobs:
        byc.setdefault(meta[j["id"]][0], []).append(j)
    nlin = nfail = norders = 0
    for c in cases:
        js = byc.get(c["id"])
        if not js:
            continue
        io = iouts[c["id"]]
        k = c["npre"]
        threads = c["steps"][k]["threads"]
        par = io["steps"][k]["par"]
        best = None
        ok = False
        relaxed_ok = None
        lag_ok = None
        acked_del = {}
        for t, (th, rs) in enumerate(zip(threads, par)):
            for st, r in zip(th, rs):
                if st["kind"] == "mdel" and r.get("status") == 202:
                    acked_del.setdefault((st.get("repo"), st.get("arg")), []).append(t)
        for j in js:
            order = meta[j["id"]][1]
            mo = mouts[j["id"]]["steps"]
            si, sm = SidMap(), SidMap()
            bad = None
            nm = 0
            # prefix
            for q in range(k):
                if canon_impl(c["steps"][q], io["steps"][q], si) != canon_model(c["steps"][q], mo[q], sm):
                    bad = ("prefix", q)
                    break
            relaxed = False
            lag = False
            if bad is None:
                for pos, (t, jx) in enumerate(order):
                    st = threads[t][jx]
                    if st["kind"] == "gc":
                        nm += 1
                        continue
                    ca, cb = canon_impl(st, par[t][jx], si), canon_model(st, mo[k + pos], sm)
                    if ca != cb:
                        # two overlapping DELETEs of one reference that were both acknowledged (finding C11-F48): the
                        # second one would be answered 404 by any sequential order
                        if (st["kind"] == "mdel" and ca.get("status") == 202 and cb.get("status") == 404
                                and len(acked_del.get((st.get("repo"), st.get("arg")), [])) >= 2):
                            relaxed = True
                            nm += 1
                            continue
                        # a referrers listing read while an artifact of that subject is being pushed / deleted by another client:
                        # the manifest entry and the referrers response are updated in two critical sections (finding C11-F53)
                        if st["kind"] == "refs" and ca.get("status") == 200 and cb.get("status") == 200 and {x: v for x, v in ca.items() if x != "refs"} == {x: v for x, v in cb.items() if x != "refs"}:
                            me = par[t][jx]
                            inflight = set()
                            for t2, (th2, rs2) in enumerate(zip(threads, par)):
                                if t2 == t:
                                    continue
                                for st2, r2 in zip(th2, rs2):
                                    if st2["kind"] in ("mput", "mdel") and st2.get("repo") == st.get("repo") and r2.get("t0") and me.get("t0") and r2["t0"] < me["t1"] and me["t0"] < r2["t1"]:
                                        inflight.add(((r2.get("headers") or {}).get("Docker-Content-Digest") or [st2.get("arg")])[0])
                                        inflight.add(st2.get("arg"))
                            diff = set(ca.get("refs") or []) ^ set(cb.get("refs") or [])
                            # (an artifact whose push - or delete - was already acknowledged to some client before this read
                            #  began is not "in flight" any more: the list must show - or no longer show - it)
                            settled = set()
                            for th2, rs2 in zip(threads, par):
                                for st2, r2 in zip(th2, rs2):
                                    if st2["kind"] in ("mput", "mdel") and r2.get("status") in (201, 202) and r2.get("t1") and me.get("t0") and r2["t1"] < me["t0"]:
                                        dgx = ((r2.get("headers") or {}).get("Docker-Content-Digest") or [st2.get("arg")])[0]
                                        lacks = any(json.loads(x).get("dig") == dgx for x in set(cb.get("refs") or []) - set(ca.get("refs") or []))
                                        extra = any(json.loads(x).get("dig") == dgx for x in set(ca.get("refs") or []) - set(cb.get("refs") or []))
                                        if (st2["kind"] == "mput" and lacks) or (st2["kind"] == "mdel" and extra):
                                            settled.add(dgx)
                            if diff and not settled and all(json.loads(x).get("dig") in inflight for x in diff):
                                lag = True
                                nm += 1
                                continue
                        bad = ("concurrent", pos)
                        break
                    nm += 1
            if bad is None:
                base = k + len(order)
                for q, st in enumerate(c["steps"][k + 1:]):
                    if canon_impl(st, io["steps"][k + 1 + q], si) != canon_model(st, mo[base + q], sm):
                        bad = ("after", q)
                        break
                    nm += 1
            if bad is None and not relaxed and not lag:
                ok = True
                break
            if bad is None and lag:
                lag_ok = order
                continue
            if bad is None and relaxed:
                relaxed_ok = order
                continue
            if best is None or nm > best[0]:
                div = None
                if bad and bad[0] == "concurrent":
                    t_, j_ = order[bad[1]]
                    div = dict(request="%s %s" % (threads[t_][j_]["impl"].get("method", threads[t_][j_]["kind"]), threads[t_][j_]["impl"].get("path", "")),
                               impl=str(canon_impl(threads[t_][j_], par[t_][j_], SidMap()))[:600], model=str(canon_model(threads[t_][j_], mo[k + bad[1]], SidMap()))[:600])
                elif bad and bad[0] == "after":
                    st_ = c["steps"][k + 1 + bad[1]]
                    div = dict(request="%s %s" % (st_["impl"].get("method", st_["kind"]), st_["impl"].get("path", "")),
                               impl=str(canon_impl(st_, io["steps"][k + 1 + bad[1]], SidMap()))[:600], model=str(canon_model(st_, mo[k + len(order) + bad[1]], SidMap()))[:600])
                best = (nm, order, bad, div)
        norders += len(js)
        if ok:
            nlin += 1
        elif lag_ok is not None:
            nlin += 1
            ctx.violation("a referrers listing read while an artifact of that subject was being pushed or deleted shows a state no sequential order produces: the client had already seen "
                          "the effect of that request on the manifest entry / tag (or sees it later) but not on the referrers list - the two are updated in separate critical sections "
                          "(everything else in the history is linearizable)", dict(case=replayable(c), order=lag_ok), "C11:referrers-lag-artifact-push")
        elif relaxed_ok is not None:
            nlin += 1
            dd = [k_ for k_, v in acked_del.items() if len(v) >= 2]
            ctx.violation("two overlapping DELETEs of %s were both answered 202: no sequential order acknowledges the second one (everything else in the history is linearizable)" % (dd[0][1][:19] if dd else "?"),
                          dict(case=replayable(c), order=relaxed_ok), "C11:double-delete-acknowledged")
        elif incomplete.get(c["id"]):
            pass          # more interleavings than the search enumerates: inconclusive, not a violation
        else:
            nfail += 1
            hist = [[dict(thread=t, req="%s %s" % (st["impl"].get("method", st["kind"]), st["impl"].get("path", st.get("repo", ""))), status=r.get("status"),
                          digest=(r.get("headers") or {}).get("Docker-Content-Digest"), t0=r.get("t0"), t1=r.get("t1")) for st, r in zip(th, rs)]
                    for t, (th, rs) in enumerate(zip(threads, par))]
            after = [dict(req="%s %s" % (st["impl"].get("method"), st["impl"].get("path")), status=r.get("status"), digest=(r.get("headers") or {}).get("Docker-Content-Digest"),
                          body=base64.b64decode(r.get("b64") or "")[:300].decode("latin-1")) for st, r in zip(c["steps"][k + 1:], io["steps"][k + 1:])]
            ctx.violation("no sequential order of the %d concurrent requests explains what the clients were answered and what is read afterwards (%d interleavings tried on the extracted model; the closest one diverges at %s)"
                          % (sum(len(t) for t in threads), len(js), best[2] if best else "?"),
                          dict(case=replayable(c), history=hist, reads_afterwards=after, closest_order=best[1] if best else None, divergence=best[3] if best else None,
                               note="linearizability of the real server against the sequential model coq/Reg.v"), "C11:not-linearizable")
    return nlin, nfail, norders


def children_check(ctx):
    """children of a tagged index are pulled by digest by one client while others tag and untag those children and push the
    index again: nobody deletes a manifest, so every pull answers 200 with the pushed bytes (no sequential order answers 404)"""
    import c13
    rng = ctx.rng
    cases = [c13.sc_children(rng, 970000 + i, ("mem", "dir")[i % 2], deletes=False) for i in range(12 if ctx.tier == "quick" else 300)]
    # (the window between a reader's snapshot of the index and its use is a few instructions wide: the run uses the race-detector
    #  build, which reports the unsynchronised access itself - the way a read gets torn - whether or not this schedule tore one)
    import glob
    logp = os.path.join(ctx.work, "children.race")
    for f in glob.glob(logp + ".*"):
        os.remove(f)
    iouts = run_api(ctx, api_binary(ctx, race=True), cases, name="children", workers=4, race_log=logp)
    text = "".join(open(f, errors="replace").read() + "\n" for f in sorted(glob.glob(logp + ".*")))
    seen = {}
    for sig, rep in c13.parse_reports(text):
        seen.setdefault(sig, rep)
    nbad = 0
    for sig, rep in sorted(seen.items()):
        nbad += 1
        ctx.violation("a reader of the repository's index and a concurrent writer touch the same memory without synchronisation (%s): the read can return a state no sequential order produces"
                      % sig, dict(report=rep, workload="children pulled by digest while others tag / untag them and push the index again (-race build)"), "C11:torn-read-race:%s" % sig)
    for c in cases:
        io = iouts[c["id"]]
        for k, (st, r) in enumerate(zip(c["steps"], io["steps"])):
            if st["kind"] != "par":
                continue
            for th, rs in zip(c["threads"], r.get("par") or []):
                for s2, r2 in zip(th, rs):
                    if s2["kind"] == "mget" and r2.get("status") != 200:
                        nbad += 1
                        ctx.violation("GET %s by digest answered %s while other clients only tagged / untagged manifests and pushed the index again: no sequential order of the requests loses the manifest"
                                      % (s2["arg"][:19], r2.get("status")), dict(case=replayable(c), response=str(r2)[:300]), "C11:child-read-torn")
                        break
    return len(cases), nbad


def lag_cases(ctx, first):
    """an artifact push / delete that has to wait for the server's referrers mutex (held on behalf of another client's artifact
    request) between its two updates: reads that arrive meanwhile"""
    rng = ctx.rng
    cases = []
    for i in range(4 if ctx.tier == "quick" else 40):
        store = ("mem", "dir")[i % 2]
        delete = i % 4 >= 2
        repo = rng.choice(["a", "b/c"])
        cfg = b"{}"
        base = image_manifest(desc(MT_CFG, cfg), [], annotations={"lag": "base-%d" % i})
        art = image_manifest(desc(MT_EMPTY, cfg), [], subject={"mediaType": MT_OCI_M, "digest": dg("sha256", base), "size": len(base)},
                             artifact_type="application/vnd.example.sig", annotations={"lag": str(i)})
        pre = [upload_post(repo, digest=dg("sha256", cfg), body=cfg), manifest_put(repo, "base", base, ctype=MT_OCI_M)]
        req = manifest_put(repo, "siglag", art, ctype=MT_OCI_M)
        if delete:
            pre.append(req)
            req = manifest_delete(repo, dg("sha256", art))
        inner = [dict(kind="async", impl=dict(op="async", par=[[req["impl"]]]), model="(skip)"), special("sleep", secs=0.05),
                 tag_list(repo), manifest_get(repo, "siglag"), referrers(repo, dg("sha256", base), None)]
        steps = pre + [dict(kind="reflock", impl=dict(op="reflock", par=[[x["impl"] for x in inner]]), model="(skip)", inner=inner, delete=delete, artifact=dg("sha256", art)),
                       dict(kind="join", impl=dict(op="join", secs=5.0), model="(skip)"),
                       tag_list(repo), referrers(repo, dg("sha256", base), None)]
        for st in steps:
            st["model"] = "(skip)"
        cases.append(dict(id=first + i, conf=mkconf(store=store, withsubj=False), steps=steps))
    return cases


def lag_check(ctx, only=None):
    cases = only or lag_cases(ctx, 950000)
    iouts = run_api(ctx, api_binary(ctx), cases, name="lag")
    n = 0
    for c in cases:
        io = iouts[c["id"]]
        for st, r in zip(c["steps"], io["steps"]):
            if st["kind"] != "reflock":
                continue
            rs = (r.get("par") or [[]])[0]
            if len(rs) < 5:
                continue
            tags = (json.loads(base64.b64decode(rs[2].get("b64") or "") or b"{}").get("tags") or []) if rs[2].get("status") == 200 else []
            byref = rs[3].get("status") == 200
            listed = [d.get("digest") for d in (json.loads(base64.b64decode(rs[4].get("b64") or "") or b"{}").get("manifests") or [])] if rs[4].get("status") == 200 else []
            has = st["artifact"] in listed
            entry = "siglag" in tags or byref
            if entry != has:
                n += 1
                ctx.violation("while an artifact %s waits for the referrers mutex between its two updates, the tag listing / GET by tag %s the artifact but the referrers list of its subject %s it: "
                              "a state no sequential order of the requests produces (the manifest entry and the referrers response are updated in separate critical sections)"
                              % ("delete" if st["delete"] else "push", "shows" if entry else "no longer shows", "lists" if has else "does not list"),
                              dict(case=replayable(c), tags=tags, get_by_tag=rs[3].get("status"), referrers=listed), "C11:referrers-lag-artifact-push")
    return len(cases), n


# ---- reads between any two store actions of one request ------------------------------------------------------------------
def _ans(st, r):
    """what a read answered, canonical"""
    if r.get("panic"):
        return ("panic",)
    status = r.get("status")
    body = base64.b64decode(r.get("b64") or "")
    if st["kind"] == "refs" and status == 200:
        try:
            return (200, tuple(sorted(d.get("digest") for d in (json.loads(body).get("manifests") or []))))
        except Exception:
            return (200, "unparsable")
    if st["kind"] == "tags" and status == 200:
        try:
            return (200, tuple(json.loads(body).get("tags") or []))
        except Exception:
            return (200, "unparsable")
    if st["kind"] in ("mget", "blobget") and status == 200:
        return (200, hashlib.sha256(body).hexdigest()[:16], (r.get("headers") or {}).get("Docker-Content-Digest", [""])[0][:23])
    return (status,)


def hooked_scenarios(rng, i):
    """(name, sequential prefix, the request under test, reads, indexes of the reads that follow the referrers response)"""
    repo = rng.choice(["a", "b/c"])
    cfg, lay = b"{}", b"layer-%d" % i
    base = image_manifest(desc(MT_CFG, cfg), [desc(MT_LAYER, lay)], annotations={"hk": "base-%d" % i})
    sd = {"mediaType": MT_OCI_M, "digest": dg("sha256", base), "size": len(base)}
    art1 = image_manifest(desc(MT_EMPTY, cfg), [], subject=sd, artifact_type="application/vnd.example.sig", annotations={"hk": "1-%d" % i})
    art2 = image_manifest(desc(MT_EMPTY, cfg), [], subject=sd, artifact_type="application/vnd.example.sbom", annotations={"hk": "2-%d" % i})
    other = image_manifest(desc(MT_CFG, cfg), [], annotations={"hk": "other-%d" % i})
    idx = index_manifest([desc(MT_OCI_M, base), desc(MT_OCI_M, other)], annotations={"hk": "idx-%d" % i})
    pre = [upload_post(repo, digest=dg("sha256", cfg), body=cfg), upload_post(repo, digest=dg("sha256", lay), body=lay),
           manifest_put(repo, "base", base, ctype=MT_OCI_M), manifest_put(repo, dg("sha256", art1), art1, ctype=MT_OCI_M),
           manifest_put(repo, "other", other, ctype=MT_OCI_M)]
    reads = [referrers(repo, dg("sha256", base), None), tag_list(repo), manifest_get(repo, "base"), manifest_get(repo, "other"), manifest_get(repo, "moved"),
             manifest_get(repo, "sig2"), manifest_get(repo, dg("sha256", art1)), manifest_get(repo, dg("sha256", art2)), manifest_get(repo, dg("sha256", idx)),
             manifest_get(repo, dg("sha256", base)), blob_get(repo, dg("sha256", lay)), blob_get(repo, dg("sha256", b"late-blob-%d" % i)),
             referrers(repo, dg("sha256", base), "application/vnd.example.sig")]
    refs_ix = [0, 12]
    late = b"late-blob-%d" % i
    out = [("artifact-push", pre, manifest_put(repo, "sig2", art2, ctype=MT_OCI_M)),
           ("artifact-delete", pre + [manifest_put(repo, "sig2", art2, ctype=MT_OCI_M)], manifest_delete(repo, dg("sha256", art2))),
           ("artifact-delete-first", pre + [manifest_put(repo, "sig2", art2, ctype=MT_OCI_M)], manifest_delete(repo, dg("sha256", art1))),
           ("tag-move", pre + [manifest_put(repo, "moved", base, ctype=MT_OCI_M)], manifest_put(repo, "moved", other, ctype=MT_OCI_M)),
           ("tag-delete", pre + [manifest_put(repo, "moved", base, ctype=MT_OCI_M)], manifest_delete(repo, "moved")),
           ("index-push", pre, manifest_put(repo, "moved", idx, ctype=MT_OCI_I)),
           ("digest-delete", pre, manifest_delete(repo, dg("sha256", other))),
           ("blob-push", pre, upload_post(repo, digest=dg("sha256", late), body=late))]
    return [(n_, p_, r_, reads, refs_ix) for n_, p_, r_ in out]


def hooked_check(ctx):
    """every request of the list runs once per store action it performs, standing still before that action while another client
    reads everything around it: the reads must be those of the state before the request or of the state after it - or, for an
    artifact push / delete, of the state between its two critical sections (finding F53), which shows the artifact's own entry
    without / with its line in the referrers list and nothing else out of place"""
    rng = ctx.rng
    binp = api_binary(ctx)
    rounds = 1 if ctx.tier == "quick" else 6
    scen = []
    for i in range(rounds):
        for store in ("mem", "dir"):
            for sc in hooked_scenarios(rng, i):
                scen.append((store,) + sc)

    def mk(cid, store, pre, req, reads, at):
        hk = dict(req, kind="hooked", inner=req["kind"], model="(skip)", impl=dict(req["impl"], op="hooked", n=at, mid=[x["impl"] for x in reads]))
        steps = [dict(x) for x in pre] + [dict(x, phase="pre") for x in reads] + [hk] + [dict(x, phase="post") for x in reads]
        for st in steps:
            st["model"] = "(skip)"
        return dict(id=cid, conf=mkconf(store=store, withsubj=False), steps=steps)
    # first pass: which store actions does the request perform
    first = [mk(960000 + j, store, pre, req, reads, 0) for j, (store, name, pre, req, reads, refs_ix) in enumerate(scen)]
    io1 = run_api(ctx, binp, first, name="hooked0")
    second, meta = [], {}
    for j, (c, sc) in enumerate(zip(first, scen)):
        hk = [r for st, r in zip(c["steps"], io1[c["id"]]["steps"]) if st["kind"] == "hooked"][0]
        acts = hk.get("names") or []
        for at in range(1, len(acts) + 1):
            cid = 970000 + len(second)
            second.append(mk(cid, sc[0], sc[2], sc[3], sc[4], at))
            meta[cid] = (sc, at, acts)
    io2 = run_api(ctx, binp, second, name="hooked1")
    nbad = nlag = 0
    for c in second:
        (store, name, pre, req, reads, refs_ix), at, acts = meta[c["id"]]
        io = io2[c["id"]]["steps"]
        pre_a = [_ans(st, r) for st, r in zip(c["steps"], io) if st.get("phase") == "pre"]
        post_a = [_ans(st, r) for st, r in zip(c["steps"], io) if st.get("phase") == "post"]
        hk = [r for st, r in zip(c["steps"], io) if st["kind"] == "hooked"][0]
        mid = (hk.get("par") or [[]])[0]
        if len(mid) != len(reads):
            continue          # the request took another path this time (fewer actions): nothing was read
        mid_a = [_ans(st, r) for st, r in zip(reads, mid)]
        if mid_a == pre_a or mid_a == post_a:
            continue
        # between the two critical sections of an artifact push / delete: everything but the referrers lists as after, the lists as before
        # (a push updates the entry first, a delete the referrers response first)
        lag = [pre_a[k] if k in refs_ix else post_a[k] for k in range(len(reads))]
        lag2 = [post_a[k] if k in refs_ix else pre_a[k] for k in range(len(reads))]
        diff = [(reads[k]["impl"]["path"] + ("?" + reads[k]["impl"]["query"] if reads[k]["impl"].get("query") else ""), pre_a[k], mid_a[k], post_a[k])
                for k in range(len(reads)) if mid_a[k] != pre_a[k] or mid_a[k] != post_a[k]]
        rep = dict(case=replayable(c), scenario=name, store=store, before_action=acts[at - 1], actions=acts, reads=[dict(read=d[0], before=str(d[1]), during=str(d[2]), after=str(d[3])) for d in diff])
        if name.startswith("artifact") and mid_a in (lag, lag2):
            nlag += 1
            ctx.violation("%s on the %s store standing before its store action %d (%s): the reads of another client show the artifact's own entry %s while the referrers list of its subject %s it: "
                          "a state no sequential order of the requests produces (the manifest entry and the referrers response are updated in separate critical sections)"
                          % (name, store, at, acts[at - 1], ("already there" if "push" in name else "gone") if mid_a == lag else "as before the request",
                             ("does not list yet" if "push" in name else "still lists") if mid_a == lag else ("already lists" if "push" in name else "no longer lists")), rep, "C11:referrers-lag-artifact-push")
            continue
        nbad += 1
        what = "; ".join("%s answered %s (before the request %s, after it %s)" % (d[0], d[2], d[1], d[3]) for d in diff if d[2] != d[1] and d[2] != d[3])[:600] or \
               "a mix of the answers before and after the request: " + "; ".join("%s %s" % (d[0], "as after" if d[2] == d[3] else "as before") for d in diff)[:600]
        ctx.violation("%s on the %s store standing before its store action %d (%s): another client reads a state that is neither the one before the request nor the one after it: %s"
                      % (name, store, at, acts[at - 1], what), rep, "C11:intermediate-state-%s" % name)
    return len(second), nbad, nlag


def hooked_pairs_check(ctx, only=None, pid="C11"):
    """two requests that update the same thing: the first stands still before each of its store actions while the second is sent
    (it runs to its end, or waits for a lock the first one holds and finishes afterwards); what can be read when both are done is
    what one of the two sequential orders leaves"""
    rng = ctx.rng
    binp = api_binary(ctx)
    cases, meta = [], {}
    r1k, r2s = {}, {}
    rounds = 1 if ctx.tier == "quick" else 5
    for rnd in range(rounds):
        for store in ("mem", "dir"):
            repo = rng.choice(["a", "b/c"])
            cfg = b"{}"
            base = image_manifest(desc(MT_CFG, cfg), [], annotations={"hp": "base-%d" % rnd})
            sd = {"mediaType": MT_OCI_M, "digest": dg("sha256", base), "size": len(base)}
            arts = [image_manifest(desc(MT_EMPTY, cfg), [], subject=sd, artifact_type="application/vnd.example.t%d" % j, annotations={"hp": "%d-%d" % (j, rnd)}) for j in range(3)]
            other = image_manifest(desc(MT_CFG, cfg), [], annotations={"hp": "other-%d" % rnd})
            pre = [upload_post(repo, digest=dg("sha256", cfg), body=cfg), manifest_put(repo, "base", base, ctype=MT_OCI_M),
                   manifest_put(repo, dg("sha256", arts[0]), arts[0], ctype=MT_OCI_M), manifest_put(repo, "other", other, ctype=MT_OCI_M)]
            reads = [referrers(repo, dg("sha256", base), None), tag_list(repo), manifest_get(repo, "base"), manifest_get(repo, "moved"), manifest_get(repo, "other")] + \
                    [manifest_get(repo, dg("sha256", a)) for a in arts]
            pairs = [("delete-artifact/push-artifact", manifest_delete(repo, dg("sha256", arts[0])), manifest_put(repo, dg("sha256", arts[1]), arts[1], ctype=MT_OCI_M)),
                     ("push-artifact/push-artifact", manifest_put(repo, dg("sha256", arts[1]), arts[1], ctype=MT_OCI_M), manifest_put(repo, dg("sha256", arts[2]), arts[2], ctype=MT_OCI_M)),
                     ("push-artifact/delete-artifact", manifest_put(repo, dg("sha256", arts[1]), arts[1], ctype=MT_OCI_M), manifest_delete(repo, dg("sha256", arts[0]))),
                     ("move-tag/move-tag", manifest_put(repo, "moved", base, ctype=MT_OCI_M), manifest_put(repo, "moved", other, ctype=MT_OCI_M)),
                     ("delete-tag/push-tag", manifest_delete(repo, "other"), manifest_put(repo, "moved", other, ctype=MT_OCI_M)),
                     ("push-stored-bytes-under-a-new-tag/delete-by-digest", manifest_put(repo, "moved", base, ctype=MT_OCI_M), manifest_delete(repo, dg("sha256", base))),
                     ("delete-by-digest/push-stored-bytes-under-a-new-tag", manifest_delete(repo, dg("sha256", other)), manifest_put(repo, "moved", other, ctype=MT_OCI_M))]
            a2 = manifest_put(repo, dg("sha256", arts[2]), arts[2], ctype=MT_OCI_M)
            pairs = [(nm, [], x, y) for nm, x, y in pairs] + [
                # a read standing still while an update runs to its end: it answers what was there before or after, nothing else
                ("list-referrers/delete-sibling-artifact", [a2], referrers(repo, dg("sha256", base), None), manifest_delete(repo, dg("sha256", arts[0]))),
                ("list-referrers/push-artifact", [a2], referrers(repo, dg("sha256", base), None), manifest_put(repo, dg("sha256", arts[1]), arts[1], ctype=MT_OCI_M)),
                ("pull-by-tag/move-tag", [], manifest_get(repo, "other"), manifest_put(repo, "other", base, ctype=MT_OCI_M)),
                ("pull-by-tag/delete-tag", [], manifest_get(repo, "other"), manifest_delete(repo, "other")),
                ("pull-by-digest/delete-by-digest", [], manifest_get(repo, dg("sha256", other)), manifest_delete(repo, dg("sha256", other))),
                ("list-tags/delete-tag", [], tag_list(repo), manifest_delete(repo, "other"))]
            pre0 = pre
            if only is not None:
                pairs = [p_ for p_ in pairs if p_[0] in only]
            for name, morepre, r1, r2 in pairs:
                pre = pre0 + morepre
                r1, r2 = dict(r1, phase="post", role=1), dict(r2, phase="post", role=2)
                def mk(steps):
                    steps = [dict(x) for x in steps]
                    for st in steps:
                        st["model"] = "(skip)"
                    cid = 990000 + len(cases)
                    cases.append(dict(id=cid, conf=mkconf(store=store, withsubj=False), steps=steps))
                    return cid
                ref12 = mk(pre + [r1, r2] + [dict(x, phase="post") for x in reads])
                ref21 = mk(pre + [r2, r1] + [dict(x, phase="post") for x in reads])
                for at in range(1, 15):
                    mids = [dict(kind="async", impl=dict(op="async", par=[[r2["impl"]]]), model="(skip)"), special("sleep", secs=0.1)]
                    hk = dict(r1, kind="hooked", model="(skip)", impl=dict(r1["impl"], op="hooked", n=at, mid=[x["impl"] for x in mids]))
                    cid = mk(pre + [hk, dict(kind="join", impl=dict(op="join", secs=5.0), model="(skip)")] + [dict(x, phase="post") for x in reads])
                    meta[cid] = (store, name, at, ref12, ref21, [r1, r2] + reads)
                    r1k[cid], r2s[cid] = r1["kind"], r2
    iouts = run_api(ctx, binp, cases, name="pairs")
    byid = {c["id"]: c for c in cases}
    def post(cid):
        """the answers to the two requests, then to the reads after them"""
        out = {}
        rest = []
        for st, r in zip(byid[cid]["steps"], iouts[cid]["steps"]):
            if st.get("phase") != "post":
                if st["kind"] == "join":
                    second = ((r.get("par") or [[]])[0] or [{}])[0]
                    out[2] = _ans(r2s[cid], second)
                continue
            if st.get("role") == 1:
                out[1] = _ans(dict(st, kind=r1k[cid]) if cid in r1k else st, r)
            elif st.get("role") == 2:
                out[2] = _ans(st, r)
            else:
                rest.append(_ans(st, r))
        return [out.get(1), out.get(2)] + rest
    n = nbad = 0
    for cid, (store, name, at, ref12, ref21, reads) in sorted(meta.items()):
        io = iouts[cid]["steps"]
        hk = [r for st, r in zip(byid[cid]["steps"], io) if st["kind"] == "hooked"][0]
        acts = hk.get("names") or []
        if at > len(acts):
            continue
        n += 1
        got, a12, a21 = post(cid), post(ref12), post(ref21)
        if got != a12 and got != a21:
            nbad += 1
            diff = [(reads[k]["impl"]["path"], got[k], a12[k], a21[k]) for k in range(len(reads)) if got[k] != a12[k] or got[k] != a21[k]]
            ctx.violation("%s on the %s store, the first request standing before its store action %d (%s) while the second is sent: when both are done %s"
                          % (name, store, at, acts[at - 1], "; ".join("%s answers %s (first-then-second %s, second-then-first %s)" % d for d in diff)[:700]),
                          dict(case=replayable(byid[cid]), scenario=name, before_action=acts[at - 1], actions=acts), "%s:pair-%s" % (pid, name.replace("/", "-vs-")))
    return n, nbad


def evicted_update_check(ctx):
    """an artifact push whose referrers update fails - its upload session for the new response is evicted by another client's
    upload (one session allowed per repository) while the push stands before one of its store actions - next to a second client that
    tags the same artifact: whatever the first push is answered, what the second client was acknowledged (201) is there at the end"""
    rng = ctx.rng
    binp = api_binary(ctx)
    cases, meta = [], {}
    for store in ("mem", "dir"):
        for rnd in range(1 if ctx.tier == "quick" else 4):
            repo = rng.choice(["a", "b/c"])
            cfg = b"{}"
            base = image_manifest(desc(MT_CFG, cfg), [], annotations={"ev": "base-%d" % rnd})
            sd = {"mediaType": MT_OCI_M, "digest": dg("sha256", base), "size": len(base)}
            art = image_manifest(desc(MT_EMPTY, cfg), [], subject=sd, artifact_type="application/vnd.example.sig", annotations={"ev": str(rnd)})
            pre = [upload_post(repo, digest=dg("sha256", cfg), body=cfg), manifest_put(repo, "v1", base, ctype=MT_OCI_M)]
            r1 = manifest_put(repo, dg("sha256", art), art, ctype=MT_OCI_M)
            r2 = manifest_put(repo, "sig", art, ctype=MT_OCI_M)
            for at in range(1, 20):
                mids = [dict(kind="async", impl=dict(op="async", par=[[r2["impl"]]]), model="(skip)"), special("sleep", secs=0.08), upload_post(repo), special("sleep", secs=0.08)]
                hk = dict(r1, kind="hooked", model="(skip)", impl=dict(r1["impl"], op="hooked", n=at, mid=[x["impl"] for x in mids]))
                steps = [dict(x) for x in pre] + [hk, dict(kind="join", impl=dict(op="join", secs=5.0), model="(skip)"),
                                                  manifest_get(repo, "sig"), manifest_get(repo, dg("sha256", art)), tag_list(repo), referrers(repo, dg("sha256", base), None)]
                for st in steps:
                    st["model"] = "(skip)"
                cid = 995000 + len(cases)
                cases.append(dict(id=cid, conf=mkconf(store=store, withsubj=False, uploadmax=1), steps=steps))
                meta[cid] = (store, at, dg("sha256", art))
    iouts = run_api(ctx, binp, cases, name="evict")
    n = nbad = 0
    for c in cases:
        store, at, dart = meta[c["id"]]
        io = iouts[c["id"]]["steps"]
        hk = [r for st, r in zip(c["steps"], io) if st["kind"] == "hooked"][0]
        acts = hk.get("names") or []
        if at > len(acts):
            continue
        n += 1
        jn = [r for st, r in zip(c["steps"], io) if st["kind"] == "join"][0]
        second = ((jn.get("par") or [[]])[0] or [{}])[0]
        if second.get("status") != 201:
            continue
        got_tag, got_dig, got_tags, got_refs = io[-4], io[-3], io[-2], io[-1]
        listed = _ans(c["steps"][-1], got_refs)
        if got_tag.get("status") != 200 or got_dig.get("status") != 200 or dart not in (listed[1] if len(listed) > 1 and isinstance(listed[1], tuple) else ()):
            nbad += 1
            ctx.violation("%s store: the push of tag sig was acknowledged (201) while another push of the same artifact, standing before its store action %d (%s), failed with %s (its session for the referrers response was evicted): "
                          "afterwards GET sig -> %s, GET by digest -> %s, the subject's referrers %s" % (store, at, acts[at - 1], hk.get("status"), got_tag.get("status"), got_dig.get("status"), listed),
                          dict(case=replayable(c), actions=acts, before_action=acts[at - 1]), "C11:acknowledged-tag-lost-to-failed-push")
    return n, nbad


def pull_vs_collection_check(ctx):
    """a pull by tag standing before each of its store actions while the tag is moved to another manifest and a collection (untagged
    manifests are garbage, no grace period) is started: the pull answers with the old or the new manifest, never 404 - the
    collection has to wait for the pull, or the pull must not need what the collection takes"""
    rng = ctx.rng
    binp = api_binary(ctx)
    cases, meta = [], {}
    for store in ("mem", "dir"):
        for variant in range(2 if ctx.tier == "quick" else 8):
            repo = rng.choice(["a", "b/c"])
            cfg = b"{}"
            m1 = image_manifest(desc(MT_CFG, cfg), [], annotations={"pv": "one-%d" % variant})
            m2 = image_manifest(desc(MT_CFG, cfg), [], annotations={"pv": "two-%d" % variant})
            pre = [upload_post(repo, digest=dg("sha256", cfg), body=cfg), manifest_put(repo, "latest", m1, ctype=MT_OCI_M), manifest_put(repo, "keep", m2, ctype=MT_OCI_M)]
            pull = manifest_get(repo, "latest", head=bool(variant & 1))
            mids = [manifest_put(repo, "latest", m2, ctype=MT_OCI_M), dict(kind="async", impl=dict(op="async", par=[[gcgen.gc_step(repo)["impl"]]]), model="(skip)"),
                    special("sleep", secs=0.12)]
            for at in range(1, 7):
                hk = dict(pull, kind="hooked", model="(skip)", impl=dict(pull["impl"], op="hooked", n=at, mid=[x["impl"] for x in mids]))
                steps = [dict(x) for x in pre] + [hk, dict(kind="join", impl=dict(op="join", secs=5.0), model="(skip)"), manifest_get(repo, "latest")]
                for st in steps:
                    st["model"] = "(skip)"
                cid = 980000 + len(cases)
                cases.append(dict(id=cid, conf=mkconf(store=store, withsubj=False, untagged=True, grace_ms=-1), steps=steps))
                meta[cid] = (store, at, dg("sha256", m1), dg("sha256", m2))
    iouts = run_api(ctx, binp, cases, name="pullgc")
    nbad = 0
    for c in cases:
        store, at, d1, d2 = meta[c["id"]]
        io = iouts[c["id"]]["steps"]
        hk = [r for st, r in zip(c["steps"], io) if st["kind"] == "hooked"][0]
        acts = hk.get("names") or []
        if at > len(acts) or hk.get("panic"):
            continue
        got = (hk.get("headers") or {}).get("Docker-Content-Digest", [""])[0]
        if hk.get("status") != 200 or got not in (d1, d2):
            nbad += 1
            ctx.violation("a pull of tag latest on the %s store, standing before its store action %d (%s) while the tag is moved and a collection starts, is answered %s %s: the tag named a manifest at every moment"
                          % (store, at, acts[at - 1], hk.get("status"), got[:19]), dict(case=replayable(c), actions=acts, before_action=acts[at - 1]), "C11:pull-lost-to-collection")
    return len(cases), nbad


def run(ctx):
    res = {}
    if ctx.replay:
        r = json.load(open(ctx.replay))
        c = unreplay(r.get("replay", r).get("case", r.get("replay", r)))
        if any(st["kind"] == "reflock" for st in c["steps"]):
            c["id"] = 1
            ctx.coq_build()
            lag_check(ctx, [c])
            return

    def extra(cases, iouts):
        res["lag"] = lag_check(ctx)
        # a listing that spans several requests while a referrer is deleted (shared with C07)
        import c07
        res["paged"] = c07.paged_delete_check(ctx)
        res["children"] = children_check(ctx)
        res["hooked"] = hooked_check(ctx)
        res["pullgc"] = pull_vs_collection_check(ctx)
        res["pairs"] = hooked_pairs_check(ctx)
        res["evict"] = evicted_update_check(ctx)
        bodies = set()
        for c in cases:
            bodies |= set(c["contents"])
        views = get_views(ctx, api_binary(ctx), bodies)
        res["lin"] = linearize(ctx, cases, iouts, views)

    apicheck.run(ctx, "C11", make_cases, oracle, extra=extra, model=False,
                 assumptions=["histories: a sequential prefix, then 2-3 client threads with 1-3 requests each on the same server (manifest pushes incl. the same tag from several threads, artifact pushes and deletes on one shared subject, tag and digest deletes, blob uploads, listings, a collection), then reads of everything involved",
                              "linearization points are searched among the interleavings that respect each thread's order and the real-time order measured around the handler calls (at most 400 per history)",
                              "the scheduler decides the actual interleaving: each history is one sample of it; the thorough tier repeats each shape many times"])
    if res:
        nlin, nfail, norders = res["lin"]
        ctx.coverage.update(dict(histories_linearized=nlin, histories_not_linearizable=nfail, interleavings_run_on_model=norders))
        ctx.coverage["correspondence_mismatches"] = ctx.coverage.get("correspondence_mismatches", 0) + nfail
        ctx.coverage["referrers_mutex_schedules"], ctx.coverage["referrers_lag_observed"] = res.get("lag", (0, 0))
        ctx.coverage["paged_listings_across_a_delete"], ctx.coverage["paged_listings_incomplete"] = res.get("paged", (0, 0))
        ctx.coverage["children_pulled_during_index_updates"], ctx.coverage["children_reads_torn"] = res.get("children", (0, 0))
        ctx.coverage["pushes_failed_by_eviction_next_to_a_tag_push"], ctx.coverage["acknowledged_tags_lost"] = res.get("evict", (0, 0))
        ctx.coverage["request_pairs_with_one_paused_at_each_store_action"], ctx.coverage["pairs_not_serializable"] = res.get("pairs", (0, 0))
        ctx.coverage["pulls_paused_during_tag_move_and_collection"], ctx.coverage["pulls_lost"] = res.get("pullgc", (0, 0))
        ctx.coverage["requests_paused_before_each_store_action"], ctx.coverage["intermediate_states_observed"], ctx.coverage["referrers_lag_states_observed"] = res.get("hooked", (0, 0, 0))
